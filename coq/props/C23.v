(* C23 — Saved state checkpoints are lossless.
   Property theorems only; each is closed by [exact] of a lemma from
   proof/C23_codec.v / proof/C23_fields.v and followed by Print Assumptions.

   Reading guide.  [encs c x wire] is the relation "the Go Serialize may write
   [wire] for the value [x]" (a relation because Go iterates maps in an
   unspecified order); [dec c] is the Go Deserialize; [wf c x] says the counts
   and lengths of x fit their prefixes, byte strings respect the limit the
   decoder enforces, and maps are given in canonical (strictly key-sorted)
   form.  Values list the fields of the Go struct in wire order. *)
From Coq Require Import List NArith Bool Permutation.
From Coq Require Import String.
From ELA Require Import lib.Bytes lib.C23_codec model.C23_KeyFrame proof.C23_codec.
From ELA Require Import lib.C23_codec2 model.C23_Checkpoints proof.C23_checkpoints.
From ELA Require Import model.C23_Fields gen.C23_fields proof.C23_fields.
Import ListNotations.
Local Open Scope N_scope.

(* ---- program level, re-proved on every run against the table the translator
   regenerates from the Go source (gen/C23_fields.v: 32 structs of dpos/state,
   cr/state, mempool, wallet and the payload structs they embed) *)

(* Every field of every checkpoint / key-frame struct is touched by both
   Serialize and Deserialize of its struct, or is on the allow-list of
   deliberately unpersisted fields (model/C23_Fields.v, reasons given there),
   or is the recorded txpool defect.  A field added to a struct and forgotten
   in either method makes this fail. *)
Theorem C23_all_fields_covered :
  forall f, In f table ->
    (f_ser f = true /\ f_deser f = true) \/
    In (f_struct f, f_name f) (map fst allow_list) \/
    In (f_struct f, f_name f) known_gaps.
Proof. exact gen_all_fields_covered. Qed.
Print Assumptions C23_all_fields_covered.

(* the full statement (without the known gap) is false of the current source:
   txPoolCheckpoint.txnList is serialized and never deserialized *)
Theorem C23_all_fields_covered_refuted :
  exists f, In f table /\ f_struct f = "mempool.txPoolCheckpoint"%string /\ f_name f = "txnList"%string /\
            f_ser f = true /\ f_deser f = false /\ covered f = false.
Proof. exact gen_txnlist_refuted. Qed.
Print Assumptions C23_all_fields_covered_refuted.

(* Serialize and Deserialize handle the fields in the same order *)
Theorem C23_wire_order_agrees : forallb order_ok orders = true.
Proof. exact gen_orders_agree. Qed.
Print Assumptions C23_wire_order_agrees.

(* the table is not vacuous: every anchor struct is present with persisted
   fields; the oracle's skip list is inside the allow-list; every allow-list
   entry names an existing, really unpersisted field *)
Theorem C23_table_anchored :
  forallb (anchor_present table) anchors = true /\
  forallb (fun p => mem p (map fst allow_list)) oracle_skip = true /\
  forallb (fun p => existsb (fun f => pair_eqb (key f) p && negb (persisted f)) table)
          (map fst allow_list ++ known_gaps) = true.
Proof. exact (conj gen_anchors_present (conj gen_oracle_skip_allowed gen_allow_list_exact)). Qed.
Print Assumptions C23_table_anchored.

(* ---- decode (encode x) = x, for every iteration order of every map *)

Theorem C23_dpos_state_key_frame_lossless : forall x wire rest,
  wf dpos_state_key_frame x -> encs dpos_state_key_frame x wire ->
  dec dpos_state_key_frame (wire ++ rest) = Some (x, rest).
Proof. exact (roundtrip_any_order dpos_state_key_frame dpos_state_key_frame_ok). Qed.
Print Assumptions C23_dpos_state_key_frame_lossless.

Theorem C23_dpos_producer_lossless : forall x wire rest,
  wf producer x -> encs producer x wire -> dec producer (wire ++ rest) = Some (x, rest).
Proof. exact (roundtrip_any_order producer producer_ok). Qed.
Print Assumptions C23_dpos_producer_lossless.

Theorem C23_dpos_reward_data_lossless : forall x wire rest,
  wf reward_data x -> encs reward_data x wire -> dec reward_data (wire ++ rest) = Some (x, rest).
Proof. exact (roundtrip_any_order reward_data reward_data_ok). Qed.
Print Assumptions C23_dpos_reward_data_lossless.

Theorem C23_cr_key_frame_lossless : forall x wire rest,
  wf cr_key_frame x -> encs cr_key_frame x wire ->
  dec cr_key_frame (wire ++ rest) = Some (x, rest).
Proof. exact (roundtrip_any_order cr_key_frame cr_key_frame_ok). Qed.
Print Assumptions C23_cr_key_frame_lossless.

Theorem C23_cr_member_lossless : forall x wire rest,
  wf cr_member x -> encs cr_member x wire -> dec cr_member (wire ++ rest) = Some (x, rest).
Proof. exact (roundtrip_any_order cr_member cr_member_ok). Qed.
Print Assumptions C23_cr_member_lossless.

Theorem C23_cr_state_key_frame_lossless : forall x wire rest,
  wf cr_state_key_frame x -> encs cr_state_key_frame x wire ->
  dec cr_state_key_frame (wire ++ rest) = Some (x, rest).
Proof. exact (roundtrip_any_order cr_state_key_frame cr_state_key_frame_ok). Qed.
Print Assumptions C23_cr_state_key_frame_lossless.

(* the canonical encoding (maps written in key order) is one of the allowed
   encodings, so the statements above are not vacuous in [encs] *)
Theorem C23_canonical_encoding_decodes : forall x,
  wf dpos_state_key_frame x -> dec dpos_state_key_frame (enc dpos_state_key_frame x) = Some (x, []).
Proof. exact (roundtrip_canonical dpos_state_key_frame dpos_state_key_frame_ok). Qed.
Print Assumptions C23_canonical_encoding_decodes.

(* no two different key frames share an encoding: no field is lost *)
Theorem C23_dpos_state_key_frame_injective : forall x y wire,
  wf dpos_state_key_frame x -> wf dpos_state_key_frame y ->
  encs dpos_state_key_frame x wire -> encs dpos_state_key_frame y wire -> x = y.
Proof. exact (encs_injective dpos_state_key_frame dpos_state_key_frame_ok). Qed.
Print Assumptions C23_dpos_state_key_frame_injective.

Theorem C23_cr_key_frame_injective : forall x y wire,
  wf cr_key_frame x -> wf cr_key_frame y ->
  encs cr_key_frame x wire -> encs cr_key_frame y wire -> x = y.
Proof. exact (encs_injective cr_key_frame cr_key_frame_ok). Qed.
Print Assumptions C23_cr_key_frame_injective.

(* ---- Go map iteration order: the BYTES of a key frame are not canonical
   (the same map has two different encodings) ... *)
Theorem C23_map_bytes_not_canonical :
  exists b1 b2, encs (smap u64) two_entries b1 /\ encs (smap u64) two_entries b2 /\ b1 <> b2 /\
                dec (smap u64) b1 = Some (two_entries, []) /\ dec (smap u64) b2 = Some (two_entries, []).
Proof. exact map_bytes_not_canonical. Qed.
Print Assumptions C23_map_bytes_not_canonical.

(* ... while the decoded VALUE does not depend on the order the entries were
   written in: for every key order, key codec and value codec, every map m
   and any two orderings l1, l2 of its entries *)
Theorem C23_decode_order_insensitive :
  forall (K V : Type) (o : ord K) (ck : codec K) (cv : codec V),
  codec_ok ck -> codec_ok cv ->
  forall m l1 l2 rest,
  wf (c_map o ck cv) m -> Permutation l1 m -> Permutation l2 m ->
  dec (c_map o ck cv) (enc (c_list (c_pair ck cv)) l1 ++ rest) =
  dec (c_map o ck cv) (enc (c_list (c_pair ck cv)) l2 ++ rest).
Proof. exact (@decode_order_insensitive). Qed.
Print Assumptions C23_decode_order_insensitive.

(* ---- history clause (the part that follows from the codec theorem): for
   EVERY block-processing function over the key-frame state, a node restored
   from the checkpoint written after blocks b1 and then fed b2 reaches the
   state of a node that processed b1 ++ b2 without restarting *)
Theorem C23_dpos_restore_then_continue :
  forall (B : Type) (step : _ -> B -> _) s0 b1 b2 wire,
  wf dpos_state_key_frame (run step s0 b1) -> encs dpos_state_key_frame (run step s0 b1) wire ->
  option_map (fun s => run step s b2) (restore dpos_state_key_frame wire) = Some (run step s0 (b1 ++ b2)).
Proof. exact (@restore_then_continue _ dpos_state_key_frame dpos_state_key_frame_ok). Qed.
Print Assumptions C23_dpos_restore_then_continue.

Theorem C23_cr_restore_then_continue :
  forall (B : Type) (step : _ -> B -> _) s0 b1 b2 wire,
  wf cr_key_frame (run step s0 b1) -> encs cr_key_frame (run step s0 b1) wire ->
  option_map (fun s => run step s b2) (restore cr_key_frame wire) = Some (run step s0 (b1 ++ b2)).
Proof. exact (@restore_then_continue _ cr_key_frame cr_key_frame_ok). Qed.
Print Assumptions C23_cr_restore_then_continue.

(* Non-vacuity: a concrete key frame with a pending producer (nested vote
   maps), withdrawable entries and non-zero scalars satisfies [wf]; its
   canonical encoding has more than 300 bytes and decodes to it. *)
Example C23_nonvacuous :
  wf dpos_state_key_frame ex_skf /\
  dec dpos_state_key_frame (enc dpos_state_key_frame ex_skf) = Some (ex_skf, []) /\
  (300 <? N.of_nat (List.length (enc dpos_state_key_frame ex_skf))) = true.
Proof. exact (conj ex_skf_wf ex_skf_roundtrip). Qed.

(* ======================================================================
   Checkpoint envelopes (model/C23_Checkpoints.v) *)

(* dpos/state.CheckPoint: all 23 serialized fields, the five ArbiterMember
   lists and three ArbiterMember maps (origin / dpos / crc arbiters behind
   their type byte), rewards, the key frame *)
Theorem C23_dpos_checkpoint_lossless : forall x wire rest,
  wf dpos_checkpoint x -> encs dpos_checkpoint x wire ->
  dec dpos_checkpoint (wire ++ rest) = Some (x, rest).
Proof. exact (roundtrip_any_order dpos_checkpoint dpos_checkpoint_ok). Qed.
Print Assumptions C23_dpos_checkpoint_lossless.

Theorem C23_dpos_arbiter_lossless : forall x wire rest,
  wf arbiter x -> encs arbiter x wire -> dec arbiter (wire ++ rest) = Some (x, rest).
Proof. exact (roundtrip_any_order arbiter arbiter_ok). Qed.
Print Assumptions C23_dpos_arbiter_lossless.

(* cr/state: ProposalState (with payload.CRCProposalInfo), ProposalKeyFrame,
   and the whole Checkpoint (Height, KeyFrame, StateKeyFrame, ProposalKeyFrame) *)
Theorem C23_cr_proposal_state_lossless : forall x wire rest,
  wf proposal_state x -> encs proposal_state x wire -> dec proposal_state (wire ++ rest) = Some (x, rest).
Proof. exact (roundtrip_any_order proposal_state proposal_state_ok). Qed.
Print Assumptions C23_cr_proposal_state_lossless.

Theorem C23_cr_proposal_key_frame_lossless : forall x wire rest,
  wf proposal_key_frame x -> encs proposal_key_frame x wire ->
  dec proposal_key_frame (wire ++ rest) = Some (x, rest).
Proof. exact (roundtrip_any_order proposal_key_frame proposal_key_frame_ok). Qed.
Print Assumptions C23_cr_proposal_key_frame_lossless.

Theorem C23_cr_checkpoint_lossless : forall x wire rest,
  wf cr_checkpoint x -> encs cr_checkpoint x wire -> dec cr_checkpoint (wire ++ rest) = Some (x, rest).
Proof. exact (roundtrip_any_order cr_checkpoint cr_checkpoint_ok). Qed.
Print Assumptions C23_cr_checkpoint_lossless.

(* mempool: the WIRE FORMAT of txPoolCheckpoint (height, txnList, txFees) is
   lossless for every lawful transaction codec ... *)
Theorem C23_txpool_wire_lossless : forall (T : Type) (ctx : codec T), codec_ok ctx ->
  forall x wire rest,
  wf (txpool_checkpoint ctx) x -> encs (txpool_checkpoint ctx) x wire ->
  dec (txpool_checkpoint ctx) (wire ++ rest) = Some (x, rest).
Proof. exact (fun T ctx H => roundtrip_any_order (txpool_checkpoint ctx) (txpool_checkpoint_ok ctx H)). Qed.
Print Assumptions C23_txpool_wire_lossless.

(* ... but the Go Deserialize does not follow it (recorded defect
   mempool:Snapshot:txnList): a checkpoint holding a transaction comes back
   without it; with an empty txnList it is exact *)
Theorem C23_txpool_deserialize_refuted : forall (T : Type) (ctx : codec T), codec_ok ctx ->
  forall h k tx fees wire,
  wf (txpool_checkpoint ctx) (h, ([(k, tx)], fees)) -> encs (txpool_checkpoint ctx) (h, ([(k, tx)], fees)) wire ->
  txpool_deserialize_go ctx wire = Some ((h, ([], fees)), []) /\
  txpool_deserialize_go ctx wire <> Some ((h, ([(k, tx)], fees)), []).
Proof. exact (@txpool_go_refuted). Qed.
Print Assumptions C23_txpool_deserialize_refuted.

Theorem C23_txpool_deserialize_partial : forall (T : Type) (ctx : codec T), codec_ok ctx ->
  forall h fees wire rest,
  wf (txpool_checkpoint ctx) (h, ([], fees)) -> encs (txpool_checkpoint ctx) (h, ([], fees)) wire ->
  txpool_deserialize_go ctx (wire ++ rest) = Some ((h, ([], fees)), rest).
Proof. exact (@txpool_go_partial). Qed.
Print Assumptions C23_txpool_deserialize_partial.

(* wallet.CoinsCheckPoint (uint32 counts, OutPoint keys, version-dependent
   Output layout), for every family of lawful output-payload codecs *)
Theorem C23_wallet_checkpoint_lossless : forall (P : Type) (pl : N -> codec P), (forall t, codec_ok (pl t)) ->
  forall x wire rest,
  wf (wallet_checkpoint pl) x -> encs (wallet_checkpoint pl) x wire ->
  dec (wallet_checkpoint pl) (wire ++ rest) = Some (x, rest).
Proof. exact (fun P pl H => roundtrip_any_order (wallet_checkpoint pl) (wallet_checkpoint_ok pl H)). Qed.
Print Assumptions C23_wallet_checkpoint_lossless.

(* ======================================================================
   Restore into a live, NON-EMPTY instance.  [deci r live wire] is Deserialize
   as a method on a receiver that already holds [live] (Manager.Restore
   deserialises into the registered checkpoint; ProposalKeyFrame.Snapshot into
   NewProposalKeyFrame()). *)

(* whatever the receiver held, the DPoS / CR checkpoint decoders REPLACE it *)
Theorem C23_dpos_restore_into_any_receiver : forall live x wire rest,
  wf dpos_checkpoint x -> encs dpos_checkpoint x wire ->
  deci r_dpos_checkpoint live (wire ++ rest) = Some (x, rest).
Proof. exact dpos_restore_into_any. Qed.
Print Assumptions C23_dpos_restore_into_any_receiver.

Theorem C23_cr_restore_into_any_receiver : forall live x wire rest,
  wf cr_checkpoint x -> encs cr_checkpoint x wire ->
  deci r_cr_checkpoint live (wire ++ rest) = Some (x, rest).
Proof. exact cr_restore_into_any. Qed.
Print Assumptions C23_cr_restore_into_any_receiver.

(* history clause for the real composition: for every step function, every
   state [live] the node holds when the checkpoint is loaded into it *)
Theorem C23_dpos_restore_into_live_then_continue :
  forall (B : Type) (step : _ -> B -> _) live s0 b1 b2 wire,
  wf dpos_checkpoint (run step s0 b1) -> encs dpos_checkpoint (run step s0 b1) wire ->
  option_map (fun s => run step s b2) (restore_live r_dpos_checkpoint live wire) = Some (run step s0 (b1 ++ b2)).
Proof. exact (fun B => @restore_into_then_continue _ B r_dpos_checkpoint r_dpos_checkpoint_replaces dpos_checkpoint_ok). Qed.
Print Assumptions C23_dpos_restore_into_live_then_continue.

Theorem C23_cr_restore_into_live_then_continue :
  forall (B : Type) (step : _ -> B -> _) live s0 b1 b2 wire,
  wf cr_checkpoint (run step s0 b1) -> encs cr_checkpoint (run step s0 b1) wire ->
  option_map (fun s => run step s b2) (restore_live r_cr_checkpoint live wire) = Some (run step s0 (b1 ++ b2)).
Proof. exact (fun B => @restore_into_then_continue _ B r_cr_checkpoint r_cr_checkpoint_replaces cr_checkpoint_ok). Qed.
Print Assumptions C23_cr_restore_into_live_then_continue.

(* the statement discriminates: a list reader that appends to what the
   receiver holds (the seeded variant) turns ["ID"] + wire ["ID";"ESC"] into
   ["ID";"ID";"ESC"] and is not receiver independent *)
Theorem C23_appending_reader_refuted :
  deci r_strings_appending [[73; 68]] names_wire = Some ([[73; 68]; [73; 68]; [69; 83; 67]], []) /\
  dec strings names_wire = Some ([[73; 68]; [69; 83; 67]], []) /\
  ~ replaces r_strings_appending.
Proof. exact appending_reader_refuted. Qed.
Print Assumptions C23_appending_reader_refuted.

(* wallet: CoinsCheckPoint.Deserialize merges into the receiver's maps.  Exact
   into an empty checkpoint (NewCoinCheckPoint(): start-up Restore, Snapshot,
   Generator - every path the node uses) ... *)
Theorem C23_wallet_restore_into_empty_partial : forall (P : Type) (pl : N -> codec P), (forall t, codec_ok (pl t)) ->
  forall h0 x wire rest,
  wf (wallet_checkpoint pl) x -> encs (wallet_checkpoint pl) x wire ->
  deci (r_wallet_checkpoint pl) (h0, ([], [])) (wire ++ rest) = Some (x, rest).
Proof. exact (@wallet_restore_into_empty). Qed.
Print Assumptions C23_wallet_restore_into_empty_partial.

(* ... not into one that already holds coins: the stale coin survives *)
Theorem C23_wallet_restore_into_nonempty_refuted :
  deci (r_wallet_checkpoint default_payloads) wallet_old (enc (wallet_checkpoint default_payloads) wallet_new)
    = Some ((9, ([(op1, coin_v0 100); (op2, coin_v0 500)], [])), []) /\
  dec (wallet_checkpoint default_payloads) (enc (wallet_checkpoint default_payloads) wallet_new)
    = Some (wallet_new, []) /\
  ~ replaces (r_wallet_checkpoint default_payloads).
Proof. exact wallet_merge_refuted. Qed.
Print Assumptions C23_wallet_restore_into_nonempty_refuted.

(* Non-vacuity of the new statements: a list with one arbiter of each kind and
   a ProposalKeyFrame with a proposal, budgets, side-chain registrations are
   well formed, round-trip, and the latter restores exactly into a receiver
   that already holds data. *)
Example C23_nonvacuous_checkpoints :
  wf arbiters ex_arbiters /\ dec arbiters (enc arbiters ex_arbiters) = Some (ex_arbiters, []) /\
  wf proposal_key_frame ex_proposal_key_frame /\
  dec proposal_key_frame (enc proposal_key_frame ex_proposal_key_frame) = Some (ex_proposal_key_frame, []) /\
  deci (r_assign proposal_key_frame) ex_proposal_key_frame (enc proposal_key_frame ex_proposal_key_frame)
    = Some (ex_proposal_key_frame, []).
Proof.
  exact (conj ex_arbiters_wf (conj ex_arbiters_roundtrip (conj ex_proposal_key_frame_wf
        (conj (proj1 ex_proposal_key_frame_roundtrip) ex_restore_into_builtin)))).
Qed.
