(* C01 - No transaction creates value: outputs never exceed inputs.
   Property theorems only; each is closed by [exact] of a lemma from
   proof/C01_Fee.v and followed by Print Assumptions.  The model is of the code
   after the repair of getTransactionFee (exact difference, error when it is
   not an int64). *)
From Coq Require Import ZArith Bool List.
From ELA Require Import model.C01_Fee proof.C01_Fee corr.C01_corr.
Import ListNotations.
Local Open Scope Z_scope.

(* A transaction of any output-check shape that passes CheckTransactionOutput
   and CheckTransactionFee (i.e. SpecialContextCheck did not end validation
   early) has exact output total <= exact total of the outputs it spends: all
   output counts, all amount vectors (no range restriction at all, so every
   int64 vector, amounts near 2^62..2^63 included), all referenced sets, every
   non-negative MinTransactionFee. *)
Theorem C01_accept_no_inflation : forall k pr outs refs,
  0 <= p_minfee pr ->
  accept k pr false outs refs = true ->
  exact_sum (map o_val outs) <= exact_sum refs.
Proof. exact accept_no_inflation. Qed.
Print Assumptions C01_accept_no_inflation.

(* Contrapositive, as the property words it: no combination of amounts whose
   exact total exceeds the inputs can wrap around and pass the fee check. *)
Theorem C01_no_wrap_combination : forall k pr outs refs,
  0 <= p_minfee pr ->
  exact_sum refs < exact_sum (map o_val outs) ->
  accept k pr false outs refs = false.
Proof. exact no_wrap_combination. Qed.
Print Assumptions C01_no_wrap_combination.

(* The fee recorded on an accepted transaction (SetFee) is the exact
   difference inputs - outputs. *)
Theorem C01_accept_fee_exact : forall k pr refs outs f,
  check_fee k pr refs outs = Some f -> f = exact_sum refs - exact_sum outs.
Proof. exact accept_fee_exact. Qed.
Print Assumptions C01_accept_fee_exact.

(* Transaction types whose SpecialContextCheck ends validation without a fee
   check and whose CheckTransactionOutput is the "no output" one (and
   ActivateProducer up to NFTStartHeight) have no outputs at all. *)
Theorem C01_no_output_kinds : forall k pr e outs refs,
  (k = KNone \/ (k = KActivate /\ p_height pr <= p_nft pr)) ->
  accept k pr e outs refs = true -> outs = [].
Proof. exact no_output_kinds. Qed.
Print Assumptions C01_no_output_kinds.

(* Accepted standard transactions have 1..65535 outputs, each individually
   non-negative and in the ELA asset. *)
Theorem C01_std_outputs_valid : forall pr e outs refs,
  accept KStd pr e outs refs = true ->
  1 <= Z.of_nat (length outs) <= 65535 /\
  Forall (fun o => 0 <= o_val o /\ o_asset o = true) outs.
Proof. exact std_outputs_valid. Qed.
Print Assumptions C01_std_outputs_valid.

(* ActivateProducer, at every height (after NFTStartHeight its outputs are
   optional but checked): no negative output, ELA asset only. *)
Theorem C01_activate_outputs_valid : forall pr e outs refs,
  accept KActivate pr e outs refs = true ->
  Forall (fun o => 0 <= o_val o /\ o_asset o = true) outs.
Proof. exact activate_outputs_valid. Qed.
Print Assumptions C01_activate_outputs_valid.

(* Block side: the (still wrapping) GetTxFee used by checkTxsContext returns
   exactly the fee the checker accepted ... *)
Theorem C01_fee_map_agrees : forall k pr refs outs f,
  forallb snd refs = true -> forallb snd outs = true ->
  i64_min <= exact_sum (map fst refs) <= i64_max ->
  i64_min <= exact_sum (map fst outs) <= i64_max ->
  check_fee k pr (map fst refs) (map fst outs) = Some f ->
  tx_fee_map_ela refs outs = f.
Proof. exact fee_map_agrees. Qed.
Print Assumptions C01_fee_map_agrees.

(* ... and the block's fee total is exact whenever it is representable. *)
Theorem C01_block_fee_exact : forall fees,
  i64_min <= exact_sum fees <= i64_max -> block_fee fees = exact_sum fees.
Proof. exact block_fee_exact. Qed.
Print Assumptions C01_block_fee_exact.

(* From inputs to references: the node feeds the fee check one reference per
   input (GetTxReference), so the bound above is about the outputs a transaction
   really spends only because CheckTransactionInput rejects a repeated outpoint.
   With that step in the model: an accepted transaction's exact output total is
   at most the exact total over the DISTINCT outpoints it names, for every
   unspent-output view [utxo]. *)
Theorem C01_accept_tx_no_inflation : forall k pr utxo ins outs,
  0 <= p_minfee pr ->
  accept_tx k pr utxo ins outs = true ->
  exact_sum (map o_val outs) <= spent_total utxo ins.
Proof. exact accept_tx_no_inflation. Qed.
Print Assumptions C01_accept_tx_no_inflation.

(* ... and a transaction naming one outpoint twice - at any two positions, with
   equal or different Sequence fields - does not pass the input check. *)
Theorem C01_repeated_outpoint_rejected : forall pre mid post a b,
  i_op a = i_op b -> check_inputs (pre ++ a :: mid ++ b :: post) = false.
Proof. exact repeated_outpoint_rejected. Qed.
Print Assumptions C01_repeated_outpoint_rejected.

(* Every transaction type that reaches CheckTransactionFee - whatever its own
   CheckTransactionOutput override does (ExchangeVotes, SideChainPow with
   inputs, the proposal and withdrawal types, any future override) - is bounded
   by the fee check alone. *)
Theorem C01_fee_check_bounds : forall k pr refs outs f,
  0 <= p_minfee pr -> check_fee k pr refs outs = Some f ->
  exact_sum outs <= exact_sum refs.
Proof. exact fee_check_bounds. Qed.
Print Assumptions C01_fee_check_bounds.

(* The types whose SpecialContextCheck ends validation before the fee check and
   that may carry outputs.  New-style SideChainPow (no inputs): its single
   output has value 0. *)
Theorem C01_sidepow_new_creates_nothing : forall outs,
  sidepow_new_outputs_ok outs = true -> exact_sum (map o_val outs) = 0.
Proof. exact sidepow_new_creates_nothing. Qed.
Print Assumptions C01_sidepow_new_creates_nothing.

(* CRCAppropriation: with int64 outputs and non-negative referenced outputs
   (every UTXO was an accepted output), an accepted appropriation spends only
   CR-assets outputs and its exact output total does not exceed - and, when the
   input total is below 2^63, equals - the exact input total, although the code
   compares wrapping sums. *)
Theorem C01_appropriation_moves_not_creates : forall pr h0 h1 needed amount outs refs,
  accept_approp pr h0 h1 needed amount outs refs = true ->
  Forall (fun o => o_val o <= i64_max) outs ->
  Forall (fun r => 0 <= fst r) refs ->
  exact_sum (map o_val outs) <= exact_sum (map fst refs) /\
  (exact_sum (map fst refs) <= i64_max ->
   exact_sum (map o_val outs) = exact_sum (map fst refs)) /\
  Forall (fun r => snd r = true) refs.
Proof. exact approp_moves_not_creates. Qed.
Print Assumptions C01_appropriation_moves_not_creates.

(* The defect that was repaired: with the former wrapping sums, four
   individually valid outputs of 2^62 sela against one input of 10000 sela
   passed both checks; the repaired composition rejects the same input. *)
Theorem C01_legacy_wrapping_fee_unsound :
  exists pr outs refs,
    0 <= p_minfee pr /\
    Forall (fun o => 0 <= o_val o <= i64_max) outs /\
    Forall (fun v => 0 <= v <= i64_max) refs /\
    legacy_accept pr outs refs = true /\
    exact_sum refs < exact_sum (map o_val outs) /\
    accept KStd pr false outs refs = false.
Proof. exact legacy_wrapping_fee_unsound. Qed.
Print Assumptions C01_legacy_wrapping_fee_unsound.

(* Non-vacuity: an ordinary transfer (inputs 5 ELA + 1 ELA, outputs 5.9 ELA and
   0.0999 ELA, fee 0.0001 ELA) is accepted with the exact fee; an
   ActivateProducer after NFTStartHeight with equal totals is accepted; a
   no-output transaction is accepted when validation ends early. *)
Example C01_nonvacuous :
  let pr := P 2000000 88812 1405000 true 100 in
  accept KStd pr false [O 590000000 true 33 false 0; O 9990000 true 18 false 0]
         [500000000; 100000000] = true /\
  check_fee KStd pr [500000000; 100000000] [590000000; 9990000] = Some 10000 /\
  accept KActivate pr false [O 700 true 33 false 0] [300; 400] = true /\
  accept KNone pr true [] [5] = true /\
  accept KStd pr false [O 590000000 true 33 false 0] [590000099] = false /\
  accept KActivate pr false [O 5 true 33 false 0; O (-5) true 33 false 0] [] = false /\
  accept KActivate pr false [] [] = true.
Proof. vm_compute. repeat split; reflexivity. Qed.

(* the correspondence checker accepts a correct observation and flags wrong ones *)
Example C01_corr_sane :
  let pr := P 2000000 88812 1405000 true 100 in
  let o := O 4611686018427387904 true 33 false 0 in
  mismatches [CTx 1 KStd pr [o; o; o; o] [10000] 0 1 0;      (* as observed after the repair *)
              CTx 2 KStd pr [o; o; o; o] [10000] 0 0 10000;  (* as observed before the repair *)
              CFee 3 [5; 7] [2] true 10; CFee 4 [5; 7] [2] true 11;
              CFeeMap 5 [(5, true); (7, false)] [(2, true)] 3;
              CBlock 6 [9223372036854775807; 1] (-9223372036854775808)] = [2%N; 4%N].
Proof. vm_compute. reflexivity. Qed.

(* non-vacuity of the early-ending types: an appropriation of 30 out of CR
   assets 100 (70 back) is accepted, one that pays out 101 is not; inputs that
   wrap (2^63-1 twice plus 2) against outputs 0+0 are accepted by the wrapping
   comparison and still create nothing; a new-style side-chain pow is accepted
   with its zero output only *)
Example C01_early_end_nonvacuous :
  let pr := P 2000000 88812 1405000 true 100 in
  let e v := O v true 0 true 0 in
  accept_approp pr true true true 30 [e 30; e 70] [(60, true); (40, true)] = true /\
  accept_approp pr true true true 30 [e 30; e 71] [(60, true); (40, true)] = false /\
  accept_approp pr true true true 30 [e 30; e 70] [(60, true); (40, false)] = false /\
  accept_approp pr true true false 30 [e 30; e 70] [(100, true)] = false /\
  accept_approp pr true true true 0 [e 0; e 0]
     [(9223372036854775807, true); (9223372036854775807, true); (2, true)] = true /\
  sidepow_new_outputs_ok [O 0 true 33 false 0] = true /\
  sidepow_new_outputs_ok [O 1 true 33 false 0] = false /\
  sidepow_new_outputs_ok [] = false.
Proof. vm_compute. repeat split; reflexivity. Qed.

(* non-vacuity of the input step: two distinct outpoints worth 60 and 40 fund
   outputs 99 (fee 1 with min fee 1); naming the first outpoint twice with
   different Sequence is rejected although the references would sum to 120 *)
Example C01_inputs_nonvacuous :
  let pr := P 2000000 88812 1405000 true 1 in
  let utxo := fun op => if op =? 7 then 60 else 40 in
  accept_tx KStd pr utxo [I 7 0; I 8 0] [O 99 true 33 false 0] = true /\
  spent_total utxo [I 7 0; I 8 0] = 100 /\
  accept_tx KStd pr utxo [I 7 0; I 7 1] [O 119 true 33 false 0] = false /\
  exact_sum (references utxo [I 7 0; I 7 1]) = 120 /\
  spent_total utxo [I 7 0; I 7 1] = 60.
Proof. vm_compute. repeat split; reflexivity. Qed.
