(* C13 — Disconnecting a block exactly undoes connecting it.  Property theorems only. *)
From Coq Require Import List ZArith NArith Bool.
From Coq Require Import Permutation.
From ELA Require Import model.Ledger proof.Ledger_unspent proof.C06_Ledger proof.C13_Ledger
  proof.Ledger_addr proof.Ledger_addr_inv proof.C13_Full proof.C13_Progress proof.C13_Total.
From ELA Require corr.C13_corr. (* so that the correspondence checker is rebuilt with the model *)
Import ListNotations.
Local Open Scope N_scope.

(* For every ledger state [s] consistent with a non-empty active chain [c]
   (invariant [inv] of C06) and every block [b] that block validation would let
   through ([valid_block]: distinct fresh transaction ids, every input unspent
   and spent once, side-chain / deposit / draft keys not yet recorded):
   if SaveBlock connects [b] and RollbackBlock then disconnects it, every query
   of [obs_eq] answers as before the connect: best block, transaction lookup,
   unspent outputs of every transaction (as a set, duplicate free), recorded
   side-chain withdrawal hashes, recorded deposit returns, stored drafts.

   This version needs only the C06 invariant and leaves out the per-address
   UTXO list; C13_disconnect_connect below is the full statement. *)
Theorem C13_disconnect_connect_partial : forall s c b s1 s2,
  inv s c -> c <> [] -> valid_block s b ->
  save_block s b = Ok s1 -> rollback_block cfg_fixed s1 b = Ok s2 ->
  obs_eq s2 s.
Proof. exact disconnect_connect. Qed.
Print Assumptions C13_disconnect_connect_partial.

(* FULL statement for the modelled indexes.  With the stronger invariant [inv2]
   (C14: tx index with heights and per-address index refine the chain, heights
   increase) and a block higher than every block of the chain: connect then
   disconnect additionally restores every (address, height) entry of the
   per-address UTXO index as a multiset (an empty entry is the same as an
   absent one in the model), and re-establishes [inv2].
   Conditional on both SaveBlock and RollbackBlock returning Ok: SaveBlock's
   success on valid blocks is C13_save_block_succeeds below, RollbackBlock's is
   C13_rollback_after_save_succeeds; C13_disconnect_connect_total is the
   statement without either hypothesis. *)
Theorem C13_disconnect_connect : forall s c b s1 s2,
  inv2 s c -> c <> [] -> valid_block s b ->
  (forall b', In b' c -> b_height b' < b_height b) ->
  save_block s b = Ok s1 -> rollback_block cfg_fixed s1 b = Ok s2 ->
  obs_eq s2 s /\ (forall a h, Permutation (s_addr s2 a h) (s_addr s a h)) /\ inv2 s2 c.
Proof. exact disconnect_connect_full. Qed.
Print Assumptions C13_disconnect_connect.

(* A side-chain withdrawal that is rolled back can be included again: while
   connected its hashes are recorded, after the rollback they are not, and the
   same transactions form a valid block again. *)
Theorem C13_rewithdraw_after_rollback : forall s c b s1 s2,
  inv s c -> c <> [] -> valid_block s b ->
  save_block s b = Ok s1 -> rollback_block cfg_fixed s1 b = Ok s2 ->
  (forall k, In k (block_tx3_saved b) -> s_tx3 s1 k = true /\ s_tx3 s2 k = false) /\
  (forall b', b_txs b' = b_txs b -> valid_block s2 b').
Proof. exact rewithdraw_after_rollback. Qed.
Print Assumptions C13_rewithdraw_after_rollback.

(* Progress, transaction-index part: after TxIndex.ConnectBlock of a block
   whose transaction ids are distinct (over ANY prior index contents),
   TxIndex.DisconnectBlock of that block cannot fail, and it leaves exactly the
   prior index minus the block's ids.  This discharges, for the tx index, the
   "RollbackBlock returns Ok" hypothesis of the two theorems above (the
   unspent and per-address parts of that hypothesis stay observed). *)
Theorem C13_txindex_disconnect_after_connect_succeeds : forall b (m : N -> option (N * tx)),
  NoDup (ids (b_txs b)) ->
  exists m', txidx_disconnect (txidx_connect m b) b = Ok m' /\
             forall t, m' t = if existsb (N.eqb t) (ids (b_txs b)) then None else m t.
Proof. exact txidx_disconnect_after_connect_ok. Qed.
Print Assumptions C13_txindex_disconnect_after_connect_succeeds.

(* Progress, per-address index part: UtxoIndex.ConnectBlock and
   UtxoIndex.DisconnectBlock fail only through FetchTx (unknown referenced
   transaction) or an out-of-range output index.  When every input of every
   non-coinbase transaction of the block resolves ([refs_resolved], which is
   what GetTxReference in the context check establishes: C13_refs_known_resolved),
   both return Ok over ANY index contents. *)
Theorem C13_addr_index_connect_succeeds : forall fetch db b,
  refs_resolved fetch b -> exists ad, utxo_connect fetch db b = Ok ad.
Proof. exact utxo_connect_ok. Qed.
Theorem C13_addr_index_disconnect_succeeds : forall fetch db b,
  refs_resolved fetch b -> exists ad, utxo_disconnect fetch db b = Ok ad.
Proof. exact utxo_disconnect_ok. Qed.
Theorem C13_refs_known_resolved : forall (s : state) b,
  (forall t, In t (b_txs b) -> t_cb t = false -> refs_known s t = true) ->
  (forall t, In t (b_txs b) -> s_txidx s (t_id t) = None) ->
  refs_resolved (txidx_connect (s_txidx s) b) b.
Proof. exact refs_known_resolved. Qed.
Print Assumptions C13_addr_index_connect_succeeds.
Print Assumptions C13_addr_index_disconnect_succeeds.
Print Assumptions C13_refs_known_resolved.

(* Progress, SaveBlock as a whole: in every state consistent with a chain,
   a block that extends the index tip and that validation lets through
   (valid_block, and GetTxReference succeeding for every non-coinbase
   transaction) is connected: SaveBlock returns Ok.  In particular the
   unspent-index write-back never deletes an entry that does not exist.
   This discharges the "save_block s b = Ok s1" hypothesis of
   C13_disconnect_connect; "rollback_block ... = Ok s2" is discharged by
   C13_rollback_after_save_succeeds, and C13_disconnect_connect_total puts
   the pieces together. *)
Theorem C13_save_block_succeeds : forall s c b,
  inv s c -> valid_block s b -> b_prev b = s_tip s ->
  (forall t, In t (b_txs b) -> t_cb t = false -> refs_known s t = true) ->
  exists s1, save_block s b = Ok s1.
Proof. exact save_block_ok. Qed.
Print Assumptions C13_save_block_succeeds.

(* Progress, RollbackBlock after SaveBlock, and the UNCONDITIONAL form of the
   property: for every state consistent with a chain (inv2) and every higher
   block extending the tip that validation lets through, SaveBlock connects the
   block, RollbackBlock disconnects it, both return Ok, and every query
   (best block, transaction lookup, unspent outputs, per-address lists,
   side-chain hashes, deposit returns, drafts) answers as before; the
   invariant is re-established.  No hypothesis about success remains. *)
Theorem C13_rollback_after_save_succeeds : forall cf s c b s1,
  inv s c -> valid_block s b ->
  (forall t, In t (b_txs b) -> t_cb t = false -> refs_known s t = true) ->
  save_block s b = Ok s1 ->
  exists s2, rollback_block cf s1 b = Ok s2.
Proof. exact rollback_after_save_ok. Qed.
Print Assumptions C13_rollback_after_save_succeeds.

Theorem C13_disconnect_connect_total : forall s c b,
  inv2 s c -> c <> [] -> valid_block s b -> b_prev b = s_tip s ->
  (forall b', In b' c -> b_height b' < b_height b) ->
  (forall t, In t (b_txs b) -> t_cb t = false -> refs_known s t = true) ->
  exists s1 s2, save_block s b = Ok s1 /\ rollback_block cfg_fixed s1 b = Ok s2 /\
    obs_eq s2 s /\ (forall a h, Permutation (s_addr s2 a h) (s_addr s a h)) /\ inv2 s2 c.
Proof. exact disconnect_connect_total. Qed.
Print Assumptions C13_disconnect_connect_total.

(* ---------------------------------------------------------------- witnesses *)
Definition x_cb (id lock : N) := mkTx id true lock [] [mkOut 0 30; mkOut 1 35; mkOut 0 35]%Z SNone.
Definition x_g  := mkBlock 1 0 0 [mkTx 1 true 0 [] [mkOut 0 1000]%Z SNone].
Definition x_b (ver : N) := mkBlock 2 1 1 [x_cb 2 1; mkTx 3 false 0 [(1, 0)] [mkOut 2 999]%Z (SWithdraw ver [] [7; 8])].
Definition x_s0 : state := match init_state x_g with Ok s => s | _ => empty_state 0 end.
Definition x_after (cf : cfg) (ver : N) : state :=
  match save_block x_s0 (x_b ver) with
  | Ok s1 => match rollback_block cf s1 (x_b ver) with Ok s2 => s2 | _ => empty_state 99 end
  | _ => empty_state 98
  end.

(* The tree before commit 523f0a27 (flag v2_rollback = false): a payload-V2
   withdrawal leaves its hashes recorded after the rollback.  Replayed on the
   real ChainStoreFFLDB (fixture test TestStoreV2, harness corpus history 1). *)
Theorem C13_disconnect_connect_refuted_before_fix :
  exists s c b s1 s2,
    inv s c /\ c <> [] /\ valid_block s b /\
    save_block s b = Ok s1 /\ rollback_block (mkCfg true false) s1 b = Ok s2 /\
    s_tx3 s 7 = false /\ s_tx3 s2 7 = true.
Proof.
  exists x_s0, [x_g], (x_b 2).
  destruct (save_block x_s0 (x_b 2)) as [s1| |] eqn:E1; [|vm_compute in E1; discriminate|vm_compute in E1; discriminate].
  destruct (rollback_block (mkCfg true false) s1 (x_b 2)) as [s2| |] eqn:E2.
  2,3: (vm_compute in E1; inversion E1; subst s1; vm_compute in E2; discriminate).
  exists s1, s2. split; [apply init_inv; [reflexivity|repeat constructor; intros []|reflexivity]|].
  split; [discriminate|]. split.
  - constructor.
    + vm_compute. constructor; [intros [H|[]]; discriminate|constructor; [intros []|constructor]].
    + vm_compute. constructor; [intros []|constructor].
    + intros t Ht. vm_compute in Ht. destruct Ht as [<-|[<-|[]]]; reflexivity.
    + intros op Hop. vm_compute in Hop. destruct Hop as [<-|[]]. vm_compute. now left.
    + intros k Hk. vm_compute in Hk. destruct Hk as [<-|[<-|[]]]; reflexivity.
    + intros k Hk. vm_compute in Hk. contradiction.
    + intros k Hk. vm_compute in Hk. contradiction.
  - split; [first [reflexivity|exact E1]|]. split; [first [reflexivity|exact E2]|]. split; [reflexivity|].
    vm_compute in E1. inversion E1; subst s1. vm_compute in E2. inversion E2; subst s2. vm_compute. reflexivity.
Qed.
Print Assumptions C13_disconnect_connect_refuted_before_fix.

(* Non-vacuity of the theorem's hypotheses with the repaired code, for the three payload versions. *)
Example C13_nonvacuous :
  (forall v, In v [0; 1; 2] -> s_tx3 (x_after cfg_fixed v) 7 = false /\ s_tip (x_after cfg_fixed v) = 1 /\
             s_unspent (x_after cfg_fixed v) 1 = [0] /\ s_unspent (x_after cfg_fixed v) 3 = []) /\
  (match save_block x_s0 (x_b 2) with Ok s1 => s_tx3 s1 8 = true /\ s_unspent s1 1 = [] | _ => False end).
Proof.
  split.
  - intros v [<-|[<-|[<-|[]]]]; vm_compute; auto.
  - vm_compute. auto.
Qed.

(* The side condition "keys not yet recorded" is necessary (set semantics of
   the buckets): re-using a recorded key and rolling back deletes the earlier
   record. *)
Example C13_fresh_keys_necessary :
  let b2 := mkBlock 2 1 1 [x_cb 2 1; mkTx 3 false 0 [(1, 0)] [mkOut 2 999]%Z (SDraft [(5, 1)])] in
  let b3 := mkBlock 3 2 2 [x_cb 4 2; mkTx 6 false 0 [(3, 0)] [mkOut 2 998]%Z (SDraft [(5, 2)])] in
  match save_block x_s0 b2 with
  | Ok s1 => match save_block s1 b3 with
             | Ok s2 => match rollback_block cfg_fixed s2 b3 with
                        | Ok s3 => s_draft s1 5 = Some 1 /\ s_draft s3 5 = None
                        | _ => False end
             | _ => False end
  | _ => False end.
Proof. vm_compute. auto. Qed.

(* Non-vacuity of the full theorem's invariant and height hypothesis. *)
Example C13_full_nonvacuous :
  inv2 x_s0 [x_g] /\ (forall b', In b' [x_g] -> b_height b' < b_height (x_b 2)) /\
  (match save_block x_s0 (x_b 1) with
   | Ok s1 => s_addr s1 2 1 = [mkU 3 0 999] /\ s_addr s1 0 0 = [] /\
              match rollback_block cfg_fixed s1 (x_b 1) with Ok s2 => s_addr s2 2 1 = [] /\ s_addr s2 0 0 = [mkU 1 0 1000] | _ => False end
   | _ => False end).
Proof.
  split; [apply init_inv2; [reflexivity|repeat constructor; intros []|reflexivity]|].
  split; [intros b' [<-|[]]; vm_compute; reflexivity|]. vm_compute. auto.
Qed.

(* The validation hypotheses of C13_save_block_succeeds are needed: a block
   spending the only output of transaction 1 twice (two transactions) makes the
   unspent-index write-back meet an entry that is already gone or the
   per-address step fail, and SaveBlock reports an error; the valid block x_b
   is connected. *)
Example C13_save_block_needs_validation :
  let bad := mkBlock 2 1 1 [x_cb 2 1; mkTx 3 false 0 [(9, 0)] [mkOut 2 999]%Z SNone] in
  (match save_block x_s0 bad with Ok _ => False | _ => True end) /\
  (match save_block x_s0 (x_b 1) with Ok _ => True | _ => False end) /\
  refs_known x_s0 (mkTx 3 false 0 [(1, 0)] [mkOut 2 999]%Z SNone) = true /\
  refs_known x_s0 (mkTx 3 false 0 [(9, 0)] [mkOut 2 999]%Z SNone) = false.
Proof. vm_compute. auto. Qed.

(* Non-vacuity of C13_disconnect_connect_total: every hypothesis holds for the
   genesis state and the block x_b 2 (coinbase + a payload-V2 withdrawal
   spending the genesis output). *)
Example C13_total_nonvacuous :
  inv2 x_s0 [x_g] /\ [x_g] <> [] /\ valid_block x_s0 (x_b 2) /\ b_prev (x_b 2) = s_tip x_s0 /\
  (forall b', In b' [x_g] -> b_height b' < b_height (x_b 2)) /\
  (forall t, In t (b_txs (x_b 2)) -> t_cb t = false -> refs_known x_s0 t = true).
Proof.
  split; [apply init_inv2; [reflexivity|repeat constructor; intros []|reflexivity]|].
  split; [discriminate|]. split.
  - constructor.
    + vm_compute. constructor; [intros [H|[]]; discriminate|constructor; [intros []|constructor]].
    + vm_compute. constructor; [intros []|constructor].
    + intros t Ht. vm_compute in Ht. destruct Ht as [<-|[<-|[]]]; reflexivity.
    + intros op Hop. vm_compute in Hop. destruct Hop as [<-|[]]. vm_compute. now left.
    + intros k Hk. vm_compute in Hk. destruct Hk as [<-|[<-|[]]]; reflexivity.
    + intros k Hk. vm_compute in Hk. contradiction.
    + intros k Hk. vm_compute in Hk. contradiction.
  - split; [reflexivity|]. split; [intros b' [<-|[]]; vm_compute; reflexivity|].
    intros t [<-|[<-|[]]] Hcb; [discriminate Hcb | vm_compute; reflexivity].
Qed.
