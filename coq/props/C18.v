(* C18 — Stored blocks read back byte-for-byte; regions are slices; across
   file rollover and reopen.  Property theorems only; each is closed by [exact]
   of a lemma from proof/C18_Flat.v and followed by Print Assumptions.

   Reading guide.  [run max net cksum (db0 cksum) h] replays a history [h] of
   commits (each storing a list of blocks, model of writePendingAndCommit /
   writeBlock) and close+reopen events (scanBlockFiles + reconcileDB) on an
   empty database whose maximum flat-file size is [max]; [blocks_of h] lists
   the stored blocks in storage order; block number i is the i-th of them.
   [hist_ok max h] says: every stored block fits a file (length + 12 <= max,
   the store's contract: production has 64 MiB files and blocks of at most a few
   MB) and fewer than 2^32 blocks are stored (file numbers are uint32).
   The record checksum [cksum] (CRC-32C in Go) is arbitrary: the theorems hold
   for every function returning 4 bytes. *)
From Coq Require Import NArith List Bool.
From ELA Require Import model.C18_Flat proof.C18_Bytes proof.C18_Flat.
Import ListNotations.
Local Open Scope N_scope.

(* Every admissible history runs to completion: storing never fails and every
   reopen of the cleanly closed database succeeds. *)
Theorem C18_history_never_fails : forall max net cksum,
  (forall x, length (cksum x) = 4%nat) -> max < 4294967296 -> net < 4294967296 ->
  forall h, hist_ok max h -> exists d, run max net cksum (db0 cksum) h = Ok d.
Proof. exact history_never_fails. Qed.
Print Assumptions C18_history_never_fails.

(* read_write: after any history (any block sizes, any number of rollovers and
   reopens) every stored block is fetched back identical. *)
Theorem C18_read_write : forall max net cksum,
  (forall x, length (cksum x) = 4%nat) -> max < 4294967296 -> net < 4294967296 ->
  forall h d i raw,
  hist_ok max h -> run max net cksum (db0 cksum) h = Ok d ->
  nth_error (blocks_of h) i = Some raw ->
  db_fetch net cksum d (N.of_nat i) = Ok raw.
Proof. exact read_write. Qed.
Print Assumptions C18_read_write.

(* region_is_slice: a region inside the block is exactly that slice. *)
Theorem C18_region_is_slice : forall max net cksum,
  (forall x, length (cksum x) = 4%nat) -> max < 4294967296 -> net < 4294967296 ->
  forall h d i raw off n,
  hist_ok max h -> run max net cksum (db0 cksum) h = Ok d ->
  nth_error (blocks_of h) i = Some raw ->
  off + n <= len raw ->
  db_region d (N.of_nat i) off n = Ok (takeN n (dropN off raw)).
Proof. exact region_is_slice. Qed.
Print Assumptions C18_region_is_slice.

(* region_oob_rejected: every (uint32 offset, uint32 length) region that ends
   beyond the block is rejected with ErrBlockRegionInvalid, including the
   regions whose end wraps around 2^32. *)
Theorem C18_region_oob_rejected : forall max net cksum,
  (forall x, length (cksum x) = 4%nat) -> max < 4294967296 -> net < 4294967296 ->
  forall h d i raw off n,
  hist_ok max h -> run max net cksum (db0 cksum) h = Ok d ->
  nth_error (blocks_of h) i = Some raw ->
  off < 4294967296 -> n < 4294967296 -> len raw < off + n ->
  db_region d (N.of_nat i) off n = Err ERegion.
Proof. exact region_oob_rejected. Qed.
Print Assumptions C18_region_oob_rejected.

(* FetchBlockHeader returns the first 84 bytes (or rejects a shorter block). *)
Theorem C18_header_prefix : forall max net cksum,
  (forall x, length (cksum x) = 4%nat) -> max < 4294967296 -> net < 4294967296 ->
  forall h d i raw,
  hist_ok max h -> run max net cksum (db0 cksum) h = Ok d ->
  nth_error (blocks_of h) i = Some raw ->
  db_header d (N.of_nat i) = if 84 <=? len raw then Ok (takeN 84 raw) else Err ERegion.
Proof. exact header_prefix. Qed.
Print Assumptions C18_header_prefix.

(* A region read inside the storing transaction (block still pending) answers
   exactly like the read after commit: the slice, or ErrBlockRegionInvalid. *)
Theorem C18_pending_region_agrees : forall max net cksum,
  (forall x, length (cksum x) = 4%nat) -> max < 4294967296 -> net < 4294967296 ->
  forall h d pending j raw off n,
  hist_ok max h -> run max net cksum (db0 cksum) h = Ok d ->
  nth_error pending j = Some raw ->
  len raw < 4294967296 -> off < 4294967296 -> n < 4294967296 ->
  tx_region d pending (N.of_nat (length (blocks_of h) + j)) off n =
  if off + n <=? len raw then Ok (takeN n (dropN off raw)) else Err ERegion.
Proof. exact pending_agrees. Qed.
Print Assumptions C18_pending_region_agrees.

(* Bulk reads (FetchBlockRegions, and FetchBlockHeaders which is the request
   list (i, 0, 84)): the answer to a list of requests over stored blocks is
   the list of the single-region answers, in request order ([bulk] returns the
   first rejection instead when some request is rejected). *)
Theorem C18_bulk_regions_is_map : forall max net cksum,
  (forall x, length (cksum x) = 4%nat) -> max < 4294967296 -> net < 4294967296 ->
  forall h d (reqs : list (nat * N * N)),
  hist_ok max h -> run max net cksum (db0 cksum) h = Ok d ->
  Forall (fun q => snd (fst q) < 4294967296 /\ snd q < 4294967296 /\
                   (fst (fst q) < length (blocks_of h))%nat) reqs ->
  tx_regions d [] (map (fun q => (N.of_nat (fst (fst q)), snd (fst q), snd q)) reqs) =
  bulk (map (fun q => match nth_error (blocks_of h) (fst (fst q)) with
                      | Some raw => if snd (fst q) + snd q <=? len raw
                                    then Ok (takeN (snd q) (dropN (snd (fst q)) raw)) else Err ERegion
                      | None => Err ENotFound
                      end) reqs).
Proof. exact bulk_regions. Qed.
Print Assumptions C18_bulk_regions_is_map.

(* Block locations survive serialisation into the block index (reopen). *)
Theorem C18_location_roundtrip : forall l,
  l_file l < 4294967296 -> l_off l < 4294967296 -> l_len l < 4294967296 ->
  len (ser_loc l) = 12 /\ deser_loc (ser_loc l) = l.
Proof. exact location_roundtrip. Qed.
Print Assumptions C18_location_roundtrip.

(* Rollover never splits a block: the whole record (network, length, block,
   checksum) lies inside one file at the indexed location, below [max]. *)
Theorem C18_rollover_never_splits : forall max net cksum,
  (forall x, length (cksum x) = 4%nat) -> max < 4294967296 -> net < 4294967296 ->
  forall h d i raw,
  hist_ok max h -> run max net cksum (db0 cksum) h = Ok d ->
  nth_error (blocks_of h) i = Some raw ->
  exists l f, row_of d (N.of_nat i) = Some (ser_loc l) /\
    get_file (s_files (d_st d)) (l_file l) = Some f /\
    takeN (l_len l) (dropN (l_off l) f) = record net cksum raw /\
    l_len l = len raw + 12 /\ l_off l + l_len l <= len f /\ l_off l + l_len l <= max.
Proof. exact never_split. Qed.
Print Assumptions C18_rollover_never_splits.

(* ---- non-vacuity: a concrete admissible history with two rollovers and a
   reopen; every block, and a boundary region, evaluated *)
Definition ck0 (x : bytes) : bytes := [1; 2; 3; 4].
Definition h0 : list ev :=
  [ECommit [[1; 2; 3]; repeat 5 40%nat]; EReopen; ECommit [repeat 9 30%nat; []]; EReopen].
Example C18_h0_ok : hist_ok 64 h0.
Proof.
  split; [|vm_compute; reflexivity].
  repeat constructor; unfold fits; vm_compute; discriminate.
Qed.
Example C18_h0_runs :
  exists d, run 64 7 ck0 (db0 ck0) h0 = Ok d /\ s_file (d_st d) = 2 /\
    db_fetch 7 ck0 d 1 = Ok (repeat 5 40%nat) /\
    db_region d 0 1 2 = Ok [2; 3] /\ db_region d 0 1 3 = Err ERegion /\
    tx_regions d [] [(1, 38, 2); (0, 0, 3); (2, 0, 30)] = Ok [[5; 5]; [1; 2; 3]; repeat 9 30%nat] /\
    db_fetch 7 ck0 d 3 = Ok [].
Proof. vm_compute. eexists; repeat split; reflexivity. Qed.

(* Outside the domain (a record larger than a whole file, impossible with the
   production constants): the first block of a fresh database skips file 0 and
   the next open reports corruption — why [hist_ok] asks for blocks that fit. *)
Example C18_oversize_first_block :
  run 64 7 ck0 (db0 ck0) [ECommit [repeat 0 60%nat]; EReopen] = Err ECorrupt.
Proof. vm_compute. reflexivity. Qed.
