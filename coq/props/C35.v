(* C35 — P2P framing rejects anything but well-formed, authentic messages.
   Property theorems only; each is closed by [exact] of a lemma from
   proof/C35_Framing.v and followed by Print Assumptions.  The generic theorems
   hold for every checksum hash [H] returning at least 4 bytes (SHA-256d
   returns 32), every command table [tbl] and every decoder verdict [dec]; a
   connection is the list of bytes still readable from it. *)
From Coq Require Import NArith List Bool.
From ELA Require Import lib.Sha256 model.C35_Framing proof.C35_Framing.
Import ListNotations.
Local Open Scope N_scope.

(* What WriteMessage puts on the wire is read back as the same command and
   payload, leaving the rest of the connection untouched, whenever the
   command is in the reader's table, the payload is within its MaxLength and
   within the writer's 32 MB limit, and the payload decodes. *)
Theorem C35_read_write_roundtrip : forall H tbl dec,
  (forall x, (4 <= length (H x))%nat) ->
  forall magic cmd p rest mx,
  magic < 4294967296 -> valid_cmd cmd -> tbl cmd = Some mx -> blen p <= mx ->
  blen p <= max_message_payload -> dec cmd p = true ->
  exists w, write_message H magic cmd p = Some w /\
            read_message H tbl dec magic (w ++ rest) = ROk cmd p rest (blen p).
Proof. exact read_write_roundtrip. Qed.
Print Assumptions C35_read_write_roundtrip.

(* Acceptance is sound: a read succeeds only if the connection started with
   exactly the frame (magic, NUL-padded command, length, checksum, payload)
   of a command of the table whose payload is within the limit and decodes;
   the buffer allocated is the payload's length. *)
Theorem C35_read_accepts_only_frames : forall H tbl dec,
  forall magic s c p r al,
  bytes s -> read_message H tbl dec magic s = ROk c p r al ->
  s = frame H magic c p ++ r /\ al = blen p /\
  (exists mx, tbl c = Some mx /\ blen p <= mx) /\ dec c p = true.
Proof. exact read_sound. Qed.
Print Assumptions C35_read_accepts_only_frames.

(* Wrong magic: rejected before anything is allocated. *)
Theorem C35_bad_magic_rejected : forall H tbl dec,
  forall magic a raw l k body,
  length a = 4%nat -> length raw = 12%nat -> length l = 4%nat -> length k = 4%nat ->
  le32 a <> magic ->
  read_message H tbl dec magic (a ++ raw ++ l ++ k ++ body) = RErr EUnmatchedMagic 0 24 \/
  read_message H tbl dec magic (a ++ raw ++ l ++ k ++ body) = RErr EInvalidHeader 0 24.
Proof. exact bad_magic. Qed.
Print Assumptions C35_bad_magic_rejected.

(* Command field without NUL, or naming no command of the table: rejected,
   nothing allocated. *)
Theorem C35_bad_command_rejected : forall H tbl dec,
  forall magic a raw l k body,
  length a = 4%nat -> length raw = 12%nat -> length l = 4%nat -> length k = 4%nat ->
  has_nul raw = false \/ tbl (trim_right raw) = None ->
  rejected0 (read_message H tbl dec magic (a ++ raw ++ l ++ k ++ body)).
Proof. exact bad_command. Qed.
Print Assumptions C35_bad_command_rejected.

(* Declared length above the command's MaxLength: rejected, nothing
   allocated.  Declared length above what the peer then sends: rejected,
   having allocated at most MaxLength. *)
Theorem C35_bad_length_rejected : forall H tbl dec,
  forall magic a raw l k body mx,
  length a = 4%nat -> length raw = 12%nat -> length l = 4%nat -> length k = 4%nat ->
  tbl (trim_right raw) = Some mx ->
  (mx < le32 l -> rejected0 (read_message H tbl dec magic (a ++ raw ++ l ++ k ++ body))) /\
  (blen body < le32 l -> exists e al n,
      read_message H tbl dec magic (a ++ raw ++ l ++ k ++ body) = RErr e al n /\ al <= mx).
Proof. exact bad_length. Qed.
Print Assumptions C35_bad_length_rejected.

(* Checksum field different from the first four bytes of H(payload): rejected. *)
Theorem C35_bad_checksum_rejected : forall H tbl dec,
  forall magic a raw l k p rest,
  length a = 4%nat -> length raw = 12%nat -> length l = 4%nat -> length k = 4%nat ->
  le32 l = blen p -> k <> cks4 H p ->
  rejected (read_message H tbl dec magic (a ++ raw ++ l ++ k ++ p ++ rest)).
Proof. exact bad_checksum. Qed.
Print Assumptions C35_bad_checksum_rejected.

(* Single-field corruptions of a written frame (every single-byte corruption
   is one of these).  Magic or checksum field: always rejected. *)
Theorem C35_corrupt_magic_rejected : forall H tbl dec,
  (forall x, (4 <= length (H x))%nat) ->
  forall magic cmd p a' rest,
  length a' = 4%nat -> le32 a' <> magic -> (length cmd <= 12)%nat ->
  rejected0 (read_message H tbl dec magic
               (frame_with a' (pad_cmd cmd) (ser32 (blen p)) (cks4 H p) p ++ rest)).
Proof. exact corrupt_magic. Qed.
Print Assumptions C35_corrupt_magic_rejected.

Theorem C35_corrupt_checksum_rejected : forall H tbl dec,
  forall magic cmd p k' rest,
  length k' = 4%nat -> k' <> cks4 H p -> blen p < 4294967296 -> (length cmd <= 12)%nat ->
  rejected (read_message H tbl dec magic
              (frame_with (ser32 magic) (pad_cmd cmd) (ser32 (blen p)) k' p ++ rest)).
Proof. exact corrupt_checksum. Qed.
Print Assumptions C35_corrupt_checksum_rejected.

(* Payload corrupted: rejected, or an explicit collision of the 32-bit checksum. *)
Theorem C35_corrupt_payload_rejected_or_collision : forall H tbl dec,
  (forall x, (4 <= length (H x))%nat) ->
  forall magic cmd p p' rest,
  length p' = length p -> p' <> p -> blen p < 4294967296 -> (length cmd <= 12)%nat ->
  rejected (read_message H tbl dec magic
              (frame_with (ser32 magic) (pad_cmd cmd) (ser32 (blen p)) (cks4 H p) p' ++ rest)) \/
  cks4 H p' = cks4 H p.
Proof. exact corrupt_payload. Qed.
Print Assumptions C35_corrupt_payload_rejected_or_collision.

(* Length field corrupted: rejected, or a different payload with the same
   32-bit checksum exists (the one that was read). *)
Theorem C35_corrupt_length_rejected_or_collision : forall H tbl dec,
  (forall x, (4 <= length (H x))%nat) ->
  forall magic cmd p l' rest,
  length l' = 4%nat -> le32 l' <> blen p -> (length cmd <= 12)%nat ->
  rejected (read_message H tbl dec magic
              (frame_with (ser32 magic) (pad_cmd cmd) l' (cks4 H p) p ++ rest)) \/
  exists p', p' <> p /\ cks4 H p' = cks4 H p.
Proof. exact corrupt_length. Qed.
Print Assumptions C35_corrupt_length_rejected_or_collision.

(* Command field corrupted.  Full statement ("rejected") is FALSE of the
   code: the checksum does not cover the command, so "ping" with one byte
   changed to "pong" is accepted as a pong carrying the same payload.
   Replayed on the Go code by the harness (known finding). *)
Theorem C35_corrupt_command_rejected_refuted : exists magic cmd p raw',
  length raw' = 12%nat /\ raw' <> pad_cmd cmd /\
  (exists i, forall j, j <> i -> nth j raw' 0 = nth j (pad_cmd cmd) 0) /\
  exists c', c' <> cmd /\
  read_message sha256d (lookup (table_main 8000000 1000000)) (fun _ _ => true) magic
    (frame_with (ser32 magic) raw' (ser32 (blen p)) (cks4 sha256d p) p) = ROk c' p [] (blen p).
Proof. exact ping_read_as_pong. Qed.
Print Assumptions C35_corrupt_command_rejected_refuted.

(* Strongest true restriction: rejected, or read as a DIFFERENT command of
   the table with the same payload (never as the original message). *)
Theorem C35_corrupt_command_partial : forall H tbl dec,
  (forall x, (4 <= length (H x))%nat) ->
  forall magic cmd p raw' rest,
  length raw' = 12%nat -> raw' <> pad_cmd cmd -> blen p < 4294967296 ->
  rejected (read_message H tbl dec magic
              (frame_with (ser32 magic) raw' (ser32 (blen p)) (cks4 H p) p ++ rest)) \/
  exists c' r al,
    read_message H tbl dec magic
      (frame_with (ser32 magic) raw' (ser32 (blen p)) (cks4 H p) p ++ rest) = ROk c' p r al
    /\ c' <> cmd /\ tbl c' <> None.
Proof. exact corrupt_command. Qed.
Print Assumptions C35_corrupt_command_partial.

(* Allocation: whatever is on the connection, the reader allocates nothing or
   at most the MaxLength of the command named in the header; with the real
   tables (default block limits) at most 18 MB (main network layer) and
   80 MB (DPoS layer: res_blc / res_con). *)
Theorem C35_alloc_le_declared_limit : forall H tbl dec magic s,
  alloc_of (read_message H tbl dec magic s) = 0 \/
  exists raw mx, tbl (trim_right raw) = Some mx /\ alloc_of (read_message H tbl dec magic s) <= mx.
Proof. exact alloc_le_limit. Qed.
Print Assumptions C35_alloc_le_declared_limit.

Theorem C35_alloc_bounded_tables : forall H dec magic s,
  alloc_of (read_message H (lookup (table_main 8000000 1000000)) dec magic s) <= 18000000 /\
  alloc_of (read_message H (lookup (table_dpos 8000000 1000000)) dec magic s) <= 80000000.
Proof. exact alloc_bounded_real_tables. Qed.
Print Assumptions C35_alloc_bounded_tables.

(* Rejections for magic / command / oversize length happen before the
   payload buffer is allocated. *)
Theorem C35_early_reject_no_alloc : forall H tbl dec magic s e al n,
  read_message H tbl dec magic s = RErr e al n ->
  e = EInvalidHeader \/ e = EUnmatchedMagic \/ e = EUnknown \/ e = ESizeExceeded -> al = 0.
Proof. exact early_reject_no_alloc. Qed.
Print Assumptions C35_early_reject_no_alloc.

(* Non-vacuity: a ping frame with the real SHA-256d and the real table
   round-trips; flipping a payload bit or the checksum is rejected; a
   declared length of 9 is refused before allocation. *)
Example C35_nonvacuous :
  let tbl := lookup (table_main 8000000 1000000) in
  let dec := fun (_ _ : list N) => true in
  let ping := cmd_ping in
  let p := [1;2;3;4;5;6;7;8] in
  let w := frame sha256d 2017 ping p in
  valid_cmd ping /\ tbl ping = Some 8 /\
  read_message sha256d tbl dec 2017 (w ++ [9;9]) = ROk ping p [9;9] 8 /\
  read_message sha256d tbl dec 2018 w = RErr EUnmatchedMagic 0 24 /\
  read_message sha256d tbl dec 2017
    (frame_with (ser32 2017) (pad_cmd ping) (ser32 8) (cks4 sha256d p) [1;2;3;4;5;6;7;9]) = RErr EInvalidPayload 8 32 /\
  read_message sha256d tbl dec 2017
    (frame_with (ser32 2017) (pad_cmd ping) (ser32 9) (cks4 sha256d p) p) = RErr ESizeExceeded 0 24.
Proof.
  vm_compute. repeat split; try reflexivity.
  - repeat constructor; discriminate.
  - repeat constructor.
Qed.
