(* C03 — Validating any decoded block or transaction never crashes the node.
   Property theorems only; each is closed by [exact] of a lemma from
   proof/C03_Validate.v and followed by Print Assumptions.  [res] has exactly
   two outcomes, [Ok v] (a verdict: accept / reject) and [Panic kind] (index
   out of range, slice bounds out of range, integer divide by zero); the
   models carry every Go index, slice and modulo expression as an explicit
   bounds-checked operation. *)
From Coq Require Import ZArith List Bool.
From ELA Require Import lib.C03_GoSem model.C03_Script model.C03_Validate proof.C03_Validate.
(* the correspondence checker is (re)built together with the theorems *)
From ELA Require corr.C03_corr.
Import ListNotations.
Local Open Scope Z_scope.

(* Script classification: every byte string, no guard. *)
Theorem C03_is_standard_no_panic : forall code k, is_standard code <> Panic k.
Proof. intros code. exact (np_no_panic _ (is_standard_np code)). Qed.
Print Assumptions C03_is_standard_no_panic.

Theorem C03_is_schnorr_no_panic : forall code k, is_schnorr code <> Panic k.
Proof. intros code. exact (np_no_panic _ (is_schnorr_np code)). Qed.
Print Assumptions C03_is_schnorr_no_panic.

Theorem C03_is_multisig_no_panic : forall code k, is_multisig code <> Panic k.
Proof. intros code. exact (np_no_panic _ (is_multisig_np code)). Qed.
Print Assumptions C03_is_multisig_no_panic.

Theorem C03_get_code_type_no_panic : forall code k, get_code_type code <> Panic k.
Proof. intros code. exact (np_no_panic _ (get_code_type_np code)). Qed.
Print Assumptions C03_get_code_type_no_panic.

(* Merged mining: every nonce, chain id and height argument (negative and
   >= 32 included); every proof shape (any number of parent coinbase inputs,
   any script, any branch lengths and indexes), any hash function. *)
Theorem C03_expected_index_no_panic : forall nonce chainID h k,
  expected_index nonce chainID h <> Panic k.
Proof. intros nonce chainID h. exact (np_no_panic _ (expected_index_np nonce chainID h)). Qed.
Print Assumptions C03_expected_index_no_panic.

Theorem C03_auxpow_check_no_panic :
  forall H cbhash cbbranch parindex hdrroot auxhash auxbranch auxindex txin chainID k,
  auxpow_check H cbhash cbbranch parindex hdrroot auxhash auxbranch auxindex txin chainID <> Panic k.
Proof.
  intros H cbhash cbbranch parindex hdrroot auxhash auxbranch auxindex txin chainID.
  exact (np_no_panic _ (auxpow_check_np H cbhash cbbranch parindex hdrroot auxhash auxbranch auxindex txin chainID)).
Qed.
Print Assumptions C03_auxpow_check_no_panic.

(* Program verification, for every decode / verify / Schnorr oracle. *)
Theorem C03_check_multisig_no_panic : forall decode verify code param k,
  check_multisig decode verify code param <> Panic k.
Proof. intros d v code param. exact (np_no_panic _ (check_multisig_np d v code param)). Qed.
Print Assumptions C03_check_multisig_no_panic.

Theorem C03_check_crosschain_no_panic : forall decode verify code param k,
  check_crosschain decode verify code param <> Panic k.
Proof. intros d v code param. exact (np_no_panic _ (check_crosschain_np d v code param)). Qed.
Print Assumptions C03_check_crosschain_no_panic.

Theorem C03_check_schnorr_no_panic : forall schnorr code param k,
  check_schnorr schnorr code param <> Panic k.
Proof. intros s code param. exact (np_no_panic _ (check_schnorr_np s code param)). Qed.
Print Assumptions C03_check_schnorr_no_panic.

(* CheckStandardSignature slices code[1:len-1]: under the guard of its
   callers (IsStandard, GetScriptType or MinProgramCodeSize; two bytes suffice) *)
Theorem C03_check_standard_no_panic : forall decode verify code param k,
  2 <= len code -> check_standard decode verify code param <> Panic k.
Proof. intros d v code param k H. exact (np_no_panic _ (check_standard_np d v code param H) k). Qed.
Print Assumptions C03_check_standard_no_panic.

(* RunPrograms: any list of program hashes, any list of programs (any code,
   any parameter, empty included), no guard at all. *)
Theorem C03_run_programs_no_panic : forall decode verify schnorr hashes progs k,
  run_programs decode verify schnorr hashes progs <> Panic k.
Proof. intros d v s hashes progs. exact (np_no_panic _ (run_programs_np d v s hashes progs)). Qed.
Print Assumptions C03_run_programs_no_panic.

(* Coinbase: the sanity check never panics; the context check never panics
   on a coinbase with at least two outputs, which is what the sanity check
   guarantees when it accepts. *)
Theorem C03_coinbase_sanity_no_panic : forall pre outs f1 f2 k,
  coinbase_sanity pre outs f1 f2 <> Panic k.
Proof. intros pre outs f1 f2. exact (np_no_panic _ (coinbase_sanity_np pre outs f1 f2)). Qed.
Print Assumptions C03_coinbase_sanity_no_panic.

Theorem C03_coinbase_context_no_panic :
  forall pre f1 f2 regime pow outs rcr rmm rdpos expected nrewards k,
  coinbase_sanity pre outs f1 f2 = Ok true ->
  coinbase_context regime pow outs rcr rmm rdpos expected nrewards <> Panic k.
Proof.
  intros pre f1 f2 regime pow outs rcr rmm rdpos expected nrewards k H.
  exact (np_no_panic _ (coinbase_context_np regime pow outs rcr rmm rdpos expected nrewards
                          (coinbase_sanity_len pre outs f1 f2 H)) k).
Qed.
Print Assumptions C03_coinbase_context_no_panic.

(* Schnorr withdraw: any arbiter list, any list of uint8 signer indexes,
   whether or not duplicate validation is enabled at this height. *)
Theorem C03_schnorr_withdraw_signers_no_panic : forall validate arbiters signers k,
  Forall (fun s => 0 <= s) signers ->
  schnorr_withdraw_signers validate arbiters signers <> Panic k.
Proof. intros v a s k H. exact (np_no_panic _ (schnorr_withdraw_signers_np v a s H) k). Qed.
Print Assumptions C03_schnorr_withdraw_signers_no_panic.

(* The whole Schnorr withdraw check: signer loop (arbiter keys that are not
   curve points rejected), aggregate key, every program compared with the
   redeem script. *)
Theorem C03_schnorr_withdraw_no_panic : forall validate arbiters signers agg_ok redeem codes k,
  Forall (fun s => 0 <= s) signers ->
  schnorr_withdraw validate arbiters signers agg_ok redeem codes <> Panic k.
Proof. intros v a s g r c k H. exact (np_no_panic _ (schnorr_withdraw_np v a s g r c H) k). Qed.
Print Assumptions C03_schnorr_withdraw_no_panic.

(* TransferCrossChainAsset payload V0: any addresses / amounts / uint64
   output indexes (2^63 and above included) / outputs. *)
Theorem C03_crosschain_v0_no_panic : forall is_payload addrs idxs amounts outs minfee total_in k,
  Forall (fun i => 0 <= i) idxs ->
  crosschain_v0 is_payload addrs idxs amounts outs minfee total_in <> Panic k.
Proof. intros p a i m o f t k H. exact (np_no_panic _ (crosschain_v0_np p a i m o f t H) k). Qed.
Print Assumptions C03_crosschain_v0_no_panic.

(* ReturnSideChainDepositCoin: any return output and any looked-up deposit
   transaction (of any type, with or without inputs) that was valid when it
   was stored ([deposit_wf]: its first input spends an existing output, its V0
   output indexes are within its outputs). *)
Theorem C03_return_sidechain_deposit_no_panic :
  forall out_ph out_value fee dup dep addr_ok side k,
  (forall tx, dep = Some tx -> deposit_wf tx) ->
  return_deposit_output out_ph out_value fee dup dep addr_ok side <> Panic k.
Proof.
  intros p v f d dep a s k H.
  exact (np_no_panic _ (return_deposit_output_np p v f d dep a s H) k).
Qed.
Print Assumptions C03_return_sidechain_deposit_no_panic.

(* CheckInactiveArbitrators / CheckRevertToDPOSTransaction, program part: any
   number of programs (none included), any code, any arbiter set. *)
Theorem C03_arbiter_signatures_no_panic : forall counts_ok member codes k,
  arbiter_signatures counts_ok member codes <> Panic k.
Proof. intros c m codes. exact (np_no_panic _ (arbiter_signatures_np c m codes)). Qed.
Print Assumptions C03_arbiter_signatures_no_panic.

(* Transaction level: CheckAttributeProgram (any programs), then - only when
   it accepted, i.e. under exactly the guard it establishes: at least one
   program, every code >= 23 bytes - RunPrograms, the ReturnDepositCoin
   producer-key slicing and the RegisterProducer code checks. *)
Theorem C03_validate_tx_no_panic :
  forall decode verify schnorr allowed ps hashes progs known version sigok owner k,
  validate_tx_programs decode verify schnorr allowed ps hashes progs known version sigok owner <> Panic k.
Proof.
  intros d v s allowed ps hashes progs known version sigok owner.
  exact (np_no_panic _ (validate_tx_programs_np d v s allowed ps hashes progs known version sigok owner)).
Qed.
Print Assumptions C03_validate_tx_no_panic.

(* Block level: AuxPow.Check, the coinbase sanity check and - only when both
   accepted - the coinbase context check. *)
Theorem C03_validate_block_no_panic :
  forall H cbhash cbbranch parindex hdrroot auxhash auxbranch auxindex txin chainID
         pre outs f1 f2 regime pow rcr rmm rdpos expected nrewards k,
  validate_block_header_coinbase H cbhash cbbranch parindex hdrroot auxhash auxbranch auxindex
    txin chainID pre outs f1 f2 regime pow rcr rmm rdpos expected nrewards <> Panic k.
Proof.
  intros H cbhash cbbranch parindex hdrroot auxhash auxbranch auxindex txin chainID
         pre outs f1 f2 regime pow rcr rmm rdpos expected nrewards.
  exact (np_no_panic _ (validate_block_header_coinbase_np H cbhash cbbranch parindex hdrroot auxhash
                          auxbranch auxindex txin chainID pre outs f1 f2 regime pow rcr rmm rdpos
                          expected nrewards)).
Qed.
Print Assumptions C03_validate_block_no_panic.

(* Non-vacuity.  The models do detect panics: the same operations panic
   outside the guards (so [<> Panic] is not true by construction), the
   repaired witnesses evaluate to a rejection, and the accept paths exist. *)
Definition key33 : list Z := 2 :: repeat 7 32.
Definition ms_witness : list Z := [81; 33] ++ key33 ++ [33] ++ key33 ++ [82].
Definition ms_good : list Z := ms_witness ++ [174].
Definition O' (v : Z) : output := Build_output v true true true true None.

Example C03_nonvacuous :
  (* the operations can panic *)
  idx [1; 2] 2 = Panic IndexOOR /\ slice [1; 2] 1 3 = Panic SliceOOR /\ gomod 5 0 = Panic DivZero /\
  (* outside their guards the guarded functions do panic *)
  check_standard (fun _ => true) (fun _ _ => true) [33] (repeat 0 65) = Panic SliceOOR /\
  coinbase_context 0 true [] 0 0 0 0 0 = Panic IndexOOR /\
  parse_public_keys [1; 2] = Panic SliceOOR /\
  (* the witnesses of the repaired defects are rejections now *)
  is_multisig ms_witness = Ok false /\
  expected_index 5 1224 32 = Ok (-1) /\
  auxpow_check (fun _ _ => 0) 7 [] 0 7 0 [] 0 [] 1224 = Ok false /\
  run_programs (fun _ => true) (fun _ _ => true) (fun _ _ => true) [75] [(true, [81; 33] ++ key33, [])] = Ok false /\
  run_programs (fun _ => true) (fun _ _ => true) (fun _ _ => true) [18] [(true, [81], [])] = Ok false /\
  schnorr_withdraw_signers false [1; 1; 1] [3] = Ok false /\
  (* accept paths *)
  is_multisig ms_good = Ok true /\ get_code_type ms_good = Ok 1 /\
  is_standard ([33] ++ key33 ++ [172]) = Ok true /\ is_schnorr ([81; 33] ++ key33) = Ok true /\
  expected_index 5 1224 3 = Ok 3 /\
  run_programs (fun _ => true) (fun _ _ => true) (fun _ _ => true) [33]
    [(true, [33] ++ key33 ++ [172], 64 :: repeat 1 64)] = Ok true /\
  coinbase_sanity false [O' 30; O' 35; O' 35] false false = Ok true /\
  coinbase_context 0 true [O' 30; O' 35; O' 35] 30 35 35 0 0 = Ok true /\
  schnorr_withdraw_signers true [1; 1; 1] [2; 0] = Ok true.
Proof. vm_compute. repeat split. Qed.

(* second group: the repaired witnesses (output index 2^63; a deposit
   transaction without inputs; an arbiter key that is not a curve point) are
   rejections, accept paths exist, [deposit_wf] is satisfiable, and without
   it the lookup indexes do panic *)
Definition dep_ok : deposit_tx := Build_deposit_tx [(1, Some [5; 9])] 0 true [0] [(7, 100, true)].

Example C03_nonvacuous2 :
  crosschain_v0 true [1] [9223372036854775808] [5] [(75, 100)] 1 200 = Ok false /\
  crosschain_v0 true [1] [0] [5] [(75, 100)] 1 200 = Ok true /\
  return_deposit_output 9 90 10 false (Some (Build_deposit_tx [] 0 true [] [])) true 7 = Ok (Some false) /\
  return_deposit_output 9 90 10 false (Some dep_ok) true 7 = Ok None /\
  return_deposit_output 9 90 10 false (Some (Build_deposit_tx [(2, Some [5; 9])] 0 true [0] [])) true 7 = Panic IndexOOR /\
  arbiter_signatures (fun _ _ => true) (fun _ => true) [] = Ok false /\
  arbiter_signatures (fun _ _ => true) (fun _ => true) [[]] = Ok false /\
  arbiter_signatures (fun _ _ => true) (fun _ => true) [ms_good] = Ok true /\
  schnorr_withdraw false [1; 0; 1] [1] true [] [] = Ok false /\
  schnorr_withdraw true [1; 1; 1] [2; 0] true ([81; 33] ++ key33) [[81; 33] ++ key33] = Ok true /\
  schnorr_withdraw true [1; 1; 1] [2; 0] true ([81; 33] ++ key33) [[33] ++ key33 ++ [172]] = Ok false.
Proof. vm_compute. repeat split. Qed.

Example C03_deposit_wf_satisfiable : deposit_wf dep_ok.
Proof.
  split.
  - intros i0 refouts H0 Hs. vm_compute in H0. inversion H0; subst. cbn in Hs. inversion Hs; subst.
    vm_compute. split; [discriminate|reflexivity].
  - repeat constructor; vm_compute; try discriminate; reflexivity.
Qed.
