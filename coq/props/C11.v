(* C11 — Issuance follows the schedule.
   Property theorems only; each is closed by [exact] of a lemma from
   proof/C11_Issuance.v and followed by Print Assumptions.  The model uses
   lib/GoFloat.v, so Print Assumptions lists Coq's primitive float / int63
   operations (they are Coq's own primitives, not axioms of this development). *)
From Coq Require Import ZArith Bool List.
From ELA Require Import lib.GoFloat model.C11_Issuance proof.C11_Issuance.
(* not used below; required so that building this file also rebuilds the
   correspondence checker the case shards load *)
From ELA Require corr.C11_corr.
Import ListNotations.
Local Open Scope Z_scope.

(* The subsidy GetBlockReward returns is never negative: for every
   configuration and height once the new schedule applies; before it, it is the
   configured constant RewardPerBlock. *)
Theorem C11_reward_nonneg : forall c h r,
  block_reward c h = Some r -> (h < new_h c -> 0 <= old_reward c) -> 0 <= r.
Proof. exact reward_nonneg. Qed.
Print Assumptions C11_reward_nonneg.

(* ... and it never increases with height once the new issuance schedule
   applies: all uint32 heights h1 <= h2 at or above NewELAIssuanceHeight, every
   configuration with a positive halving interval whose halving factor
   2 + (MaxUint32 - H) / I fits a uint32 (true of the three built-in networks,
   see C11_nonvacuous; false e.g. for H = 0, I = 1, see C11_factor_wraps). *)
Theorem C11_reward_antitone : forall c h1 h2 r1 r2,
  cfg_okb c = true -> 0 <= h1 -> new_h c <= h1 -> h1 <= h2 -> h2 <= max_u32 ->
  block_reward c h1 = Some r1 -> block_reward c h2 = Some r2 -> r2 <= r1.
Proof. exact reward_antitone. Qed.
Print Assumptions C11_reward_antitone.

(* GetBlockReward does not panic when the interval is positive. *)
Theorem C11_reward_defined : forall c h, 0 < halv_int c -> exists r, block_reward c h = Some r.
Proof. exact block_reward_defined. Qed.
Print Assumptions C11_reward_defined.

(* After DPoS v2 activation an accepted coinbase has exactly three outputs:
   CR share = Ceil(0.3 total), miner = total - CR share - Ceil(0.35 total),
   third output = the dposReward handed to the check, CR and DPoS outputs at
   the fixed addresses (destroy address in POW mode). *)
Theorem C11_v2_accept_shape : forall e h outs fee dpos,
  v2_regime e h = true -> coinbase_check e h outs fee dpos = Accept ->
  exists r, block_reward (e_cfg e) h = Some r /\ v2_shape e (add64 fee r) dpos outs.
Proof. exact v2_accept_shape. Qed.
Print Assumptions C11_v2_accept_shape.

(* If moreover the DPoS share was computed by GetBlockDPOSReward from the same
   fee total (cached tx.Fee() sum = recomputed GetTxFee sum), the coinbase pays
   exactly subsidy + fees: always modulo 2^64, and as integers with the fixed
   shares when the split does not wrap int64 (split_fits, an explicit
   computable condition on fee and subsidy). *)
Theorem C11_v2_coinbase_exact : forall e h outs fee cached dpos,
  v2_regime e h = true ->
  coinbase_check e h outs fee dpos = Accept ->
  block_dpos_reward (e_cfg e) h cached = Some dpos ->
  cached = fee ->
  exists r o0 o1 o2,
    block_reward (e_cfg e) h = Some r /\ outs = [o0; o1; o2] /\
    wrap64 (o_val o0 + o_val o1 + o_val o2) = wrap64 (fee + r) /\
    (split_fits fee r = true ->
       o_val o0 + o_val o1 + o_val o2 = r + fee /\
       o_val o0 = ceil30 (r + fee) /\ o_val o2 = ceil35 (r + fee)) /\
    (if e_pow e then o_addr o0 = e_destroy e /\ o_addr o2 = e_destroy e
     else o_addr o0 = e_cr_assets e /\ o_addr o2 = e_dpos_acc e).
Proof. exact v2_coinbase_exact. Qed.
Print Assumptions C11_v2_coinbase_exact.

(* The hypothesis cached = fee is needed: the check itself accepts a coinbase
   that pays 2.82207001 ELA where subsidy + fees = 3.52207001 ELA when the
   DPoS share was computed from a cached fee of 0 (block replayed on the Go
   code by the harness; the path that produced such a block is closed by the
   fix recorded in known_findings.jsonl). *)
Theorem C11_v2_coinbase_exact_refuted_without_fee_cache :
  exists e h outs fee cached dpos r,
    v2_regime e h = true /\ coinbase_check e h outs fee dpos = Accept /\
    block_dpos_reward (e_cfg e) h cached = Some dpos /\ cached <> fee /\
    block_reward (e_cfg e) h = Some r /\ split_fits fee r = true /\
    sum_vals outs <> r + fee.
Proof. exact v2_coinbase_exact_needs_fee_cache. Qed.
Print Assumptions C11_v2_coinbase_exact_refuted_without_fee_cache.

(* The coinbase AssignCoinbaseTxRewards builds after DPoS v2 activation is
   accepted by the check (non-zero DPoS share). *)
Theorem C11_assign_accepted : forall e h o0 o1 fee r outs',
  v2_regime e h = true -> block_reward (e_cfg e) h = Some r ->
  0 < ceil35 (add64 fee r) ->
  (e_pow e = false -> o_addr o0 = e_cr_assets e) ->
  assign_coinbase e h [o0; o1] (add64 fee r) = Some outs' ->
  coinbase_check e h outs' fee (ceil35 (add64 fee r)) = Accept.
Proof. exact assign_accepted. Qed.
Print Assumptions C11_assign_accepted.

(* Non-vacuity. The three built-in networks satisfy cfg_okb; mainnet's subsidy
   halves from 3.04414003 to 1.52207001 ELA at height 1051200; a DPoS v2
   coinbase for subsidy 1.52207001 + fee 0.0001 ELA is accepted and fits. *)
Definition mainnet := {| new_h := 919800; halv_h := 1051200; halv_int := 1051200; old_reward := 502283105 |}.
Definition testnet := {| new_h := 774920; halv_h := 877880; halv_int := 1051200; old_reward := 502283105 |}.
Definition regnet := {| new_h := 691740; halv_h := 801240; halv_int := 1051200; old_reward := 502283105 |}.

Example C11_nonvacuous :
  cfg_okb mainnet = true /\ cfg_okb testnet = true /\ cfg_okb regnet = true /\
  block_reward mainnet 919799 = Some 502283105 /\
  block_reward mainnet 919800 = Some 304414003 /\
  block_reward mainnet 1051199 = Some 304414003 /\
  block_reward mainnet 1051200 = Some 152207001 /\
  block_reward mainnet 4294967295 = Some 0 /\
  (let e := {| e_cfg := mainnet; e_active := 1405000; e_public_dpos := 402680; e_pow := false;
               e_destroy := 1; e_cr_assets := 2; e_dpos_acc := 3; e_foundation := 4;
               e_final_change := 0; e_round := [] |} in
   v2_regime e 1500000 = true /\
   coinbase_check e 1500000
     [ {| o_val := 45665101; o_addr := 2 |}; {| o_val := 53275949; o_addr := 5 |}; {| o_val := 53275951; o_addr := 3 |} ]
     10000 53275951 = Accept /\
   block_dpos_reward mainnet 1500000 10000 = Some 53275951 /\
   split_fits 10000 152207001 = true).
Proof. vm_compute. repeat split; reflexivity. Qed.

(* The side condition of C11_reward_antitone is needed: with H = 0 and I = 1
   the uint32 factor wraps at the last height and the full subsidy returns. *)
Example C11_factor_wraps :
  let c := {| new_h := 0; halv_h := 0; halv_int := 1; old_reward := 0 |} in
  cfg_okb c = false /\ block_reward c 4294967294 = Some 0 /\ block_reward c 4294967295 = Some 304414003.
Proof. vm_compute. repeat split; reflexivity. Qed.

(* TEST (not a proof of the general statement): the split does not wrap int64
   for fee totals 2^k - 1, 2^k, 2^k + 1, k = 0..61, on top of the mainnet
   subsidies 304414003 and 0. *)
Example C11_split_fits_sweep :
  forallb (fun k => forallb (fun d => forallb (fun r => split_fits (2 ^ Z.of_nat k + d) r)
     [0; 304414003]) [-1; 0; 1]) (seq 0 62) = true.
Proof. vm_compute. reflexivity. Qed.
