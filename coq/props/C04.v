(* C04 — Wire encoding round-trips and transaction identity ignores signatures.
   Property theorems only; each closed by [exact] of a lemma of
   proof/C04_Roundtrip.v / proof/C04_Tx.v, followed by Print Assumptions.

   encode/decode are the serializer/decoder of a descriptor (model/C02_Fmt.v);
   tx/header/block are typed records over the descriptors of
   model/C02_Descr.v (model/C04_Codec.v).  The hash is H (H (unsigned bytes))
   for an arbitrary H (the theorems hold for every hash function). *)
From Coq Require Import NArith List Bool.
From ELA Require Import lib.GoSem lib.Bytes lib.VarInt model.C02_Fmt model.C02_Descr model.C04_Codec
  model.C04_Payloads model.C04_Proposal proof.C02_Safe proof.C04_Roundtrip proof.C04_Tx proof.C04_Payloads proof.C04_Proposal.
From ELA Require corr.C04_corr.
Import ListNotations.
Local Open Scope N_scope.

(* Encoding then decoding any well-typed value of any well-formed descriptor
   (in any context of enclosing discriminants, followed by any bytes) yields
   that value and leaves exactly the trailing bytes. *)
Theorem C04_roundtrip_dsl : forall f, wf_alloc f = true -> forall c v rest,
  wt f c v = true -> fst (decode f c (encode f c v ++ rest)) = Ok (v, rest).
Proof. exact roundtrip. Qed.
Print Assumptions C04_roundtrip_dsl.

(* Whatever decodes (from bytes < 256) is well typed: it re-encodes, and the
   re-encoding decodes to the same value. For all registered descriptors:
   every payload type/version, output payload, header, block, message, except
   dpos ConsensusStatus / ResponseConsensus (ids 400, 421), whose decoder
   returns success after a swallowed count-read error. *)
Theorem C04_reencode_stable_registry : forall id, In id format_ids -> id <> 400 -> id <> 421 ->
  forall c bs v rest m,
  bytes_ok bs = true -> decode (fmt_of id) c bs = (Ok (v, rest), m) ->
  wt (fmt_of id) c v = true /\
  fst (decode (fmt_of id) c (encode (fmt_of id) c v)) = Ok (v, []).
Proof. exact registry_stable. Qed.
Print Assumptions C04_reencode_stable_registry.

(* Transactions: decode (encode t) = t for every well-formed transaction value
   (all types, payload versions, attribute/input/output/program lists). *)
Theorem C04_decode_encode_tx : forall t rest, wf_tx t = true ->
  decode_tx (encode_tx t ++ rest) = Ok (t, rest).
Proof. exact decode_encode_tx. Qed.
Print Assumptions C04_decode_encode_tx.

(* Any transaction obtained by decoding is well formed and re-encodes to bytes
   that decode to the same transaction ... *)
Theorem C04_decoded_tx_stable : forall bs t rest, bytes_ok bs = true ->
  decode_tx bs = Ok (t, rest) ->
  wf_tx t = true /\ decode_tx (encode_tx t) = Ok (t, []).
Proof. exact decoded_tx_stable. Qed.
Print Assumptions C04_decoded_tx_stable.

(* ... with the same hash, for every hash function H. *)
Theorem C04_redecoded_same_hash : forall bs t rest, bytes_ok bs = true ->
  decode_tx bs = Ok (t, rest) ->
  forall t' r', decode_tx (encode_tx t) = Ok (t', r') ->
  t' = t /\ forall H, tx_hash H t' = tx_hash H t.
Proof. exact redecoded_same_hash. Qed.
Print Assumptions C04_redecoded_same_hash.

(* The hash does not depend on the programs: the full serialization is the
   unsigned serialization followed by the programs, and the unsigned
   serialization does not read them. *)
Theorem C04_hash_ignores_programs : forall (H : bytes -> bytes) t ps,
  tx_hash H (set_programs t ps) = tx_hash H t.
Proof. exact hash_ignores_programs. Qed.
Print Assumptions C04_hash_ignores_programs.

Theorem C04_serialization_splits : forall t ps,
  encode_tx (set_programs t ps) = encode_unsigned t ++ encode_programs ps.
Proof. exact serialization_splits. Qed.
Print Assumptions C04_serialization_splits.

(* Headers and blocks (arbitrary transaction lists). *)
Theorem C04_decode_encode_header : forall h rest, wf_header h = true ->
  decode_header (encode_header h ++ rest) = Ok (h, rest).
Proof. exact decode_encode_header. Qed.
Print Assumptions C04_decode_encode_header.

Theorem C04_decode_encode_block : forall b rest, wf_block b = true ->
  decode_block (encode_block b ++ rest) = Ok (b, rest).
Proof. exact decode_encode_block. Qed.
Print Assumptions C04_decode_encode_block.

Theorem C04_decoded_block_stable : forall bs b rest, bytes_ok bs = true ->
  decode_block bs = Ok (b, rest) ->
  wf_block b = true /\ decode_block (encode_block b) = Ok (b, []).
Proof. exact decoded_block_stable. Qed.
Print Assumptions C04_decoded_block_stable.

(* Typed payloads.  Any record type with a left-invertible conversion to the
   values of a well-formed descriptor round-trips ... *)
Theorem C04_typed_roundtrip : forall (A : Type) (f : fmt) (c : ctx) (to : A -> value) (of : value -> option A),
  wf_alloc f = true -> (forall a, of (to a) = Some a) ->
  forall a rest, wt f c (to a) = true ->
  lift of (decode f c (encode f c (to a) ++ rest)) = Ok (a, rest).
Proof. exact typed_roundtrip. Qed.
Print Assumptions C04_typed_roundtrip.

(* ... instantiated for the records of model/C04_Payloads.v: ProducerInfo
   (register/update producer, every payload version), CRInfo, WithdrawFromSideChain
   (its three shapes), TransferCrossChainAsset, the vote output and the Voting payload. *)
Theorem C04_producer_info_roundtrip : forall ty pv p rest, (ty = 9 \/ ty = 11) ->
  wt_payload ty pv (producer_info_v p) = true ->
  dec_payload ty pv producer_info_of (enc_payload ty pv (producer_info_v p) ++ rest) = Ok (p, rest).
Proof. exact producer_info_roundtrip. Qed.
Print Assumptions C04_producer_info_roundtrip.

Theorem C04_cr_info_roundtrip : forall ty pv p rest, (ty = 33 \/ ty = 35) ->
  wt_payload ty pv (cr_info_v p) = true ->
  dec_payload ty pv cr_info_of (enc_payload ty pv (cr_info_v p) ++ rest) = Ok (p, rest).
Proof. exact cr_info_roundtrip. Qed.
Print Assumptions C04_cr_info_roundtrip.

Theorem C04_withdraw_roundtrip : forall pv w rest,
  wt_payload 7 pv (withdraw_v w) = true ->
  dec_payload 7 pv withdraw_of (enc_payload 7 pv (withdraw_v w) ++ rest) = Ok (w, rest).
Proof. exact withdraw_roundtrip. Qed.
Print Assumptions C04_withdraw_roundtrip.

Theorem C04_cross_chain_roundtrip : forall pv c rest,
  wt_payload 8 pv (cross_chain_v c) = true ->
  dec_payload 8 pv cross_chain_of (enc_payload 8 pv (cross_chain_v c) ++ rest) = Ok (c, rest).
Proof. exact cross_chain_roundtrip. Qed.
Print Assumptions C04_cross_chain_roundtrip.

Theorem C04_vote_output_roundtrip : forall o rest,
  wt voteoutput_fmt [] (vote_output_v o) = true ->
  lift vote_output_of (decode voteoutput_fmt [] (encode voteoutput_fmt [] (vote_output_v o) ++ rest)) = Ok (o, rest).
Proof. exact vote_output_roundtrip. Qed.
Print Assumptions C04_vote_output_roundtrip.

Theorem C04_voting_roundtrip : forall pv x rest,
  wt_payload 99 pv (voting_v x) = true ->
  (match x with VotingV0 _ => pv = 0 | VotingRenewal _ => pv <> 0 | VotingEmpty => True end) ->
  dec_payload 99 pv (voting_of pv) (enc_payload 99 pv (voting_v x) ++ rest) = Ok (x, rest).
Proof. exact voting_roundtrip. Qed.
Print Assumptions C04_voting_roundtrip.

(* payload.CRCProposal, all proposal types (normal/ELIP with budgets, change of
   proposal owner with NewRecipient / NewOwnerKey / NewOwnerSignature, close,
   secretary general, upgrade code, side-chain registration, reserve / receive
   custom id, custom id fee): the record's body must be the one its proposal
   type selects ([kind_ok]) and the value well typed for the payload version. *)
Theorem C04_proposal_roundtrip : forall pv p rest, kind_ok p = true ->
  wt_payload 37 pv (proposal_v p) = true ->
  dec_payload 37 pv proposal_of (enc_payload 37 pv (proposal_v p) ++ rest) = Ok (p, rest).
Proof. exact proposal_roundtrip. Qed.
Print Assumptions C04_proposal_roundtrip.

(* one well-formed proposal of each of the nine shapes, the first a
   ChangeProposalOwner with draft data under payload version 1 *)
Example C04_proposal_nonvacuous :
  forallb (fun x => kind_ok (snd x) && wt_payload 37 (fst x) (proposal_v (snd x))) sample_proposals = true.
Proof. exact proposal_samples. Qed.

(* non-vacuity of the typed payload theorems: concrete well-typed records *)
Example C04_payloads_nonvacuous :
  wt_payload 9 1 (producer_info_v (mkProducerInfo [2;1] [3;1] [97] [98] 7 [99] (Some 100) (Some [5;5]))) = true /\
  wt_payload 33 2 (cr_info_v (mkCRInfo None (repeat 1 21) (Some (repeat 2 21)) [97] [98] 3 None)) = true /\
  wt_payload 7 0 (withdraw_v (WithdrawV0 5 [97] [repeat 9 32])) = true /\
  wt_payload 7 2 (withdraw_v (WithdrawV2 [1; 2; 3])) = true /\
  wt_payload 8 0 (cross_chain_v (Some [([97], 0, 100)])) = true /\
  wt voteoutput_fmt [] (vote_output_v (mkVoteOutput 1 [(0, [([2;2], Some 10)])])) = true /\
  wt_payload 99 0 (voting_v (VotingV0 [(4, [([2;2], 10, 20)])])) = true /\
  wt_payload 99 1 (voting_v (VotingRenewal [(repeat 3 32, ([2;2], 10, 20))])) = true.
Proof. exact payload_samples. Qed.

(* Outside wf_tx: a transaction value with version 1..8 is serialized exactly
   like version 0 (the version byte is written only from 9 on), so it decodes
   to a different value.  No decoder produces such a value
   (C04_decoded_tx_stable gives version_ok). *)
Theorem C04_version_1_to_8_not_representable :
  version_ok ambiguous_tx = false /\
  encode_tx ambiguous_tx = encode_tx (mkTx 0 2 0 VUnit [] [] [] 0 []) /\
  decode_tx (encode_tx ambiguous_tx) = Ok (mkTx 0 2 0 VUnit [] [] [] 0 [], []).
Proof. exact version_type_ambiguity. Qed.
Print Assumptions C04_version_1_to_8_not_representable.

(* Non-vacuity: a concrete transaction satisfies wf_tx (128 bytes on the wire). *)
Example C04_nonvacuous : wf_tx sample_tx = true /\ length (encode_tx sample_tx) = 128%nat.
Proof. exact sample_tx_wf. Qed.
