(* C04 — Wire encoding round-trips and transaction identity ignores signatures.
   Property theorems only; each closed by [exact] of a lemma of
   proof/C04_Roundtrip.v / proof/C04_Tx.v, followed by Print Assumptions.

   encode/decode are the serializer/decoder of a descriptor (model/C02_Fmt.v);
   tx/header/block are typed records over the descriptors of
   model/C02_Descr.v (model/C04_Codec.v).  The hash is H (H (unsigned bytes))
   for an arbitrary H (the theorems hold for every hash function). *)
From Coq Require Import NArith List Bool.
From ELA Require Import lib.GoSem lib.Bytes lib.VarInt model.C02_Fmt model.C02_Descr model.C04_Codec
  proof.C02_Safe proof.C04_Roundtrip proof.C04_Tx.
From ELA Require corr.C04_corr.
Import ListNotations.
Local Open Scope N_scope.

(* Encoding then decoding any well-typed value of any well-formed descriptor
   (in any context of enclosing discriminants, followed by any bytes) yields
   that value and leaves exactly the trailing bytes. *)
Theorem C04_roundtrip_dsl : forall f, wf_alloc f = true -> forall c v rest,
  wt f c v = true -> fst (decode f c (encode f c v ++ rest)) = Ok (v, rest).
Proof. exact roundtrip. Qed.
Print Assumptions C04_roundtrip_dsl.

(* Whatever decodes (from bytes < 256) is well typed: it re-encodes, and the
   re-encoding decodes to the same value. For all registered descriptors:
   every payload type/version, output payload, header, block, message, except
   dpos ConsensusStatus / ResponseConsensus (ids 400, 421), whose decoder
   returns success after a swallowed count-read error. *)
Theorem C04_reencode_stable_registry : forall id, In id format_ids -> id <> 400 -> id <> 421 ->
  forall c bs v rest m,
  bytes_ok bs = true -> decode (fmt_of id) c bs = (Ok (v, rest), m) ->
  wt (fmt_of id) c v = true /\
  fst (decode (fmt_of id) c (encode (fmt_of id) c v)) = Ok (v, []).
Proof. exact registry_stable. Qed.
Print Assumptions C04_reencode_stable_registry.

(* Transactions: decode (encode t) = t for every well-formed transaction value
   (all types, payload versions, attribute/input/output/program lists). *)
Theorem C04_decode_encode_tx : forall t rest, wf_tx t = true ->
  decode_tx (encode_tx t ++ rest) = Ok (t, rest).
Proof. exact decode_encode_tx. Qed.
Print Assumptions C04_decode_encode_tx.

(* Any transaction obtained by decoding is well formed and re-encodes to bytes
   that decode to the same transaction ... *)
Theorem C04_decoded_tx_stable : forall bs t rest, bytes_ok bs = true ->
  decode_tx bs = Ok (t, rest) ->
  wf_tx t = true /\ decode_tx (encode_tx t) = Ok (t, []).
Proof. exact decoded_tx_stable. Qed.
Print Assumptions C04_decoded_tx_stable.

(* ... with the same hash, for every hash function H. *)
Theorem C04_redecoded_same_hash : forall bs t rest, bytes_ok bs = true ->
  decode_tx bs = Ok (t, rest) ->
  forall t' r', decode_tx (encode_tx t) = Ok (t', r') ->
  t' = t /\ forall H, tx_hash H t' = tx_hash H t.
Proof. exact redecoded_same_hash. Qed.
Print Assumptions C04_redecoded_same_hash.

(* The hash does not depend on the programs: the full serialization is the
   unsigned serialization followed by the programs, and the unsigned
   serialization does not read them. *)
Theorem C04_hash_ignores_programs : forall (H : bytes -> bytes) t ps,
  tx_hash H (set_programs t ps) = tx_hash H t.
Proof. exact hash_ignores_programs. Qed.
Print Assumptions C04_hash_ignores_programs.

Theorem C04_serialization_splits : forall t ps,
  encode_tx (set_programs t ps) = encode_unsigned t ++ encode_programs ps.
Proof. exact serialization_splits. Qed.
Print Assumptions C04_serialization_splits.

(* Headers and blocks (arbitrary transaction lists). *)
Theorem C04_decode_encode_header : forall h rest, wf_header h = true ->
  decode_header (encode_header h ++ rest) = Ok (h, rest).
Proof. exact decode_encode_header. Qed.
Print Assumptions C04_decode_encode_header.

Theorem C04_decode_encode_block : forall b rest, wf_block b = true ->
  decode_block (encode_block b ++ rest) = Ok (b, rest).
Proof. exact decode_encode_block. Qed.
Print Assumptions C04_decode_encode_block.

Theorem C04_decoded_block_stable : forall bs b rest, bytes_ok bs = true ->
  decode_block bs = Ok (b, rest) ->
  wf_block b = true /\ decode_block (encode_block b) = Ok (b, []).
Proof. exact decoded_block_stable. Qed.
Print Assumptions C04_decoded_block_stable.

(* Outside wf_tx: a transaction value with version 1..8 is serialized exactly
   like version 0 (the version byte is written only from 9 on), so it decodes
   to a different value.  No decoder produces such a value
   (C04_decoded_tx_stable gives version_ok). *)
Theorem C04_version_1_to_8_not_representable :
  version_ok ambiguous_tx = false /\
  encode_tx ambiguous_tx = encode_tx (mkTx 0 2 0 VUnit [] [] [] 0 []) /\
  decode_tx (encode_tx ambiguous_tx) = Ok (mkTx 0 2 0 VUnit [] [] [] 0 [], []).
Proof. exact version_type_ambiguity. Qed.
Print Assumptions C04_version_1_to_8_not_representable.

(* Non-vacuity: a concrete transaction satisfies wf_tx (128 bytes on the wire). *)
Example C04_nonvacuous : wf_tx sample_tx = true /\ length (encode_tx sample_tx) = 128%nat.
Proof. exact sample_tx_wf. Qed.
