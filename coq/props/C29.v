(* C29 — Proposal spending stays within approved budgets.
   Property theorems only; each is closed by [exact] of a lemma from
   proof/C29_Thm.v and followed by Print Assumptions.  They hold for every
   configuration C, every initial committee amounts, every sequence of blocks
   (each block a voter-reject threshold and any list of candidate
   transactions) and every order [sortf] in which a block's transactions are
   processed, as long as it is a permutation (the order SortTransactions
   produces, [go_sort], is one: C29_go_sort_perm).
   [E pid (paid S)] is the list of (stage, amount) entries of all payments made
   for proposal pid so far (ghost log of accepted withdrawals). *)
From Coq Require Import ZArith Bool List Permutation.
From ELA Require Import model.C29_Budget proof.C29_Budget proof.C29_Inv proof.C29_Thm proof.C29_Acc.
Import ListNotations.
Local Open Scope Z_scope.

(* The total withdrawn for a proposal never exceeds the sum of its budget stages. *)
Theorem C29_withdrawn_le_budget : forall C sortf, (forall l, Permutation l (sortf l)) ->
  forall stage used0 comm h0 blocks pid p,
  mget pid (props (run C sortf (init stage used0 comm h0) blocks)) = Some p ->
  msum (E pid (paid (run C sortf (init stage used0 comm h0) blocks))) <= total (p_budgets p).
Proof. exact withdrawn_le_budget. Qed.
Print Assumptions C29_withdrawn_le_budget.

(* Each stage is withdrawn at most once: over all payments ever made for a
   proposal, no stage occurs twice. *)
Theorem C29_stage_once : forall C sortf, (forall l, Permutation l (sortf l)) ->
  forall stage used0 comm h0 blocks pid,
  NoDup (keys (E pid (paid (run C sortf (init stage used0 comm h0) blocks)))).
Proof. exact stage_once. Qed.
Print Assumptions C29_stage_once.

(* Only after it has become withdrawable: every payment a block makes pays
   exactly the stages that were in the proposal's withdrawable map and not in
   its withdrawn map in the state before that block. *)
Theorem C29_only_after_withdrawable : forall C sortf S blk e,
  In e (skipn (length (paid S)) (paid (step C sortf S blk))) ->
  exists p, mget (pay_pid e) (props S) = Some p /\ pay_stages e = outstanding p /\
            incl (pay_stages e) (p_wable p) /\
            (forall k, In k (keys (pay_stages e)) -> ~ In k (keys (p_wn p))).
Proof. exact only_after_withdrawable. Qed.
Print Assumptions C29_only_after_withdrawable.

(* The committee never commits more than its available funds: the amount
   committed to proposals (CRCCommitteeUsedAmount) never exceeds the stage
   amount (CRCCurrentStageAmount) ... *)
Theorem C29_committed_le_available : forall C sortf, (forall l, Permutation l (sortf l)) ->
  forall stage used0 comm h0 blocks, used0 <= stage ->
  used (run C sortf (init stage used0 comm h0) blocks) <=
  stage_amt (run C sortf (init stage used0 comm h0) blocks).
Proof. exact committed_le_available. Qed.
Print Assumptions C29_committed_le_available.

(* ... and the registrations accepted in one block fit together into what is
   left (the in-block / mempool proposalsUsedAmount). *)
Theorem C29_registrations_fit : forall C S b, block_ok C S b = true ->
  reg_total b = 0 \/ used S + reg_total b <= stage_amt S.
Proof. exact registration_fits. Qed.
Print Assumptions C29_registrations_fit.

Theorem C29_go_sort_perm : forall l, Permutation l (go_sort l).
Proof. exact go_sort_perm. Qed.
Print Assumptions C29_go_sort_perm.

(* Non-vacuity: a proposal with three stages is registered, approved, its
   imprest is withdrawn in the same block as a progress tracking of stage 1,
   then stage 1 is withdrawn: two payments, stages 0 and 1, 300000 of 600000;
   a second withdrawal of the same proposal in one block and a registration
   that does not fit are rejected. *)
Definition ex_cfg := Build_cfg true 2 2 2 128 10000 3.
Definition ex_bs := [Build_budget 0 0 100000; Build_budget 1 1 200000; Build_budget 2 2 300000].
Definition ex_blocks : list (Z * list tx) :=
  [(100, [TReg 1 ex_bs]); (100, [TReview 1 0 0; TReview 1 1 0]); (100, []); (100, []); (100, []);
   (100, [TTrack 1 1 1; TWithdraw 1 100000]); (100, [TWithdraw 1 200000])].
Definition ex_S := run ex_cfg go_sort (init 1000000000 0 0 1000) ex_blocks.
Example C29_nonvacuous :
  E 1 (paid ex_S) = [(0, 100000); (1, 200000)] /\ used ex_S = 600000 /\
  option_map p_status (mget 1 (props ex_S)) = Some VoterAgreed /\
  block_ok ex_cfg ex_S [TTrack 1 1 2; TWithdraw 1 0] = false /\
  block_ok ex_cfg (run ex_cfg go_sort (init 1000000000 0 0 1000) (firstn 5 ex_blocks))
     [TWithdraw 1 100000; TWithdraw 1 100000] = false /\
  block_ok ex_cfg (run ex_cfg go_sort (init 1000000000 0 0 1000) (firstn 5 ex_blocks))
     [TWithdraw 1 100000] = true /\
  block_ok ex_cfg (init 1000000 900000 0 1000) [TReg 1 [Build_budget 2 1 60000]; TReg 2 [Build_budget 2 1 60000]] = false /\
  block_ok ex_cfg (init 1000000 900000 0 1000) [TReg 1 [Build_budget 2 1 60000]] = true.
Proof. vm_compute. repeat split; reflexivity. Qed.

(* No double release: CRCCommitteeUsedAmount never falls below the initial
   amount plus what the proposals still bind (every budget of a live proposal,
   the stages that became withdrawable of a terminated / finished one, nothing
   of a cancelled one) — the invariant the oracle signature C29:used-undercount
   tests on the implementation. *)
Theorem C29_used_covers_commitments : forall C sortf, (forall l, Permutation l (sortf l)) ->
  forall stage used0 comm h0 blocks,
  used0 + committed (run C sortf (init stage used0 comm h0) blocks) <=
  used (run C sortf (init stage used0 comm h0) blocks).
Proof. exact used_covers_commitments. Qed.
Print Assumptions C29_used_covers_commitments.

(* The reserve covers the outstanding withdrawable amounts: what owners of
   terminated / finished proposals can still withdraw plus every unpaid stage of
   live proposals is at most CRCCommitteeUsedAmount (C29:reserve-below-outstanding,
   within one council term). *)
Theorem C29_reserve_covers_outstanding : forall C sortf, (forall l, Permutation l (sortf l)) ->
  forall stage used0 comm h0 blocks, 0 <= used0 ->
  reserve (run C sortf (init stage used0 comm h0) blocks) <=
  used (run C sortf (init stage used0 comm h0) blocks).
Proof. exact reserve_covered. Qed.
Print Assumptions C29_reserve_covers_outstanding.

(* Non-vacuity: after the example run (imprest and stage 1 paid, final stage
   open) the proposal binds 600000 and 300000 must stay reserved; terminating
   it releases exactly the final stage, and a second termination in the same
   block — which would release it twice — is rejected. *)
Example C29_accounting_nonvacuous :
  committed ex_S = 600000 /\ reserve ex_S = 300000 /\ used ex_S = 600000 /\
  (let S' := step ex_cfg go_sort ex_S (100, [TTrack 1 3 0]) in
   committed S' = 300000 /\ used S' = 300000 /\ reserve S' = 0) /\
  block_ok ex_cfg ex_S [TTrack 1 3 0; TTrack 1 3 0] = false.
Proof. vm_compute. repeat split; reflexivity. Qed.
