(* C30 — irreversible blocks are never detached; the irreversible height never
   decreases while the node moves forward.
   Property theorems only (model: model/Chain.v, lemmas: proof/C30_Irr.v).
   [EvReorg l det att ok] in [evlog] records a reorganisation performed by
   connectBestChain: [l] = LastIrreversibleHeight just before it, [det] = the
   heights of the detached blocks.  The mode bits of every block are
   arbitrary, so the theorems cover all consensus-mode transitions. *)
From Coq Require Import ZArith NArith Bool List.
From ELA Require Import model.Chain proof.C12_Struct proof.C12_Chain proof.C30_Irr.
Import ListNotations.
Local Open Scope Z_scope.

(* IsIrreversible's arithmetic (uint32 subtraction included): when the guard
   lets a reorganisation of depth d pass at tip height cur, the fork point
   cur - d is strictly above LIH, so every detached height cur-d+1..cur is. *)
Theorem C30_guard_arith : forall p dpos l cur d,
  is_irreversible p dpos l cur d = false ->
  p_crc_only p < cur -> 0 <= d <= cur -> cur < 4294967296 -> l < cur - d.
Proof. exact guard_arith. Qed.
Print Assumptions C30_guard_arith.

(* Every reorganisation performed while processing blocks (any tree, any
   delivery order, any fork depth, any mode bits, failed switches included)
   detaches only heights strictly above the LIH recorded before it.
   Configuration assumption: CRCOnlyDPOSHeight < RevertToPOWStartHeight (true of
   mainnet 343400 < 932530, testnet, regnet); heights are uint32. *)
Theorem C30_no_detach_below_lih : forall p bs,
  p_crc_only p < p_revert_start p ->
  Forall (fun b => b_height b < 4294967296) bs ->
  forall l det att ok, In (EvReorg l det att ok) (evlog (run p init bs)) ->
  Forall (fun h => l < h) det.
Proof.
  intros p bs Hc Hb. destruct (run_CInv p bs Hc Hb) as [_ _ _ L]. exact L.
Qed.
Print Assumptions C30_no_detach_below_lih.

(* While the DPoS state only moves forward (consecutive heights, no rollback),
   from the initial state, LIH never decreases, for all mode / resume bits.
   Assumptions: RevertToPOWStartHeight >= 6 (otherwise height-6 wraps), heights
   below 2^32-1. *)
Theorem C30_lih_monotone_forward : forall p bits h,
  6 <= p_revert_start p -> 0 <= h -> h + Z.of_nat (length bits) + 1 < 4294967296 ->
  nondecr 0 (fwd p h bits irr0).
Proof.
  intros p bits h H1 H2 H3. apply (fwd_nondecr p bits h irr0); auto.
  split; simpl; [apply Z.le_refl|]. intros N; exfalso; apply N; reflexivity.
Qed.
Print Assumptions C30_lih_monotone_forward.

(* Rolling back the block just processed restores the irreversibility state
   exactly (LIH included: repair ff7a11db of C21's finding; before it the
   advancing branch left LIH untouched and the first block attached after a
   reorganisation LOWERED it, 4 -> 3 in the corpus history dpos-fork2).  So
   after the detach phase of a reorganisation the state is the one the node had
   at the fork point, and C30_lih_monotone_forward applies to the attach phase. *)
Theorem C30_rollback_restores : forall p H i dpos resume,
  desc (hist i) H -> irr_rollback H (try_update p (H + 1) dpos resume i) = i.
Proof. exact rollback_restores. Qed.
Print Assumptions C30_rollback_restores.

(* Non-vacuity: DPoS mode, LIH = 4 at height 10; a 2-deep fork at height 8 is
   performed (detached 10, 9 > 4), a 7-deep fork at height 3 is refused. *)
Example C30_nonvacuous :
  let p := mkParams 1 7 10 in
  let b := fun id par h => mkBlock id par (Z.of_N h) 1 true true true false in
  let mainc := [b 1 0 1; b 2 1 2; b 3 2 3; b 4 3 4; b 5 4 5; b 6 5 6; b 7 6 7; b 8 7 8; b 9 8 9; b 10 9 10]%N in
  let fork := [b 109 8 9; b 110 109 10; b 111 110 11]%N in
  let deep := [b 204 3 4; b 205 204 5; b 206 205 6; b 207 206 7; b 208 207 8; b 209 208 9; b 210 209 10; b 211 210 11]%N in
  lih (ir (run p init mainc)) = 4 /\
  evlog (run p init (mainc ++ fork)) = [EvReorg 4 [10; 9] [109; 110; 111]%N true] /\
  evlog (run p init (mainc ++ deep)) = [EvRefused 211 10 7 4] /\
  tip_id (run p init (mainc ++ deep)) = 10%N.
Proof. vm_compute. repeat split; reflexivity. Qed.
