(* C40 — Validation and state queries are safe under concurrency (partial:
   lock discipline of the translated method summaries; see notes/C40.md).
   Property theorems only. *)
From Coq Require Import List Bool NArith.
From ELA Require Import model.C40_Locks proof.C40_Locks.

(* If the checker accepts a list of method parts, then for every number of
   threads and every interleaving of entering/leaving parts under the
   reader/writer lock, no reachable state has two distinct threads inside
   parts with conflicting accesses (same location, at least one write). *)
Theorem C40_lockset_sound : forall ss,
  lockset_ok ss = true ->
  forall n st, reachable ss n st -> ~ race st.
Proof. exact lockset_sound. Qed.
Print Assumptions C40_lockset_sound.

(* A pair the checker rejects is a real schedule of the lock semantics: two
   threads reach a state in which both are inside the conflicting parts. *)
Theorem C40_lockset_complete : forall ss s1 s2,
  In s1 ss -> In s2 ss -> pair_ok s1 s2 = false ->
  exists st, reachable ss 2 st /\ race st.
Proof. exact lockset_complete. Qed.
Print Assumptions C40_lockset_complete.
