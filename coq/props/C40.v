(* C40 — Validation and state queries are safe under concurrency (partial:
   lock discipline of the translated method summaries; see notes/C40.md).
   Property theorems only.  gen/C40_summaries.v is regenerated from the Go
   source on every run. *)
From Coq Require Import List Bool NArith String.
From ELA Require Import model.C40_Locks model.C40_Known model.C40_Ckpt proof.C40_Locks proof.C40_Ckpt gen.C40_summaries proof.C40_Gen.
Import ListNotations.

(* If the checker accepts a list of method parts, then for every number of
   threads and every interleaving of entering/leaving parts under the
   reader/writer lock, no reachable state has two distinct threads inside
   parts with conflicting accesses (same location, at least one write). *)
Theorem C40_lockset_sound : forall ss,
  lockset_ok ss = true ->
  forall n st, reachable ss n st -> ~ race st.
Proof. exact lockset_sound. Qed.
Print Assumptions C40_lockset_sound.

(* A pair the checker rejects is a real schedule of the lock semantics: two
   threads reach a state in which both are inside the conflicting parts. *)
Theorem C40_lockset_complete : forall ss s1 s2,
  In s1 ss -> In s2 ss -> pair_ok s1 s2 = false ->
  exists st, reachable ss 2 st /\ race st.
Proof. exact lockset_complete. Qed.
Print Assumptions C40_lockset_complete.

(* The full statement — every exported method part of State, Committee and
   TxPool is kept apart from every conflicting part by the object's lock — is
   FALSE of the summaries of the current tree: some lock group is rejected
   (escaping pointers, writes under RLock; each recorded in
   known_findings.jsonl). *)
Theorem C40_lockset_refuted :
  existsb (fun g => negb (lockset_ok g)) groups = true.
Proof. exact lockset_refuted. Qed.
Print Assumptions C40_lockset_refuted.

(* ... with a concrete witness schedule in the lock semantics. *)
Theorem C40_race_witness :
  exists g st, In g groups /\ reachable g 2 st /\ race st.
Proof. exact race_witness. Qed.
Print Assumptions C40_race_witness.

(* Strongest true restriction: with the recorded findings (known_parts, by
   name) and the confirmed intentionally lock-free methods (allowed_parts)
   left out, every lock group of the regenerated summaries is accepted. *)
Theorem C40_lockset :
  forallb (fun g => lockset_ok (without (excluded_ids part_names allowed_ids) g)) groups = true.
Proof. exact lockset_partial. Qed.
Print Assumptions C40_lockset.

(* Hence: in every lock group, for any number of threads and any schedule,
   no two threads are ever simultaneously inside conflicting remaining parts. *)
Theorem C40_no_race_partial : forall g, In g groups ->
  forall n st, reachable (without (excluded_ids part_names allowed_ids) g) n st -> ~ race st.
Proof. exact no_race_partial. Qed.
Print Assumptions C40_no_race_partial.

(* Checkpoint manager (core/checkpoint): in the table regenerated from the
   source — call sites of Save/Replace/... with the provenance of the value
   handed over, and the state methods the file goroutine calls on it — no live
   registered checkpoint is ever read (Snapshot/Serialize/...) in the file
   goroutine: only results of Snapshot() cross to it.  The check is exact for
   the model (sound and complete). *)
Theorem C40_checkpoint_handoff : ~ off_path_live_read ckpt_table.
Proof. exact checkpoint_handoff. Qed.
Print Assumptions C40_checkpoint_handoff.

Theorem C40_checkpoint_handoff_exact : forall t,
  (ckpt_ok t = true -> ~ off_path_live_read t) /\ (ckpt_ok t = false -> off_path_live_read t).
Proof. intro t; split; [apply ckpt_sound | apply ckpt_complete]. Qed.
Print Assumptions C40_checkpoint_handoff_exact.

(* non-vacuity: some channel does carry live values, and some channel's
   handler does read state (the save path) *)
Example C40_checkpoint_table_nontrivial :
  existsb r_live ckpt_table = true /\ existsb (fun r => N.ltb 0 (r_state_calls r)) ckpt_table = true.
Proof. vm_compute. split; reflexivity. Qed.

(* Non-vacuity: three lock groups; each still has more than ten parts after
   the exclusion, including parts that write under the exclusive lock and
   parts that read under the shared lock; the exclusion removes fewer parts
   than remain. *)
Example C40_groups_nonempty :
  List.length groups = 3 /\
  forallb (fun g => Nat.ltb 10 (List.length (without (excluded_ids part_names allowed_ids) g))) groups = true /\
  forallb (fun g => existsb (fun s => match s_mode s with MW => existsb a_write (s_acc s) | _ => false end)
                            (without (excluded_ids part_names allowed_ids) g)) groups = true /\
  forallb (fun g => existsb (fun s => match s_mode s with MR => true | _ => false end)
                            (without (excluded_ids part_names allowed_ids) g)) groups = true.
Proof. vm_compute. repeat split. Qed.
