(* C24 — Consensus decisions do not depend on scheduling or process-local
   randomness.  Property theorems only. *)
From Coq Require Import ZArith NArith List Bool Sorting.Permutation Floats.
From ELA Require Import lib.Graph proof.Graph gen.C24_graph model.C24_Select proof.C24_Select proof.C24_Static.
Import ListNotations.

(* Static part, over the call/reference graph regenerated from the source on
   every run: whenever a function reachable from any function of a consensus
   package (dpos/state, cr/state, dpos/manager, blockchain, core/..., pow,
   mempool) references a math/rand function that uses the process-global
   source, or rand.NewSource with a clock/pid/random-derived seed, that
   reference is one of the [allowed] edges (treap priorities, peer-to-peer
   nonces, storage-engine sampling, the block producer's own nonce). *)
Theorem C24_static :
  forall s f b, In s C24_graph.sources -> reachable C24_graph.graph s f ->
    edge C24_graph.graph f b -> In b C24_graph.bad -> In (f, b) C24_graph.allowed.
Proof. exact static_ok. Qed.
Print Assumptions C24_static.

(* The repaired candidate choice is a function of chain data (hash of the
   previous block, producer counts, chain parameters): for every behaviour of
   the other goroutines on the global source and every state of that source. *)
Theorem C24_choice_function_of_chain_data :
  forall (G : Type) (g_seed : Z -> G -> G) (g_intn : Z -> G -> Z * G) (draw : Z -> Z -> Z)
         (b1 b2 : list other_op) (g1 g2 : G) hash8 voted unclaimed normal cands,
    fst (select_local G g_seed g_intn draw b1 g1 hash8 voted unclaimed normal cands)
    = fst (select_local G g_seed g_intn draw b2 g2 hash8 voted unclaimed normal cands).
Proof. exact select_local_schedule_independent. Qed.
Print Assumptions C24_choice_function_of_chain_data.

(* The choice as it was before the repair (rand.Seed; rand.Intn on the global
   source) depends on the schedule as soon as the generator's draw after one
   foreign draw differs from its first draw. *)
Theorem C24_global_source_is_schedule_dependent :
  forall (G : Type) (g_seed : Z -> G -> G) (g_intn : Z -> G -> Z * G) g bs voted unclaimed normal cands n k,
    cand_n voted unclaimed normal cands = Some n ->
    fst (g_intn n (g_seed (le64 bs) g)) <> fst (g_intn n (snd (g_intn k (g_seed (le64 bs) g)))) ->
    fst (select_global G g_seed g_intn [] g (Some bs) voted unclaimed normal cands)
    <> fst (select_global G g_seed g_intn [OIntn k] g (Some bs) voted unclaimed normal cands).
Proof. exact select_global_schedule_dependent. Qed.
Print Assumptions C24_global_source_is_schedule_dependent.

(* The producer ordering (producers with votes; votes descending, ties by node
   public key) does not depend on the order in which the producers come out of
   the activity map. *)
Theorem C24_producer_order_independent_of_insertion :
  forall l l' : list (Z * Z), Permutation l l' -> NoDup (map snd l) ->
    sorted_voted l = sorted_voted l'.
Proof. exact sorted_voted_insertion_independent. Qed.
Print Assumptions C24_producer_order_independent_of_insertion.

(* GetTotalDPoSV2VoteRights: a float64 running sum over two nested maps. For
   every rounding function that is exact on integers of magnitude <= 2^53 (as
   IEEE binary64 is), if the addends are integers with total magnitude <= 2^53
   then the result is the exact sum, whatever the order in which the two maps
   are walked. *)
Theorem C24_integer_float_sum_order_independent :
  forall (round : Z -> Z), (forall z, Z.abs z <= 2 ^ 53 -> round z = z)%Z ->
  forall stakes stakes' : list (list Z),
    Permutation (concat stakes) (concat stakes') ->
    (abs_sum (concat stakes) <= 2 ^ 53)%Z ->
    vote_rights round stakes = vote_rights round stakes'.
Proof. exact vote_rights_order_independent. Qed.
Print Assumptions C24_integer_float_sum_order_independent.

(* ... and, over the table regenerated from the source, every float64 running
   sum in a consensus function that ranges over a map has only integer-valued
   operands (conversions from integer types such as Fixed64, or sums of such):
   the hypothesis of the theorem above is what the code does. *)
Theorem C24_map_order_float_sums_integral :
  forall f ok, In (f, ok) C24_graph.float_map_sums -> ok = true.
Proof. exact float_map_sums_integral. Qed.
Print Assumptions C24_map_order_float_sums_integral.

(* Map iteration order never reaches an ordered consensus result: over the
   table regenerated from the source, every slice that a consensus function
   fills while ranging over a map (or over a slice that is itself in map order,
   followed through returns and arguments within the consensus packages) is
   sorted before every use (0), unused (1), handed on to where it is analysed
   (2-4), or one of the classified order-insensitive consumers (5) — never
   consumed unsorted (6). *)
Theorem C24_map_order_sites_sorted :
  forall f v, In (f, v) C24_graph.map_order_sites -> (v <= 5)%N.
Proof. exact map_order_sites_sorted. Qed.
Print Assumptions C24_map_order_sites_sorted.

(* Non-vacuity: the anchors (getCandidateIndexAtRandom,
   getRandomDposV2Producers, getSortedProducers) are sources with out-edges,
   bad nodes exist, the reachability search completed; a tie is broken by key. *)
Example C24_static_nonvacuous :
  forallb (fun a => existsb (Pos.eqb (fst a)) C24_graph.sources
                    && existsb (fun e => Pos.eqb (fst e) (fst a)) C24_graph.graph) C24_graph.anchors = true
  /\ negb (Nat.eqb (length C24_graph.anchors) 0) = true
  /\ negb (Nat.eqb (length C24_graph.bad) 0) = true
  /\ (match reach_set C24_graph.graph C24_graph.sources with Some _ => true | None => false end) = true
  /\ negb (Nat.eqb (length C24_graph.float_map_sums) 0) = true
  /\ negb (Nat.eqb (length (filter (fun s => N.eqb (snd s) 0) C24_graph.map_order_sites)) 0) = true.
Proof. exact static_nonvacuous. Qed.

(* with non-integer addends float64 addition is order dependent (binary64,
   evaluated by Coq's primitive floats) *)
Example C24_float_sum_order_matters :
  let a := 0x1.999999999999ap-4%float in let b := 0x1.999999999999ap-3%float in let c := 0x1.3333333333333p-2%float in
  PrimFloat.eqb (PrimFloat.add (PrimFloat.add a b) c) (PrimFloat.add a (PrimFloat.add b c)) = false.
Proof. vm_compute. reflexivity. Qed.

Example C24_sort_example :
  sorted_voted [(5, 3); (7, 9); (0, 4); (5, 1)]%Z = [(7, 9); (5, 1); (5, 3)]%Z
  /\ select (fun s n => s mod n)%Z (Some [1;0;0;0;0;0;0;128]%Z) 30 0 24 72 = Idx ((1 - 2^63) mod 7)%Z.
Proof. vm_compute. split; reflexivity. Qed.
