(* C37 — Wallet signatures verify and only for the signed data; address
   strings and amounts parse back.  Property theorems only.  The signature
   theorems are generic in the cryptographic oracles and reuse the C05 model of
   the node's check; the two codec theorems are unconditional (the address
   checksum function is arbitrary). *)
From Coq Require Import ZArith Bool List.
From ELA Require Import model.C05_Sig model.C37_Wallet proof.C05_Sig proof.C37_Wallet.
Import ListNotations.
Local Open Scope Z_scope.

(* SignStandardTransaction: the program the wallet builds for a standard
   account is accepted by RunPrograms for the account's address, whenever the
   signature it obtained verifies under the account's key. *)
Theorem C37_wallet_standard_accepted :
  forall codehash point_ok verify_ecdsa verify_schnorr keyhash sign_ecdsa key data prefix,
  length key = 33%nat -> prefix = 33 \/ prefix = 31 ->
  point_ok key = true -> len (sign_ecdsa key data) = 64 ->
  verify_ecdsa key data (sign_ecdsa key data) = true ->
  run_programs codehash point_ok verify_ecdsa verify_schnorr keyhash true data
    [prefix :: codehash (std_code key)] [sign_standard sign_ecdsa key data] = true.
Proof. exact wallet_standard_accepted. Qed.
Print Assumptions C37_wallet_standard_accepted.

(* Multisig account over n >= 2 keys signed through AppendSignature by at
   least m distinct signers: accepted, provided every wallet signature
   verifies under its own key and under no other key of the script, and the
   SHA-256 of the signers' script entries does not collide. *)
Theorem C37_wallet_multisig_accepted :
  forall codehash point_ok verify_ecdsa verify_schnorr keyhash sign_ecdsa m keys signers data,
  (forall k, In k keys -> length k = 33%nat) -> (2 <= length keys)%nat ->
  1 <= m -> m <= len signers -> (length signers <= length keys)%nat -> m <= len keys ->
  NoDup signers -> incl signers keys ->
  (forall a, In a keys -> point_ok a = true) ->
  (forall k, In k signers -> len (sign_ecdsa k data) = 64 /\ verify_ecdsa k data (sign_ecdsa k data) = true) ->
  (forall a k, In a keys -> In k signers -> verify_ecdsa a data (sign_ecdsa k data) = true -> a = k) ->
  (forall k k', In k signers -> In k' signers -> keyhash (key_entry k) = keyhash (key_entry k') -> k = k') ->
  run_programs codehash point_ok verify_ecdsa verify_schnorr keyhash true data
    [18 :: codehash (multi_code m keys)] [sign_multi sign_ecdsa m keys signers data] = true.
Proof. exact wallet_multisig_accepted. Qed.
Print Assumptions C37_wallet_multisig_accepted.

(* Aggregated Schnorr account: code = PUSH1 PUSH33 aggkey, parameter = the
   64-byte aggregated signature. *)
Theorem C37_wallet_schnorr_accepted :
  forall codehash point_ok verify_ecdsa verify_schnorr keyhash aggkey aggsig data prefix,
  length aggkey = 33%nat -> prefix = 33 \/ prefix = 31 -> length aggsig = 64%nat ->
  verify_schnorr aggkey data aggsig = true ->
  run_programs codehash point_ok verify_ecdsa verify_schnorr keyhash true data
    [prefix :: codehash (schnorr_code aggkey)] [sign_schnorr aggkey aggsig] = true.
Proof. exact wallet_schnorr_accepted. Qed.
Print Assumptions C37_wallet_schnorr_accepted.

(* Only for the signed data: if no signature verifies over the changed
   bytes, the node rejects whatever programs are presented. *)
Theorem C37_wallet_signature_only_for_signed_data :
  forall codehash point_ok verify_ecdsa verify_schnorr keyhash data' hashes progs h,
  (forall k s, verify_ecdsa k data' s = false) -> (forall k s, verify_schnorr k data' s = false) ->
  In h hashes -> prefix_of h <> 75 ->
  run_programs codehash point_ok verify_ecdsa verify_schnorr keyhash true data' hashes progs = false.
Proof. exact wallet_signature_only_for_signed_data. Qed.
Print Assumptions C37_wallet_signature_only_for_signed_data.

(* Address codec: Uint168FromAddress (ToAddress u) = u for every 21-byte
   program hash with prefix byte 3..143 (all issued prefixes 0x12 0x1f 0x21
   0x3f 0x4b 0x67), for every checksum function, before and after the repair. *)
Theorem C37_address_roundtrip :
  forall hash guarded u,
  length u = 21%nat -> Forall (fun d => 0 <= d < 256) u -> 3 <= hd 0 u <= 143 ->
  from_address hash guarded (to_address hash u) = AOk u.
Proof. exact address_roundtrip. Qed.
Print Assumptions C37_address_roundtrip.

(* ... and every string Uint168FromAddress accepts is the address of the
   21-byte hash it returns (no two strings parse to the same hash). *)
Theorem C37_address_parse_canonical :
  forall hash guarded s u,
  from_address hash guarded s = AOk u -> to_address hash u = s /\ length u = 21%nat.
Proof. exact address_parse_canonical. Qed.
Print Assumptions C37_address_parse_canonical.

(* Before "fix: Uint168FromAddress returns an error for short decoded
   addresses" thirty-four '1' characters made the parser panic. *)
Theorem C37_address_parse_panic_refuted_before_fix :
  forall hash,
  from_address hash false (repeat 49 34) = APanic /\ from_address hash true (repeat 49 34) = AErr.
Proof. exact from_address_panic_before_fix. Qed.
Print Assumptions C37_address_parse_panic_refuted_before_fix.

(* Amount codec: StringToFixed64 (Fixed64.String f) = f for all 2^64 values
   (repaired code), MinInt64 and negative fractions included. *)
Theorem C37_fixed64_roundtrip :
  forall f, - 2 ^ 63 <= f < 2 ^ 63 -> string_to_fixed64 true (fixed64_string f) = Some f.
Proof. exact fixed64_roundtrip. Qed.
Print Assumptions C37_fixed64_roundtrip.

(* Before "fix: StringToFixed64 accepts whole amounts of nine or more
   characters": 100000000 ELA and -10000000 ELA did not parse back. *)
Theorem C37_fixed64_roundtrip_refuted_before_fix :
  string_to_fixed64 false (fixed64_string 10000000000000000) = None /\
  string_to_fixed64 false (fixed64_string (-1000000000000000)) = None.
Proof. exact fixed64_roundtrip_refuted_before_fix. Qed.
Print Assumptions C37_fixed64_roundtrip_refuted_before_fix.

(* Keystore: SaveAccount's 96-byte blob followed by LoadAccounts' keyPair[64:96]
   gives back the same private scalar for every private key of at most 32
   bytes (D.Bytes() is shorter than 32 bytes for one generated key in 256). *)
Theorem C37_keystore_blob_roundtrip :
  forall xy d, length xy = 64%nat -> (length d <= 32)%nat ->
  length (blob_priv (key_blob xy d)) = 32%nat /\ be_value (blob_priv (key_blob xy d)) = be_value d.
Proof. exact keystore_blob_roundtrip. Qed.
Print Assumptions C37_keystore_blob_roundtrip.

(* Non-vacuity: concrete oracles satisfying every hypothesis of the multisig
   theorem (three keys, "signature of k" = 64 copies of k's second byte,
   verification = equality), and concrete codec instances. *)
Definition nvk (i : Z) : bytes := 2 :: repeat i 32.
Definition nv_sign (k _d : bytes) : bytes := repeat (byte_at k 1) 64.
Definition nv_verify (k _d s : bytes) : bool := beq (repeat (byte_at k 1) 64) s.
Example C37_nonvacuous :
  run_programs (fun c => firstn 20 c) (fun _ => true) nv_verify (fun _ _ _ => false) (fun k => k) true []
     [18 :: firstn 20 (multi_code 2 [nvk 1; nvk 2; nvk 3])]
     [sign_multi nv_sign 2 [nvk 1; nvk 2; nvk 3] [nvk 3; nvk 1] []] = true
  /\ string_to_fixed64 true (fixed64_string (-9223372036854775808)) = Some (-9223372036854775808)
  /\ fixed64_string (-50000000) = [45; 48; 46; 53; 48; 48; 48; 48; 48; 48; 48]
  /\ from_address (fun _ => [1; 2; 3; 4]) true (to_address (fun _ => [1; 2; 3; 4]) (33 :: repeat 7 20)) = AOk (33 :: repeat 7 20).
Proof. vm_compute. repeat split; reflexivity. Qed.
