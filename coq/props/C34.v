(* C34 — The mempool stays consistent and conflict-free.
   Property theorems only; each is closed by [exact] of a lemma from
   proof/C34_*.v and followed by Print Assumptions.

   Reading guide.  [rlt] is the fee-rate order (Go: float64 <), any strict weak
   order; [U] gives the attributes of every transaction (its hash determines
   them; GetSize() is in (0, 2^32)); [tbl] is the conflict-slot table
   (regenerated from mempool/conflictmanager.go into gen/C34_slots.v).
   [consistent rlt U tbl p] is the whole invariant:
     - txnList has no duplicate hash and no held tx has a failing key function,
     - the slot maps are a function (one holder per key) and contain exactly
       the keys of the held txs, each mapped to its tx,
     - no two held txs share a key (resource or outpoint),
     - the fee list is a permutation of the held txs' items, sorted by
       non-increasing fee rate,
     - totalSize = sum of held sizes <= maxSize,
     - proposalsUsedAmount = int64-wrapped sum of the held proposals' budgets.
   [weak] is the same without "every key of a held tx is indexed" (the state
   between CleanSubmittedTransactions and CheckAndCleanAllTransactions). *)
From Coq Require Import ZArith NArith Bool List String Permutation.
From ELA Require Import model.C34_Pool proof.C34_FeeList proof.C34_Inv proof.C34_Hist
     proof.C34_Cover proof.C34_Cause proof.C34_Table gen.C34_slots model.C34_Spec corr.C34_corr.
Import ListNotations.
Local Open Scope string_scope.
Local Open Scope Z_scope.

Definition strict_weak (rlt : Z * Z -> Z * Z -> bool) : Prop :=
  (forall a, rlt a a = false) /\
  (forall a b c, rlt a b = true -> rlt b c = true -> rlt a c = true) /\
  (forall a b c, rlt a b = false -> rlt b c = false -> rlt a c = false).

Definition sizes_ok (U : N -> txinfo) : Prop := forall h, 0 < t_size (U h) < two32.

(* The empty pool is consistent. *)
Theorem C34_initial : forall rlt U tbl m, 0 <= m < two63 ->
  consistent rlt U tbl (empty_pool m).
Proof. intros; apply empty_consistent; assumption. Qed.
Print Assumptions C34_initial.

(* AppendToTxPool / MaybeAcceptTransaction keep the invariant, whatever the
   chain's verdict and whether or not the transaction is accepted. *)
Theorem C34_append_preserves : forall rlt U tbl, strict_weak rlt -> sizes_ok U ->
  forall h rej limit p, consistent rlt U tbl p ->
  consistent rlt U tbl (fst (append rlt U tbl h rej limit p)).
Proof. intros rlt U tbl (H1 & H2 & H3) Hs. exact (append_consistent rlt H1 H2 H3 U tbl Hs). Qed.
Print Assumptions C34_append_preserves.

(* RemoveTransaction keeps the invariant. *)
Theorem C34_remove_preserves : forall rlt U tbl, strict_weak rlt -> sizes_ok U ->
  forall h p, consistent rlt U tbl p -> consistent rlt U tbl (remove_api rlt U tbl h p).
Proof.
  intros rlt U tbl (H1 & H2 & H3) Hs h p Hc.
  apply remove_api_stable; [apply (st_cons rlt H1 H3 U tbl Hs)|exact Hc].
Qed.
Print Assumptions C34_remove_preserves.

(* CleanSubmittedTransactions keeps everything except index completeness ... *)
Theorem C34_clean_submitted_weak : forall rlt U tbl, strict_weak rlt -> sizes_ok U ->
  forall blk onduty p, weak rlt U tbl p -> weak rlt U tbl (clean_submitted rlt U tbl blk onduty p).
Proof. intros rlt U tbl (H1 & H2 & H3) Hs. exact (clean_submitted_weak rlt H1 H3 U tbl Hs). Qed.
Print Assumptions C34_clean_submitted_weak.

(* ... and CheckAndCleanAllTransactions restores it, provided every held
   transaction that lost an index entry is rejected by the chain (stated as:
   a held transaction the chain still accepts is fully indexed). *)
Theorem C34_check_clean_restores : forall rlt U tbl, strict_weak rlt -> sizes_ok U ->
  forall order rej limit p, weak rlt U tbl p ->
  (forall x u, In x (p_txs p) -> ctx U rej limit x u = true -> indexed U tbl p x) ->
  consistent rlt U tbl (check_clean rlt U tbl order rej limit p).
Proof. intros rlt U tbl (H1 & H2 & H3) Hs. exact (check_clean_consistent rlt H1 H3 U tbl Hs). Qed.
Print Assumptions C34_check_clean_restores.

(* What a block connection can de-index: after CleanSubmittedTransactions on a
   consistent pool, a key of a still-held transaction is missing from its slot
   map only if a transaction of the block claims the same key, or it is an own
   owner / node / CID key of a held Update* transaction (the RemoveKey calls of
   cleanCanceledProducerAndCR).  So [op_ok] holds as soon as the chain rejects
   the pool transactions that conflict with the connected block. *)
Theorem C34_deindexed_only_by_block : forall rlt U tbl, strict_weak rlt -> sizes_ok U ->
  forall p blk onduty, consistent rlt U tbl p ->
  let q := clean_submitted rlt U tbl blk onduty p in
  forall x k, In x (p_txs q) -> In k (keys_of U tbl x) ->
  In (k, x) (p_slots q) \/ cause U tbl p blk k.
Proof. intros rlt U tbl (H1 & H2 & H3) Hs. exact (deindexed_only_by_block rlt U tbl H1 H2 H3 Hs). Qed.
Print Assumptions C34_deindexed_only_by_block.

(* All histories of submissions, removals and block connections (each followed
   by the post-block cleanup) from the empty pool end in a consistent pool.
   [admissible] only constrains block connections: the chain rejects the held
   transactions that the block de-indexed ([op_ok]). *)
Theorem C34_history_consistent : forall rlt U tbl, strict_weak rlt -> sizes_ok U ->
  forall m ops, 0 <= m < two63 ->
  admissible rlt U tbl ops (empty_pool m) ->
  consistent rlt U tbl (run rlt U tbl ops (empty_pool m)).
Proof.
  intros rlt U tbl (H1 & H2 & H3) Hs m ops Hm Hadm.
  apply (run_consistent rlt H1 H2 H3 U tbl Hs); [apply empty_consistent; exact Hm|exact Hadm].
Qed.
Print Assumptions C34_history_consistent.

(* What consistency says, item by item. *)
Theorem C34_no_shared_key : forall rlt U tbl p a b k, consistent rlt U tbl p ->
  In a (p_txs p) -> In b (p_txs p) -> In k (keys_of U tbl a) -> In k (keys_of U tbl b) -> a = b.
Proof. exact no_shared_key. Qed.
Print Assumptions C34_no_shared_key.

Theorem C34_no_shared_outpoint : forall rlt U tbl p a b s o, consistent rlt U tbl p ->
  inputs_slot tbl = Some s ->
  applies tbl s (t_type (U a)) = true -> applies tbl s (t_type (U b)) = true ->
  In a (p_txs p) -> In b (p_txs p) -> In o (t_ins (U a)) -> In o (t_ins (U b)) -> a = b.
Proof. exact no_shared_outpoint. Qed.
Print Assumptions C34_no_shared_outpoint.

Theorem C34_index_exact : forall rlt U tbl p, consistent rlt U tbl p ->
  NoDup (map fst (p_slots p)) /\
  forall k h, In (k, h) (p_slots p) <-> In h (p_txs p) /\ In k (keys_of U tbl h).
Proof. exact index_exact. Qed.
Print Assumptions C34_index_exact.

Theorem C34_fee_order_exact : forall rlt U tbl p, consistent rlt U tbl p ->
  NoDup (p_txs p) /\ Permutation (map (item_of U) (p_txs p)) (p_fees p) /\
  fee_sorted rlt (p_fees p).
Proof. exact fee_order_exact. Qed.
Print Assumptions C34_fee_order_exact.

Theorem C34_size_exact : forall rlt U tbl p, consistent rlt U tbl p ->
  p_total p = sum_sizes U (p_txs p) /\ p_total p <= p_max p.
Proof. exact size_exact. Qed.
Print Assumptions C34_size_exact.

Theorem C34_budget_exact : forall rlt U tbl p, consistent rlt U tbl p ->
  p_used p = i64 (sum_budget U (p_txs p)) /\
  (- two63 <= sum_budget U (p_txs p) < two63 -> p_used p = sum_budget U (p_txs p)).
Proof. exact budget_exact. Qed.
Print Assumptions C34_budget_exact.

(* The eviction loop of txFeeOrderedList.AddTx is dead code under
   appendToTxPool (its OverSize pre-check rejects first): append equals the
   same function written without the loop. *)
Theorem C34_eviction_unreachable : forall rlt U tbl, sizes_ok U ->
  forall h rej limit p, append rlt U tbl h rej limit p = append_noevict rlt U tbl h rej limit p.
Proof. exact eviction_unreachable. Qed.
Print Assumptions C34_eviction_unreachable.

(* ---- the slot table of the source tree under check (gen/C34_slots.v) ---- *)

(* Every named resource of [required] (model/C34_Spec.v, hand-written from the
   property) has a slot with a key function for every transaction type that
   claims it (vm_compute over the regenerated table). *)
Theorem C34_slots_cover : uncovered slots required = [].
Proof. exact slots_cover. Qed.
Print Assumptions C34_slots_cover.

(* The tx type bytes the model branches on are those of the source, and every
   type name used in [required] exists. *)
Theorem C34_type_constants :
  [ty "CoinBase"; ty "TransferAsset"; ty "SideChainPow"; ty "CancelProducer"; ty "UpdateProducer";
   ty "UpdateVersion"; ty "NextTurnDPOSInfo"; ty "UnregisterCR"; ty "UpdateCR"; ty "CRCProposal";
   ty "CRCAppropriation"; ty "CRAssetsRectify"; ty "RecordSponsor"] =
  [ty_coinbase; ty_transfer; ty_scpow; ty_cancel_producer; ty_update_producer;
   ty_update_version; ty_next_turn; ty_unregister_cr; ty_update_cr; ty_proposal;
   ty_appropriation; ty_rectify; ty_record_sponsor]
  /\ existsb (N.eqb 999) (flat_map (fun r => snd r) required) = false.
Proof. exact type_constants. Qed.
Print Assumptions C34_type_constants.

(* With the real slot table: after any admissible history no two held
   transactions claim the same named resource (same slot, same key), and no
   two spend the same outpoint. *)
Theorem C34_no_shared_resource : forall rlt U, strict_weak rlt -> sizes_ok U ->
  forall m ops, 0 <= m < two63 -> admissible rlt U slots ops (empty_pool m) ->
  let p := run rlt U slots ops (empty_pool m) in
  forall a b, In a (p_txs p) -> In b (p_txs p) ->
  (forall name sname tys s k, In (name, sname, tys) required -> find_slot sname slots = Some s ->
     In (t_type (U a)) tys -> In (t_type (U b)) tys ->
     In (s, k) (t_keys (U a)) -> In (s, k) (t_keys (U b)) -> a = b) /\
  (forall o, In (t_type (U a)) (map snd txtypes) -> In (t_type (U b)) (map snd txtypes) ->
     In o (t_ins (U a)) -> In o (t_ins (U b)) -> a = b).
Proof. intros rlt U (H1 & H2 & H3) Hs. exact (no_shared_resource rlt U H1 H2 H3 Hs). Qed.
Print Assumptions C34_no_shared_resource.

(* ---- non-vacuity ---- *)

(* the exact rational order is a strict weak order *)
Example C34_order_exists : strict_weak rlt_q.
Proof. exact (conj rlt_q_irrefl (conj rlt_q_trans rlt_q_negtrans)). Qed.

(* A concrete history over the real table (proof/C34_Table.v: ex_U, ex_ops):
   two producers registering with the same nickname (second rejected), a double
   spend (rejected), a block that registers the nickname of a third pool tx (it
   is de-indexed, then rejected by the chain and cleaned).  The history is
   admissible and the final pool holds exactly tx 1. *)
Example C34_nonvacuous :
  sizes_ok ex_U /\ admissible rlt_q ex_U slots ex_ops (empty_pool 1000) /\
  p_txs (run rlt_q ex_U slots ex_ops (empty_pool 1000)) = [1%N] /\
  p_txs (run rlt_q ex_U slots (firstn 4 ex_ops) (empty_pool 1000)) = [1%N; 4%N] /\
  p_total (run rlt_q ex_U slots (firstn 4 ex_ops) (empty_pool 1000)) = 420.
Proof. exact example_history. Qed.

(* the correspondence checker accepts the model's own trace and flags a wrong one *)
Example C34_corr_sane :
  mismatches [Case 1 1000 [(1%N, ex_U 1%N)]
                [(OAppend 1 [] 0, Obs 0 [1%N] [1%N] 200 [(0, 11, 1); (2, 12, 1); (6, 13, 1); (36, 1, 1)]%N 0)];
              Case 2 1000 [(1%N, ex_U 1%N)]
                [(OAppend 1 [] 0, Obs 0 [1%N] [1%N] 200 [(0, 11, 1); (2, 12, 1); (36, 1, 1)]%N 0)]] = [2%N].
Proof. vm_compute. reflexivity. Qed.
