(* C32 - Frozen addresses can neither spend nor receive.
   Property theorems only; each is closed by [exact] of a lemma from
   proof/C32_Frozen.v and followed by Print Assumptions. *)
From Coq Require Import ZArith Bool List.
From ELA Require Import model.C31_CrossChain model.C32_Frozen proof.C32_Frozen corr.C32_corr.
Import ListNotations.
Local Open Scope Z_scope.

(* From an entry's start height on, a transaction that spends an output owned
   by the frozen program hash or pays to it - at any position among any number
   of references and outputs, with any other entries in the list - is rejected. *)
Theorem C32_frozen_blocks_spend_and_receive : forall entries refs outs h e ph,
  In e entries -> f_hash e = Some ph -> f_start e <= h ->
  In ph refs \/ In ph outs ->
  check_frozen entries refs outs h = false.
Proof. exact frozen_blocks_spend_and_receive. Qed.
Print Assumptions C32_frozen_blocks_spend_and_receive.

(* Complete characterisation (so nothing else is rejected, and nothing before
   the start height). *)
Theorem C32_check_frozen_spec : forall entries refs outs h,
  check_frozen entries refs outs h = true <->
  (forall e ph, In e entries -> f_hash e = Some ph -> f_start e <= h ->
                ~ In ph refs /\ ~ In ph outs).
Proof. exact check_frozen_spec. Qed.
Print Assumptions C32_check_frozen_spec.

(* On mainnet the frozen list is the coordinated one whatever the local
   configuration says; other networks keep their own list. *)
Theorem C32_mainnet_list_forced : forall name cfg,
  is_mainnet name = true -> enforce_frozen name cfg = mainnet_frozen.
Proof. exact mainnet_list_forced. Qed.
Print Assumptions C32_mainnet_list_forced.

Theorem C32_other_nets_keep : forall name cfg,
  is_mainnet name = false -> enforce_frozen name cfg = cfg.
Proof. exact other_nets_keep. Qed.
Print Assumptions C32_other_nets_keep.

(* End to end on mainnet, for every address decoder under which the
   coordinated address resolves, every local configuration, from height 2256110 *)
Theorem C32_mainnet_node_freezes : forall decode name cfg refs outs h ph,
  is_mainnet name = true -> decode exploit_addr = Some ph ->
  mainnet_freeze <= h -> In ph refs \/ In ph outs ->
  node_frozen_check decode name cfg refs outs h = false.
Proof. exact mainnet_node_freezes. Qed.
Print Assumptions C32_mainnet_node_freezes.

Theorem C32_mainnet_node_only_that : forall decode name cfg refs outs h ph,
  is_mainnet name = true -> decode exploit_addr = Some ph ->
  (h < mainnet_freeze \/ (~ In ph refs /\ ~ In ph outs)) ->
  node_frozen_check decode name cfg refs outs h = true.
Proof. exact mainnet_node_only_that. Qed.
Print Assumptions C32_mainnet_node_only_that.

(* Non-vacuity: hash 7 frozen from height 100 (with an unresolved entry and a
   later entry alongside): free at 99, blocked at 100 as spender in second
   position and as receiver in third position; unrelated transfer passes. *)
Example C32_nonvacuous :
  let es := [F None 0; F (Some 7) 100; F (Some 9) 500] in
  check_frozen es [5; 7] [6] 99 = true /\
  check_frozen es [5; 7] [6] 100 = false /\
  check_frozen es [5] [6; 8; 7] 100 = false /\
  check_frozen es [5; 9] [6] 100 = true /\
  check_frozen es [5; 9] [6] 500 = false /\
  check_frozen es [5] [6] 1000 = true /\
  enforce_frozen [77; 65; 73; 78] [] = [CE exploit_addr 2256110] /\
  enforce_frozen [114; 101; 103] [CE 4 1] = [CE 4 1].
Proof. vm_compute. repeat split; reflexivity. Qed.

Example C32_corr_sane :
  mismatches [CFrozen 1 [F (Some 7) 100] [7] [] 100 false;
              CFrozen 2 [F (Some 7) 100] [7] [] 100 true;
              CFSweep 3 [F (Some 7) 100] 100 [7] 1%N 1;
              CFSweep 4 [F (Some 7) 100] 100 [7] 1%N 15;
              CFEnforce 5 [] [CE 4 1] [(1, 2256110, Some 3)];
              CFEnforce 6 [] [CE 4 1] [(4, 1, Some 3)]] = [2%N; 4%N; 6%N].
Proof. vm_compute. reflexivity. Qed.
