(* C02 — Decoding untrusted bytes never crashes the node or allocates without
   bound.  Property theorems only; each is closed by [exact] of a lemma from
   proof/C02_Safe.v or proof/C02_Registry.v and followed by Print Assumptions.

   [decode f ctx bs] is the interpreter of a decoder descriptor [f] (model/
   C02_Fmt.v); it returns the Go outcome (value / error / panic) and the bytes
   the Go decoder requests from the allocator.  [fmt_of id] are the
   descriptors of the Go decoders (model/C02_Descr.v), tied to /repo by the
   correspondence run of harness/cmd/c02. *)
From Coq Require Import NArith List Bool.
From ELA Require Import lib.GoSem lib.Bytes lib.VarInt model.C02_Fmt model.C02_Descr model.C02_Cover
  proof.C02_Safe proof.C02_Registry proof.C02_Cover gen.C02_decoders.
From Coq Require Import String.
(* the correspondence checker is a build dependency of the check (case shards import it) *)
From ELA Require corr.C02_corr.
Import ListNotations.
Local Open Scope N_scope.

(* Every descriptor whose count-sized allocations are all guarded by a
   constant bound, and whose loop elements consume at least one byte, decodes
   every byte string (any length, any enclosing discriminants) without a
   panic, allocating at most kf f bytes per input byte plus the constant cf f. *)
Theorem C02_decode_safe : forall f, wf_alloc f = true -> forall c bs,
  fst (decode f c bs) <> Panic /\ snd (decode f c bs) <= kf f * len bs + cf f.
Proof. exact decode_safe. Qed.
Print Assumptions C02_decode_safe.

(* A successful decode is paid for by the bytes it consumed alone (no additive
   constant): what is accepted never cost more than kf f per byte. *)
Theorem C02_accepted_is_linear : forall f, wf_alloc f = true -> forall c bs v rest m,
  decode f c bs = (Ok (v, rest), m) ->
  len rest <= len bs /\ m <= kf f * (len bs - len rest).
Proof. exact decode_ok_linear. Qed.
Print Assumptions C02_accepted_is_linear.

(* All 120 registered descriptors (transaction with every payload type and
   version, outputs, header/auxpow/block/DposBlock/Confirm, p2p and DPoS
   messages) satisfy the discipline. *)
Theorem C02_all_formats_wf : forallb wf_alloc all_formats = true.
Proof. exact all_formats_wf. Qed.
Print Assumptions C02_all_formats_wf.

(* Hence every registered decoder, on every input: no panic, and allocation
   within its own K*len + C, uniformly within 1872*len + 16 MiB + 60 (the
   constant is one ReadVarString buffer: 16 MiB is common.MaxVarStringLength). *)
Theorem C02_registry_safe : forall id, In id format_ids -> forall c bs,
  fst (decode (fmt_of id) c bs) <> Panic /\
  snd (decode (fmt_of id) c bs) <= kf (fmt_of id) * len bs + cf (fmt_of id) /\
  snd (decode (fmt_of id) c bs) <= 1872 * len bs + 16777276.
Proof. exact registry_safe. Qed.
Print Assumptions C02_registry_safe.

(* [decoders] is the table of all Deserialize* methods of the decoder packages
   (auxpow, common, core/contract/program, core/transaction, core/types{,/common,
   /payload,/outputpayload}, p2p, p2p/msg, dpos/p2p/msg, elanet/bloom, crypto),
   regenerated from the source on every run.  Each of them is out of scope
   (exactly the two named below) or covered by a registered descriptor, hence safe. *)
Theorem C02_every_decoder_has_descriptor : forall d, In d decoders ->
  In d out_of_scope \/
  exists id, lookup d cover = Some (Id id) /\ In id format_ids /\
    forall c bs, fst (decode (fmt_of id) c bs) <> Panic /\
                 snd (decode (fmt_of id) c bs) <= kf (fmt_of id) * len bs + cf (fmt_of id).
Proof. exact every_decoder_safe. Qed.
Print Assumptions C02_every_decoder_has_descriptor.

Theorem C02_out_of_scope :
  out_of_scope = ["crypto|PublicKey.Deserialize"%string; "p2p|Header.Deserialize"%string].
Proof. exact out_of_scope_is. Qed.
Print Assumptions C02_out_of_scope.

(* [make_sites] is the regenerated table (function, number) of make() calls with
   a non-constant size inside decoder functions.  Each is one of the three
   bounded byte buffers of common/serialize.go, or belongs to a decoder whose
   descriptor declares exactly that many (two Go makes per list) pre-allocated
   lists, all of them bounded by a constant (wf_alloc). *)
Theorem C02_make_sites_agree : forall fn k, In (fn, k) make_sites ->
  In (fn, k) buffer_sites \/
  exists id, lookup fn cover = Some (Id id) /\ In id format_ids /\
             k = 2 * count_pre (fmt_of id) /\ wf_alloc (fmt_of id) = true.
Proof. exact make_sites_agree. Qed.
Print Assumptions C02_make_sites_agree.

(* The discipline is necessary: the Confirm decoder as it was before the fix
   (make([]DPOSProposalVote, signCount) with signCount read from the wire)
   panics on a 46-byte input and requests 412 GB on another. *)
Theorem C02_count_sized_make_refuted :
  wf_alloc confirm_unfixed = false /\
  fst (decode confirm_unfixed [] (confirm_head ++ [255;255;255;255;255;255;255;127])) = Panic /\
  (let bs := confirm_head ++ [255;255;255;255;0;0;0;0] in
   List.length bs = 46%nat /\ 412316860000 <= snd (decode confirm_unfixed [] bs)).
Proof. exact (conj unfixed_not_wf (conj unfixed_panics unfixed_overallocates)). Qed.
Print Assumptions C02_count_sized_make_refuted.

(* Non-vacuity: the transaction descriptor is well formed with these
   constants; the repaired Confirm decoder rejects both witnesses; a concrete
   version-9 TransferAsset transaction (no attributes/inputs, one default
   output, one program) decodes to a value and consumes all its bytes. *)
Example C02_tables_nonvacuous :
  In "core/types/payload|Confirm.Deserialize"%string decoders /\
  In "dpos/p2p/msg|ConsensusStatus.Deserialize"%string decoders /\
  In ("p2p/msg|Inv.Deserialize"%string, 2) make_sites /\ count_pre inv_fmt = 1.
Proof. vm_compute. repeat split; auto 200. Qed.

Example C02_nonvacuous :
  (kf tx_fmt = 517 /\ cf tx_fmt = 16777263 /\ wf_alloc tx_fmt = true) /\
  (decode confirm_fmt [] (confirm_head ++ [255;255;255;255;255;255;255;127]) = (Err, 142) /\
   decode confirm_fmt [] (confirm_head ++ [255;255;255;255;0;0;0;0]) = (Err, 142)) /\
  (let tx := [9; 2; 0; 0; 0; 1] ++ repeat 7 32 ++ [1;0;0;0;0;0;0;0] ++ [0;0;0;0] ++ repeat 3 21 ++ [0]
             ++ [5;0;0;0] ++ [1; 2; 170; 187; 1; 172] in
   match decode tx_fmt [] tx with (Ok (_, []), _) => True | _ => False end).
Proof. split; [exact tx_bounds|]. split; [exact fixed_rejects_both|]. vm_compute. exact I. Qed.
