(* C33 — Side-chain withdrawals need the arbiter quorum and are single-use.
   Property theorems only; each is closed by [exact] of a lemma from
   proof/C33_Withdraw.v (or by evaluation of a concrete witness) and followed
   by Print Assumptions.  [agg] is the oracle for the aggregation of the
   signers' public keys into a Schnorr redeem script: every theorem holds for
   every such function.  [withdraw_check] = cross-chain UTXO policy +
   SpecialContextCheck of /repo as it is now. *)
From Coq Require Import ZArith List Bool Permutation.
From ELA Require Import model.C33_Withdraw proof.C33_Withdraw.
From ELA Require corr.C33_corr.   (* so that the correspondence checker is rebuilt with the model *)
Import ListNotations.
Local Open Scope Z_scope.

(* An accepted withdrawal of payload version 0, 1 or 2 spends only cross-chain
   (X-prefixed) UTXOs: all heights, arbiter sets, stores, transactions. *)
Theorem C33_only_crosschain_inputs : forall agg c e t,
  known_pver (pver t) = true ->
  withdraw_check agg c e t = Accept ->
  Forall (fun p => p = PrefixCrossChain) (ref_prefixes t).
Proof. intros agg. exact (only_crosschain_inputs agg true). Qed.
Print Assumptions C33_only_crosschain_inputs.

(* Any other payload version passes SpecialContextCheck unchecked; from the
   freeze height on such a transaction cannot touch a cross-chain UTXO.  The
   side condition is necessary: see C33_unknown_version_below_freeze_refuted. *)
Theorem C33_unknown_version_no_crosschain_input_partial : forall agg c e t,
  known_pver (pver t) = false -> (freeze_height c <=? height c) = true ->
  withdraw_check agg c e t = Accept ->
  Forall (fun p => p <> PrefixCrossChain) (ref_prefixes t).
Proof.
  intros agg c e t K F. apply (unknown_version_no_crosschain_input agg true c e t K).
  apply Z.leb_le; exact F.
Qed.
Print Assumptions C33_unknown_version_no_crosschain_input_partial.

Theorem C33_unknown_version_below_freeze_refuted : exists agg c e t,
  known_pver (pver t) = false /\ height c < freeze_height c /\
  ref_prefixes t = [PrefixCrossChain] /\ programs t = [] /\ signers t = [] /\
  withdraw_check agg c e t = Accept.
Proof.
  exists (fun _ => None).
  exists {| height := 49; schnorr_start := 4294967295; cr_claim_start := 0; dpos_cc_height := 4294967295;
            freeze_height := 50; restriction_height := 100; normal_arbiters_count := 8;
            cr_agreement_count := 8; member_count := 12 |}.
  exists {| arbs := []; crc_arbs := []; cc_arbs := []; cc_count := 0; cc_majority := 0; tx3 := [] |}.
  exists {| pver := 3; payload_hashes := []; out_hashes := [Some 1%N]; ref_prefixes := [75];
            programs := []; signers := [] |}.
  vm_compute. repeat split; reflexivity.
Qed.
Print Assumptions C33_unknown_version_below_freeze_refuted.

(* Quorum, multisig payloads (V1 at every height, V0 from
   CRClaimDPOSNodeStartHeight on): every program of an accepted withdrawal is a
   cross-chain script with m at least the required minimum, n the number of
   normal arbiters of the set in force, and whose public keys are exactly the
   normal cross-chain arbiters, which are pairwise distinct. *)
Theorem C33_quorum_required : forall agg c e t,
  pver t = 1 \/ (pver t = 0 /\ cr_claim_start c <= height c) ->
  withdraw_check agg c e t = Accept ->
  forall code, In code (programs t) ->
  exists pks m n, parse_script code = Some (pks, m, n) /\
    min_count c <= m /\ n = count_normal (sel_arbs c e) /\
    NoDup (normal_keys (cc_arbs e)) /\
    Permutation (normal_keys (cc_arbs e)) (map (@tl Z) pks).
Proof. intros agg. exact (quorum_required_v1 agg true). Qed.
Print Assumptions C33_quorum_required.

(* V0 below CRClaimDPOSNodeStartHeight (legacy rule): 1 <= m <= n, n the
   cross-chain arbiter count, m above the majority count, same key set. *)
Theorem C33_quorum_required_v0_legacy : forall agg c e t,
  pver t = 0 -> height c < cr_claim_start c ->
  withdraw_check agg c e t = Accept ->
  forall code, In code (programs t) ->
  exists pks m n, parse_script code = Some (pks, m, n) /\
    1 <= m <= n /\ n = cc_count e /\ cc_majority e < m /\
    NoDup (normal_keys (cc_arbs e)) /\
    Permutation (normal_keys (cc_arbs e)) (map (@tl Z) pks).
Proof. intros agg. exact (quorum_required_v0_legacy agg true). Qed.
Print Assumptions C33_quorum_required_v0_legacy.

(* Quorum, Schnorr payload (V2): at least the threshold of signer indexes, every
   index names an existing cross-chain arbiter (at every height), and every
   program is exactly the Schnorr script of the aggregate of the signers' keys. *)
Theorem C33_quorum_required_v2 : forall agg c e t,
  pver t = 2 ->
  withdraw_check agg c e t = Accept ->
  v2_threshold c <= zlen (signers t) /\
  Forall (fun i => i < zlen (cc_arbs e)) (signers t) /\
  exists script, agg (map (key_at (cc_arbs e)) (signers t)) = Some script /\
    forall code, In code (programs t) -> code = script /\ is_schnorr code = true.
Proof. intros agg. exact (quorum_required_v2 agg true). Qed.
Print Assumptions C33_quorum_required_v2.

(* From the restriction height on the signer indexes of an accepted V2
   withdrawal are pairwise distinct and in range: together with the previous
   theorem, at least [v2_threshold] distinct existing arbiters. *)
Theorem C33_indexes_distinct_in_range_from_restriction_height : forall agg c e t,
  pver t = 2 -> restriction_height c <= height c ->
  withdraw_check agg c e t = Accept ->
  NoDup (signers t) /\ Forall (fun i => i < zlen (cc_arbs e)) (signers t).
Proof. intros agg. exact (indexes_distinct_in_range agg true). Qed.
Print Assumptions C33_indexes_distinct_in_range_from_restriction_height.

(* Single use: a withdrawal (V0, V1 or V2) carrying a side-chain hash that is in
   the Tx3 index is never accepted. *)
Theorem C33_single_use : forall agg c e t h,
  known_pver (pver t) = true ->
  In h (recorded_hashes t) -> In h (tx3 e) ->
  withdraw_check agg c e t <> Accept.
Proof. exact single_use. Qed.
Print Assumptions C33_single_use.

(* The code as found (before /repo 91cefb7c) had no lookup on the V2 path:
   [withdraw_check_gen agg false] accepts a V2 withdrawal whose hash is recorded.
   Replayed on the real ContextCheck; repaired; the witness stays in the corpus. *)
Theorem C33_single_use_v2_before_repair_refuted : exists agg c e t h,
  pver t = 2 /\ In h (recorded_hashes t) /\ In h (tx3 e) /\
  withdraw_check_gen agg false c e t = Accept /\ withdraw_check agg c e t = Reject.
Proof.
  exists (fun _ => Some (81 :: 33 :: repeat 9 33)).
  exists {| height := 200; schnorr_start := 4294967295; cr_claim_start := 0; dpos_cc_height := 4294967295;
            freeze_height := 0; restriction_height := 100; normal_arbiters_count := 0;
            cr_agreement_count := 2; member_count := 3 |}.
  exists (let a := map (fun k => {| a_key := repeat k 33; a_normal := true |}) [1; 2; 3] in
          {| arbs := a; crc_arbs := a; cc_arbs := a; cc_count := 3; cc_majority := 2; tx3 := [7%N] |}).
  exists {| pver := 2; payload_hashes := []; out_hashes := [Some 7%N]; ref_prefixes := [75];
            programs := [81 :: 33 :: repeat 9 33]; signers := [0; 1] |}.
  exists 7%N. vm_compute. repeat split; auto.
Qed.
Print Assumptions C33_single_use_v2_before_repair_refuted.

(* Histories.  Blocks of withdrawals are connected (every transaction checked
   against the store as it is before the block, CheckDuplicateTx on the block)
   and disconnected (rollback processors, with or without one for V2), with
   configuration and arbiter set changing arbitrarily from block to block.  If
   no connected block carries one side-chain hash twice, then in every reachable
   state a withdrawal carrying a hash withdrawn on the active chain is refused. *)
Theorem C33_single_use_history_partial : forall agg v2rb cfg_at env_at evs k t h,
  all_distinct evs = true ->
  known_pver (pver t) = true ->
  In h (recorded_hashes t) ->
  In h (active (run agg v2rb cfg_at env_at 0 genesis evs)) ->
  withdraw_check agg (cfg_at k)
    (with_store (env_at k) (store (run agg v2rb cfg_at env_at 0 genesis evs))) t <> Accept.
Proof. intros agg v2rb cfg_at env_at evs k t h D. exact (single_use_history agg v2rb cfg_at env_at evs k t h D). Qed.
Print Assumptions C33_single_use_history_partial.

(* The side condition is not enforced by the code: CheckDuplicateTx only looks
   at payload hashes, so two V1/V2 withdrawals whose outputs carry the same
   side-chain hash pass together in one block (known finding). *)
Theorem C33_single_use_same_block_refuted : exists agg c e t1 t2 h,
  In h (recorded_hashes t1) /\ In h (recorded_hashes t2) /\ t1 <> t2 /\
  block_ok agg (fun _ => c) (fun _ => e) 0 [] [t1; t2] = true /\
  all_distinct [Connect [t1; t2]] = false.
Proof.
  exists (fun _ => Some (81 :: 33 :: repeat 9 33)).
  exists {| height := 200; schnorr_start := 4294967295; cr_claim_start := 0; dpos_cc_height := 4294967295;
            freeze_height := 0; restriction_height := 100; normal_arbiters_count := 0;
            cr_agreement_count := 2; member_count := 3 |}.
  exists (let a := map (fun k => {| a_key := repeat k 33; a_normal := true |}) [1; 2; 3] in
          {| arbs := a; crc_arbs := a; cc_arbs := a; cc_count := 3; cc_majority := 2; tx3 := [] |}).
  exists {| pver := 2; payload_hashes := []; out_hashes := [Some 7%N]; ref_prefixes := [75];
            programs := [81 :: 33 :: repeat 9 33]; signers := [0; 1] |}.
  exists {| pver := 2; payload_hashes := []; out_hashes := [Some 7%N]; ref_prefixes := [75];
            programs := [81 :: 33 :: repeat 9 33]; signers := [1; 2] |}.
  exists 7%N. vm_compute. repeat split; auto. discriminate.
Qed.
Print Assumptions C33_single_use_same_block_refuted.

(* The mempool keys a withdrawal by every hash its save processor records
   (V2 since /repo f6815107). *)
Theorem C33_mempool_keys_cover_recorded : forall t,
  known_pver (pver t) = true -> incl (recorded_hashes t) (mempool_keys t).
Proof. exact mempool_keys_cover_recorded. Qed.
Print Assumptions C33_mempool_keys_cover_recorded.

(* Non-vacuity: with three arbiters (keys 1^33, 2^33, 3^33) a 2-of-3 V1
   withdrawal and a 2-signer V2 withdrawal of a fresh hash are accepted; the
   same V2 withdrawal with a repeated index is accepted below the freeze =
   restriction height (legacy behaviour the property excludes) and refused from it on; a
   history connect / disconnect / connect satisfies the hypotheses. *)
Definition ex_arbs := map (fun k => {| a_key := repeat k 33; a_normal := true |}) [1; 2; 3].
Definition ex_env := {| arbs := ex_arbs; crc_arbs := ex_arbs; cc_arbs := ex_arbs; cc_count := 3; cc_majority := 1; tx3 := [] |}.
Definition ex_cfg h := {| height := h; schnorr_start := 4294967295; cr_claim_start := 0; dpos_cc_height := 4294967295;
   freeze_height := 100; restriction_height := 100; normal_arbiters_count := 0; cr_agreement_count := 2; member_count := 3 |}.
Definition ex_script := 82 :: flat_map (fun k => 33 :: repeat k 33) [3; 1; 2] ++ [83; 175].
Definition ex_sch := 81 :: 33 :: repeat 9 33.
Definition ex_agg : list bytes -> option bytes := fun _ => Some ex_sch.
Definition ex_v1 := {| pver := 1; payload_hashes := []; out_hashes := [Some 7%N]; ref_prefixes := [75]; programs := [ex_script]; signers := [] |}.
Definition ex_v2 sg := {| pver := 2; payload_hashes := []; out_hashes := [Some 8%N]; ref_prefixes := [75]; programs := [ex_sch]; signers := sg |}.

Example C33_nonvacuous :
  withdraw_check ex_agg (ex_cfg 200) ex_env ex_v1 = Accept /\
  withdraw_check ex_agg (ex_cfg 200) ex_env (ex_v2 [0; 2]) = Accept /\
  withdraw_check ex_agg (ex_cfg 99) ex_env (ex_v2 [0; 0]) = Accept /\
  withdraw_check ex_agg (ex_cfg 100) ex_env (ex_v2 [0; 0]) = Reject /\
  withdraw_check ex_agg (ex_cfg 100) ex_env (ex_v2 [0; 3]) = Reject /\
  (let evs := [Connect [ex_v1; ex_v2 [0; 2]]; Disconnect; Connect [ex_v2 [1; 2]]] in
   all_distinct evs = true /\
   (* without a V2 rollback processor the hash 8 stays recorded and the re-withdrawal on the new branch is refused (C13) *)
   active (run ex_agg false (fun _ => ex_cfg 200) (fun _ => ex_env) 0 genesis evs) = [] /\
   store (run ex_agg false (fun _ => ex_cfg 200) (fun _ => ex_env) 0 genesis evs) = [8%N] /\
   active (run ex_agg true (fun _ => ex_cfg 200) (fun _ => ex_env) 0 genesis evs) = [8%N] /\
   store (run ex_agg true (fun _ => ex_cfg 200) (fun _ => ex_env) 0 genesis evs) = [8%N]).
Proof. vm_compute. repeat split; reflexivity. Qed.
