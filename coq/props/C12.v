(* C12 — the node follows the most-work valid chain.
   Property theorems only (model: model/Chain.v, lemmas: proof/C12_Chain.v).
   [run p init bs] is the node state after delivering the blocks [bs], in that
   order, to BlockChain.ProcessBlock; the theorems quantify over every list of
   blocks (every finite block tree, every delivery order, duplicates, orphans
   first, invalid and insane blocks included) and every parameter set.
   The model has no wall clock: orphan expiry (one hour) is outside. *)
From Coq Require Import ZArith NArith Bool List.
From ELA Require Import model.Chain proof.C12_Struct proof.C12_Chain.
Import ListNotations.
Local Open Scope Z_scope.

(* After any deliveries the active chain is a parent-linked path from the tip
   to genesis (heights and work sums consistent) made of valid blocks only. *)
Theorem C12_active_chain_valid : forall p bs,
  chain (main (run p init bs)) /\
  forall n, In n (main (run p init bs)) -> b_valid (n_blk n) = true.
Proof. exact active_chain_valid_run. Qed.
Print Assumptions C12_active_chain_valid.

(* Full statement FALSE of the code: a failed switch to a heavier branch does
   not leave the node on its previous chain.  Witness (all blocks of work 1):
   main chain g-1-2; side branch 11 (valid), 12 (invalid in context), 13.
   Delivering 13 makes the branch heavier; reorganizeChain detaches 2 and 1,
   attaches 11, fails on 12 and returns: ProcessBlock reports an error, the
   tip is 11 with work 1 although the fully valid chain g-1-2 (work 2) is
   still known.  Replayed on the real code by harness/cmd/c12 (corpus case
   "failed-switch"); recorded in known_findings.jsonl. *)
Theorem C12_failed_switch_keeps_chain_refuted :
  exists p bs b,
    let s := run p init bs in
    let s' := fst (process_block p s b) in
    r_err (snd (process_block p s b)) = true /\
    main_ids s = [2; 1; 0]%N /\ main_ids s' = [11; 0]%N /\
    n_worksum (tip s') < n_worksum (tip s) /\
    has_id (tip_id s) (index s') = true /\ refused s' = [].
Proof.
  exists (mkParams 1000 2000 10).
  exists [mkBlock 1 0 1 1 true true false false; mkBlock 2 1 2 1 true true false false;
          mkBlock 11 0 1 1 true true false false; mkBlock 12 11 2 1 true false false false].
  exists (mkBlock 13 12 3 1 true true false false).
  vm_compute. repeat split; reflexivity.
Qed.
Print Assumptions C12_failed_switch_keeps_chain_refuted.

(* Strongest true restriction: as long as no reorganisation of the run failed
   half-way ([no_failed_switch]: the excluded class, an explicit boolean), the
   tip is the first-connected node of maximal cumulative work among all known
   nodes that the irreversibility guard did not refuse: every node indexed
   before the tip has strictly less work, every node indexed after it at most
   as much, or it is in [refused].  Invalid blocks may be present. *)
Theorem C12_best_unless_failed_switch_partial : forall p bs,
  no_failed_switch (run p init bs) = true ->
  let s := run p init bs in
  exists pre post, index s = pre ++ tip s :: post /\
    (forall n, In n pre -> n_worksum n < n_worksum (tip s) \/ In (n_id n) (refused s)) /\
    (forall n, In n post -> n_worksum n <= n_worksum (tip s) \/ In (n_id n) (refused s)).
Proof. exact best_unless_failed_switch. Qed.
Print Assumptions C12_best_unless_failed_switch_partial.

(* All delivered blocks valid in context => no switch fails, hence the tip is
   the first-connected maximal-work node not refused by the guard. *)
Theorem C12_best_is_heaviest_valid : forall p bs,
  Forall (fun b => b_valid b = true) bs ->
  let s := run p init bs in
  no_failed_switch s = true /\
  exists pre post, index s = pre ++ tip s :: post /\
    (forall n, In n pre -> n_worksum n < n_worksum (tip s) \/ In (n_id n) (refused s)) /\
    (forall n, In n post -> n_worksum n <= n_worksum (tip s) \/ In (n_id n) (refused s)).
Proof.
  intros p bs H. split.
  - apply all_valid_no_failed_switch; exact H.
  - apply best_unless_failed_switch. apply all_valid_no_failed_switch; exact H.
Qed.
Print Assumptions C12_best_is_heaviest_valid.

(* Orphans: "every delivered valid block whose parent is connected gets
   connected" is FALSE of the code when an invalid sibling is in the pool:
   ProcessOrphans returns at the first orphan that fails and never looks at
   the later ones again.  Witness: 2 (invalid) and 3 (valid) are children of
   1 and arrive first; when 1 arrives, 2 fails on the tip and 3 stays in the
   pool; delivering 3 again is answered "already have block (orphan)".
   Replayed by harness/cmd/c12 (corpus case "invalid-on-tip-and-orphan-sibling");
   recorded in known_findings.jsonl.  (The pool entry expires after one hour
   of wall-clock time in the Go code; the model has no clock.) *)
Theorem C12_orphans_eventually_connected_refuted :
  exists p bs o,
    let s := run p init bs in
    In o bs /\ (b_valid o = true) /\ (sane_ok o = true) /\
    (main_ids s = (b_parent o :: 0%N :: nil)) /\ (b_height o = tip_height s + 1) /\
    In o (orphans s) /\ (block_exists s (b_id o) = false).
Proof.
  exists (mkParams 1000 2000 10).
  exists [mkBlock 2 1 2 1 true false false false; mkBlock 3 1 2 1 true true false false;
          mkBlock 1 0 1 1 true true false false; mkBlock 3 1 2 1 true true false false].
  exists (mkBlock 3 1 2 1 true true false false).
  vm_compute. repeat split; auto.
Qed.
Print Assumptions C12_orphans_eventually_connected_refuted.

(* Every block is indexed at most once, whatever is delivered (the
   BlockExists / orphan-pool checks are sufficient). *)
Theorem C12_index_unique : forall p bs,
  NoDup (map n_id (index (run p init bs))) /\ NoDup (map b_id (orphans (run p init bs))).
Proof.
  intros p bs. destruct (run_BInv p bs) as [_ [A _ C]]. split; assumption.
Qed.
Print Assumptions C12_index_unique.

(* Non-vacuity: a run with orphans delivered first and a successful 2-deep
   reorganisation satisfies the hypotheses; the tip is the heavier branch. *)
Example C12_nonvacuous :
  let p := mkParams 1000 2000 10 in
  let b := fun id par h => mkBlock id par (Z.of_N h) 1 true true false false in
  let bs := [b 13 12 3; b 12 11 2; b 1 0 1; b 2 1 2; b 11 0 1]%N in
  Forall (fun b => b_valid b = true) bs /\
  main_ids (run p init bs) = [13; 12; 11; 0]%N /\ orphans (run p init bs) = [] /\
  no_failed_switch (run p init bs) = true /\
  evlog (run p init bs) = [EvReorg 0 [2; 1] [11; 12; 13]%N true].
Proof. vm_compute. repeat split; try reflexivity. repeat constructor. Qed.
