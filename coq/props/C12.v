(* C12 — the node follows the most-work valid chain.
   Property theorems only (model: model/Chain.v, lemmas: proof/C12_Chain.v).
   [run p init bs] is the node state after delivering the blocks [bs], in that
   order, to BlockChain.ProcessBlock; the theorems quantify over every list of
   blocks (every finite block tree, every delivery order, duplicates, orphans
   first, invalid and insane blocks included) and every parameter set.
   The model has no wall clock: orphan expiry (one hour) is outside. *)
From Coq Require Import ZArith NArith Bool List.
From ELA Require Import model.Chain proof.C12_Struct proof.C12_Chain proof.C30_Irr proof.C12_Orphans proof.C12_Refused.
Import ListNotations.
Local Open Scope Z_scope.

(* After any deliveries the active chain is a parent-linked path from the tip
   to genesis (heights and work sums consistent) made of valid blocks only. *)
Theorem C12_active_chain_valid : forall p bs,
  chain (main (run p init bs)) /\
  forall n, In n (main (run p init bs)) -> b_valid (n_blk n) = true.
Proof. exact active_chain_valid_run. Qed.
Print Assumptions C12_active_chain_valid.

(* Full statement FALSE of the code: a failed switch to a heavier branch does
   not leave the node on its previous chain.  Witness (all blocks of work 1):
   main chain g-1-2; side branch 11 (valid), 12 (invalid in context), 13.
   Delivering 13 makes the branch heavier; reorganizeChain detaches 2 and 1,
   attaches 11, fails on 12 and returns: ProcessBlock reports an error, the
   tip is 11 with work 1 although the fully valid chain g-1-2 (work 2) is
   still known.  Replayed on the real code by harness/cmd/c12 (corpus case
   "failed-switch"); recorded in known_findings.jsonl. *)
Theorem C12_failed_switch_keeps_chain_refuted :
  exists p bs b,
    let s := run p init bs in
    let s' := fst (process_block p s b) in
    r_err (snd (process_block p s b)) = true /\
    main_ids s = [2; 1; 0]%N /\ main_ids s' = [11; 0]%N /\
    n_worksum (tip s') < n_worksum (tip s) /\
    has_id (tip_id s) (index s') = true /\ refused s' = [].
Proof.
  exists (mkParams 1000 2000 10).
  exists [mkBlock 1 0 1 1 true true false false; mkBlock 2 1 2 1 true true false false;
          mkBlock 11 0 1 1 true true false false; mkBlock 12 11 2 1 true false false false].
  exists (mkBlock 13 12 3 1 true true false false).
  vm_compute. repeat split; reflexivity.
Qed.
Print Assumptions C12_failed_switch_keeps_chain_refuted.

(* Strongest true restriction: as long as no reorganisation of the run failed
   half-way ([no_failed_switch]: the excluded class, an explicit boolean), the
   tip is the first-connected node of maximal cumulative work among all known
   nodes that the irreversibility guard did not refuse: every node indexed
   before the tip has strictly less work, every node indexed after it at most
   as much, or it is in [refused].  Invalid blocks may be present. *)
Theorem C12_best_unless_failed_switch_partial : forall p bs,
  no_failed_switch (run p init bs) = true ->
  let s := run p init bs in
  exists pre post, index s = pre ++ tip s :: post /\
    (forall n, In n pre -> n_worksum n < n_worksum (tip s) \/ In (n_id n) (refused s)) /\
    (forall n, In n post -> n_worksum n <= n_worksum (tip s) \/ In (n_id n) (refused s)).
Proof. exact best_unless_failed_switch. Qed.
Print Assumptions C12_best_unless_failed_switch_partial.

(* All delivered blocks valid in context => no switch fails, hence the tip is
   the first-connected maximal-work node not refused by the guard. *)
Theorem C12_best_is_heaviest_valid : forall p bs,
  Forall (fun b => b_valid b = true) bs ->
  let s := run p init bs in
  no_failed_switch s = true /\
  exists pre post, index s = pre ++ tip s :: post /\
    (forall n, In n pre -> n_worksum n < n_worksum (tip s) \/ In (n_id n) (refused s)) /\
    (forall n, In n post -> n_worksum n <= n_worksum (tip s) \/ In (n_id n) (refused s)).
Proof.
  intros p bs H. split.
  - apply all_valid_no_failed_switch; exact H.
  - apply best_unless_failed_switch. apply all_valid_no_failed_switch; exact H.
Qed.
Print Assumptions C12_best_is_heaviest_valid.

(* Orphans: "every delivered valid block whose parent is connected gets
   connected" is FALSE of the code when an invalid sibling is in the pool:
   ProcessOrphans returns at the first orphan that fails and never looks at
   the later ones again.  Witness: 2 (invalid) and 3 (valid) are children of
   1 and arrive first; when 1 arrives, 2 fails on the tip and 3 stays in the
   pool; delivering 3 again is answered "already have block (orphan)".
   Replayed by harness/cmd/c12 (corpus case "invalid-on-tip-and-orphan-sibling");
   recorded in known_findings.jsonl.  (The pool entry expires after one hour
   of wall-clock time in the Go code; the model has no clock.) *)
Theorem C12_orphans_eventually_connected_refuted :
  exists p bs o,
    let s := run p init bs in
    In o bs /\ (b_valid o = true) /\ (sane_ok o = true) /\
    (main_ids s = (b_parent o :: 0%N :: nil)) /\ (b_height o = tip_height s + 1) /\
    In o (orphans s) /\ (block_exists s (b_id o) = false).
Proof.
  exists (mkParams 1000 2000 10).
  exists [mkBlock 2 1 2 1 true false false false; mkBlock 3 1 2 1 true true false false;
          mkBlock 1 0 1 1 true true false false; mkBlock 3 1 2 1 true true false false].
  exists (mkBlock 3 1 2 1 true true false false).
  vm_compute. repeat split; auto.
Qed.
Print Assumptions C12_orphans_eventually_connected_refuted.

(* ... but it is TRUE when every delivered block is sane and valid (declared
   heights consistent, ids identify blocks, none uses the genesis id) and the
   number of deliveries does not exceed the orphan cap (so nothing is evicted;
   the model has no clock: deliveries within the expiry hour): after ANY
   delivery order (duplicates, orphans first) no orphan's parent is indexed,
   every delivered block is indexed or still waiting in the pool, and every
   delivered block all of whose ancestors were delivered ([rooted]) is indexed.
   Together with C12_best_is_heaviest_valid (which holds for every order): such
   a block has at most the tip's work, or the guard refused it. *)
Theorem C12_orphans_eventually_connected : forall p bs,
  blocks_ok bs ->
  (forall b b', In b bs -> In b' bs -> b_id b = b_id b' -> b = b') ->
  (length bs <= p_cap p)%nat ->
  let s := run p init bs in
  (forall o, In o (orphans s) -> has_id (b_parent o) (index s) = false) /\
  (forall b, In b bs -> has_id (b_id b) (index s) = true \/ In b (orphans s)) /\
  (forall b, rooted bs b -> has_id (b_id b) (index s) = true).
Proof. exact orphans_connected. Qed.
Print Assumptions C12_orphans_eventually_connected.

(* Whatever is delivered: a known node with strictly more work than the tip
   exists only if a reorganisation failed half-way, or the irreversibility
   guard refused that node when it arrived - and then the log holds the values
   IsIrreversible saw (tip height cur, detach count d, LIH l) and answered true
   on.  What that answer means is C12_guard_excludes. *)
Theorem C12_heavier_only_if_refused_or_failed : forall p bs,
  let s := run p init bs in
  forall n, In n (index s) -> n_worksum (tip s) < n_worksum n ->
    no_failed_switch s = false \/
    exists cur d l dpos, In (EvRefused (n_id n) cur d l) (evlog s) /\
      is_irreversible p dpos l cur d = true /\ 0 <= d <= cur.
Proof. exact heavier_only_if_refused_or_failed. Qed.
Print Assumptions C12_heavier_only_if_refused_or_failed.

(* What the guard excludes (more than "would detach a block at or below LIH"):
   above CRCOnlyDPOSHeight it refuses a reorganisation of depth d from tip height
   cur iff the fork point cur-d is AT or below LIH (fork point = LIH would only
   detach LIH+1..), or the depth is >= 6 in DPoS mode from RevertToPOWStartHeight
   on, or > 6 before that height. *)
Theorem C12_guard_excludes : forall p dpos l cur d,
  0 <= d <= cur -> cur < 4294967296 ->
  is_irreversible p dpos l cur d = true <->
  p_crc_only p < cur /\
  (cur - d <= l \/
   (p_revert_start p <= cur /\ dpos = true /\ 6 <= d) \/
   (cur < p_revert_start p /\ 6 < d)).
Proof. exact guard_char. Qed.
Print Assumptions C12_guard_excludes.

(* Every block is indexed at most once, whatever is delivered (the
   BlockExists / orphan-pool checks are sufficient). *)
Theorem C12_index_unique : forall p bs,
  NoDup (map n_id (index (run p init bs))) /\ NoDup (map b_id (orphans (run p init bs))).
Proof.
  intros p bs. destruct (run_BInv p bs) as [_ [A _ C]]. split; assumption.
Qed.
Print Assumptions C12_index_unique.

(* Non-vacuity: a run with orphans delivered first and a successful 2-deep
   reorganisation satisfies the hypotheses; the tip is the heavier branch. *)
Example C12_nonvacuous :
  let p := mkParams 1000 2000 10 in
  let b := fun id par h => mkBlock id par (Z.of_N h) 1 true true false false in
  let bs := [b 13 12 3; b 12 11 2; b 1 0 1; b 2 1 2; b 11 0 1]%N in
  Forall (fun b => b_valid b = true) bs /\
  main_ids (run p init bs) = [13; 12; 11; 0]%N /\ orphans (run p init bs) = [] /\
  no_failed_switch (run p init bs) = true /\
  evlog (run p init bs) = [EvReorg 0 [2; 1] [11; 12; 13]%N true].
Proof. vm_compute. repeat split; try reflexivity. repeat constructor. Qed.

(* Non-vacuity of the orphan theorem: the 5 valid blocks [ex_blocks]
   (13->12->11->g and 2->1->g, delivered leaves first) satisfy the hypotheses,
   all are rooted, and the run leaves the pool empty with tip 13. *)
Example C12_orphans_nonvacuous :
  let p := mkParams 1000 2000 10 in
  blocks_ok ex_blocks /\ (length ex_blocks <= p_cap p)%nat /\
  Forall (rooted ex_blocks) ex_blocks /\
  orphans (run p init ex_blocks) = [] /\ tip_id (run p init ex_blocks) = 13%N.
Proof.
  split; [exact ex_blocks_ok|]. split; [vm_compute; repeat constructor|].
  split; [exact ex_rooted|]. vm_compute. split; reflexivity.
Qed.

(* Non-vacuity of the refusal theorem: the deep fork of C30_nonvacuous is
   heavier than the tip and was refused (DPoS mode, depth 7 >= 6). *)
Example C12_refused_nonvacuous :
  let p := mkParams 1 7 10 in
  let b := fun id par h => mkBlock id par (Z.of_N h) 1 true true true false in
  let bs := [b 1 0 1; b 2 1 2; b 3 2 3; b 4 3 4; b 5 4 5; b 6 5 6; b 7 6 7; b 8 7 8; b 9 8 9; b 10 9 10;
             b 204 3 4; b 205 204 5; b 206 205 6; b 207 206 7; b 208 207 8; b 209 208 9; b 210 209 10; b 211 210 11]%N in
  let s := run p init bs in
  no_failed_switch s = true /\ tip_id s = 10%N /\ n_worksum (tip s) = 10 /\
  existsb (fun n => 10 <? n_worksum n) (index s) = true /\
  evlog s = [EvRefused 211 10 7 4] /\ is_irreversible p true 4 10 7 = true.
Proof. vm_compute. repeat split; reflexivity. Qed.
