(* C25 — A block confirmation needs a two-thirds quorum of distinct current
   arbiters.  Property theorems only; each is closed by [exact] of a lemma from
   proof/C25_Confirm.v and followed by Print Assumptions.

   confirm_check = ConfirmSanityCheck && ConfirmContextCheck; pverify/vverify
   are arbitrary signature-verification oracles (the theorems hold for every
   such oracle); good_vote v = accepting, for exactly this proposal hash,
   validly signed by its signer over (hash, signer, accept), signer among the
   current arbiters. *)
From Coq Require Import ZArith List Bool.
From ELA Require Import model.C25_Confirm model.C25_Dispatch proof.C25_Confirm proof.C25_Dispatch.
Import ListNotations.
Local Open Scope Z_scope.

(* int(float64(n)*2/3), evaluated on IEEE binary64, is floor(2n/3) for every
   arbiter count below 2^16 (finite sweep; bound in the statement). *)
Theorem C25_majority_is_floor : forall n, 0 <= n < 65536 -> majority n = 2 * n / 3.
Proof. exact majority_is_floor. Qed.
Print Assumptions C25_majority_is_floor.

(* An accepted confirmation exhibits a duplicate-free set S of current
   arbiters, |S| > floor(2n/3), each of which cast a good vote; moreover every
   vote of the confirmation is good, and the sponsor is a current arbiter with
   a valid proposal signature.  All arbiter sets below 2^16 members, all vote
   lists (duplicates, rejects, foreign signers, wrong hashes, bad signatures). *)
Theorem C25_confirm_sound : forall pverify vverify arbs fb c,
  Z.of_nat (length arbs) < 65536 ->
  confirm_check pverify vverify arbs fb c = true ->
  let p := c_prop c in
  let n := Z.of_nat (length arbs) in
  exists S : list Z,
    NoDup S /\ incl S (map a_key arbs) /\ 2 * n / 3 < Z.of_nat (length S) /\
    (forall k, In k S -> exists v, In v (c_votes c) /\ v_signer v = k /\ good_vote vverify arbs p v) /\
    (forall v, In v (c_votes c) -> good_vote vverify arbs p v) /\
    In (p_sponsor p) (map a_key arbs) /\
    pverify (p_sponsor p) (p_hash p) (p_sig p) = true.
Proof. exact confirm_sound. Qed.
Print Assumptions C25_confirm_sound.

(* Quorum intersection: two duplicate-free sets of members of U (|U| = n,
   duplicates in U allowed), each larger than floor(2n/3), share more than n/3
   elements.  All n. *)
Theorem C25_quorum_intersection : forall U A B : list Z,
  NoDup A -> NoDup B -> incl A U -> incl B U ->
  let n := Z.of_nat (length U) in
  2 * n / 3 < Z.of_nat (length A) -> 2 * n / 3 < Z.of_nat (length B) ->
  n < 3 * Z.of_nat (length (inter A B)).
Proof. exact quorum_intersection. Qed.
Print Assumptions C25_quorum_intersection.

(* Hence any two acceptable confirmations for the same arbiter set share more
   than a third of the arbiters, each of which validly signed both. *)
Theorem C25_two_confirms_intersect : forall pverify vverify arbs fb c1 c2,
  Z.of_nat (length arbs) < 65536 ->
  confirm_check pverify vverify arbs fb c1 = true ->
  confirm_check pverify vverify arbs fb c2 = true ->
  exists I : list Z,
    NoDup I /\ incl I (map a_key arbs) /\ Z.of_nat (length arbs) < 3 * Z.of_nat (length I) /\
    forall k, In k I ->
      (exists v, In v (c_votes c1) /\ v_signer v = k /\ good_vote vverify arbs (c_prop c1) v) /\
      (exists v, In v (c_votes c2) /\ v_signer v = k /\ good_vote vverify arbs (c_prop c2) v).
Proof. exact two_confirms_intersect. Qed.
Print Assumptions C25_two_confirms_intersect.

(* Vote-collection side (dpos/manager/proposaldispatcher.go + the two vote
   handlers).  For every stream of operations — start a proposal on a clean
   dispatcher, park a vote, deliver a vote through the on-duty or the normal
   handler under either message command — whenever the collected accept votes
   exceed the majority count (the dispatcher declares the quorum and assembles
   the confirm "processing proposal + all collected accept votes"), that
   confirm passes ConfirmSanityCheck && ConfirmContextCheck ... *)
Theorem C25_dispatcher_quorum_checks : forall vverify arbs fb pverify ops st p,
  starts_clean vverify arbs fb pverify d_empty ops = true ->
  run vverify arbs fb d_empty ops = st ->
  d_prop st = Some p ->
  has_majority arbs fb (length (d_acc st)) = true ->
  confirm_check pverify vverify arbs fb {| c_prop := p; c_votes := d_acc st |} = true.
Proof. exact dispatcher_quorum_checks. Qed.
Print Assumptions C25_dispatcher_quorum_checks.

(* ... hence it carries more than floor(2n/3) distinct current arbiters, every
   collected vote accepting, validly signed, for exactly this proposal. *)
Theorem C25_dispatcher_confirm_sound : forall pverify vverify arbs fb ops st p,
  Z.of_nat (length arbs) < 65536 ->
  starts_clean vverify arbs fb pverify d_empty ops = true ->
  run vverify arbs fb d_empty ops = st ->
  d_prop st = Some p ->
  has_majority arbs fb (length (d_acc st)) = true ->
  let n := Z.of_nat (length arbs) in
  exists S : list Z,
    NoDup S /\ incl S (map a_key arbs) /\ 2 * n / 3 < Z.of_nat (length S) /\
    (forall k, In k S -> exists v, In v (d_acc st) /\ v_signer v = k /\ good_vote vverify arbs p v) /\
    (forall v, In v (d_acc st) -> good_vote vverify arbs p v) /\
    In (p_sponsor p) (map a_key arbs).
Proof. exact dispatcher_confirm_sound. Qed.
Print Assumptions C25_dispatcher_confirm_sound.

(* Non-vacuity: with 4 arbiters (majority 2) three distinct good votes are
   accepted; two good votes, or three votes by two signers, are not; a vote by
   an abnormal arbiter or with a failing signature rejects the confirmation. *)
Definition ex_arbs := [ {| a_key := 11; a_normal := true |}; {| a_key := 12; a_normal := true |};
                        {| a_key := 13; a_normal := true |}; {| a_key := 14; a_normal := false |} ].
Definition ex_pv (k h s : Z) := (s =? k + h).
Definition ex_vv (k h : Z) (a : bool) (s : Z) := a && (s =? k * h).
Definition ex_vote k := {| v_hash := 7; v_signer := k; v_accept := true; v_sig := k * 7 |}.
Definition ex_conf vs := {| c_prop := {| p_sponsor := 11; p_hash := 7; p_sig := 18 |}; c_votes := vs |}.
Example C25_nonvacuous :
  majority 4 = 2 /\ majority 36 = 24 /\
  confirm_check ex_pv ex_vv ex_arbs 0 (ex_conf [ex_vote 11; ex_vote 12; ex_vote 13]) = true /\
  confirm_check ex_pv ex_vv ex_arbs 0 (ex_conf [ex_vote 11; ex_vote 12]) = false /\
  confirm_check ex_pv ex_vv ex_arbs 0 (ex_conf [ex_vote 11; ex_vote 12; ex_vote 12]) = false /\
  confirm_check ex_pv ex_vv ex_arbs 0 (ex_conf [ex_vote 11; ex_vote 12; ex_vote 13; ex_vote 14]) = false /\
  confirm_check ex_pv ex_vv ex_arbs 0
    (ex_conf [ex_vote 11; ex_vote 12; ex_vote 13; {| v_hash := 7; v_signer := 12; v_accept := true; v_sig := 1 |}]) = false.
Proof. vm_compute. repeat split; reflexivity. Qed.

(* Non-vacuity, dispatcher: 4 arbiters (one abnormal); a parked vote, two
   accepts, a reject vote sent under the accept command (ignored), then the
   third accept declares the quorum. *)
Definition ex_rvote k := {| v_hash := 7; v_signer := k; v_accept := false; v_sig := 0 |}.
Definition ex_vv2 (k h : Z) (a : bool) (s : Z) := if a then (s =? k * h) else (s =? 0).
Definition ex_ops := [ OPend (ex_vote 12); OStart {| p_sponsor := 11; p_hash := 7; p_sig := 18 |};
                       ODuty (ex_vote 11) true; ONormal (ex_rvote 12) true; ODuty (ex_vote 12) true;
                       ONormal (ex_vote 13) true ].
Example C25_dispatcher_nonvacuous :
  starts_clean ex_vv2 ex_arbs 0 ex_pv d_empty ex_ops = true /\
  trace ex_vv2 ex_arbs 0 d_empty ex_ops =
    [(false, false); (false, false); (true, false); (false, false); (false, false); (true, true)] /\
  length (d_acc (run ex_vv2 ex_arbs 0 d_empty ex_ops)) = 3%nat /\
  has_majority ex_arbs 0 3 = true /\ has_majority ex_arbs 0 2 = false.
Proof. vm_compute. repeat split; reflexivity. Qed.
