(* C21 — DPoS state after a rollback equals the state built directly.
   Property theorems only (model: model/C21_Dpos.v on lib/History.v; proofs:
   proof/C21_Dpos.v, using C20's refinement invariant).

   The theorems cover the transaction kinds of the reduced model (register /
   update / cancel producer, v1 delegate votes and their cancellation, deposit
   top-up and return, pending -> active after 6 confirmations, deposit release
   after the lock-up, last-block time, RevertToPOW / RevertToDPOS and the switch
   back to DPOS (consensus mode), the irreversibility bookkeeping, emergency
   inactivity / activation request / reactivation, illegal evidence with
   penalties).  All
   other kinds are covered by the differential oracle of harness/cmd/c21 on
   the real code only (level: partial). *)
From Coq Require Import ZArith NArith List Bool.
From ELA Require Import lib.History proof.C20_History model.C21_Dpos proof.C21_Dpos proof.C21_OneWriter.
Import ListNotations.
Local Open Scope Z_scope.

(* change_discipline: the per-coordinate condition under which the
   forward-order rollback of utils.History is exact.  A block's change list
   passes [changes_disciplined] at the pre-block state s when for every
   coordinate j, over all do lists D and undo lists U of the block in order:
   nothing targets j; or the last primitive of U targeting j assigns s[j]; or
   only additions target j and they sum to zero over D and U; or j is targeted
   by one addition p >= 0 in D and one saturating subtraction of p in U and
   s[j] >= 0.  Then undoing right after executing gives s back. *)
Theorem C21_change_discipline : forall (s : vec) (cs : list dchg),
  changes_disciplined s cs = true -> undos cs (dos cs s) = s.
Proof. exact change_discipline. Qed.
Print Assumptions C21_change_discipline.

(* rollback_eq_direct: for every sequence of blocks bs1 ++ bs2 processed at
   strictly increasing heights whose change lists are disciplined at their
   pre-block states, rolling back to the height reached after bs1 gives
   exactly the state and best height of processing bs1 alone, as long as the
   history (capacity p_cap) still holds the entries of bs2. *)
Theorem C21_rollback_eq_direct_partial : forall (P : params) bs1 bs2 st1 st2,
  blocks_ok P (bs1 ++ bs2) (init P) ->
  process_all P bs1 (init P) = Some st1 ->
  process_all P bs2 st1 = Some st2 ->
  (length (h_changes (fst st2)) >= length bs2)%nat ->
  exists st', rollback (Z.of_N (h_height (fst st1))) (Some st2) = Some st' /\
              snd st' = snd st1 /\ h_height (fst st') = h_height (fst st1).
Proof. exact rollback_eq_direct. Qed.
Print Assumptions C21_rollback_eq_direct_partial.

(* From block validity to the discipline hypothesis: if every change of the
   block is disciplined on its own and every coordinate is written by at most
   one change of the block unless all its updates in the block are additions
   (the node admits one transaction per producer per block; votes and deposit
   amounts are additive), the block is disciplined. *)
Theorem C21_one_writer_discipline : forall (s : vec) (cs : list dchg),
  each_disciplined s cs = true -> one_writer s cs = true -> changes_disciplined s cs = true.
Proof. exact one_writer_discipline. Qed.
Print Assumptions C21_one_writer_discipline.

(* ... hence rollback = direct build for every sequence of such valid blocks. *)
Theorem C21_rollback_eq_direct_valid_blocks : forall (P : params) bs1 bs2 st1 st2,
  blocks_validb P (bs1 ++ bs2) (init P) = true ->
  process_all P bs1 (init P) = Some st1 ->
  process_all P bs2 st1 = Some st2 ->
  (length (h_changes (fst st2)) >= length bs2)%nat ->
  exists st', rollback (Z.of_N (h_height (fst st1))) (Some st2) = Some st' /\
              snd st' = snd st1 /\ h_height (fst st') = h_height (fst st1).
Proof. exact rollback_eq_direct_valid. Qed.
Print Assumptions C21_rollback_eq_direct_valid_blocks.

Example C21_valid_blocks_nonvacuous :
  blocks_validb dP (d_blocks1 ++ d_blocks2) (init dP) = true /\
  blocks_validb iPar i_prefix (init iPar) = true.
Proof. exact valid_blocks_demo. Qed.

(* [blocks_ok] is decidable: the boolean form used by the correspondence. *)
Theorem C21_blocks_ok_decidable : forall P bs st, blocks_okb P bs st = true -> blocks_ok P bs st.
Proof. exact blocks_okb_ok. Qed.
Print Assumptions C21_blocks_ok_decidable.

(* Without the discipline hypothesis the statement is false of the code as
   modelled: a CancelProducer in the very block that activates the pending
   producer leaves it canceled and active at once, a second cancel is accepted
   and its rollback does not restore the state (cancelHeight = 0).  The
   prefix is disciplined, the block of the second cancel is not. *)
Theorem C21_rollback_eq_direct_refuted :
  rollback_agrees wP w_blocks1 w_blocks2 = false /\
  blocks_okb wP w_blocks1 (init wP) = true /\
  blocks_okb wP (w_blocks1 ++ w_blocks2) (init wP) = false.
Proof. exact cancel_in_activation_block_refuted. Qed.
Print Assumptions C21_rollback_eq_direct_refuted.

(* Inactive / illegal producers.  The += / -= (emergency inactivity, with the
   saturating revert) and += / = ori (illegal evidence) updates of
   producer.penalty meet the condition when the illegal evidence is the last
   change of the block touching the penalty, and violate it otherwise: with a
   prior penalty of 500, [inactive; illegal] rolls back to 500, [illegal;
   inactive] to 0.  Replayed on the real code (corpus traces penalty-mix and penalty-mix-reversed). *)
Theorem C21_penalty_mix_refuted :
  penalty_after_rollback [TInactive 0; TIllegal 0] = Some 500 /\
  penalty_after_rollback [TIllegal 0; TInactive 0] = Some 0.
Proof. exact penalty_mix_refuted. Qed.
Print Assumptions C21_penalty_mix_refuted.

(* revertSettingInactiveProducer restores constants (inactiveSince = 0,
   activateRequestHeight = MaxUint32, removal from EmergencyInactiveArbiters):
   the second inactivity of a producer is not disciplined and does not roll
   back exactly.  Replayed on the real code (corpus:inactive-after-reactivation). *)
Theorem C21_inactive_again_refuted :
  rollback_agrees iPar i_prefix [Block 26 1026 [TInactive 0]] = false /\
  blocks_okb iPar (i_prefix ++ [Block 26 1026 [TInactive 0]]) (init iPar) = false.
Proof. exact inactive_again_refuted. Qed.
Print Assumptions C21_inactive_again_refuted.

(* ... while a first inactivity, the activation request and the reactivation
   are disciplined (so C21_rollback_eq_direct_partial applies) and roll back
   exactly; the penalty 500 stays, inactiveSince = 17, request height 18. *)
Example C21_inactive_nonvacuous :
  blocks_okb iPar i_prefix (init iPar) = true /\
  rollback_agrees iPar (firstn 7 i_prefix) (skipn 7 i_prefix) = true /\
  match process_all iPar i_prefix (init iPar) with
  | Some st => get (snd st) (iP 0 fSt) = stActive /\ get (snd st) (iP 0 fPenalty) = 500 /\
               get (snd st) (iP 0 fInactiveSince) = 17 /\ get (snd st) (iP 0 fActReq) = 18
  | None => False
  end.
Proof. exact inactive_first_time_ok. Qed.

(* Non-vacuity: 13 blocks with every modelled transaction kind and the
   irreversibility bookkeeping active satisfy the hypotheses; the rollback of
   the last 6 agrees with the direct build (computed), producer 0 ends
   Returned, producer 1 Canceled, LastIrreversibleHeight = 16. *)
Example C21_nonvacuous :
  blocks_okb dP (d_blocks1 ++ d_blocks2) (init dP) = true /\
  rollback_agrees dP d_blocks1 d_blocks2 = true /\
  match process_all dP (d_blocks1 ++ d_blocks2) (init dP) with
  | Some st => get (snd st) (iP 0 fSt) = stReturned /\ get (snd st) (iP 1 fSt) = stCanceled /\
               get (snd st) (iLih dP) = 16 /\ length (h_changes (fst st)) = 13%nat
  | None => False
  end.
Proof. exact demo_blocks_ok. Qed.
