(* C21 — DPoS state after a rollback equals the state built directly.
   Property theorems only (model: model/C21_Dpos.v on lib/History.v; proofs:
   proof/C21_Dpos.v, using C20's refinement invariant).

   The theorems cover the transaction kinds of the reduced model (register /
   update / cancel producer, v1 delegate votes and their cancellation, deposit
   top-up and return, pending -> active after 6 confirmations, deposit release
   after the lock-up, last-block time, RevertToPOW / RevertToDPOS and the switch
   back to DPOS (consensus mode), the irreversibility bookkeeping).  All
   other kinds are covered by the differential oracle of harness/cmd/c21 on
   the real code only (level: partial). *)
From Coq Require Import ZArith NArith List Bool.
From ELA Require Import lib.History proof.C20_History model.C21_Dpos proof.C21_Dpos.
Import ListNotations.
Local Open Scope Z_scope.

(* change_discipline: a block's change list that passes the computable check
   [disciplined] at the pre-block state s (undo lists assign pre-block values
   to assigned locations and negate the additive updates of the do list; do
   lists touch only what the undo lists restore) is undone exactly by the
   forward-order rollback of utils.History. *)
Theorem C21_change_discipline : forall (P : params) (s : vec) (cs : list dchg),
  forallb (disciplined P s) cs = true -> undos cs (dos cs s) = s.
Proof. exact change_discipline. Qed.
Print Assumptions C21_change_discipline.

(* rollback_eq_direct: for every sequence of blocks bs1 ++ bs2 processed at
   strictly increasing heights whose change lists are disciplined at their
   pre-block states, rolling back to the height reached after bs1 gives
   exactly the state and best height of processing bs1 alone, as long as the
   history (capacity p_cap) still holds the entries of bs2. *)
Theorem C21_rollback_eq_direct_partial : forall (P : params) bs1 bs2 st1 st2,
  blocks_ok P (bs1 ++ bs2) (init P) ->
  process_all P bs1 (init P) = Some st1 ->
  process_all P bs2 st1 = Some st2 ->
  (length (h_changes (fst st2)) >= length bs2)%nat ->
  exists st', rollback (Z.of_N (h_height (fst st1))) (Some st2) = Some st' /\
              snd st' = snd st1 /\ h_height (fst st') = h_height (fst st1).
Proof. exact rollback_eq_direct. Qed.
Print Assumptions C21_rollback_eq_direct_partial.

(* [blocks_ok] is decidable: the boolean form used by the correspondence. *)
Theorem C21_blocks_ok_decidable : forall P bs st, blocks_okb P bs st = true -> blocks_ok P bs st.
Proof. exact blocks_okb_ok. Qed.
Print Assumptions C21_blocks_ok_decidable.

(* Without the discipline hypothesis the statement is false of the code as
   modelled: a CancelProducer in the very block that activates the pending
   producer leaves it canceled and active at once, a second cancel is accepted
   and its rollback does not restore the state (cancelHeight = 0).  The
   prefix is disciplined, the block of the second cancel is not. *)
Theorem C21_rollback_eq_direct_refuted :
  rollback_agrees wP w_blocks1 w_blocks2 = false /\
  blocks_okb wP w_blocks1 (init wP) = true /\
  blocks_okb wP (w_blocks1 ++ w_blocks2) (init wP) = false.
Proof. exact cancel_in_activation_block_refuted. Qed.
Print Assumptions C21_rollback_eq_direct_refuted.

(* Non-vacuity: 13 blocks with every modelled transaction kind and the
   irreversibility bookkeeping active satisfy the hypotheses; the rollback of
   the last 6 agrees with the direct build (computed), producer 0 ends
   Returned, producer 1 Canceled, LastIrreversibleHeight = 16. *)
Example C21_nonvacuous :
  blocks_okb dP (d_blocks1 ++ d_blocks2) (init dP) = true /\
  rollback_agrees dP d_blocks1 d_blocks2 = true /\
  match process_all dP (d_blocks1 ++ d_blocks2) (init dP) with
  | Some st => get (snd st) (iP 0 fSt) = stReturned /\ get (snd st) (iP 1 fSt) = stCanceled /\
               get (snd st) (iLih dP) = 16 /\ length (h_changes (fst st)) = 13%nat
  | None => False
  end.
Proof. exact demo_blocks_ok. Qed.
