(* C36 — RPC access control and service levels are enforced.
   Property theorems only. *)
From Coq Require Import List Bool String NArith PArith.
From ELA Require Import lib.Graph proof.Graph model.C36_Access proof.C36_Access gen.C36_handlers proof.C36_Static.
Import ListNotations.
Local Open Scope string_scope.

(* (a) A JSON-RPC request reaches method dispatch only if its address is
   loopback or whitelisted (the entry 0.0.0.0 whitelists everyone) and, when
   credentials are configured, the first Authorization value is exactly the
   configured Basic credential (or collides with it under SHA-256, the
   comparison the handler makes) — for every behaviour of SplitHostPort,
   ParseIP, base64 and SHA-256. *)
Theorem C36_served_implies_authorised :
  forall (split_host : string -> option string) (parse_ip : string -> option (bool * string))
         (basic_auth : string -> string -> string) (H : string -> string)
         remote wl user pass is_post ctype_ok hdrs,
    handle split_host parse_ip basic_auth H remote wl user pass is_post ctype_ok hdrs = Dispatched ->
    address_authorised split_host parse_ip remote wl /\
    credential_authorised basic_auth H user pass hdrs /\ is_post = true /\ ctype_ok = true.
Proof. exact served_implies_authorised. Qed.
Print Assumptions C36_served_implies_authorised.

(* (b) Over the table regenerated from the source: every registered method
   that the specification classifies (mining / transaction / configuration /
   wallet) starts with a service-level check at least as strict as its class. *)
Theorem C36_all_privileged_gated :
  forall m n g l, In (m, n, g) C36_handlers.handlers -> lookup m required = Some l ->
    exists g', g = Some g' /\ (g' <= l)%N.
Proof. exact all_privileged_gated. Qed.
Print Assumptions C36_all_privileged_gated.

(* ... and every registered method, classified or not, whose handler reaches
   (within package servers/) the transaction pool's Append*, a mining entry
   point of pow.Service, a log-level setter or account/wallet code starts with
   a check at least as strict as that sink's class. *)
Theorem C36_sink_reaching_handlers_gated :
  forall m n g s l, In (m, n, g) C36_handlers.handlers -> In (s, l) C36_handlers.sinks ->
    reachable C36_handlers.graph n s -> exists g', g = Some g' /\ (g' <= l)%N.
Proof. exact sink_reaching_gated. Qed.
Print Assumptions C36_sink_reaching_handlers_gated.

(* A gate at most l refuses to run whenever the configured level forbids class l. *)
Theorem C36_gate_refuses_when_forbidden :
  forall g l cfg, (g <= l)%N -> (l < cfg)%N -> gate_runs g cfg = false.
Proof. exact gate_refuses. Qed.
Print Assumptions C36_gate_refuses_when_forbidden.

(* Non-vacuity: every method of the specification is registered; for each of
   the four classes some registered handler does reach a sink of that class;
   a loopback request without configured credentials is served, a foreign one
   is not. *)
Example C36_spec_registered : required_registered_b C36_handlers.handlers = true.
Proof. exact spec_registered. Qed.
Example C36_static_nonvacuous :
  forallb (fun c => existsb (fun h => match h with (_, n, _) =>
      reach_ok C36_handlers.graph [n] (map fst (filter (fun s => N.eqb (snd s) c) C36_handlers.sinks)) end)
      C36_handlers.handlers) [0%N; 1%N; 2%N; 3%N] = true.
Proof. exact static_nonvacuous. Qed.
Example C36_access_example :
  let split := fun _ : string => Some "h" in
  handle split (fun _ => Some (true, "127.0.0.1")) (fun _ _ => "B") (fun s => s) "r" [] "" "" true true [] = Dispatched
  /\ handle split (fun _ => Some (false, "10.0.0.9")) (fun _ _ => "B") (fun s => s) "r" ["10.0.0.8"] "" "" true true [] = Forbidden403
  /\ handle split (fun _ => Some (false, "10.0.0.9")) (fun _ _ => "B") (fun s => s) "r" ["10.0.0.9"] "u" "p" true true ["X"] = Unauthorized401.
Proof. vm_compute. repeat split. Qed.
