(* C22 — CR committee state after a rollback equals the state built directly
   (reduced model; the differential oracle of harness/cmd/c22 covers the full
   committee, see notes/C22.md).  Property theorems only. *)
From Coq Require Import ZArith Bool List Sorted Lia.
From ELA Require Import lib.History model.C22_CrState proof.C22_CrState.
Import ListNotations.
Local Open Scope Z_scope.

(* Change discipline: if no cell of a height's change list is both assigned
   and added to, and every assignment's undo value is the cell's value in the
   state s where the list was recorded, then undoing the list (in the
   history's forward order) after executing it gives back s. *)
Theorem C22_change_discipline : forall s cs,
  disc s cs -> meq (undo_order (map to_change cs) (do_all (map to_change cs) s)) s.
Proof. intros s cs D. rewrite undo_order_map, do_all_map. now apply entry_good. Qed.
Print Assumptions C22_change_discipline.

(* The closures of the modelled transaction kinds (CRC votes, vote
   cancellations, unregistration, proposal review, budget commitment and
   release), built from the pre-block state, satisfy the discipline whenever a
   candidate being unregistered has CancelHeight 0 (the Go undo resets it to the
   literal 0). *)
Theorem C22_modelled_kinds_disciplined : forall s h txs,
  unreg_fresh s txs -> disc s (mk_changes s h txs).
Proof. exact mk_disc. Qed.
Print Assumptions C22_modelled_kinds_disciplined.

(* Rollback = direct build: for every sequence of blocks with increasing
   heights over the modelled kinds, every start state and every target k. *)
Theorem C22_rollback_eq_direct : forall k bs s0, increasing bs -> good s0 bs ->
  meq (rollback_to k (fst (process s0 bs)) (snd (process s0 bs))) (direct k s0 bs).
Proof. exact rollback_eq_direct. Qed.
Print Assumptions C22_rollback_eq_direct.

(* Without the discipline the forward undo order is wrong (C20's finding seen
   from here): two assignments of one cell in one height with different undo
   values. *)
Theorem C22_undisciplined_refuted : exists cs s, get 7 (undos cs (dos cs s)) <> get 7 s.
Proof. exact undisciplined_refuted. Qed.
Print Assumptions C22_undisciplined_refuted.

(* Non-vacuity: three blocks with votes, a cancellation, an unregistration, a
   review and a budget; rolling back to height 11 gives the state after block
   11, which differs from both the start and the end. *)
Definition ex_bs : list (Z * list tx) :=
  [(11, [TxVote [(0, 5); (1, 7)]; TxProposalBudget 100]);
   (12, [TxCancelVote [(0, 5); (1, 7)]; TxVote [(1, 9)]; TxUnregister 0; TxReview 1 2 0]);
   (13, [TxTrackingRelease 40; TxReview 1 2 1; TxReview 1 2 2])].
Definition ex_s0 : mem := [(cstate 0, 1); (cstate 1, 1)].
Example C22_nonvacuous :
  increasing ex_bs /\ good ex_s0 ex_bs /\
  let '(log, s) := process ex_s0 ex_bs in
  (get (votes 1) s, get (cstate 0) s, get (cancelh 0) s, get (review 1 2) s, get used s) = (9, 2, 12, 3, 60) /\
  (let r := rollback_to 11 log s in
   (get (votes 0) r, get (votes 1) r, get (cstate 0) r, get (cancelh 0) r, get (review 1 2) r, get used r) = (5, 7, 1, 0, 0, 100)).
Proof.
  split; [repeat constructor; simpl; lia|]. split.
  - simpl. repeat split; intros i [H|H]; try discriminate H; try contradiction;
      repeat (destruct H as [H|H]; try discriminate H; try contradiction); injection H as <-; reflexivity.
  - vm_compute. split; reflexivity.
Qed.
