(* C22 — CR committee state after a rollback equals the state built directly
   (reduced model; the differential oracle of harness/cmd/c22 covers the full
   committee, see notes/C22.md).  Property theorems only. *)
From Coq Require Import ZArith Bool List Sorted Lia.
From ELA Require Import lib.History model.C22_CrState proof.C22_CrState.
Import ListNotations.
Local Open Scope Z_scope.

(* Change discipline: if no cell of an entry's change list is both
   undo-assigned and added to, and every undo value is the cell's value in the
   state s where the list was recorded, then undoing the list (in the history's
   forward order) after executing it gives back s. *)
Theorem C22_change_discipline : forall s cs,
  disc s cs -> meq (undo_order (map to_change cs) (do_all (map to_change cs) s)) s.
Proof. intros s cs D. rewrite undo_order_map, do_all_map. now apply entry_good. Qed.
Print Assumptions C22_change_discipline.

(* The boolean discipline check evaluated on observed histories is sound. *)
Theorem C22_discipline_check_sound : forall s cs, discb s cs = true -> disc s cs.
Proof. exact discb_sound. Qed.
Print Assumptions C22_discipline_check_sound.

(* The closures of the simple kinds (CRC votes, vote cancellations,
   unregistration, review, reject votes, impeachment votes, budget commitment
   and release) satisfy the discipline by construction, provided a candidate
   being unregistered has CancelHeight 0 (the Go undo resets it to the literal 0). *)
Theorem C22_modelled_kinds_disciplined : forall s h txs,
  Forall simple txs -> unreg_fresh s txs -> disc s (mk_changes s h txs).
Proof. exact mk_disc. Qed.
Print Assumptions C22_modelled_kinds_disciplined.

(* Rollback = direct build over all modelled kinds (now including proposal
   tracking of every type, withdrawal, abort on council dissolution, member
   state transfer on impeachment / termination, dissolution and captured-old
   assignments of field sets as at a committee change): for every sequence of
   entries with non-decreasing heights (the histories of one block share its
   height) that passes the discipline at each recording state, every start
   state and every target. *)
Theorem C22_rollback_eq_direct : forall k bs s0, nondecreasing bs -> good s0 bs ->
  meq (rollback_to k (fst (process s0 bs)) (snd (process s0 bs))) (direct k s0 bs).
Proof. exact rollback_eq_direct. Qed.
Print Assumptions C22_rollback_eq_direct.

Theorem C22_rollback_eq_direct_checked : forall k bs s0, nondecreasing bs -> goodb s0 bs = true ->
  meq (rollback_to k (fst (process s0 bs)) (snd (process s0 bs))) (direct k s0 bs).
Proof. intros. apply rollback_eq_direct; auto. now apply goodb_good. Qed.
Print Assumptions C22_rollback_eq_direct_checked.

(* Without the discipline the forward undo order is wrong. *)
Theorem C22_undisciplined_refuted : exists cs s, get 7 (undos cs (dos cs s)) <> get 7 s.
Proof. exact undisciplined_refuted. Qed.
Print Assumptions C22_undisciplined_refuted.

(* A literal undo value is only right when it is the recorded value: a
   progress tracking recorded while FinalPaymentStatus is already raised
   lowers it on rollback, and the discipline check rejects that entry. *)
Theorem C22_literal_undo_refuted :
  exists s, get (final 1) s = 1 /\
    let cs := mk_changes s 9 [TxTrack 1 TProgress 0 5 0 false [1; 2] 0] in
    get (final 1) (undos cs (dos cs s)) = 0 /\ discb s cs = false.
Proof. exact literal_undo_refuted. Qed.
Print Assumptions C22_literal_undo_refuted.

(* Non-vacuity: votes, cancellation, unregistration, review, budget; then a
   block with a withdrawal and a progress tracking of one proposal, a block
   whose state entry carries impeachment votes and whose committee entry
   impeaches the member, dissolves the council and (manager entry) aborts a
   pending proposal; a committee-change style reassignment.  All entries pass
   the discipline check; rolling back to 12 gives the state after height 12. *)
Definition ex_s0 : mem :=
  [(cstate 0, 1); (cstate 1, 1); (pstatus 1, 2); (bstat 1 0, 1); (wable 1 0, 11); (bstat 1 1, 0); (bstat 1 2, 0);
   (pstatus 2, 0); (bstat 2 0, 1); (bstat 2 1, 0); (mstate 3, 0); (deposit 3, 500000000000); (inelect, 1); (used, 100)].
Definition ex_bs : list (Z * list tx) :=
  [(11, [TxVote [(0, 5); (1, 7)]; TxProposalBudget 100]);
   (12, [TxCancelVote [(0, 5); (1, 7)]; TxVote [(1, 9)]; TxUnregister 0; TxReview 2 2 0]);
   (13, [TxWithdraw 1 [0; 1; 2] 77; TxTrack 1 TProgress 1 20 0 false [0; 1; 2] 0; TxImpeachVote 3 1000]);
   (13, [TxAbort 2 [0; 1]]);
   (13, [TxTransferMember 3 MImpeached 42; TxDissolve 13]);
   (14, [TxTrack 1 TFinalized 2 30 2 false [0; 1; 2] 0]);
   (14, [TxAssignMany [(used, 55); (cstate 1, 0); (mstate 3, 0)]])].
Example C22_nonvacuous :
  nondecreasing ex_bs /\ goodb ex_s0 ex_bs = true /\
  let '(log, s) := process ex_s0 ex_bs in
  (get (wn 1 0) s, get (bstat 1 0) s, get (bstat 1 1) s, get (wable 1 1) s, get (pstatus 1) s, get (wable 1 2) s,
   get (pstatus 2) s, get (bstat 2 1) s, get (mstate 3) s, get (penalty 3) s, get (deposit 3) s, get inelect s, get used s)
  = (11, 2, 1, 21, 3, 31, 7, 4, 0, 42, 0, 0, 55) /\
  (let r := rollback_to 12 log s in
   (get (wn 1 0) r, get (bstat 1 0) r, get (bstat 1 1) r, get (wable 1 1) r, get (pstatus 1) r, get (wtx 77) r,
    get (pstatus 2) r, get (bstat 2 1) r, get (mstate 3) r, get (penalty 3) r, get (deposit 3) r, get inelect r,
    get (imp 3) r, get used r, get (votes 1) r, get (cstate 0) r)
   = (0, 1, 0, 0, 2, 0, 0, 0, 0, 0, 500000000000, 1, 0, 200, 9, 2)).
Proof.
  split; [repeat constructor; simpl; lia|]. split; [vm_compute; reflexivity|].
  vm_compute. split; reflexivity.
Qed.
