(* C05 — Spending requires valid signatures from every spent address; an
   m-of-n program needs m distinct keys.  Property theorems only; each is
   closed by [exact] of a lemma of proof/C05_Sig.v.  All theorems hold for
   every choice of the cryptographic oracles (code hash, point decoding,
   ECDSA and Schnorr verification, SHA-256 of a key script). *)
From Coq Require Import ZArith Bool List.
From ELA Require Import model.C05_Sig proof.C05_Sig gen.C05_exempt.
Import ListNotations.
Local Open Scope Z_scope.

(* RunPrograms accepts only if every program hash that is not of the legacy
   CrossChain prefix (0x4b = 75, see the _refuted theorem below) is answered
   by a program whose code hashes to it and which is [authorised] over the
   signed data: a verifying Schnorr signature, a verifying ECDSA signature
   of the standard script's key, or an m-of-n threshold. *)
Theorem C05_run_programs_sound_partial :
  forall codehash point_ok verify_ecdsa verify_schnorr keyhash data hashes progs,
  run_programs codehash point_ok verify_ecdsa verify_schnorr keyhash true data hashes progs = true ->
  forall h, In h hashes -> negb (prefix_of h =? 75) = true ->
  exists cp, In cp progs /\ tl h = codehash (fst cp) /\
             authorised verify_ecdsa verify_schnorr data (fst cp) (snd cp).
Proof. exact run_programs_sound_b. Qed.
Print Assumptions C05_run_programs_sound_partial.

(* The same at the level of checkTransactionSignature: every referenced
   (spent) address and every Script attribute hash, de-duplicated and sorted
   as the node does it, has such a program among the transaction's programs. *)
Theorem C05_transaction_signature_sound_partial :
  forall codehash point_ok verify_ecdsa verify_schnorr keyhash data refs attrs progs,
  check_tx_signature codehash point_ok verify_ecdsa verify_schnorr keyhash true data refs attrs progs = true ->
  forall h, In h refs \/ In (32, h) attrs -> negb (prefix_of h =? 75) = true ->
  exists cp, In cp progs /\ tl h = codehash (fst cp) /\
             authorised verify_ecdsa verify_schnorr data (fst cp) (snd cp).
Proof. exact check_tx_signature_sound_b. Qed.
Print Assumptions C05_transaction_signature_sound_partial.

(* VerifyMultisigSignatures accepts only if at least m script entries with
   pairwise different 33-byte keys each have a verifying signature among the
   65-byte chunks of the parameter (one key cannot fill two slots, neither by
   repeating a signature, nor by signing twice, nor by appearing twice in the
   script, nor under a different length byte). *)
Theorem C05_multisig_threshold :
  forall point_ok verify_ecdsa keyhash m n keys sigs data,
  verify_multisig point_ok verify_ecdsa keyhash m n keys sigs data = true ->
  exists ks, NoDup (map (@tl Z) ks) /\ incl ks keys /\ m <= len ks /\
    forall k, In k ks ->
      exists s, In s (chunks (length sigs) 65 sigs) /\ verify_ecdsa (tl k) data (tl s) = true.
Proof. exact multisig_threshold_min. Qed.
Print Assumptions C05_multisig_threshold.

(* Tampering: the signed data influences acceptance only through the
   verification oracles ... *)
Theorem C05_tamper_only_through_oracles :
  forall codehash point_ok verify_ecdsa verify_schnorr keyhash d d',
  (forall k s, verify_ecdsa k d s = verify_ecdsa k d' s) ->
  (forall k s, verify_schnorr k d s = verify_schnorr k d' s) ->
  forall strict hashes progs,
  run_programs codehash point_ok verify_ecdsa verify_schnorr keyhash strict d hashes progs =
  run_programs codehash point_ok verify_ecdsa verify_schnorr keyhash strict d' hashes progs.
Proof. exact run_programs_ext. Qed.
Print Assumptions C05_tamper_only_through_oracles.

(* ... and if no signature verifies over the (tampered) data, any call with
   at least one non-CrossChain hash is rejected. *)
Theorem C05_no_valid_signature_rejected :
  forall codehash point_ok verify_ecdsa verify_schnorr keyhash data hashes progs h,
  (forall k s, verify_ecdsa k data s = false) -> (forall k s, verify_schnorr k data s = false) ->
  In h hashes -> prefix_of h <> 75 ->
  run_programs codehash point_ok verify_ecdsa verify_schnorr keyhash true data hashes progs = false.
Proof. exact no_valid_signature_rejected. Qed.
Print Assumptions C05_no_valid_signature_rejected.

(* Gap (a), repaired in /repo by "fix: RunPrograms rejects Standard/Deposit
   programs of unknown code shape": before the repair ([strict] = false) a
   Standard-prefix address whose code is 30 bytes of 0x6a was spendable with an
   empty parameter, whatever the oracles; after the repair it is rejected. *)
Theorem C05_unknown_code_shape_refuted_before_fix :
  forall codehash point_ok verify_ecdsa verify_schnorr keyhash data,
  run_programs codehash point_ok verify_ecdsa verify_schnorr keyhash false data
     [33 :: codehash junk_code] [(junk_code, [])] = true.
Proof. exact unknown_shape_before_fix. Qed.
Print Assumptions C05_unknown_code_shape_refuted_before_fix.

Theorem C05_unknown_code_shape_rejected_after_fix :
  forall codehash point_ok verify_ecdsa verify_schnorr keyhash data,
  run_programs codehash point_ok verify_ecdsa verify_schnorr keyhash true data
     [33 :: codehash junk_code] [(junk_code, [])] = false.
Proof. exact unknown_shape_after_fix. Qed.
Print Assumptions C05_unknown_code_shape_rejected_after_fix.

(* Gap (b), recorded as a known finding: under the CrossChain prefix the code
   hash is never compared with the address, so the full statement (without
   the side condition on the prefix) is false: a 1-of-2 script over the
   spender's own key is accepted for an address that is not its hash; with
   m = 0 not even a signature is needed. *)
Theorem C05_crosschain_prefix_refuted :
  exists codehash point_ok verify_ecdsa verify_schnorr keyhash data h code param,
  run_programs codehash point_ok verify_ecdsa verify_schnorr keyhash true data [h] [(code, param)] = true /\
  tl h <> codehash code.
Proof. exact crosschain_refuted. Qed.
Print Assumptions C05_crosschain_prefix_refuted.

Theorem C05_crosschain_prefix_m0_refuted :
  exists codehash point_ok verify_schnorr keyhash data h code,
  run_programs codehash point_ok (fun _ _ _ => false) verify_schnorr keyhash true data [h] [(code, [])] = true.
Proof. exact crosschain_m0_refuted. Qed.
Print Assumptions C05_crosschain_prefix_m0_refuted.

(* Exemptions.  The table of (transaction type, payload version) pairs for
   which checkTransactionSignature returns nil without running any program is
   regenerated from the code under test on every run (gen/C05_exempt.v).  Every
   exempt pair must be one the property allows: a type that cannot have inputs,
   or whose SpecialContextCheck restricts where the inputs come from, or one of
   the two recorded known findings (model/C05_Sig.v [allowed_reason]).  A
   widened exemption (e.g. CRCProposalWithdraw with payload version 2) makes
   this theorem fail. *)
Theorem C05_exemptions_justified :
  forall ty v, 0 <= ty < 256 -> 0 <= v < 256 ->
  exempt C05_exempt.rows ty v = true -> justified C05_exempt.facts ty v = true.
Proof. exact (all_exemptions_justified_spec C05_exempt.rows C05_exempt.facts C05_exempt.checked). Qed.
Print Assumptions C05_exemptions_justified.

(* checkTransactionSignature for every transaction type: accepted => the
   pair is a justified exemption, or every spent non-CrossChain address has
   an authorising program. *)
Theorem C05_typed_transaction_sound_partial :
  forall codehash point_ok verify_ecdsa verify_schnorr keyhash ty v data refs attrs progs,
  0 <= ty < 256 -> 0 <= v < 256 ->
  check_tx_signature_typed codehash point_ok verify_ecdsa verify_schnorr keyhash C05_exempt.rows ty v data refs attrs progs = true ->
  justified C05_exempt.facts ty v = true \/
  forall h, In h refs \/ In (32, h) attrs -> negb (prefix_of h =? 75) = true ->
    exists cp, In cp progs /\ tl h = codehash (fst cp) /\
               authorised verify_ecdsa verify_schnorr data (fst cp) (snd cp).
Proof.
  exact (fun ch po ve vs kh ty v data refs attrs progs =>
           typed_transaction_sound ch po ve vs kh C05_exempt.rows C05_exempt.facts ty v data refs attrs progs C05_exempt.checked).
Qed.
Print Assumptions C05_typed_transaction_sound_partial.

(* Non-vacuity: a 2-of-3 instance is accepted with two different signers and
   rejected with one signer twice or with one signature only. *)
Example C05_nonvacuous :
  run_programs nv_codehash w_point_ok nv_ecdsa w_schnorr w_keyhash true [] [18 :: nv_codehash nv_code]
     [(nv_code, nv_sig 3 ++ nv_sig 1)] = true
  /\ run_programs nv_codehash w_point_ok nv_ecdsa w_schnorr w_keyhash true [] [18 :: nv_codehash nv_code]
     [(nv_code, nv_sig 3 ++ nv_sig 3)] = false
  /\ run_programs nv_codehash w_point_ok nv_ecdsa w_schnorr w_keyhash true [] [18 :: nv_codehash nv_code]
     [(nv_code, nv_sig 3)] = false.
Proof. exact nonvacuous_accept. Qed.
