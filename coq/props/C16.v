(* C16 — The block database behaves like an ordered, transactional key-value
   store.  Property theorems only (lemmas in proof/C16_Ffldb.v).  The model
   (model/C16_Ffldb.v) has three overlays of raw key/value pairs: the
   transaction's pendingKeys/pendingRemove, the cache's cachedKeys/
   cachedRemove and the leveldb store; [view t] / [db_view d] merge them into
   one ordered map (lib/OMap.v), which is the specification's state. *)
From Coq Require Import ZArith List Bool.
From ELA Require Import lib.OMap model.C16_Ffldb proof.C16_Ffldb.
Import ListNotations.
Local Open Scope Z_scope.

(* fetchKey/hasKey through pending keys, pending removals, cached keys, cached
   removals and the store = a lookup in the merged ordered map. *)
Theorem C16_read_through_layers : forall t k, tx_ok t -> fetch t k = OMap.get (view t) k.
Proof. exact read_through_layers. Qed.
Print Assumptions C16_read_through_layers.

(* putKey / deleteKey in a write transaction = put / delete on the merged map. *)
Theorem C16_tx_write_refines : forall t k v, tx_ok t -> t_w t = true ->
  view (put_key t k v) = OMap.put (view t) k v /\ view (delete_key t k) = OMap.del (view t) k.
Proof. exact (fun t k v T W => conj (view_put_key t k v T W) (view_delete_key t k T W)). Qed.
Print Assumptions C16_tx_write_refines.

(* Commit (merge into the cache, or flush the cache and write through: both
   branches of commitTx, whatever needsFlush says) makes the database's merged
   map exactly what the transaction saw. *)
Theorem C16_commit_refines : forall fl d t, db_ok d -> tx_ok t -> t_w t = true ->
  snapshot_current d t -> db_view (commit_with fl d t) = view t.
Proof. exact commit_refines. Qed.
Print Assumptions C16_commit_refines.

(* Flushing the cache into the store never changes the merged map. *)
Theorem C16_flush_invisible : forall d, db_view (flush d) = db_view d.
Proof. exact flush_invisible. Qed.
Print Assumptions C16_flush_invisible.
