(* C16 — The block database behaves like an ordered, transactional key-value
   store.  Property theorems only (lemmas in proof/C16_Ffldb.v).  The model
   (model/C16_Ffldb.v) has three overlays of raw key/value pairs: the
   transaction's pendingKeys/pendingRemove, the cache's cachedKeys/
   cachedRemove and the leveldb store; [view t] / [db_view d] merge them into
   one ordered map (lib/OMap.v), which is the specification's state. *)
From Coq Require Import ZArith List Bool.
From ELA Require Import lib.OMap model.C16_Ffldb proof.C16_Ffldb.
(* the correspondence checker is rebuilt together with the theorems *)
From ELA Require corr.C16_corr.
Import ListNotations.
Local Open Scope Z_scope.

(* fetchKey/hasKey through pending keys, pending removals, cached keys, cached
   removals and the store = a lookup in the merged ordered map. *)
Theorem C16_read_through_layers : forall t k, tx_ok t -> fetch t k = OMap.get (view t) k.
Proof. exact read_through_layers. Qed.
Print Assumptions C16_read_through_layers.

(* putKey / deleteKey in a write transaction = put / delete on the merged map. *)
Theorem C16_tx_write_refines : forall t k v, tx_ok t -> t_w t = true ->
  view (put_key t k v) = OMap.put (view t) k v /\ view (delete_key t k) = OMap.del (view t) k.
Proof. exact (fun t k v T W => conj (view_put_key t k v T W) (view_delete_key t k T W)). Qed.
Print Assumptions C16_tx_write_refines.

(* Commit (merge into the cache, or flush the cache and write through: both
   branches of commitTx, whatever needsFlush says) makes the database's merged
   map exactly what the transaction saw. *)
Theorem C16_commit_refines : forall fl d t, db_ok d -> tx_ok t -> t_w t = true ->
  snapshot_current d t -> db_view (commit_with fl d t) = view t.
Proof. exact commit_refines. Qed.
Print Assumptions C16_commit_refines.

(* Flushing the cache into the store never changes the merged map. *)
Theorem C16_flush_invisible : forall d, db_view (flush d) = db_view d.
Proof. exact flush_invisible. Qed.
Print Assumptions C16_flush_invisible.

(* Rolled-back transactions, and commits refused because the transaction is
   read-only, leave the database state literally unchanged. *)
Theorem C16_rollback_no_trace : forall d txs h, fst (fst (impl_step (d, txs) (FRollback h))) = d.
Proof. exact rollback_no_trace. Qed.
Print Assumptions C16_rollback_no_trace.

Theorem C16_refused_commit_no_trace : forall d txs h t fl, tx_find txs h = Some t -> t_w t = false ->
  fst (fst (impl_step (d, txs) (FCommit h fl))) = d.
Proof. exact readonly_commit_no_trace. Qed.
Print Assumptions C16_refused_commit_no_trace.

(* Refinement over histories: for every admissible history (any interleaving
   of begin / put / delete / get / full ordered scan / commit / rollback on any
   number of handles, at most one write transaction open at a time, readers
   keeping the snapshot they started with, close/reopen only with no open
   transaction) and EVERY choice of flush decisions, the layered
   implementation returns exactly what one ordered map with copy-on-begin
   transactions returns. *)
Theorem C16_refines_spec : forall m ops, sorted m -> admissible [] ops = true ->
  run impl_step (impl_init m) ops = run spec_step (spec_init m) ops.
Proof. exact refines_spec_init. Qed.
Print Assumptions C16_refines_spec.

(* ... hence every read is unchanged under every flush schedule: two histories
   that differ only in when the cache flushes give the same outputs. *)
Theorem C16_flush_schedule_invisible : forall m ops1 ops2, sorted m ->
  map clear_flush ops1 = map clear_flush ops2 -> admissible [] ops1 = true ->
  run impl_step (impl_init m) ops1 = run impl_step (impl_init m) ops2.
Proof. exact flush_schedule_invisible. Qed.
Print Assumptions C16_flush_schedule_invisible.

(* What ForEach / a cursor lists for a bucket (the model's listing: the prefix
   slice of the merged map) is sorted and complete: exactly the pairs Get
   returns in that bucket; same for the nested-bucket index. *)
Theorem C16_cursor_sorted_complete : forall t id, tx_ok t ->
  sorted (bucket_keys t id) /\
  (forall k v, In (k, v) (bucket_keys t id) <-> fetch t (bucketized id k) = Some v) /\
  sorted (bucket_subs t id) /\
  (forall n v, In (n, v) (bucket_subs t id) <-> fetch t (bidx_key id n) = Some v).
Proof. exact cursor_sorted_complete. Qed.
Print Assumptions C16_cursor_sorted_complete.

(* The cursor's own algorithm (one iterator over the snapshot, one over the
   pending keys, chooseIterator / skipPendingUpdates; model cur_step).
   KNOWN FINDING Cursor:direction-change: when the cursor reverses direction
   only the current sub-iterator is moved back, so it reports a wrong key.
   Witness (replayed on the Go code by the harness on every run): snapshot keys
   1,3,ff, pending keys 2,3\0; First Next Next Prev reports 3\0 instead of 2. *)
Theorem C16_cursor_reverse_refuted :
  exists db pend skip ss,
    monotone ss = false /\
    cur_run db pend skip cur_init ss <> spec_run [[1]; [2]; [3]; [3; 0]; [255]] None ss /\
    db = [[1]; [3]; [255]] /\ pend = [[2]; [3; 0]] /\ ss = [CFirst; CNext; CNext; CPrev].
Proof. exact cursor_reverse_refuted. Qed.
Print Assumptions C16_cursor_reverse_refuted.

(* Without reversal (side condition: the walk is First Next* or Last Prev*,
   [monotone]) the cursor is the ordered walk of the merged keys, exhaustion
   included: swept over every assignment of the 5 keys 1,2,3,3\0,ff to
   snapshot / pending / removed (2^15 configurations, the bound is in the
   statement). *)
Theorem C16_cursor_monotone_partial : forall md mp mr,
  0 <= md < 32 -> 0 <= mp < 32 -> 0 <= mr < 32 ->
  monotone (CFirst :: repeat CNext 6) = true /\ monotone (CLast :: repeat CPrev 6) = true /\
  cursor_agrees U5 md mp mr (CFirst :: repeat CNext 6) = true /\
  cursor_agrees U5 md mp mr (CLast :: repeat CPrev 6) = true.
Proof. exact (fun md mp mr a b c => conj eq_refl (conj eq_refl (cursor_monotone_sweep md mp mr a b c))). Qed.
Print Assumptions C16_cursor_monotone_partial.

(* Unbounded: for ALL sorted stored-key and pending-key sequences and every
   skip set that covers the pending keys (skip = removed-or-pending), the
   complete First/Next* walk of the cursor algorithm reports exactly the sorted
   merge -- pending keys shadow stored ones, skipped stored keys never appear --
   followed by exhaustion; [m] is characterised extensionally by
   [merged_keys].  Forward-only and backward-only walks separately; a walk
   that reverses is the known finding above. *)
Theorem C16_cursor_forward_walk : forall db pend skip m n,
  ksorted db -> ksorted pend -> (forall k, In k pend -> skip k = true) -> merged_keys db pend skip m ->
  cur_run db pend skip cur_init (CFirst :: repeat CNext n) = spec_run m None (CFirst :: repeat CNext n).
Proof. exact cursor_forward_walk. Qed.
Print Assumptions C16_cursor_forward_walk.

Theorem C16_cursor_backward_walk : forall db pend skip m n,
  ksorted db -> ksorted pend -> (forall k, In k pend -> skip k = true) -> merged_keys db pend skip m ->
  cur_run db pend skip cur_init (CLast :: repeat CPrev n) = spec_run m None (CLast :: repeat CPrev n).
Proof. exact cursor_backward_walk. Qed.
Print Assumptions C16_cursor_backward_walk.

(* Non-vacuity of the hypotheses: stored 1,3,ff with 3 removed, pending 2,3\0;
   the merge is 1,2,3\0,ff and both walks report it. *)
Example C16_cursor_walk_nonvacuous :
  let db := [[1]; [3]; [255]] in let pend := [[2]; [3; 0]] in
  let skip := fun k => existsb (keqb k) [[3]; [2]; [3; 0]] in
  let m := [[1]; [2]; [3; 0]; [255]] in
  ksorted db /\ ksorted pend /\ (forall k, In k pend -> skip k = true) /\ merged_keys db pend skip m /\
  cur_run db pend skip cur_init (CFirst :: repeat CNext 5) =
    [Some [1]; Some [2]; Some [3; 0]; Some [255]; None; None] /\
  cur_run db pend skip cur_init (CLast :: repeat CPrev 5) =
    [Some [255]; Some [3; 0]; Some [2]; Some [1]; None; None].
Proof.
  simpl. repeat split; auto; try (repeat constructor; fail).
  - intros k [<-|[<-|[]]]; reflexivity.
  - intros [<-|[<-|[<-|[<-|[]]]]]; first [left; simpl; tauto|right; split; [simpl; tauto|reflexivity]].
  - intros [[<-|[<-|[]]]|[[<-|[<-|[<-|[]]]] H]]; simpl; try tauto; vm_compute in H; discriminate.
Qed.

(* Nested buckets, as far as it goes.  A bucket's listing is the prefix slice
   of the merged map under its id.  Put/Delete in bucket [id] are put/delete on
   that bucket's listing and leave untouched every listing whose prefix cannot
   match the written raw key; two different ids of the same length, and the
   index prefix "bidx"<q> versus any id not starting with 'b', are such
   prefixes: the ordered-map refinement holds per bucket. *)
Theorem C16_bucket_write_refines : forall t id k v, tx_ok t -> t_w t = true ->
  bucket_keys (put_key t (bucketized id k) v) id = OMap.put (bucket_keys t id) k v /\
  bucket_keys (delete_key t (bucketized id k)) id = OMap.del (bucket_keys t id) k /\
  (forall p, strip_prefix p (bucketized id k) = None ->
     under p (view (put_key t (bucketized id k) v)) = under p (view t) /\
     under p (view (delete_key t (bucketized id k))) = under p (view t)).
Proof. exact bucket_write_refines. Qed.
Print Assumptions C16_bucket_write_refines.

Theorem C16_bucket_isolation : forall id id' k a q,
  (length id = length id' -> id <> id' -> strip_prefix id' (bucketized id k) = None) /\
  (a <> 98 -> strip_prefix (bidx ++ q) (bucketized (a :: id) k) = None).
Proof. exact bucket_isolation. Qed.
Print Assumptions C16_bucket_isolation.

(* CreateBucket as a specification operation: exactly one new entry
   name -> next id in the parent's bucket index, the id counter advanced to it,
   every listing under a prefix matching neither written key unchanged. *)
Theorem C16_create_bucket_refines : forall t id n t', tx_ok t -> b_create t id n = (t', E_OK) ->
  strip_prefix (bidx ++ id) cbid_key = None ->
  exists nid,
    bucket_subs t' id = OMap.put (bucket_subs t id) n nid /\
    fetch t' cbid_key = Some nid /\
    (forall p, strip_prefix p cbid_key = None -> strip_prefix p (bidx_key id n) = None ->
       under p (view t') = under p (view t)).
Proof. exact create_bucket_refines. Qed.
Print Assumptions C16_create_bucket_refines.

(* Non-vacuity: on the freshly initialised store, creating bucket "a" in the
   root succeeds with id 2, shows up in the root's index next to
   ffldb-blockidx, and a Put in it is listed there and nowhere else. *)
Example C16_buckets_nonvacuous :
  let init : kvs := [(bidx_key meta_id [102], [0; 0; 0; 1]); (cbid_key, [0; 0; 0; 1])] in
  let t := begin {| d_store := init; d_ck := []; d_cr := []; d_max := 0; d_always := false |} true in
  let '(t1, c) := b_create t meta_id [97] in
  let '(t2, c2) := b_put t1 [0; 0; 0; 2] [49] [7] in
  tx_ok t /\ c = E_OK /\ c2 = E_OK /\ strip_prefix (bidx ++ meta_id) cbid_key = None /\
  bucket_subs t2 meta_id = [([97], [0; 0; 0; 2]); ([102], [0; 0; 0; 1])] /\
  bucket_keys t2 [0; 0; 0; 2] = [([49], [7])] /\ bucket_keys t2 meta_id = [] /\
  resolve t2 meta_id [[97]] = Some [0; 0; 0; 2].
Proof. vm_compute. repeat split; auto; repeat constructor. Qed.

(* Freshness of bucket ids over whole histories.  [fresh m]: the id counter is
   below the bound 45*2^24; every index entry's id and parent id are at most
   the counter (and do not start with 'b'); keys live only under ids up to the
   counter; index values are pairwise distinct.  Every sequence of Put / Delete
   / CreateBucket addressed by bucket paths preserves it (commit and begin
   carry the merged map unchanged: C16_commit_refines, view_begin) ... *)
Theorem C16_fresh_history : forall ops t, tx_ok t -> fresh (view t) ->
  tx_ok (fold_left bstep ops t) /\ fresh (view (fold_left bstep ops t)).
Proof. exact fresh_history. Qed.
Print Assumptions C16_fresh_history.

(* ... hence CreateBucket, at any point of any history, allocates an id whose
   prefix is unused: no key and no nested bucket lives under it, no index
   entry points to it; C16_bucket_isolation therefore applies to the new
   bucket against every live one. *)
Theorem C16_create_never_reuses : forall ops t0 id n t',
  tx_ok t0 -> fresh (view t0) ->
  let t := fold_left bstep ops t0 in
  live (view t) id -> ctr (view t) + 1 < id_bound -> b_create t id n = (t', E_OK) ->
  let nid := be32_enc (ctr (view t) + 1) in
  bucket_subs t' id = OMap.put (bucket_subs t id) n nid /\
  bucket_keys t nid = [] /\ bucket_subs t nid = [] /\
  (forall k v, In (k, v) (view t) -> is_index k = true -> to_id v <> nid) /\
  fresh (view t').
Proof. exact create_never_reuses. Qed.
Print Assumptions C16_create_never_reuses.

(* DeleteBucket of a bucket without nested buckets, as a specification
   operation: it removes exactly the bucket's prefix slice and its index
   entry; every listing under a prefix matching neither is unchanged.  (The
   recursion over nested buckets stays tied by the correspondence.) *)
Theorem C16_delete_childless_bucket : forall t id n v t', tx_ok t -> t_w t = true ->
  fetch t (bidx_key id n) = Some v ->
  let cid := to_id v in
  nth 0 cid 0 <> 98 -> bucket_subs t cid = [] ->
  b_delete_bucket t id n = (t', E_OK) ->
  view t' = OMap.del (del_all (view t) (prefixed cid (bucket_keys t cid))) (bidx_key id n) /\
  bucket_keys t' cid = [] /\ fetch t' (bidx_key id n) = None /\
  (forall p, (forall x, strip_prefix p (cid ++ x) = None) -> strip_prefix p (bidx_key id n) = None ->
     under p (view t') = under p (view t)).
Proof. exact delete_childless_bucket. Qed.
Print Assumptions C16_delete_childless_bucket.

(* Non-vacuity: the freshly initialised store satisfies [fresh]; after
   creating bucket "a" (id 2) and putting two keys, DeleteBucket "a" empties
   exactly that slice. *)
Example C16_fresh_nonvacuous :
  let init : kvs := [(writeloc_key, [0]); (bidx_key meta_id [102], [0; 0; 0; 1]); (cbid_key, [0; 0; 0; 1])] in
  let t0 := begin {| d_store := init; d_ck := []; d_cr := []; d_max := 0; d_always := false |} true in
  let t := fold_left bstep [BCreate [] [97]; BPut [[97]] [49] [7]; BPut [[97]] [50] []; BPut [] [51] [3]] t0 in
  fresh init /\ tx_ok t0 /\ view t0 = init /\
  bucket_keys t [0; 0; 0; 2] = [([49], [7]); ([50], [])] /\
  (let '(t', c) := b_delete_bucket t meta_id [97] in
   c = E_OK /\ bucket_keys t' [0; 0; 0; 2] = [] /\ bucket_keys t' meta_id = bucket_keys t meta_id /\
   bucket_subs t' meta_id = [([102], [0; 0; 0; 1])]).
Proof.
  cbv zeta. split; [|vm_compute; repeat split; auto; repeat constructor].
  unfold fresh. change (ctr _) with 1. split; [vm_compute; split; [discriminate|reflexivity]|]. split; [|split].
  - intros k v [[= <- <-]|[[= <- <-]|[[= <- <-]|[]]]] Hq; try (vm_compute in Hq; discriminate).
    vm_compute. repeat split; auto; try discriminate; repeat constructor.
  - intros k v [[= <- <-]|[[= <- <-]|[[= <- <-]|[]]]] Hq; try (vm_compute in Hq; discriminate).
    vm_compute. repeat split; auto; try discriminate; repeat constructor.
  - intros k1 v1 k2 v2 [[= <- <-]|[[= <- <-]|[[= <- <-]|[]]]] [[= <- <-]|[[= <- <-]|[[= <- <-]|[]]]] Hq1 Hq2 E;
      auto; try (vm_compute in Hq1; discriminate); try (vm_compute in Hq2; discriminate).
Qed.

(* Non-vacuity: a history with a reader that keeps its snapshot across a
   commit, a rollback, a flushing and a non-flushing commit is admissible, and
   the implementation model returns the expected values. *)
Example C16_nonvacuous :
  let ops := [FBegin 1 true; FPut 1 [1] [10]; FPut 1 [2] [20]; FCommit 1 false;
              FBegin 2 false; FBegin 3 true; FDel 3 [1]; FPut 3 [3] []; FGet 3 [1]; FGet 2 [1];
              FCommit 3 true; FGet 2 [1]; FScan 2; FRollback 2;
              FBegin 4 true; FPut 4 [9] [9]; FRollback 4; FFlush; FBegin 5 false; FScan 5] in
  admissible [] ops = true /\
  run impl_step (impl_init []) ops =
    [ONone; ONone; ONone; ONone; ONone; ONone; ONone; ONone; OVal None; OVal (Some [10]);
     ONone; OVal (Some [10]); OScan [([1], [10]); ([2], [20])]; ONone;
     ONone; ONone; ONone; ONone; ONone; OScan [([2], [20]); ([3], [])]].
Proof. vm_compute. split; reflexivity. Qed.
