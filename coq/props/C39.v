(* C39 — Bloom filters have no false negatives.
   Property theorems only; each is closed by [exact] of a lemma from
   proof/C39_Bloom.v and followed by Print Assumptions.  All theorems of the
   section hold for every 32-bit hash function [mm] (MurmurHash3 is the
   instance the correspondence run ties to the Go code). *)
From Coq Require Import NArith List Bool.
From ELA Require Import model.C39_Bloom proof.C39_Bloom.
Import ListNotations.
Local Open Scope N_scope.

(* An element, hash or outpoint added to a filter is reported as matching:
   every filter on which the Go code does not panic (i.e. every filter that
   is not a positive multiple of 2^29 bytes long -- the wire limit is 36000),
   the empty filter included since the repair. *)
Theorem C39_matches_after_add : forall mm f d,
  panics f = false -> matches mm (add mm f d) d = true.
Proof. exact matches_after_add. Qed.
Print Assumptions C39_matches_after_add.

(* ... and stays matching whatever is added afterwards, in any order: every
   member of any list of additions matches the resulting filter. *)
Theorem C39_matches_after_add_all : forall mm ds f d,
  panics f = false -> In d ds -> matches mm (add_all mm f ds) d = true.
Proof. exact matches_after_add_all. Qed.
Print Assumptions C39_matches_after_add_all.

(* Adding only sets bits: length and parameters are kept, every set bit stays
   set, hence whatever matched before still matches. *)
Theorem C39_add_monotone : forall mm f d,
  extends f (add mm f d) /\
  forall x, matches mm f x = true -> matches mm (add mm f d) x = true.
Proof. exact add_monotone_full. Qed.
Print Assumptions C39_add_monotone.

(* Ordinary filters (Tweak <> 2^32-1): a transaction whose hash, an output
   program hash or a spent outpoint matches the filter is reported; matching
   only sets bits; and every output whose program hash matched has its
   outpoint (tx hash, position) matching the updated filter, so that a later
   spend of it is reported too. *)
Theorem C39_tx_match_complete_partial : forall mm f t,
  tweak f <> max_u32 ->
  (forall d, relevant t d -> matches mm f d = true ->
     snd (match_tx_and_update mm f t) = true) /\
  extends f (fst (match_tx_and_update mm f t)) /\
  (panics f = false -> forall k ph,
     nth_error (tx_outs t) k = Some ph -> matches mm f ph = true ->
     matches mm (fst (match_tx_and_update mm f t))
             (outpoint_bytes (tx_hash t) (N.of_nat k)) = true).
Proof. exact tx_match_complete_partial. Qed.
Print Assumptions C39_tx_match_complete_partial.

(* Watched items: anything added (before or after anything else) to a filter
   and relevant to the transaction makes an ordinary filter report it. *)
Theorem C39_tx_watched_matches : forall mm f0 items t d,
  panics f0 = false -> tweak f0 <> max_u32 -> In d items -> relevant t d ->
  snd (match_tx_and_update mm (add_all mm f0 items) t) = true.
Proof. exact tx_watched_matches. Qed.
Print Assumptions C39_tx_watched_matches.

(* No match is reported for an ordinary filter unless some datum of the
   transaction matches (the filter as updated so far). *)
Theorem C39_tx_match_only_if : forall mm f t,
  tweak f <> max_u32 -> snd (match_tx_and_update mm f t) = true ->
  exists f'' d, extends f f'' /\ relevant t d /\ matches mm f'' d = true.
Proof. exact mtu_only_if. Qed.
Print Assumptions C39_tx_match_only_if.

(* Side chain SPV mode (Tweak = 2^32-1): a transaction of a listed type, or
   paying to a matching program hash of a non-empty filter, is reported and
   the filter is left unchanged. *)
Theorem C39_tx_match_sidechain : forall mm f t,
  tweak f = max_u32 ->
  (In (tx_type t) (tx_types f) -> match_tx_and_update mm f t = (f, true)) /\
  (forall ph, fbytes f <> [] -> In ph (tx_outs t) -> matches mm f ph = true ->
     match_tx_and_update mm f t = (f, true)).
Proof. exact tx_match_sidechain. Qed.
Print Assumptions C39_tx_match_sidechain.

(* The full statement ("spends from a watched item => match") is false of the
   code when Tweak = 2^32-1: a watched outpoint is spent (and the transaction
   hash itself is watched) and the transaction is not reported.  Replayed on
   the Go code by the harness (known finding). *)
Theorem C39_tx_match_complete_refuted : exists f t d,
  panics f = false /\ In d (tx_ins t) /\ matches murmur3 f d = true /\
  matches murmur3 f (tx_hash t) = true /\
  snd (match_tx_and_update murmur3 f t) = false.
Proof. exact sidechain_refutes. Qed.
Print Assumptions C39_tx_match_complete_refuted.

(* Non-vacuity: a concrete 8-byte filter with 3 hash functions; the added
   element matches, an element not added does not (so [matches] is not the
   constant [true]), the tx paying to the added program hash is reported and
   its outpoint is added; the MurmurHash3 reference vectors. *)
Example C39_nonvacuous :
  let f0 := mkFilter (repeat 0 8%nat) 3 5 [] in
  let f := add murmur3 f0 [1;2;3] in
  let t := mkTx [9;9] 2 [[7];[1;2;3]] [] in
  panics f0 = false /\ tweak f0 <> max_u32 /\
  matches murmur3 f [1;2;3] = true /\ matches murmur3 f [4;5;6] = false /\
  snd (match_tx_and_update murmur3 f t) = true /\
  matches murmur3 f (outpoint_bytes [9;9] 1) = false /\
  matches murmur3 (fst (match_tx_and_update murmur3 f t)) (outpoint_bytes [9;9] 1) = true /\
  murmur3 4221880213 [] = 1782148872 /\ murmur3 0 [0;17;34;51;68] = 3794804648.
Proof. vm_compute. repeat split; discriminate || reflexivity. Qed.
