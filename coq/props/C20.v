(* C20 — Height-indexed change history rolls back exactly.
   Property theorems only (model: lib/History.v, proofs: proof/C20_History.v).

   Vocabulary (all defined in proof/C20_History.v):
   - [ghost]/[gstep]/[grun]: the reference machine — the plain log of committed
     entries [g_log] (an entry = height + list of changes), truncated to the
     entries at or below k by either rollback, the best height [g_top] and the
     height the state is positioned at [g_pos];
   - [pre]/[valid]: the usage protocol of an op sequence: heights strictly
     increase, all changes of a height are appended before its commit,
     temporary changes (height 0) are committed once before the next block,
     a rollback target lies within the held history, SeekTo is used from the
     best height or back to it on a history with contiguous heights, and
     [good_entry]: undoing the changes of the committed height right after
     executing them restores the state they were executed at (with the undo
     order of the code);
   - [commit_entries l s0]: replay of the entries l from the initial state. *)
From Coq Require Import ZArith NArith List Bool.
From ELA Require Import lib.History proof.C20_History.
Import ListNotations.
Local Open Scope N_scope.

(* Every protocol-respecting op sequence from a fresh history runs without a
   panic and leaves exactly the state of the reference machine (replay of the
   committed changes at or below the current position, plus the executed
   temporary changes). *)
Theorem C20_history_refines : forall (S : Type) cap (s0 : S) ops,
  valid s0 ops (g0 S) (new_history cap, s0) ->
  exists h s, run ops (new_history cap, s0) = Some (h, s) /\
              Inv s0 (grun ops (g0 S) (new_history cap, s0)) (h, s) /\
              s = ideal s0 (grun ops (g0 S) (new_history cap, s0)).
Proof. exact history_refines. Qed.
Print Assumptions C20_history_refines.

(* rollback_exact: after any such sequence, RollbackTo k (k below the best
   height, within the held history) leaves exactly the replay of the committed
   entries with height <= k. Gaps between heights, several changes per height,
   temporary changes and capacity eviction included. *)
Theorem C20_rollback_exact : forall (S : Type) cap (s0 : S) ops k,
  let st0 := (new_history cap, s0) in
  valid s0 (ops ++ [ORollbackTo k]) (g0 S) st0 ->
  exists h s, run (ops ++ [ORollbackTo k]) st0 = Some (h, s) /\
    (k < g_top (grun ops (g0 S) st0) ->
     s = commit_entries (keep_prefix k (g_log (grun ops (g0 S) st0))) s0 /\ h_height h = k).
Proof. exact rollback_exact. Qed.
Print Assumptions C20_rollback_exact.

(* The full-strength statement (hypothesis only "each undo inverts its do at
   the state where it was executed") is false of the code: two changes at one
   height are undone in forward order. *)
Theorem C20_rollback_exact_refuted :
  exists (cs : list (change Z)) (s0 : Z),
    inv_each cs s0 /\
    exists h s, run (map (OAppend 1) cs ++ [OCommit 1; ORollbackTo 0]) (new_history 10, s0) = Some (h, s) /\
                s <> s0 /\ s = 1%Z.
Proof. exact rollback_exact_refuted. Qed.
Print Assumptions C20_rollback_exact_refuted.

(* ... and it holds (the entry is good) when additionally the undos of one
   height commute with each other; a single change per height always is. *)
Theorem C20_rollback_exact_partial_commuting : forall (S : Type) k (cs : list (change S)) s,
  inv_each cs s -> undos_commute cs -> good_entry (HC k cs) s.
Proof. exact good_entry_commuting. Qed.
Print Assumptions C20_rollback_exact_partial_commuting.

(* seek_roundtrip: on an un-seeked history with contiguous heights, SeekTo k
   for any k within the limit shows the replay of the entries <= k, and seeking
   back to the best height restores state and bookkeeping exactly. *)
Theorem C20_seek_roundtrip : forall (S : Type) cap (s0 : S) ops h s k,
  let st0 := (new_history cap, s0) in
  valid s0 ops (g0 S) st0 -> run ops st0 = Some (h, s) ->
  h_temp h = [] -> contiguous h -> h_seek h = h_height h ->
  h_height h - N.of_nat (length (h_changes h)) <= k <= h_height h ->
  exists h1 s1,
    seek_to k (h, s) = ROk (h1, s1) /\
    s1 = commit_entries (keep_prefix k (g_log (grun ops (g0 S) st0))) s0 /\
    seek_to (h_height h) (h1, s1) = ROk (h, s).
Proof. exact seek_roundtrip. Qed.
Print Assumptions C20_seek_roundtrip.

(* Without the hypothesis "contiguous heights" SeekTo is wrong (it moves by
   index difference): commits at 5, 10, 20, SeekTo 17 leaves 0, not 15. *)
Theorem C20_seek_roundtrip_gaps_refuted :
  final_state [OAppend 5 (zadd 5); OCommit 5; OAppend 10 (zadd 10); OCommit 10;
               OAppend 20 (zadd 20); OCommit 20; OSeekTo 17] = Some 0%Z /\
  final_state [OAppend 5 (zadd 5); OCommit 5; OAppend 10 (zadd 10); OCommit 10] = Some 15%Z.
Proof. exact seek_gap_refuted. Qed.
Print Assumptions C20_seek_roundtrip_gaps_refuted.

(* The three further uses of the seek API that the protocol excludes are wrong
   in the code as well (heights 1..4 committed with +10, +100, +1000, +10000):
   SeekTo from an already seeked position, RollbackTo while seeked, SeekTo above
   the best height. *)
Theorem C20_seek_misuse_refuted :
  (final_state (commits_1_4 ++ [OSeekTo 3; OSeekTo 2]) = Some (-8890)%Z /\
   final_state (firstn 4 commits_1_4) = Some 110%Z) /\
  (final_state (commits_1_4 ++ [OSeekTo 2; ORollbackTo 1]) = Some (-10990)%Z /\
   final_state (firstn 2 commits_1_4) = Some 10%Z) /\
  (final_state (commits_1_4 ++ [OSeekTo 6]) = Some 22110%Z /\
   final_state commits_1_4 = Some 11110%Z).
Proof.
  exact (conj seek_from_seeked_refuted (conj rollback_while_seeked_refuted seek_above_best_refuted)).
Qed.
Print Assumptions C20_seek_misuse_refuted.

(* seek_then_commit_eq: a sequence with seeks in it that ends un-seeked (for
   instance with a commit) leaves the same state and height as the same
   sequence with the seeks removed. *)
Theorem C20_seek_then_commit_eq : forall (S : Type) cap (s0 : S) ops h s h' s',
  let st0 := (new_history cap, s0) in
  valid s0 ops (g0 S) st0 -> valid s0 (no_seeks ops) (g0 S) st0 ->
  run ops st0 = Some (h, s) -> run (no_seeks ops) st0 = Some (h', s') ->
  h_seek h = h_height h ->
  s = s' /\ h_height h = h_height h'.
Proof. exact seek_then_commit_eq. Qed.
Print Assumptions C20_seek_then_commit_eq.

(* capacity: the history never holds more than max(capacity, 1) heights. *)
Theorem C20_capacity : forall (S : Type) cap (s0 : S) ops (h : history S) s,
  valid s0 ops (g0 S) (new_history cap, s0) -> run ops (new_history cap, s0) = Some (h, s) ->
  (Z.of_nat (distinct_heights (h_changes h)) <= Z.max cap 1)%Z /\
  distinct_heights (h_changes h) = length (h_changes h).
Proof. exact capacity. Qed.
Print Assumptions C20_capacity.

(* Non-vacuity: concrete protocol-respecting traces (two changes at height 1,
   capacity 3 with one eviction, a seek round trip, a rollback; a temporary
   change executed and then undone by the next block) and what they leave. *)
Example C20_nonvacuous :
  valid 0%Z demo_ops (g0 Z) (new_history 3, 0%Z) /\
  valid 0%Z demo_temp_ops (g0 Z) (new_history 3, 0%Z) /\
  final_state demo_ops = Some 1111%Z /\
  match run demo_ops (new_history 3, 0%Z) with
  | Some (h, _) => heights (h_changes h) = [2; 3]%N /\ h_height h = 3%N
  | None => False
  end /\
  final_state (firstn 4 demo_temp_ops) = Some 17%Z /\ final_state demo_temp_ops = Some 110%Z.
Proof. exact (conj demo_valid (conj demo_temp_valid demo_result)). Qed.
