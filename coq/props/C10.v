(* C10 — a merged-mining proof commits to exactly this block.
   Property theorems only; each is closed by [exact] of a lemma from
   proof/C10_AuxPow.v and followed by Print Assumptions.  The generic theorems
   hold for every merkle step hash [Hh] returning 32 bytes (common.Hash =
   SHA-256d in the code); a hash anomaly is an explicit pair x <> y with
   Hh x = Hh y. *)
From Coq Require Import ZArith NArith List Bool.
From ELA Require Import lib.Sha256 model.C10_AuxPow proof.C10_AuxPow.
Import ListNotations.
Local Open Scope Z_scope.

(* Acceptance is exactly [accepted_at]: the parent coinbase hash lies under
   the parent header's merkle root; the coinbase has an input; the hex string
   of its script contains the marker fabe6d6d first at nibble offset hi and
   nowhere from hi+2 on; the hex of the reversed aux root (the merkle root of
   the reversed block hash under the aux branch at the aux index) occurs first
   exactly at hi+8; at least 8 bytes follow at byte offset (hi+72)/2 of which
   the first four are 2^height (height < 32) and the next four the nonce whose
   slot for this chain id is the aux index. *)
Theorem C10_check_commits : forall Hh ap hb cid,
  check Hh ap hb cid = true <-> exists hi, accepted_at Hh ap hb cid hi.
Proof. exact check_iff_accepted. Qed.
Print Assumptions C10_check_commits.

(* Layout of the script's hex string for an accepted proof: marker at
   nibble offset n, immediately followed by the aux root, and no other
   occurrence of the marker before n or from n+2 on (exactly one marker). *)
Theorem C10_check_marker_layout : forall Hh ap hb cid hi,
  accepted_at Hh ap hb cid hi ->
  exists n post, hi = Z.of_nat n /\
    skipn n (hexs (script ap)) = marker_hex ++ root_hex Hh ap hb ++ post /\
    (forall m, (m < n)%nat -> is_prefix marker_hex (skipn m (hexs (script ap))) = false) /\
    (forall m, (n + 2 <= m)%nat -> (m < length (hexs (script ap)))%nat ->
               is_prefix marker_hex (skipn m (hexs (script ap))) = false).
Proof. exact accepted_layout. Qed.
Print Assumptions C10_check_marker_layout.

(* Full byte-level statement ("the script BYTES contain the marker") is FALSE
   of the code: the search runs on the hex string, so a marker at an odd
   nibble offset is accepted although no byte sequence fa be 6d 6d exists in
   the script.  Witness replayed on the Go code by the harness (known
   finding; tightening is a consensus change). *)
Theorem C10_marker_in_script_bytes_refuted :
  exists ap hb cid, check sha256d ap hb cid = true /\ bytes (script ap) /\ byte_marker_free (script ap).
Proof. exact nibble_witness. Qed.
Print Assumptions C10_marker_in_script_bytes_refuted.

(* Strongest true restriction: when the marker's nibble offset is even
   (explicit side condition), the script bytes from offset k = hi/2 are
   marker ++ reversed aux root, the size and nonce fields are the 8 bytes at
   k+36, and fa be 6d 6d occurs at no other byte offset. *)
Theorem C10_check_commits_bytes_partial : forall Hh,
  (forall x, len32 (Hh x)) -> (forall x, bytes (Hh x)) ->
  forall ap hb cid hi,
  bytes (script ap) -> len32 hb -> bytes hb ->
  accepted_at Hh ap hb cid hi -> Z.even hi = true ->
  exists k, hi = 2 * Z.of_nat k /\
    is_prefix (marker ++ rev (aux_root Hh ap hb)) (skipn k (script ap)) = true /\
    tail_pos Hh ap hb hi = Z.of_nat k + 36 /\
    forall j, j <> k -> is_prefix marker (skipn j (script ap)) = false.
Proof. exact aligned_commit. Qed.
Print Assumptions C10_check_commits_bytes_partial.

(* Mutation: two accepted proofs that share the coinbase script (and chain
   id) have the same branch length and aux index, and the same block hash and
   branch unless the step hash collides.  Hence changing the block hash, a
   branch element, the branch length or the index of an accepted proof makes
   it fail, modulo an explicit collision. *)
Theorem C10_mutation_fails : forall Hh,
  (forall x, len32 (Hh x)) -> (forall x, bytes (Hh x)) ->
  forall ap1 ap2 hb1 hb2 cid,
  len32 hb1 -> len32 hb2 -> bytes hb1 -> bytes hb2 ->
  Forall len32 (aux_branch ap1) -> Forall len32 (aux_branch ap2) ->
  script ap1 = script ap2 ->
  check Hh ap1 hb1 cid = true -> check Hh ap2 hb2 cid = true ->
  length (aux_branch ap1) = length (aux_branch ap2) /\ aux_index ap1 = aux_index ap2 /\
  ((hb1 = hb2 /\ aux_branch ap1 = aux_branch ap2) \/ collision Hh).
Proof. exact check_binds. Qed.
Print Assumptions C10_mutation_fails.

(* Chain id: the same proof is accepted for two chain ids only if both map
   the committed nonce to the same slot (always so for an empty branch, where
   the only slot is 0). *)
Theorem C10_chain_id_slot : forall Hh ap hb cid cid',
  check Hh ap hb cid = true -> check Hh ap hb cid' = true ->
  exists nonce, aux_index ap = expected_index nonce cid (zlen (aux_branch ap)) /\
                aux_index ap = expected_index nonce cid' (zlen (aux_branch ap)).
Proof. exact check_chain_id. Qed.
Print Assumptions C10_chain_id_slot.

(* Merkle paths of equal length and index bind leaf and branch. *)
Theorem C10_merkle_path_binds : forall Hh,
  (forall x, len32 (Hh x)) ->
  forall br1 br2 a b idx,
  length br1 = length br2 -> len32 a -> len32 b -> Forall len32 br1 -> Forall len32 br2 ->
  merkle_fold Hh a br1 idx = merkle_fold Hh b br2 idx ->
  (a = b /\ br1 = br2) \/ collision Hh.
Proof. exact merkle_fold_inj. Qed.
Print Assumptions C10_merkle_path_binds.

(* Non-vacuity: the proof GenerateAuxPow builds (marker, block hash, size 1,
   nonce 0) is accepted for its block hash with the real SHA-256d, rejected
   for another hash; the slot function on a concrete input. *)
Example C10_nonvacuous :
  let hb := w_hash in
  let sc := marker ++ hb ++ [1;0;0;0]%N ++ [0;0;0;0]%N in
  let ap := mkAuxPow [] 0 w_cb true sc [] 0 w_cb in
  check sha256d ap hb 1224 = true /\
  check sha256d ap (1%N :: tl hb) 1224 = false /\
  Z.even 0 = true /\ index_of marker_hex (hexs sc) = Some 0 /\
  expected_index 7 1224 3 = 5 /\ expected_index 7 1224 32 = -1.
Proof. vm_compute. repeat split; reflexivity. Qed.
