(* C14 — Queryable UTXO views agree with the ledger.  Property theorems only. *)
From Coq Require Import List ZArith NArith Bool.
From ELA Require Import model.Ledger proof.Ledger_unspent proof.C06_Ledger proof.C14_Ledger
  proof.Ledger_addr proof.Ledger_addr_inv proof.C14_Addr.
From ELA Require corr.C14_corr. (* so that the correspondence checker is rebuilt with the model *)
Import ListNotations.
Local Open Scope N_scope.

(* After any history of validated connects and disconnects (reorganisations),
   the unspent-output query of a transaction answers exactly the outputs of the
   UTXO set obtained by replaying the active chain. *)
Theorem C14_unspent_query_refines_ledger : forall (mat : N) (st : state * chain) (h : list hstep),
  inv (fst st) (snd st) /\ snd st <> [] ->
  let '(s, c) := history_run cfg_fixed mat st h in
  forall t i, In i (q_unspent s t) <-> utxo_set c (t, i) = true.
Proof. exact unspent_exact. Qed.
Print Assumptions C14_unspent_query_refines_ledger.

(* The transaction lookup finds exactly the transactions of the active chain. *)
Theorem C14_tx_lookup_refines_ledger : forall (mat : N) (st : state * chain) (h : list hstep),
  inv (fst st) (snd st) /\ snd st <> [] ->
  let '(s, c) := history_run cfg_fixed mat st h in
  forall t, q_tx s t <> None <-> In t (map t_id (chain_txs c)).
Proof. exact tx_lookup_exact. Qed.
Print Assumptions C14_tx_lookup_refines_ledger.

(* Zero-value outputs never appear in a per-address list: every history from
   any genesis block, every code configuration, no validity assumption. *)
Theorem C14_no_zero_value_in_addr_list : forall cf mat h g s0,
  init_state g = Ok s0 ->
  forall addr heights u, In u (q_utxos (fst (history_run cf mat (s0, [g]) h)) addr heights) -> u_val u <> 0%Z.
Proof. exact no_zero_value_in_addr_list. Qed.
Print Assumptions C14_no_zero_value_in_addr_list.

(* The balance is the sum over the per-address list. *)
Theorem C14_balance_is_sum : forall s addr heights,
  q_balance s addr heights = fold_right (fun u a => (u_val u + a)%Z) 0%Z (q_utxos s addr heights).
Proof. exact balance_is_sum. Qed.
Print Assumptions C14_balance_is_sum.

(* The per-address index refines the ledger.  [inv2] extends the C06 invariant
   by: block heights increase along the chain, the tx index maps an id to
   exactly (height, transaction) of the active chain, and every
   (address, height) entry holds exactly the entries [owns c a ht u]:
   u = (tx, index, value) such that the transaction tx is on the active chain
   in the block of height ht, its output number index pays value <> 0 to the
   address, and that output is in the UTXO set of the replayed chain.
   After every history of validated connects and disconnects:
   - each entry is exactly that set, without two entries for one outpoint;
   - the list GetUTXO returns for an address (concatenation over distinct
     heights) has no two entries for one outpoint and contains exactly the
     non-zero unspent outputs of the address (multiset equality). *)
Theorem C14_addr_index_refines_ledger : forall (mat : N) (st : state * chain) (h : list hstep),
  inv2 (fst st) (snd st) /\ snd st <> [] ->
  let '(s, c) := history_run cfg_fixed mat st h in
  (forall a ht u, In u (s_addr s a ht) <-> owns c a ht u) /\
  (forall a hs, NoDup hs -> udistinct (q_utxos s a hs)) /\
  (forall a hs u, In u (q_utxos s a hs) <-> exists ht, In ht hs /\ owns c a ht u).
Proof. exact addr_index_refines_ledger. Qed.
Print Assumptions C14_addr_index_refines_ledger.

(* A found transaction is reported with the height of its block on the active chain. *)
Theorem C14_tx_lookup_height : forall (mat : N) (st : state * chain) (h : list hstep),
  inv2 (fst st) (snd st) /\ snd st <> [] ->
  let '(s, c) := history_run cfg_fixed mat st h in
  forall t ht, q_tx s t = Some ht <-> exists x, on_chain c t ht x.
Proof. exact tx_lookup_height. Qed.
Print Assumptions C14_tx_lookup_height.

(* [inv2] holds after the index catch-up of any genesis block with distinct
   transaction ids that spends nothing, and is preserved by every history. *)
Theorem C14_genesis_invariant : forall g s0,
  init_state g = Ok s0 -> NoDup (ids (b_txs g)) -> block_spends g = [] -> inv2 s0 [g].
Proof. exact init_inv2. Qed.
Print Assumptions C14_genesis_invariant.

Theorem C14_invariant_all_histories : forall (mat : N) (h : list hstep) (st : state * chain),
  inv2 (fst st) (snd st) /\ snd st <> [] ->
  inv2 (fst (history_run cfg_fixed mat st h)) (snd (history_run cfg_fixed mat st h)) /\
  snd (history_run cfg_fixed mat st h) <> [].
Proof. exact history_inv2. Qed.
Print Assumptions C14_invariant_all_histories.

(* Non-vacuity: a history with a reorganisation; the address lists of the model
   hold the non-zero outputs of the replayed chain and skip the zero-value
   output (3,1), which stays unspent in the unspent index. *)
Definition v_cb (id lock : N) := mkTx id true lock [] [mkOut 0 30; mkOut 1 35; mkOut 0 35]%Z SNone.
Definition v_g  := mkBlock 1 0 0 [mkTx 1 true 0 [] [mkOut 0 1000]%Z SNone].
Definition v_b1 := mkBlock 2 1 1 [v_cb 2 1].
Definition v_b2 := mkBlock 3 2 2 [v_cb 4 2; mkTx 3 false 0 [(1, 0)] [mkOut 2 400; mkOut 3 0; mkOut 0 590]%Z SNone].
Definition v_b3 := mkBlock 4 3 3 [v_cb 8 3; mkTx 5 false 0 [(3, 0); (3, 1)] [mkOut 1 390]%Z SNone].
Definition v_c3 := mkBlock 5 3 3 [v_cb 6 3; mkTx 7 false 0 [(3, 2)] [mkOut 3 580]%Z SNone].
Definition v_start : state * chain :=
  match init_state v_g with Ok s => (s, [v_g]) | _ => (empty_state 0, []) end.
Example C14_nonvacuous :
  let st := history_run cfg_fixed 1 v_start [HConnect v_b1; HConnect v_b2; HConnect v_b3; HDisconnect; HConnect v_c3] in
  map b_id (snd st) = [1; 2; 3; 5] /\
  q_utxos (fst st) 2 [0; 1; 2; 3] = [mkU 3 0 400] /\
  q_utxos (fst st) 3 [0; 1; 2; 3] = [mkU 7 0 580] /\
  q_balance (fst st) 0 [0; 1; 2; 3] = 195%Z /\
  q_unspent (fst st) 3 = [1; 0] /\ q_tx (fst st) 5 = None /\ q_tx (fst st) 7 = Some 3.
Proof. vm_compute. auto 10. Qed.

Example C14_inv2_nonvacuous : inv2 (fst v_start) (snd v_start) /\ snd v_start <> [].
Proof.
  split; [|discriminate]. apply init_inv2; [reflexivity| |reflexivity]. repeat constructor. intros [].
Qed.
