(* C38 — Secret key material comes from a secure random source.
   Property theorems only; re-checked against the table regenerated from the
   source (gen/C38_uses.v) on every run. *)
From Coq Require Import List PArith NArith Bool.
From ELA Require Import lib.Graph proof.Graph gen.C38_uses proof.C38_Static.
Import ListNotations.

(* [bad] = every function, method and variable of math/rand, plus a node for
   "crypto/rand.Reader.Read called without io.ReadFull".
   No function of the key-material packages (account, crypto, crypto/ecies,
   dpos/account: keystore master key and IV, ECDSA key generation and signing,
   Schnorr nonces, ECIES), nor anything such a function can call through any
   chain of helpers in any package, is a math/rand function or method — a
   seeded or time-derived pseudo-random generator never feeds key material. *)
Theorem C38_no_weak_random_in_key_paths :
  forall s b, In s C38_uses.sources -> In b C38_uses.bad -> ~ reachable C38_uses.graph s b.
Proof. exact no_weak_random. Qed.
Print Assumptions C38_no_weak_random_in_key_paths.

(* The wallet's key-management commands (cmd/wallet/account.go) make no
   reference to math/rand themselves (what they call in the key-material
   packages is covered above). *)
Theorem C38_no_weak_random_in_wallet_key_commands :
  forall f b, In f C38_uses.direct -> edge C38_uses.graph f b -> ~ In b C38_uses.bad.
Proof. exact no_weak_random_direct. Qed.
Print Assumptions C38_no_weak_random_in_wallet_key_commands.

(* The functions that generate key material (NewClient, deterministicGetK0,
   GenerateKeyPair, Sign) do reach crypto/rand. *)
Theorem C38_key_generators_use_crypto_rand :
  forall a, In a C38_uses.anchors ->
    exists c, In c C38_uses.secure /\ reachable C38_uses.graph (fst a) c.
Proof. exact anchors_reach_secure. Qed.
Print Assumptions C38_key_generators_use_crypto_rand.

(* No clock or process-id reader (time.Now / Since / Until, os.Getpid) is
   reachable from a key-material function, through helpers of any package
   other than the logging packages; nor referenced by the wallet commands. *)
Theorem C38_no_clock_in_key_paths :
  forall s c, In s C38_uses.sources -> In c C38_uses.clock ->
    ~ reachable (cut C38_uses.graph C38_uses.clock_barrier) s c.
Proof. exact no_clock. Qed.
Print Assumptions C38_no_clock_in_key_paths.

Theorem C38_no_clock_in_wallet_key_commands :
  forall f c, In f C38_uses.direct -> edge C38_uses.graph f c -> ~ In c C38_uses.clock.
Proof. exact no_clock_direct. Qed.
Print Assumptions C38_no_clock_in_wallet_key_commands.

(* Every call on a key path that draws from crypto/rand and can fail has its
   error propagated to the caller (0) or checked with an error branch that
   does not continue into the normal path (1); the only exception (4) is the
   classified public-randomness use. No error is ignored (3) or replaced by a
   fallback (2). *)
Theorem C38_random_source_errors_not_swallowed :
  forall f k, In (f, k) C38_uses.rand_err_sites -> k = 0%N \/ k = 1%N \/ k = 4%N.
Proof. exact rand_errors_handled. Qed.
Print Assumptions C38_random_source_errors_not_swallowed.

Example C38_static_nonvacuous :
  forallb (fun a => existsb (Pos.eqb (fst a)) C38_uses.sources) C38_uses.anchors = true
  /\ negb (Nat.eqb (length C38_uses.anchors) 0) = true
  /\ negb (Nat.eqb (length C38_uses.bad) 0) = true
  /\ negb (Nat.eqb (length C38_uses.direct) 0) = true
  /\ negb (Nat.eqb (length C38_uses.rand_err_sites) 0) = true.
Proof. exact static_nonvacuous. Qed.
