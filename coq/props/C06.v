(* C06 — No output is ever spent twice.  Property theorems only; each is
   closed by [exact] of a lemma from proof/C06_Ledger.v / proof/C06_Pool.v. *)
From Coq Require Import List ZArith NArith Bool.
From ELA Require Import model.Ledger proof.Ledger_unspent proof.C06_Ledger proof.C06_Pool.
From ELA Require corr.C06_corr. (* so that the correspondence checker is rebuilt with the model *)
Import ListNotations.
Local Open Scope N_scope.

(* Histories: any list of steps "validate and connect this block at the tip"
   / "disconnect the tip" (a reorganisation is disconnects followed by
   connects; rejected or failing steps leave the ledger unchanged), started
   from any ledger state [s] and non-empty active chain [c] related by the
   invariant [inv] (the unspent index is exactly created-minus-spent of the
   chain, the tx index knows exactly the chain's transaction ids, the chain is
   well formed).  Coinbase maturity [mat] is arbitrary. *)

(* Each outpoint is consumed at most once on the active chain, after every history. *)
Theorem C06_spent_once : forall (mat : N) (st : state * chain) (h : list hstep),
  inv (fst st) (snd st) /\ snd st <> [] ->
  NoDup (all_spent (snd (history_run cfg_fixed mat st h))).
Proof. exact spent_once. Qed.
Print Assumptions C06_spent_once.

(* ... because the unspent index stays exactly "created minus spent of the
   active chain" (and the whole invariant is re-established) after every history. *)
Theorem C06_unspent_is_created_minus_spent : forall (mat : N) (st : state * chain) (h : list hstep),
  inv (fst st) (snd st) /\ snd st <> [] ->
  let '(s, c) := history_run cfg_fixed mat st h in
  forall t i, In i (s_unspent s t) <-> utxo_set c (t, i) = true.
Proof. exact unspent_exact. Qed.
Print Assumptions C06_unspent_is_created_minus_spent.

Theorem C06_invariant_all_histories : forall (mat : N) (h : list hstep) (st : state * chain),
  inv (fst st) (snd st) /\ snd st <> [] ->
  inv (fst (history_run cfg_fixed mat st h)) (snd (history_run cfg_fixed mat st h)) /\
  snd (history_run cfg_fixed mat st h) <> [].
Proof. exact history_inv. Qed.
Print Assumptions C06_invariant_all_histories.

(* The invariant holds initially: index catch-up of any genesis block with
   distinct transaction ids that spends nothing. *)
Theorem C06_genesis_invariant : forall g s0,
  init_state g = Ok s0 -> NoDup (ids (b_txs g)) -> block_spends g = [] -> inv s0 [g].
Proof. exact init_inv. Qed.
Print Assumptions C06_genesis_invariant.

(* A block that spends an outpoint twice, or spends an outpoint that is already
   spent or was never created on its chain, is rejected (whatever the code
   configuration flags, maturity and height). *)
Theorem C06_reject_double : forall cf mat cur s c b,
  inv s c ->
  (~ NoDup (block_spends b) \/ exists op, In op (block_spends b) /\ utxo_set c op = false) ->
  connect cf mat cur s b = Rejected.
Proof. exact reject_double. Qed.
Print Assumptions C06_reject_double.

(* The mempool never holds two transactions spending the same outpoint: every
   sequence of append / remove / clean-submitted-block / check-and-clean-all,
   with arbitrary ledger states supplied to the operations. *)
Theorem C06_mempool_no_shared_outpoint : forall ops : list pool_op,
  NoDup (pool_inputs (fold_left pool_step ops empty_pool)).
Proof. exact mempool_no_shared_outpoint. Qed.
Print Assumptions C06_mempool_no_shared_outpoint.

(* A transaction of any type except SideChainPow (which first evicts the
   SideChainPow transactions of its own side chain, then faces the same slot
   check) that spends an outpoint held by a pool member is refused. *)
Theorem C06_mempool_rejects_conflict : forall mat cur s p t op,
  pinv p -> (forall g, t_side t <> SPow g) ->
  In op (pool_inputs p) -> In op (t_ins t) -> pool_append mat cur s p t = (p, false).
Proof. exact mempool_rejects_conflict. Qed.
Print Assumptions C06_mempool_rejects_conflict.

(* ---------------------------------------------------------------- the coinbase check is necessary *)
(* The tree before commit ccb9f8c7 (flag cb_dup_check = false) violates the
   property: block 5 re-uses block 2's coinbase (id 2); outpoint (2,1) is spent
   in block 4 and again in block 7.  Replayed on the Go code (harness corpus,
   history 1). *)
Definition w_cb (id lock : N) := mkTx id true lock [] [mkOut 0 30; mkOut 1 35; mkOut 0 35] SNone.
Definition w_g  := mkBlock 1 0 0 [mkTx 1 true 0 [] [mkOut 0 1000] SNone].
Definition w_b1 := mkBlock 2 1 1 [w_cb 2 1].
Definition w_b2 := mkBlock 3 2 2 [w_cb 3 2].
Definition w_b3 := mkBlock 4 3 3 [w_cb 4 3; mkTx 5 false 0 [(2, 1)] [mkOut 3 34] SNone].
Definition w_b4 := mkBlock 5 4 4 [w_cb 2 1].
Definition w_b5 := mkBlock 6 5 5 [w_cb 6 5].
Definition w_b6 := mkBlock 7 6 6 [w_cb 7 6; mkTx 8 false 0 [(2, 1)] [mkOut 2 33] SNone].
Definition w_hist := map HConnect [w_b1; w_b2; w_b3; w_b4; w_b5; w_b6].
Definition w_start : state * chain :=
  match init_state w_g with Ok s => (s, [w_g]) | _ => (empty_state 0, []) end.

Theorem C06_spent_once_refuted_without_coinbase_check :
  exists (st : state * chain) (h : list hstep),
    (inv (fst st) (snd st) /\ snd st <> []) /\
    ~ NoDup (all_spent (snd (history_run (mkCfg false true) 1 st h))).
Proof.
  exists w_start, w_hist. split.
  - split; [|discriminate]. apply init_inv; [reflexivity| |reflexivity].
    repeat constructor. intros [].
  - assert (E : all_spent (snd (history_run (mkCfg false true) 1 w_start w_hist)) = [(2, 1); (2, 1)])
      by (vm_compute; reflexivity).
    rewrite E. intros H. inversion H as [|? ? Hn _]. apply Hn. now left.
Qed.
Print Assumptions C06_spent_once_refuted_without_coinbase_check.

(* Non-vacuity: with the repaired configuration the same history is a real
   history (4 of its 6 blocks connect, block 5 and the double spend in block 7
   are rejected); a reorganisation history really disconnects and reconnects. *)
Example C06_witness_fixed :
  map b_id (snd (history_run cfg_fixed 1 w_start w_hist)) = [1; 2; 3; 4] /\
  all_spent (snd (history_run cfg_fixed 1 w_start w_hist)) = [(2, 1)] /\
  s_unspent (fst (history_run cfg_fixed 1 w_start w_hist)) 2 = [0; 2].
Proof. vm_compute. auto. Qed.

Definition w_c3 := mkBlock 8 3 3 [w_cb 9 3; mkTx 10 false 0 [(2, 1); (2, 0)] [mkOut 1 60] SNone].
Example C06_reorg_nonvacuous :
  let st := history_run cfg_fixed 1 w_start [HConnect w_b1; HConnect w_b2; HConnect w_b3; HDisconnect; HConnect w_c3] in
  map b_id (snd st) = [1; 2; 3; 8] /\ s_unspent (fst st) 2 = [2] /\ s_unspent (fst st) 5 = [] /\ s_unspent (fst st) 10 = [0].
Proof. vm_compute. auto. Qed.

Example C06_pool_nonvacuous :
  let s := fst (history_run cfg_fixed 1 w_start [HConnect w_b1; HConnect w_b2]) in
  let t1 := mkTx 20 false 0 [(2, 1)] [mkOut 3 34] SNone in
  let t2 := mkTx 21 false 0 [(2, 1); (2, 0)] [mkOut 3 60] SNone in
  map t_id (p_txs (fold_left pool_step [PAppend 1 2 s t1; PAppend 1 2 s t2] empty_pool)) = [20] /\
  map t_id (p_txs (fold_left pool_step [PAppend 1 2 s t1; PRemove t1; PAppend 1 2 s t2] empty_pool)) = [21].
Proof. vm_compute. auto. Qed.
