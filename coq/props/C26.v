(* C26 — The view-change schedule does not depend on how often it is evaluated.
   Property theorems only; each is closed by [exact] of a lemma from
   proof/C26_View.v and followed by Print Assumptions.

   State of a view: (k, r) = view offset and time elapsed since viewStartTime;
   a schedule is the list of gaps (ns) between successive evaluations.
   cv0/cv1 model ChangeView/ChangeViewV1, offset_v0/offset_v1 model
   calculateOffsetTimeV0/V1 (fuel only bounds the loop: C26_v1_total). *)
From Coq Require Import ZArith List Bool.
From ELA Require Import model.C26_View proof.C26_View.
Import ListNotations.
Local Open Scope Z_scope.

(* V0: any polling schedule carrying the remainder = one evaluation at the
   final time; all tolerances, all start offsets (uint32 wrap of
   "*viewOffset += offset" included), all schedules. *)
Theorem C26_v0_compositional : forall tol dts k r,
  0 < tol -> 0 <= k < 4294967296 -> 0 <= r < tol ->
  Forall (fun x => 0 <= x) dts ->
  v0_poll tol k r dts = cv0 tol k r (sum dts).
Proof. exact v0_compositional. Qed.
Print Assumptions C26_v0_compositional.

(* V0: later time, offset not smaller (while the quotient fits uint32). *)
Theorem C26_v0_monotone : forall tol d1 d2 k1 r1 k2 r2,
  0 < tol -> 0 <= d1 <= d2 -> d2 / tol < 4294967296 ->
  offset_v0 tol d1 = Ok k1 r1 -> offset_v0 tol d2 = Ok k2 r2 -> k1 <= k2.
Proof. exact v0_monotone. Qed.
Print Assumptions C26_v0_monotone.

(* V1: the loop terminates (every slot lasts at least one second, also after
   uint32 wrap of the slot formula), so fuel is only a proof device. *)
Theorem C26_v1_total : forall fuel n k d,
  0 < n -> Z.max 1 (d / sec + 1) <= Z.of_nat fuel ->
  exists k' r', offset_v1 fuel n k d = Ok k' r'.
Proof. exact v1_total. Qed.
Print Assumptions C26_v1_total.

Theorem C26_v1_fuel_irrelevant : forall f1 f2 n k d a b a' b',
  offset_v1 f1 n k d = Ok a b -> offset_v1 f2 n k d = Ok a' b' -> a = a' /\ b = b'.
Proof. exact v1_fuel_irrelevant. Qed.
Print Assumptions C26_v1_fuel_irrelevant.

(* V1: later time, offset not smaller — all arbiter counts, all start offsets
   (beyond one round included), as long as the uint32 offset cannot wrap. *)
Theorem C26_v1_monotone : forall f1 f2 n k d1 d2 k1 r1 k2 r2,
  0 < n -> 0 <= k -> d1 <= d2 -> k * sec + d2 < 4294967296 * sec ->
  offset_v1 f1 n k d1 = Ok k1 r1 -> offset_v1 f2 n k d2 = Ok k2 r2 -> k1 <= k2.
Proof. exact v1_monotone. Qed.
Print Assumptions C26_v1_monotone.

(* V1, the true restriction (partial): polling = one-shot for every schedule
   in which each evaluation starts at an offset below the arbiter count or
   still at the initial offset (side condition v1_sched_ok). *)
Theorem C26_v1_compositional_partial : forall fuel fuel' n k0 dts ka ra kb rb,
  0 < n -> 0 <= k0 ->
  Forall (fun x => 0 <= x) dts ->
  k0 * sec + sum dts < 4294967296 * sec ->
  v1_sched_ok fuel n k0 k0 0 dts = true ->
  v1_poll fuel n k0 0 dts = Ok ka ra ->
  offset_v1 fuel' n k0 (sum dts) = Ok kb rb ->
  ka = kb /\ ra = rb.
Proof. exact v1_compositional. Qed.
Print Assumptions C26_v1_compositional_partial.

(* ... in particular when every evaluation starts below the arbiter count. *)
Theorem C26_v1_compositional_below_round : forall fuel fuel' n k0 dts ka ra kb rb,
  0 < n -> 0 <= k0 ->
  Forall (fun x => 0 <= x) dts ->
  k0 * sec + sum dts < 4294967296 * sec ->
  v1_starts_below fuel n k0 0 dts = true ->
  v1_poll fuel n k0 0 dts = Ok ka ra ->
  offset_v1 fuel' n k0 (sum dts) = Ok kb rb ->
  ka = kb /\ ra = rb.
Proof. exact v1_compositional_below_round. Qed.
Print Assumptions C26_v1_compositional_below_round.

(* ... so two arbiters polling at different moments agree at a common time. *)
Theorem C26_v1_pollers_agree : forall fuel n k0 dts1 dts2 ka ra kb rb,
  0 < n -> 0 <= k0 ->
  Forall (fun x => 0 <= x) dts1 -> Forall (fun x => 0 <= x) dts2 ->
  sum dts1 = sum dts2 -> k0 * sec + sum dts1 < 4294967296 * sec ->
  v1_sched_ok fuel n k0 k0 0 dts1 = true -> v1_sched_ok fuel n k0 k0 0 dts2 = true ->
  v1_poll fuel n k0 0 dts1 = Ok ka ra -> v1_poll fuel n k0 0 dts2 = Ok kb rb ->
  ka = kb /\ ra = rb.
Proof. exact v1_pollers_agree. Qed.
Print Assumptions C26_v1_pollers_agree.

(* The unrestricted statement is false of the code as written (the first slot
   of an evaluation uses 5+(1+k-n)*3*20^(k/n), the loop 5+(k-n)*3*20^(k/n)):
   3 arbiters, view offset 2; evaluating 5 s and 69 s after the view start
   gives (offset 3, 64 s), evaluating once after 69 s gives (offset 4, 59 s).
   Recorded in known_findings.jsonl; replayed on the Go code every run. *)
Theorem C26_v1_compositional_refuted : exists n k0 dts,
  0 < n /\ 0 <= k0 /\ Forall (fun x => 0 <= x) dts /\
  k0 * sec + sum dts < 4294967296 * sec /\
  v1_poll 10 n k0 0 dts = Ok 3 (64 * sec) /\
  offset_v1 10 n k0 (sum dts) = Ok 4 (59 * sec).
Proof. exact v1_compositional_refuted. Qed.
Print Assumptions C26_v1_compositional_refuted.

(* Non-vacuity: a 36-arbiter schedule that crosses views below the round end
   satisfies every hypothesis of the partial theorem and changes view 7 times;
   a schedule starting beyond the round (offset 40) that is polled twice before
   its first, 305 s long, view ends is covered too (initial-offset clause); the
   V0 hypotheses hold for a 10 s tolerance and a wrapping start offset. *)
Example C26_nonvacuous :
  (v1_sched_ok 20 36 30 30 0 [7 * sec; 11 * sec; 17 * sec] = true /\
   v1_starts_below 20 36 30 0 [7 * sec; 11 * sec; 17 * sec] = true /\
   v1_poll 20 36 30 0 [7 * sec; 11 * sec; 17 * sec] = Ok 37 0 /\
   offset_v1 20 36 30 (35 * sec) = Ok 37 0) /\
  (v1_sched_ok 20 36 40 40 0 [100 * sec; 100 * sec; 110 * sec] = true /\
   v1_starts_below 20 36 40 0 [100 * sec; 100 * sec; 110 * sec] = false /\
   v1_poll 20 36 40 0 [100 * sec; 100 * sec; 110 * sec] = Ok 41 (5 * sec)) /\
  (v0_poll (10 * sec) 4294967295 0 [9 * sec; 1 * sec; 15 * sec] = Ok 1 (5 * sec)).
Proof. vm_compute. repeat split; reflexivity. Qed.
