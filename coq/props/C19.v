(* C19 — Treaps behave as ordered maps; immutable treaps are persistent.
   Property theorems only; each is closed by [exact] of a lemma from
   proof/C19_Treap.v (proof/C19_Iter.v for the iterator) and followed by
   Print Assumptions.  [run_ops ops empty] is the treap reached by an arbitrary
   history of Put/Delete with arbitrary priorities ("every priority stream");
   [spec_ops ops []] is the same history on the ordered association list of
   lib/OMap.v. *)
From Coq Require Import ZArith List Bool.
From ELA Require Import lib.OMap model.C19_Treap proof.C19_Treap proof.C19_Iter.
(* the correspondence checker is rebuilt together with the theorems *)
From ELA Require corr.C19_corr.
Import ListNotations.
Local Open Scope Z_scope.

(* After any history, with any priorities, the in-order contents of the treap
   are exactly the ordered map the history describes. *)
Theorem C19_abs_refines : forall ops, abs (run_ops ops empty) = spec_ops ops [].
Proof. exact reachable_abs. Qed.
Print Assumptions C19_abs_refines.

(* Single steps, for any treap satisfying the invariant. *)
Theorem C19_put_abs : forall t k v p, wf t -> abs (put t k v p) = OMap.put (abs t) k v.
Proof. exact put_abs. Qed.
Print Assumptions C19_put_abs.

Theorem C19_delete_abs : forall t k, wf t -> abs (delete t k) = OMap.del (abs t) k.
Proof. exact delete_abs. Qed.
Print Assumptions C19_delete_abs.

(* The invariant (search-tree order, count and size bookkeeping) holds
   initially and is preserved by every step. *)
Theorem C19_invariant_preserved :
  wf empty /\ (forall t k v p, wf t -> wf (put t k v p)) /\ (forall t k, wf t -> wf (delete t k)).
Proof. exact (conj wf_empty (conj put_wf delete_wf)). Qed.
Print Assumptions C19_invariant_preserved.

Theorem C19_bst_reachable : forall ops, sorted (abs (run_ops ops empty)).
Proof. exact reachable_sorted. Qed.
Print Assumptions C19_bst_reachable.

(* Heap order: Put keeps the min-heap on priorities for every priority drawn;
   Delete, as written (it lifts the child with the LARGER priority value), does
   not.  The loss is invisible through Get/Has/Len/Size/iteration -- no theorem
   of this file needs heap order -- so it is recorded here as a fact about the
   code, not as a violation of C19. *)
Theorem C19_put_keeps_heap : forall t k v p, heap (root t) -> heap (root (put t k v p)).
Proof. exact put_heap. Qed.
Print Assumptions C19_put_keeps_heap.

Theorem C19_delete_heap_not_invariant :
  let t := Node (Node Leaf [1] [] 5 Leaf) [2] [] 1 (Node Leaf [3] [] 3 Leaf) in
  bst t /\ heap t /\ ~ heap (tdel t [2]).
Proof. exact delete_heap_counterexample. Qed.
Print Assumptions C19_delete_heap_not_invariant.

(* Get / Has / Len / Size answer like the ordered map. *)
Theorem C19_get : forall ops k, get (run_ops ops empty) k = OMap.get (spec_ops ops []) k.
Proof. exact reachable_get. Qed.
Print Assumptions C19_get.

Theorem C19_has : forall ops k, has (run_ops ops empty) k = OMap.has (spec_ops ops []) k.
Proof. exact reachable_has. Qed.
Print Assumptions C19_has.

Theorem C19_len : forall ops, count (run_ops ops empty) = len (spec_ops ops []).
Proof. exact reachable_len. Qed.
Print Assumptions C19_len.

(* Size is the sum over the stored pairs of 72 + |key| + |value| (in uint64
   arithmetic, as in the Go code). *)
Theorem C19_size : forall ops, size (run_ops ops empty) = u64 (total (spec_ops ops [])).
Proof. exact reachable_size. Qed.
Print Assumptions C19_size.

(* Persistence: a version produced by a history keeps its contents whatever
   history is later run from it (in Gallina this is definitional; the Go code
   is tied to it by the correspondence, which re-queries every retained
   version). *)
Theorem C19_persistent : forall ops later,
  let t1 := run_ops ops empty in
  let t2 := run_ops later t1 in
  abs t1 = spec_ops ops [] /\ abs t2 = spec_ops later (spec_ops ops []).
Proof. exact persistent. Qed.
Print Assumptions C19_persistent.

(* ------------------------------------------------------------------ iterator
   [current it] is (Key(),Value()) when Valid(); [ofilter (irange it) o] keeps
   o only if its key lies in the iterator's range [start, limit); [pos_ok]
   says the parent stack is the ancestor chain of the current node (what the
   next step relies on).  All statements are for an arbitrary search tree as
   the iterator's root, hence for every reachable treap. *)

(* Seek(k): the first pair with key >= k, provided it lies in the range. *)
Theorem C19_iter_seek : forall it k it' b, bst (i_root it) -> seek_ge it k = (it', b) ->
  current it' = ofilter (irange it) (OMap.seek_ge (elements (i_root it)) k) /\
  b = is_some (current it') /\ it_same it it' /\ i_seek it' = None /\ i_new it' = false /\ pos_ok it'.
Proof. exact seek_ge_spec. Qed.
Print Assumptions C19_iter_seek.

(* First(): the first pair of the map restricted to the range. *)
Theorem C19_iter_first : forall it it' b, bst (i_root it) -> first it = (it', b) ->
  current it' = OMap.first (OMap.range (elements (i_root it)) (i_start it) (i_limit it)) /\
  b = is_some (current it') /\ it_same it it' /\ i_seek it' = None /\ i_new it' = false /\ pos_ok it'.
Proof. exact first_range_spec. Qed.
Print Assumptions C19_iter_first.

(* Last(): the last pair of the map restricted to the range. *)
Theorem C19_iter_last : forall it it' b, bst (i_root it) -> last it = (it', b) ->
  current it' = OMap.last (OMap.range (elements (i_root it)) (i_start it) (i_limit it)) /\
  b = is_some (current it') /\ it_same it it' /\ i_seek it' = None /\ i_new it' = false /\ pos_ok it'.
Proof. exact last_range_spec. Qed.
Print Assumptions C19_iter_last.

(* Next() from a valid position (on key k, or re-seeking key k after
   ForceReseek): the successor of k in the map restricted to the range. *)
Theorem C19_iter_next : forall it it' b, bst (i_root it) -> i_new it = false ->
  is_node (i_node it) = true -> (i_seek it = None -> pos_ok it) -> next it = (it', b) ->
  current it' = ofilter (irange it)
                  (OMap.seek_gt (elements (i_root it))
                     (match i_seek it with Some sk => sk | None => node_key (i_node it) end)) /\
  b = is_some (current it') /\ it_same it it' /\ i_seek it' = None /\ i_new it' = false /\ pos_ok it'.
Proof. exact next_spec. Qed.
Print Assumptions C19_iter_next.

Theorem C19_iter_prev : forall it it' b, bst (i_root it) -> i_new it = false ->
  is_node (i_node it) = true -> (i_seek it = None -> pos_ok it) -> prev it = (it', b) ->
  current it' = ofilter (irange it)
                  (OMap.seek_lt (elements (i_root it))
                     (match i_seek it with Some sk => sk | None => node_key (i_node it) end)) /\
  b = is_some (current it') /\ it_same it it' /\ i_seek it' = None /\ i_new it' = false /\ pos_ok it'.
Proof. exact prev_spec. Qed.
Print Assumptions C19_iter_prev.

(* Mutable treap changed under the iterator, ForceReseek, then Next/Prev: the
   neighbour, in the NEW contents t, of the key the iterator was on. *)
Theorem C19_iter_reseek : forall it t, bst t -> i_mut it = true -> i_new it = false ->
  is_node (i_node it) = true ->
  (forall it' b, next (force_reseek it t) = (it', b) ->
     current it' = ofilter (irange it) (OMap.seek_gt (elements t) (node_key (i_node it))) /\
     b = is_some (current it') /\ i_root it' = t /\ i_seek it' = None /\ pos_ok it') /\
  (forall it' b, prev (force_reseek it t) = (it', b) ->
     current it' = ofilter (irange it) (OMap.seek_lt (elements t) (node_key (i_node it))) /\
     b = is_some (current it') /\ i_root it' = t /\ i_seek it' = None /\ pos_ok it').
Proof. exact reseek_spec. Qed.
Print Assumptions C19_iter_reseek.

(* The whole forward walk (Next until exhaustion) of a fresh iterator over a
   treap reached by any history yields exactly the ordered map restricted to
   [start, limit), in order. *)
Theorem C19_iter_walk : forall ops start limit mut,
  let t := root (run_ops ops empty) in
  collect_next (S (length (elements t))) (new_iter t start limit mut) =
  OMap.range (spec_ops ops []) start limit.
Proof. exact walk_reachable. Qed.
Print Assumptions C19_iter_walk.

(* ... and the whole backward walk (Prev until exhaustion, starting with Last)
   yields the same restricted map in descending order. *)
Theorem C19_iter_walk_back : forall ops start limit mut,
  let t := root (run_ops ops empty) in
  collect_prev (S (length (elements t))) (new_iter t start limit mut) =
  rev (OMap.range (spec_ops ops []) start limit).
Proof. exact walk_back_reachable. Qed.
Print Assumptions C19_iter_walk_back.

(* Non-vacuity: a concrete history with a priority tie, an overwrite and
   deletes of a two-child node reaches a 3-key map. *)
Example C19_nonvacuous :
  let ops := [MPut [2] [20] 5; MPut [1] [10] 5; MPut [3] [30] 1; MPut [2;0] [] 7;
              MPut [2] [21] 9; MDel [3]; MDel [9]] in
  abs (run_ops ops empty) = [([1], [10]); ([2], [21]); ([2;0], [])] /\
  count (run_ops ops empty) = 3 /\ size (run_ops ops empty) = 3 * 72 + 6 /\
  get (run_ops ops empty) [2;0] = Some [] /\ get (run_ops ops empty) [3] = None /\
  collect_next 4 (new_iter (root (run_ops ops empty)) (Some [1;0]) None false) = [([2], [21]); ([2;0], [])] /\
  collect_prev 4 (new_iter (root (run_ops ops empty)) None (Some [2;0]) false) = [([2], [21]); ([1], [10])] /\
  (let it := fst (seek_ge (new_iter (root (run_ops ops empty)) None (Some [2;0]) true) [1;5]) in
   current it = Some ([2], [21]) /\ pos_ok it /\ current (fst (next it)) = None /\
   current (fst (prev it)) = Some ([1], [10])).
Proof. vm_compute. repeat split; try reflexivity; auto; discriminate. Qed.
