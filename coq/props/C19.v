(* C19 — Treaps behave as ordered maps; immutable treaps are persistent.
   Property theorems only; each is closed by [exact] of a lemma from
   proof/C19_Treap.v (proof/C19_Iter.v for the iterator) and followed by
   Print Assumptions.  [run_ops ops empty] is the treap reached by an arbitrary
   history of Put/Delete with arbitrary priorities ("every priority stream");
   [spec_ops ops []] is the same history on the ordered association list of
   lib/OMap.v. *)
From Coq Require Import ZArith List Bool.
From ELA Require Import lib.OMap model.C19_Treap proof.C19_Treap.
Import ListNotations.
Local Open Scope Z_scope.

(* After any history, with any priorities, the in-order contents of the treap
   are exactly the ordered map the history describes. *)
Theorem C19_abs_refines : forall ops, abs (run_ops ops empty) = spec_ops ops [].
Proof. exact reachable_abs. Qed.
Print Assumptions C19_abs_refines.

(* Single steps, for any treap satisfying the invariant. *)
Theorem C19_put_abs : forall t k v p, wf t -> abs (put t k v p) = OMap.put (abs t) k v.
Proof. exact put_abs. Qed.
Print Assumptions C19_put_abs.

Theorem C19_delete_abs : forall t k, wf t -> abs (delete t k) = OMap.del (abs t) k.
Proof. exact delete_abs. Qed.
Print Assumptions C19_delete_abs.

(* The invariant (search-tree order, min-heap on priorities, count and size
   bookkeeping) holds initially and is preserved by every step. *)
Theorem C19_invariant_preserved :
  wf empty /\ (forall t k v p, wf t -> wf (put t k v p)) /\ (forall t k, wf t -> wf (delete t k)).
Proof. exact (conj wf_empty (conj put_wf delete_wf)). Qed.
Print Assumptions C19_invariant_preserved.

Theorem C19_bst_heap_reachable : forall ops,
  sorted (abs (run_ops ops empty)) /\ heap (root (run_ops ops empty)).
Proof. exact (fun ops => conj (reachable_sorted ops) (reachable_heap ops)). Qed.
Print Assumptions C19_bst_heap_reachable.

(* Get / Has / Len / Size answer like the ordered map. *)
Theorem C19_get : forall ops k, get (run_ops ops empty) k = OMap.get (spec_ops ops []) k.
Proof. exact reachable_get. Qed.
Print Assumptions C19_get.

Theorem C19_has : forall ops k, has (run_ops ops empty) k = OMap.has (spec_ops ops []) k.
Proof. exact reachable_has. Qed.
Print Assumptions C19_has.

Theorem C19_len : forall ops, count (run_ops ops empty) = len (spec_ops ops []).
Proof. exact reachable_len. Qed.
Print Assumptions C19_len.

(* Size is the sum over the stored pairs of 72 + |key| + |value| (in uint64
   arithmetic, as in the Go code). *)
Theorem C19_size : forall ops, size (run_ops ops empty) = u64 (total (spec_ops ops [])).
Proof. exact reachable_size. Qed.
Print Assumptions C19_size.

(* Persistence: a version produced by a history keeps its contents whatever
   history is later run from it (in Gallina this is definitional; the Go code
   is tied to it by the correspondence, which re-queries every retained
   version). *)
Theorem C19_persistent : forall ops later,
  let t1 := run_ops ops empty in
  let t2 := run_ops later t1 in
  abs t1 = spec_ops ops [] /\ abs t2 = spec_ops later (spec_ops ops []).
Proof. exact persistent. Qed.
Print Assumptions C19_persistent.

(* Non-vacuity: a concrete history with a priority tie, an overwrite and
   deletes of a two-child node reaches a 3-key map. *)
Example C19_nonvacuous :
  let ops := [MPut [2] [20] 5; MPut [1] [10] 5; MPut [3] [30] 1; MPut [2;0] [] 7;
              MPut [2] [21] 9; MDel [3]; MDel [9]] in
  abs (run_ops ops empty) = [([1], [10]); ([2], [21]); ([2;0], [])] /\
  count (run_ops ops empty) = 3 /\ size (run_ops ops empty) = 3 * 72 + 6 /\
  get (run_ops ops empty) [2;0] = Some [] /\ get (run_ops ops empty) [3] = None.
Proof. vm_compute. repeat split; reflexivity. Qed.
