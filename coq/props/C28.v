(* C28 — Deposits and vote rights are never overdrawn (reduced model).
   Property theorems only; each is closed by [exact] of a lemma from
   proof/C28_Deposit.v (or by evaluation of a concrete witness) and followed by
   Print Assumptions.  Fixed64 arithmetic wraps in the model exactly as int64
   does; the hypothesis "B + costs < 2^62" (B bounds the initial balances, costs
   = sum of all amounts appearing in the operations) is what keeps it from
   wrapping — amounts of real coins are below 2^52. *)
From Coq Require Import ZArith List Bool.
From ELA Require Import model.C28_Deposit proof.C28_Deposit.
From ELA Require corr.C28_corr.   (* so that the correspondence checker is rebuilt with the model *)
Import ListNotations.
Local Open Scope Z_scope.

(* Over all sequences of deposits, penalties, releases of the lock and return
   transactions on one producer / CR candidate: the locked deposit is always
   fully backed by the total and no balance is negative. *)
Theorem C28_locked_deposit_backed : forall a ops B,
  0 <= lock a <= tot a /\ tot a <= B /\ 0 <= pen a <= B ->
  dops_ok a ops = true -> B + dcosts ops < 4611686018427387904 ->
  0 <= lock (drun a ops) <= tot (drun a ops) /\ 0 <= pen (drun a ops).
Proof. exact locked_deposit_backed. Qed.
Print Assumptions C28_locked_deposit_backed.

(* Every return transaction that is accepted anywhere in such a sequence
   withdraws (inputs - change, exact integers) at most the available amount
   total - lock - penalty, pays out strictly less than it, changes only the
   total, by exactly the withdrawn amount, and leaves the available amount >= 0. *)
Theorem C28_withdrawn_le_available : forall a pre refs change outs B,
  0 <= lock a <= tot a /\ tot a <= B /\ 0 <= pen a <= B ->
  dops_ok a (pre ++ [DReturn refs change outs]) = true ->
  B + dcosts (pre ++ [DReturn refs change outs]) < 4611686018427387904 ->
  return_check true refs change outs [Some (drun a pre)] = true ->
  let a1 := drun a pre in
  let a2 := dstep a1 (DReturn refs change outs) in
  lsum refs - lsum change <= tot a1 - lock a1 - pen a1 /\
  lsum outs < tot a1 - lock a1 - pen a1 /\
  tot a2 = tot a1 - (lsum refs - lsum change) /\ lock a2 = lock a1 /\ pen a2 = pen a1 /\
  0 <= tot a2 - lock a2 - pen a2.
Proof. exact withdrawn_le_available. Qed.
Print Assumptions C28_withdrawn_le_available.

(* The available amount stays >= 0 under every operation except a new penalty
   (a penalty on a fully locked deposit makes it negative by design: see
   C28_available_negative_after_penalty below). *)
Theorem C28_available_nonneg_partial : forall B a o,
  0 <= lock a <= tot a /\ tot a <= B /\ 0 <= pen a <= B ->
  dop_ok a o = true -> B + dcost o < 4611686018427387904 -> is_penalty o = false ->
  0 <= tot a - lock a - pen a ->
  0 <= tot (dstep a o) - lock (dstep a o) - pen (dstep a o).
Proof. exact available_nonneg_step. Qed.
Print Assumptions C28_available_nonneg_partial.

(* Over all sequences of stakes, votes (any numbers whatsoever), expiries and
   vote returns on one stake address: 0 <= DPoS v2 votes in use <= vote rights. *)
Theorem C28_used_v2_votes_le_vote_rights : forall fee s ops B,
  0 <= fee -> 0 <= used2 s <= rights s /\ rights s <= B ->
  vops_ok true fee s ops = true -> B + vcosts ops < 4611686018427387904 ->
  0 <= used2 (vrun true fee s ops) <= rights (vrun true fee s ops).
Proof. exact used_votes_le_rights. Qed.
Print Assumptions C28_used_v2_votes_le_vote_rights.

(* An accepted DPoS v2 vote fits into the unused vote rights as exact integers,
   for arbitrary vote numbers (no bound on the votes is needed since the repair). *)
Theorem C28_accepted_votes_fit_unused_rights : forall B s present wf vs,
  0 <= used2 s <= rights s /\ rights s <= B -> B < 4611686018427387904 ->
  vote_check true present wf s vs = true ->
  lsum vs <= rights s - used2 s /\ Forall (fun v => 0 < v) vs.
Proof. exact vote_check_exact. Qed.
Print Assumptions C28_accepted_votes_fit_unused_rights.

(* An accepted ReturnVotes takes back at most the rights not in use by DPoS v2
   votes nor by any of the other kinds of votes. *)
Theorem C28_returned_votes_le_unused : forall B fee s others value,
  0 <= used2 s <= rights s /\ rights s <= B -> B < 4611686018427387904 -> 0 <= fee ->
  Forall (fun u => 0 <= u < 4611686018427387904) others ->
  retvotes_check fee s others value = true ->
  fee < value /\ value <= rights s - used2 s /\ Forall (fun u => value <= rights s - u) others.
Proof. exact returned_votes_le_unused. Qed.
Print Assumptions C28_returned_votes_le_unused.

(* Block by block, with lock times, renewals and the expiry sweep of
   State.processTransactions (one stake address, at most one of its transactions
   per block): over all block lists the DPoS v2 votes in use are exactly the
   votes still locked on producers, and 0 <= used <= vote rights.  Hypotheses:
   a new vote carries a fresh id, stakes are non-negative and sum below 2^62. *)
Theorem C28_used_votes_equal_locked_votes : forall fee bs B s,
  0 <= fee ->
  (NoDup (map v_id (vs_votes s)) /\ Forall (fun v => 0 < v_amt v) (vs_votes s) /\
   vs_used s = locked_sum (vs_votes s) /\ locked_sum (vs_votes s) <= vs_rights s /\ vs_rights s <= B) ->
  bops_ok fee s bs = true -> B + bcosts bs < 4611686018427387904 ->
  let s' := brun fee s bs in
  vs_used s' = locked_sum (vs_votes s') /\ 0 <= vs_used s' <= vs_rights s'.
Proof. exact used_equals_locked_votes. Qed.
Print Assumptions C28_used_votes_equal_locked_votes.

(* Non-vacuity of the block theorem: stake, vote 600 until 20, renew it in block
   21 (the block in which it would expire) until 30, it expires in block 31. *)
Example C28_blocks_nonvacuous :
  let bs := [(7, Some (BStake 1000)); (8, Some (BVote 1 600 20)); (20, None);
             (21, Some (BRenew 1 30)); (22, Some (BVote 2 400 40)); (30, None); (31, None)] in
  let s0 := {| vs_rights := 0; vs_used := 0; vs_votes := [] |} in
  bops_ok 10 s0 bs = true /\
  brun 10 s0 (firstn 5 bs) =
    {| vs_rights := 1000; vs_used := 1000;
       vs_votes := [{| v_id := 2; v_amt := 400; v_lock := 40 |}; {| v_id := 1; v_amt := 600; v_lock := 30 |}] |} /\
  brun 10 s0 bs =
    {| vs_rights := 1000; vs_used := 400; vs_votes := [{| v_id := 2; v_amt := 400; v_lock := 40 |}] |}.
Proof. vm_compute. repeat split; reflexivity. Qed.

(* The code as found (before /repo 75442e56) compared the wrapped int64 sum of
   the votes once: a stake address with 100 sela of vote rights casts 4 x 2^62
   votes (sum = 0 mod 2^64).  Replayed on the real Voting.SpecialContextCheck,
   repaired; the witness stays in the harness corpus. *)
Theorem C28_vote_sum_wrap_before_repair_refuted : exists s vs,
  0 <= used2 s <= rights s /\ rights s < 4611686018427387904 /\
  Forall (fun v => 0 < v) vs /\
  vote_check false true true s vs = true /\ rights s - used2 s < lsum vs /\
  vote_check true true true s vs = false.
Proof.
  exists {| rights := 100; used2 := 0 |}.
  exists [4611686018427387904; 4611686018427387904; 4611686018427387904; 4611686018427387904].
  vm_compute. repeat split; try discriminate; auto; repeat constructor.
Qed.
Print Assumptions C28_vote_sum_wrap_before_repair_refuted.

(* Non-vacuity and the limits of the statements:
   - a producer with 6000 ELA total, 5000 locked: deposit, penalty, cancel, two
     returns (the second one refused) satisfy the hypotheses;
   - a penalty on a fully locked deposit makes the available amount negative;
   - beyond 2^62 the return check itself wraps: outputs of 2 x 2^62 pass
     against an available amount of 10 (needs UTXOs no chain can hold). *)
Definition ex_a := {| tot := 600000000000; lock := 500000000000; pen := 0 |}.
Definition ex_ops := [DDeposit 100; DPenalty 20000000000; DUnlock 500000000000;
                      DReturn [600000000000] [100000000000] [499999990000];
                      DReturn [100000000000; 100] [] [100000000000]].

Example C28_nonvacuous :
  dops_ok ex_a ex_ops = true /\ 600000000000 + dcosts ex_ops < 4611686018427387904 /\
  drun ex_a ex_ops = {| tot := 100000000100; lock := 0; pen := 20000000000 |} /\
  return_check true [600000000000] [100000000000] [499999990000]
     [Some (drun ex_a [DDeposit 100; DPenalty 20000000000; DUnlock 500000000000])] = true /\
  (let s := vrun true 10000 {| rights := 0; used2 := 0 |} [VStake 1000000; VVote [600000; 400000]; VVote [1]; VExpire 400000; VReturn [0;0;0] 400000; VReturn [0;0;0] 1] in
   s = {| rights := 600000; used2 := 600000 |}).
Proof. vm_compute. repeat split; reflexivity. Qed.

Example C28_available_negative_after_penalty :
  avail (drun {| tot := 500000000000; lock := 500000000000; pen := 0 |} [DPenalty 100]) = -100.
Proof. vm_compute. reflexivity. Qed.

Example C28_return_check_wraps_beyond_2_62 :
  return_check true [5] [] [4611686018427387904; 4611686018427387904]
    [Some {| tot := 10; lock := 0; pen := 0 |}] = true.
Proof. vm_compute. reflexivity. Qed.
