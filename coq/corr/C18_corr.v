(* C18 correspondence: scenarios executed on a real ffldb database (temp dir,
   shrunken maximum file size) replayed on the model.  Executable, no proofs. *)
From Coq Require Import NArith Bool List.
From ELA Require Import model.C18_Crc32c model.C18_Flat.
Import ListNotations.
Local Open Scope N_scope.

Definition NET : N := 3652501241.   (* wire.MainNet 0xd9b4bef9 *)

Inductive rd :=
| RFetch (i : N)                 (* Tx.FetchBlock *)
| RRegion (i off n : N)          (* Tx.FetchBlockRegion *)
| RHeader (i : N)                (* Tx.FetchBlockHeader *)
| RLoc (i : N)                   (* raw block-index row (verif view) *)
| RRegions (reqs : list (N * N * N))   (* Tx.FetchBlockRegions: (block, offset, length) *)
| RHeaders (is : list N)               (* Tx.FetchBlockHeaders *)
| RBlocks (is : list N).               (* Tx.FetchBlocks *)

(* block contents are generated identically on both sides to keep the case
   files small: LCG bytes, a pattern that looks like record framing, a ramp;
   [BRaw] for literal corpus blocks *)
Inductive bspec := BGen (kind seed n : N) | BRaw (b : bytes).
Fixpoint lcg (n : nat) (x : N) : bytes :=
  match n with
  | O => []
  | S k => let x' := (x * 1103515245 + 12345) mod 2147483648 in (x' / 65536) mod 256 :: lcg k x'
  end.
Fixpoint ramp (n : nat) (i : N) (f : N -> N) : bytes :=
  match n with O => [] | S k => f i :: ramp k (i + 1) f end.
Definition frame_pat (i : N) : N := nth (N.to_nat (i mod 8)) [249; 190; 180; 217; 16; 0; 0; 0] 0.
Definition gen (b : bspec) : bytes :=
  match b with
  | BRaw x => x
  | BGen 0 seed n => lcg (N.to_nat n) seed
  | BGen 1 _ n => ramp (N.to_nat n) 0 frame_pat
  | BGen _ seed n => ramp (N.to_nat n) 0 (fun i => (seed + i) mod 256)
  end.

Inductive op :=
| OCommit (blocks : list bspec) (preads : list rd)   (* one Update: StoreBlock each, reads inside the tx, commit *)
| ORead (r : rd)                                     (* inside a View *)
| OCursor                                            (* in-memory write cursor *)
| OReopen.                                           (* Close + Open *)

(* results of 16 bytes or more are observed as (length, CRC-32C) *)
Inductive ob :=
| BBytes (b : bytes)
| BDig (n crc : N)
| BBulk (l : list (N * N))   (* a bulk result: (length, CRC-32C) of every element *)
| BErr (code : N)        (* 1 not found, 2 region invalid, 3 driver specific, 4 corruption, 7 panic, 9 other *)
| BNone
| BCur (f o : N)
| BOpen (code : N).      (* 0 ok *)

Definition code (e : err) : N :=
  match e with ENotFound => 1 | ERegion => 2 | EDriver => 3 | ECorrupt => 4 end.
Definition dig (b : bytes) : ob := if len b <? 16 then BBytes b else BDig (len b) (crc32c b).
Definition ob_of (r : res bytes) : ob :=
  match r with Ok b => dig b | Err e => BErr (code e) | Panic => BErr 7 end.

Fixpoint pairs_eqb (a b : list (N * N)) : bool :=
  match a, b with
  | [], [] => true
  | (x, y) :: a', (x', y') :: b' => (x =? x') && (y =? y') && pairs_eqb a' b'
  | _, _ => false
  end.
Definition ob_of_bulk (r : res (list bytes)) : ob :=
  match r with
  | Ok l => BBulk (map (fun b => (len b, crc32c b)) l)
  | Err e => BErr (code e)
  | Panic => BErr 7
  end.
Definition ob_eqb (a b : ob) : bool :=
  match a, b with
  | BBytes x, BBytes y => bytes_eqb x y
  | BDig n c, BDig n' c' => (n =? n') && (c =? c')
  | BBulk l, BBulk l' => pairs_eqb l l'
  | BErr x, BErr y => x =? y
  | BNone, BNone => true
  | BCur f o, BCur f' o' => (f =? f') && (o =? o')
  | BOpen x, BOpen y => x =? y
  | _, _ => false
  end.
Fixpoint obs_eqb (a b : list ob) : bool :=
  match a, b with
  | [], [] => true
  | x :: a', y :: b' => ob_eqb x y && obs_eqb a' b'
  | _, _ => false
  end.

Section Run.
Variable max : N.

(* a read inside a write transaction holding [pending] *)
Definition tx_read (d : db) (pending : list bytes) (r : rd) : ob :=
  let k := N.of_nat (length (d_rows d)) in
  let pend (i : N) : option bytes :=
    if i <? k then None
    else if N.of_nat (length pending) <=? i - k then None
    else nth_error pending (N.to_nat (i - k)) in
  match r with
  | RFetch i => match pend i with Some raw => dig raw | None => ob_of (db_fetch NET crc32c_be d i) end
  | RRegion i off n => ob_of (tx_region d pending i off n)
  | RHeader i => ob_of (tx_region d pending i 0 hdr_size)
  | RLoc i => match row_of d i with Some row => dig row | None => BNone end
  | RRegions reqs => ob_of_bulk (tx_regions d pending reqs)
  | RHeaders is => ob_of_bulk (tx_headers d pending is)
  | RBlocks is => ob_of_bulk (seq_all (map (fun i => match pend i with Some raw => Ok raw
                                                   | None => db_fetch NET crc32c_be d i end) is))
  end.

Fixpoint exec (d : db) (ops : list op) : list ob * db :=
  match ops with
  | [] => ([], d)
  | OCommit bsp rs :: t =>
      let bs := map gen bsp in
      let o := map (tx_read d bs) rs in
      let '(o', d') := exec (db_commit max NET crc32c_be d bs) t in (o ++ o', d')
  | ORead r :: t => let '(o', d') := exec d t in (tx_read d [] r :: o', d')
  | OCursor :: t => let '(o', d') := exec d t in (BCur (s_file (d_st d)) (s_off (d_st d)) :: o', d')
  | OReopen :: t =>
      match db_reopen crc32c_be d with
      | Ok d1 => let '(o', d') := exec d1 t in (BOpen 0 :: o', d')
      | Err e => ([BOpen (code e)], d)          (* the scenario ends here *)
      | Panic => ([BOpen 7], d)
      end
  end.
End Run.

Definition strip (fs : files) : files := strip_none fs.
(* observed directory: per file number (length, CRC-32C) or missing *)
Fixpoint files_eqb (a : files) (b : list (option (N * N))) : bool :=
  match a, b with
  | [], [] => true
  | Some x :: a', Some (n, c) :: b' => (len x =? n) && (crc32c x =? c) && files_eqb a' b'
  | None :: a', None :: b' => files_eqb a' b'
  | _, _ => false
  end.

Inductive case := Case (id : N) (max : N) (ops : list op) (obs : list ob) (final : list (option (N * N))).

Definition check (c : case) : option N :=
  match c with
  | Case id max ops obs final =>
      let '(o, d) := exec max (db0 crc32c_be) ops in
      if obs_eqb o obs && files_eqb (strip (s_files (d_st d))) final then None else Some id
  end.

Definition mismatches (cs : list case) : list N :=
  flat_map (fun c => match check c with Some i => [i] | None => [] end) cs.
