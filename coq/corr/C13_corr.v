(* C13 correspondence: store-level histories (ChainStoreFFLDB.SaveBlock /
   RollbackBlock on the real store) replayed on model/Ledger.v by
   corr/Ledger_run.v; compared after every step: GetUnspent, GetTransaction,
   GetUTXO, GetAmount, IsTx3Exist, IsSideChainReturnDepositExist,
   GetProposalDraftDataByDraftHash for every id ever mentioned, and the
   success/failure of every save and rollback. *)
From Coq Require Import List NArith.
From ELA Require Import model.Ledger corr.Ledger_run.
Definition case := Ledger_run.case.
Definition mismatches : list case -> list N := Ledger_run.mismatches.
