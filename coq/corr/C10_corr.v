(* C10 correspondence: AuxPow.Check / GetExpectedIndex / GetMerkleRoot observed
   on the Go implementation, compared with the model by vm_compute with the
   executable SHA-256d of lib/Sha256.v as the merkle step hash. *)
From Coq Require Import ZArith NArith List Bool.
From ELA Require Import lib.Sha256 model.C10_AuxPow.
Import ListNotations.
Local Open Scope Z_scope.

Inductive case :=
| CCheck (id : N) (ap : auxpow) (hblock : list N) (chain_id : Z) (out : bool)
| CIndex (id : N) (nonce chain_id h out : Z)
| CRoot (id : N) (h : list N) (br : list (list N)) (idx : Z) (out : list N).

Definition check_case (c : case) : option N :=
  match c with
  | CCheck id ap hb cid out => if Bool.eqb (check sha256d ap hb cid) out then None else Some id
  | CIndex id n cid h out => if expected_index n cid h =? out then None else Some id
  | CRoot id h br idx out => if list_eqb (get_merkle_root sha256d h br idx) out then None else Some id
  end.

Definition mismatches (cs : list case) : list N :=
  flat_map (fun c => match check_case c with Some i => [i] | None => [] end) cs.
