(* C28 correspondence: observations of the real SpecialContextCheck functions
   and state transitions compared with the model.  Executable, no proofs. *)
From Coq Require Import ZArith NArith List Bool.
From ELA Require Import model.C28_Deposit.
Import ListNotations.
Local Open Scope Z_scope.

Definition mk_acct (t : Z * Z * Z) : acct :=
  match t with (a, b, c) => {| tot := a; lock := b; pen := c |} end.
Definition mk_stake (t : Z * Z) : stake := {| rights := fst t; used2 := snd t |}.

Definition acct_eqb (a : acct) (t : Z * Z * Z) : bool :=
  match t with (x, y, z) => (tot a =? x) && (lock a =? y) && (pen a =? z) end.
Definition stake_eqb (s : stake) (t : Z * Z) : bool :=
  (rights s =? fst t) && (used2 s =? snd t).

Inductive case :=
| CRet (id : N) (one_addr : bool) (refs change outs : list Z) (signers : list (option (Z * Z * Z))) (ok : bool)
| CDSeq (id : N) (init : Z * Z * Z) (ops : list dop) (obs : list (Z * Z * Z))
| CVote (id : N) (present wellformed : bool) (r u : Z) (vs : list Z) (ok : bool)
| CRetV (id : N) (fee r u : Z) (others : list Z) (value : Z) (ok : bool)
| CVSeq (id : N) (fee : Z) (ops : list vop) (obs : list (Z * Z))
  (* block-driven history of one producer through State.ProcessBlock: per block the
     operations it means for the account (penalty, return, deposits, release of the
     lock as observed) and (total, lock, penalty) observed after it *)
| CDBlocks (id : N) (init : Z * Z * Z) (blocks : list (list dop * (Z * Z * Z)))
  (* block-driven history of one stake address through State.ProcessBlock: per
     block the operations the block means for the address (its transaction, then
     the votes that expire in this block) and (rights, used) observed after it *)
| CVBlocks (id : N) (fee : Z) (blocks : list (list vop * (Z * Z)))
  (* the same histories against the block model with lock times: per block its
     height, the transaction of the address if any, and (rights, used, votes
     locked on producers) observed after State.ProcessBlock *)
| CLBlocks (id : N) (fee : Z) (blocks : list (Z * option btx * (Z * Z * Z))).

Fixpoint dseq (a : acct) (ops : list dop) (obs : list (Z * Z * Z)) : bool :=
  match ops, obs with
  | [], [] => true
  | o :: ops', t :: obs' => let a' := dstep a o in acct_eqb a' t && dseq a' ops' obs'
  | _, _ => false
  end.

Fixpoint vseq (fee : Z) (s : stake) (ops : list vop) (obs : list (Z * Z)) : bool :=
  match ops, obs with
  | [], [] => true
  | o :: ops', t :: obs' => let s' := vstep true fee s o in stake_eqb s' t && vseq fee s' ops' obs'
  | _, _ => false
  end.

Fixpoint dblocks (a : acct) (bs : list (list dop * (Z * Z * Z))) : bool :=
  match bs with
  | [] => true
  | (ops, t) :: r => let a' := drun a ops in acct_eqb a' t && dblocks a' r
  end.

Fixpoint vblocks (fee : Z) (s : stake) (bs : list (list vop * (Z * Z))) : bool :=
  match bs with
  | [] => true
  | (ops, t) :: r => let s' := vrun true fee s ops in stake_eqb s' t && vblocks fee s' r
  end.

Fixpoint lblocks (fee : Z) (s : vstate) (bs : list (Z * option btx * (Z * Z * Z))) : bool :=
  match bs with
  | [] => true
  | (h, t, (r, u, l)) :: rest =>
      let s' := bstep fee s (h, t) in
      (vs_rights s' =? r) && (vs_used s' =? u) && (locked_sum (vs_votes s') =? l) && lblocks fee s' rest
  end.

Definition check (c : case) : option N :=
  match c with
  | CRet id one refs change outs sg ok =>
      if Bool.eqb (return_check one refs change outs
                     (map (fun o => match o with Some t => Some (mk_acct t) | None => None end) sg)) ok
      then None else Some id
  | CDSeq id init ops obs => if dseq (mk_acct init) ops obs then None else Some id
  | CVote id present wf r u vs ok =>
      if Bool.eqb (vote_check true present wf (mk_stake (r, u)) vs) ok then None else Some id
  | CRetV id fee r u others value ok =>
      if Bool.eqb (retvotes_check fee (mk_stake (r, u)) others value) ok then None else Some id
  | CVSeq id fee ops obs => if vseq fee (mk_stake (0, 0)) ops obs then None else Some id
  | CDBlocks id init bs => if dblocks (mk_acct init) bs then None else Some id
  | CVBlocks id fee bs => if vblocks fee (mk_stake (0, 0)) bs then None else Some id
  | CLBlocks id fee bs => if lblocks fee {| vs_rights := 0; vs_used := 0; vs_votes := [] |} bs then None else Some id
  end.

Definition mismatches (cs : list case) : list N :=
  flat_map (fun c => match check c with Some i => [i] | None => [] end) cs.
