(* C32 correspondence.  A sweep case fixes the frozen list and the height and
   carries the bit mask of verdicts over all (references, outputs) pairs of
   hash lists of length <= maxlen over an alphabet, in the order of [pairs]. *)
From Coq Require Import ZArith Bool List.
From ELA Require Import model.C31_CrossChain model.C32_Frozen corr.C31_corr.
Import ListNotations.
Local Open Scope Z_scope.

Inductive case :=
| CFrozen (id : N) (entries : list frozen) (refs outs : list Z) (h : Z) (ok : bool)
| CFSweep (id : N) (entries : list frozen) (h : Z) (alphabet : list Z) (maxlen : N) (mask : Z)
(* enforceFrozenAddresses / SetupConfig: net name, list in the local configuration,
   resulting list as (address id, start height, resolved hash) *)
| CFEnforce (id : N) (name : list Z) (cfg : list cfg_entry) (out : list (Z * Z * option Z)).

Definition pairs (al : list Z) (maxlen : nat) : list (list Z * list Z) :=
  let ms := mixes al maxlen in
  flat_map (fun r => map (fun o => (r, o)) ms) ms.

(* mask of verdicts, bit i for the i-th pair *)
Definition pmask (f : list Z -> list Z -> bool) (ps : list (list Z * list Z)) : Z :=
  fst (fold_left (fun aw p => let '(acc, w) := aw in
                              ((if f (fst p) (snd p) then acc + w else acc), 2 * w)) ps (0, 1)).

Definition opt_eqb (a b : option Z) : bool :=
  match a, b with
  | Some x, Some y => x =? y
  | None, None => true
  | _, _ => false
  end.

Fixpoint out_eqb (m : list cfg_entry) (o : list (Z * Z * option Z)) : bool :=
  match m, o with
  | [], [] => true
  | e :: m', (a, s, _) :: o' => (ce_addr e =? a) && (ce_start e =? s) && out_eqb m' o'
  | _, _ => false
  end.

Definition check (c : case) : option N :=
  match c with
  | CFrozen id es refs outs h ok =>
      if Bool.eqb (check_frozen es refs outs h) ok then None else Some id
  | CFSweep id es h al maxlen mask =>
      if pmask (fun r o => check_frozen es r o h) (pairs al (N.to_nat maxlen)) =? mask
      then None else Some id
  | CFEnforce id name cfg out =>
      if out_eqb (enforce_frozen name cfg) out then None else Some id
  end.

Definition mismatches (cs : list case) : list N :=
  flat_map (fun c => match check c with Some i => [i] | None => [] end) cs.
