(* C14 correspondence: histories observed on the real regnet node replayed on
   model/Ledger.v by corr/Ledger_run.v; compared after every step: GetUnspent
   and GetTransaction (height) of every known transaction id, GetUTXO (sorted)
   and Ledger.GetAmount of every key, accept/reject of every block. *)
From Coq Require Import List NArith.
From ELA Require Import model.Ledger corr.Ledger_run.
Definition case := Ledger_run.case.
Definition mismatches : list case -> list N := Ledger_run.mismatches.
