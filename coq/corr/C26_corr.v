(* C26 correspondence: observations of calculateOffsetTimeV0/V1 and of
   ChangeView/ChangeViewV1 driven over polling schedules, compared with the
   model by vm_compute.  [fuel] is a hint supplied by the harness (number of
   view changes the implementation made, plus slack); with too little fuel the
   model answers OutOfFuel, which never equals an implementation result. *)
From Coq Require Import ZArith NArith Bool List.
From ELA Require Import model.C26_View.
Import ListNotations.
Local Open Scope Z_scope.

Inductive case :=
| CV0 (id : N) (tol d : Z) (out : res)
| CV1 (id : N) (fuel : N) (n k d : Z) (out : res)
| CPoll0 (id : N) (tol k0 : Z) (dts : list Z) (out : res)
| CPoll1 (id : N) (fuel : N) (n k0 : Z) (dts : list Z) (out : res).

Definition check (c : case) : option N :=
  match c with
  | CV0 id tol d out => if res_eqb (offset_v0 tol d) out then None else Some id
  | CV1 id fuel n k d out =>
      if res_eqb (offset_v1 (N.to_nat fuel) n k d) out then None else Some id
  | CPoll0 id tol k0 dts out =>
      if res_eqb (v0_poll tol k0 0 dts) out then None else Some id
  | CPoll1 id fuel n k0 dts out =>
      if res_eqb (v1_poll (N.to_nat fuel) n k0 0 dts) out then None else Some id
  end.

Definition mismatches (cs : list case) : list N :=
  flat_map (fun c => match check c with Some i => [i] | None => [] end) cs.
