(* C12/C30 correspondence: a history = parameters + the delivered blocks with
   what BlockChain.ProcessBlock returned and the active chain / LIH observed
   after every delivery; the model is replayed step by step. *)
From Coq Require Import ZArith NArith Bool List.
From ELA Require Import model.Chain.
Import ListNotations.
Local Open Scope Z_scope.

(* block fields: id parent height work sane valid dpos resume *)
Definition B (id par : N) (h w : Z) (sane valid dpos resume : bool) : block :=
  mkBlock id par h w sane valid dpos resume.

(* one delivery: block, (inMainChain, isOrphan, err<>nil), main chain ids (tip first), LIH after *)
Definition step : Type := block * (bool * bool * bool) * list N * Z.

(* GuardGrid: the outputs of the real State.IsIrreversible for one
   (CRCOnlyDPOSHeight, RevertToPOWStartHeight) on the grid
   mode (PoW, DPoS) x LIH in ls x cur 0..maxcur x detach 0..maxcur+1 *)
Inductive case :=
| Hist (id : N) (crc rs : Z) (cap : nat) (steps : list step)
| GuardGrid (id : N) (crc rs : Z) (ls : list Z) (maxcur : nat) (outs : list bool).

Fixpoint upto (n : nat) : list Z :=   (* 0 .. n-1 *)
  match n with O => [] | S k => upto k ++ [Z.of_nat k] end.

Definition guard_grid (crc rs : Z) (ls : list Z) (maxcur : nat) : list bool :=
  flat_map (fun dpos =>
    flat_map (fun l =>
      flat_map (fun cur =>
        map (fun d => is_irreversible (mkParams crc rs 0) dpos l cur d) (upto (maxcur + 2)))
        (upto (maxcur + 1))) ls) [false; true].

Fixpoint bools_eqb (a b : list bool) : bool :=
  match a, b with
  | [], [] => true
  | x :: a', y :: b' => Bool.eqb x y && bools_eqb a' b'
  | _, _ => false
  end.

Fixpoint ids_eqb (a b : list N) : bool :=
  match a, b with
  | [], [] => true
  | x :: a', y :: b' => N.eqb x y && ids_eqb a' b'
  | _, _ => false
  end.

Fixpoint replay (p : params) (s : state) (steps : list step) : bool :=
  match steps with
  | [] => true
  | (b, (im, orph, er), mids, l) :: r =>
      let '(s', res) := process_block p s b in
      if Bool.eqb (r_main res) im && Bool.eqb (r_orphan res) orph && Bool.eqb (r_err res) er
         && ids_eqb (main_ids s') mids && (lih (ir s') =? l)
      then replay p s' r else false
  end.

Definition check (c : case) : option N :=
  match c with
  | Hist id crc rs cap steps =>
      if replay (mkParams crc rs cap) init steps then None else Some id
  | GuardGrid id crc rs ls maxcur outs =>
      if bools_eqb (guard_grid crc rs ls maxcur) outs then None else Some id
  end.

Definition mismatches (cs : list case) : list N :=
  flat_map (fun c => match check c with Some i => [i] | None => [] end) cs.
