(* C36 correspondence: observations of the real handlers compared with
   model/C36_Access.v by vm_compute. *)
From Coq Require Import List Bool String NArith.
From ELA Require Import model.C36_Access.
Import ListNotations.
Local Open Scope string_scope.

Inductive case :=
(* one HTTP request against Handle / ServeHTTP.  Oracles for this request:
   host = SplitHostPort(RemoteAddr) (None on error); ip = ParseIP(host) as
   (IsLoopback, String()) (None when nil); expected = "Basic "+base64(user:pass).
   status: 403, 405, 415, 401 or 200 (dispatched). *)
| CReq (id : N) (remote : string) (host : option string) (ip : option (bool * string))
       (whitelist : list string) (user pass : string) (expected : string)
       (is_post ctype_ok : bool) (auth_headers : list string) (status : N)
(* one call of a gated handler with the node configured at level cfg *)
| CGate (id : N) (gate cfg : N) (ran : bool).

Definition status_code (s : status) : N :=
  match s with
  | Forbidden403 => 403 | NotAllowed405 => 405 | Unsupported415 => 415
  | Unauthorized401 => 401 | Dispatched => 200
  end%N.

Definition check (c : case) : option N :=
  match c with
  | CReq id remote host ip wl user pass expected is_post ctype_ok hdrs st =>
    let split_host := fun _ : string => host in
    let parse_ip := fun _ : string => ip in
    let basic := fun _ _ : string => expected in
    let H := fun s : string => s in
    if N.eqb (status_code (handle split_host parse_ip basic H remote wl user pass is_post ctype_ok hdrs)) st
    then None else Some id
  | CGate id gate cfg ran => if Bool.eqb (gate_runs gate cfg) ran then None else Some id
  end.

Definition mismatches (cs : list case) : list N :=
  flat_map (fun c => match check c with Some i => [i] | None => [] end) cs.
