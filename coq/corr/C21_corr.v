(* C21 correspondence: block sequences fed to the real dpos/state (standalone
   Arbiters + State), the projection of the Go state onto the model's vector
   after every block and after every RollbackTo, compared with
   model/C21_Dpos.v.  The change-discipline check of the model is evaluated on
   every block's pre-state as well (a block that is not disciplined is
   reported as a mismatch).  No proofs. *)
From Coq Require Import ZArith NArith List Bool.
From ELA Require Import lib.History model.C21_Dpos.
Import ListNotations.
Local Open Scope Z_scope.

(* all numbers are Z literals in the cases *)
Inductive ctx :=
| CReg (k m amount r : Z)
| CUpd (k m : Z)
| CCancel (k : Z)
| CVote (r : Z) (cands : list (Z * Z))
| CUnvote (r : Z) (cands : list (Z * Z))
| CTopup (k amount r : Z)
| CReturn (k : Z) (refs : list Z) (chg : Z)
| CRevPow
| CRevDpos (interval : Z)
| CInactive (k : Z)
| CActivate (k : Z)
| CIllegal (k : Z).

Inductive cblock := CBlock (h t : Z) (txs : list ctx).

Definition n := Z.to_nat.
Definition cands_of (l : list (Z * Z)) : list (nat * Z) := map (fun kv => (n (fst kv), snd kv)) l.

Definition tx_of (c : ctx) : tx :=
  match c with
  | CReg k m a r => TRegister (n k) (n m) a (n r)
  | CUpd k m => TUpdate (n k) (n m)
  | CCancel k => TCancel (n k)
  | CVote r cs => TVote (n r) (cands_of cs)
  | CUnvote r cs => TUnvote (n r) (cands_of cs)
  | CTopup k a r => TTopup (n k) a (n r)
  | CReturn k refs chg => TReturn (n k) (map n refs) chg
  | CRevPow => TRevertPow
  | CRevDpos iv => TRevertDpos iv
  | CInactive k => TInactive (n k)
  | CActivate k => TActivate (n k)
  | CIllegal k => TIllegal (n k)
  end.

Definition block_of (b : cblock) : block :=
  match b with CBlock h t txs => Block h t (map tx_of txs) end.

Fixpoint vec_eqb (a b : list Z) : bool :=
  match a, b with
  | [], [] => true
  | x :: a', y :: b' => (x =? y) && vec_eqb a' b'
  | _, _ => false
  end.

(* forward pass: every block disciplined at its pre-state, every observed
   vector equal to the model's *)
Fixpoint forward (P : params) (bs : list cblock) (obs : list (list Z)) (st : mstate) : option mstate :=
  match bs, obs with
  | [], [] => Some st
  | b :: bs', o :: obs' =>
      if block_disciplined P (snd st) (block_of b) then
        match process_block P (Some st) (block_of b) with
        | Some st' => if vec_eqb (snd st') o then forward P bs' obs' st' else None
        | None => None
        end
      else None
  | _, _ => None
  end.

Fixpoint backward (P : params) (rbs : list (Z * list Z)) (st : mstate) : bool :=
  match rbs with
  | [] => true
  | (k, o) :: r =>
      match rollback k (Some st) with
      | Some st' => vec_eqb (snd st') o && backward P r st'
      | None => false
      end
  end.

Inductive case :=
| Trace (id : N) (K M R lockup revert fee cap pe pi : Z) (blocks : list cblock) (obs : list (list Z))
        (rbs : list (Z * list Z)).

Definition check (c : case) : option N :=
  match c with
  | Trace id K M R lockup revert fee cap pe pi blocks obs rbs =>
      let P := Params (n K) (n M) (n R) lockup revert fee cap pe pi in
      match forward P blocks obs (init P) with
      | Some st => if backward P rbs st then None else Some id
      | None => Some id
      end
  end.

Definition mismatches (cs : list case) : list N :=
  flat_map (fun c => match check c with Some i => [i] | None => [] end) cs.
