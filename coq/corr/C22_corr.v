(* C22 correspondence for the reduced model: histories observed on the real
   Committee, cell values after every entry and after RollbackTo every height,
   compared with the model by vm_compute; the discipline check [goodb] must
   hold on every observed history.  Executable, no proofs. *)
From Coq Require Import ZArith Bool List.
From ELA Require Import lib.History model.C22_CrState.
Import ListNotations.
Local Open Scope Z_scope.

Inductive case :=
| CHist (id : N) (s0 : list (Z * Z)) (blocks : list ((Z * list tx) * list (Z * Z)))
        (rollbacks : list (Z * list (Z * Z))).

Definition cells_ok (m : mem) (obs : list (Z * Z)) : bool :=
  forallb (fun kv => get (fst kv) m =? snd kv) obs.

Fixpoint forward (s : mem) (bs : list ((Z * list tx) * list (Z * Z))) : bool :=
  match bs with
  | [] => true
  | (b, obs) :: r => let s1 := snd (commit_block s b) in cells_ok s1 obs && forward s1 r
  end.

Definition check (c : case) : option N :=
  match c with
  | CHist id s0 blocks rbs =>
      let bs := map fst blocks in
      let '(log, s) := process s0 bs in
      if forward s0 blocks && goodb s0 bs &&
         forallb (fun ko => cells_ok (rollback_to (fst ko) log s) (snd ko) &&
                            cells_ok (direct (fst ko) s0 bs) (snd ko)) rbs
      then None else Some id
  end.

Definition mismatches (cs : list case) : list N :=
  flat_map (fun c => match check c with Some i => [i] | None => [] end) cs.
