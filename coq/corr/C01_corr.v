(* C01 correspondence: observations of the Go implementation compared with
   model/C01_Fee.v by vm_compute.  Verdicts: 0 = ok (nil error), 1 = reject. *)
From Coq Require Import ZArith Bool List.
From ELA Require Import model.C01_Fee.
Import ListNotations.
Local Open Scope Z_scope.

Inductive case :=
(* tx.CheckTransactionOutput() ; tx.CheckTransactionFee(refs) ; tx.Fee() after acceptance *)
| CTx (id : N) (k : kind) (pr : params) (outs : list outp) (refs : list Z)
      (out_res fee_res fee : Z)
(* the same with n copies of one output (output-count bound without a 65536-element literal) *)
| CTxRep (id : N) (k : kind) (pr : params) (n : N) (o : outp) (refs : list Z)
      (out_res fee_res fee : Z)
(* SideChainPow without inputs: CheckTransactionInput / CheckTransactionOutput verdicts *)
| CSideNew (id : N) (outs : list outp) (in_res out_res : Z)
(* CRCAppropriation: CheckTransactionOutput, and SpecialContextCheck called with the
   given references (tagged "owned by the CR assets address"), the committee's
   NeedAppropriation flag and AppropriationAmount *)
| CApprop (id : N) (pr : params) (h0 h1 : bool) (outs : list outp) (out_res : Z)
          (needed : bool) (amount : Z) (refs : list (Z * bool)) (special_res : Z)
(* DefaultChecker.CheckTransactionInput on inputs given as (outpoint id, Sequence) *)
| CInputs (id : N) (ins : list inp) (in_res : Z)
(* getTransactionFee: error?, value *)
| CFee (id : N) (refs outs : list Z) (ok : bool) (fee : Z)
(* blockchain.GetTxFee(tx, ELAAssetID, refs) *)
| CFeeMap (id : N) (refs outs : list (Z * bool)) (fee : Z)
(* the totalTxFee loop *)
| CBlock (id : N) (fees : list Z) (total : Z).

Definition verdict (b : bool) : Z := if b then 0 else 1.

Definition check_tx (id : N) k pr outs refs (out_res fee_res fee : Z) : option N :=
  let m_out := verdict (check_outputs k pr outs) in
  let m_fee := check_fee k pr refs (map o_val outs) in
  let fee_ok := match m_fee with
                | Some f => (fee_res =? 0) && (f =? fee)
                | None => fee_res =? 1
                end in
  if (m_out =? out_res) && fee_ok then None else Some id.

Definition check (c : case) : option N :=
  match c with
  | CTx id k pr outs refs out_res fee_res fee => check_tx id k pr outs refs out_res fee_res fee
  | CTxRep id k pr n o refs out_res fee_res fee =>
      check_tx id k pr (repeat o (N.to_nat n)) refs out_res fee_res fee
  | CSideNew id outs in_res out_res =>
      if (in_res =? 0) && (verdict (sidepow_new_outputs_ok outs) =? out_res) then None else Some id
  | CApprop id pr h0 h1 outs out_res needed amount refs special_res =>
      if (verdict (approp_outputs_ok pr h0 h1 outs) =? out_res) &&
         (verdict (approp_special_ok needed refs (map o_val outs) amount) =? special_res)
      then None else Some id
  | CInputs id ins in_res =>
      if verdict (check_inputs ins) =? in_res then None else Some id
  | CFee id refs outs ok fee =>
      match tx_fee refs outs with
      | Some f => if ok && (f =? fee) then None else Some id
      | None => if ok then Some id else None
      end
  | CFeeMap id refs outs fee =>
      if tx_fee_map_ela refs outs =? fee then None else Some id
  | CBlock id fees total =>
      if block_fee fees =? total then None else Some id
  end.

Definition mismatches (cs : list case) : list N :=
  flat_map (fun c => match check c with Some i => [i] | None => [] end) cs.
