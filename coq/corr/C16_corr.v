(* C16 correspondence: histories run against a real ffldb through the public
   database.DB API (plus the verif layer views), replayed on the layered model
   by vm_compute. *)
From Coq Require Import ZArith List Bool.
From ELA Require Import lib.OMap model.C16_Ffldb.
Import ListNotations.
Local Open Scope Z_scope.

(* actions inside a transaction; [p] is the bucket path from the root bucket *)
Inductive action :=
| ANoBucket (p : list key)                               (* the path does not resolve *)
| APut (p : list key) (k : key) (v : val) (code : Z)
| AGet (p : list key) (k : key) (r : option val)
| ADel (p : list key) (k : key) (code : Z)
| ACreate (p : list key) (n : key) (code : Z)
| ACreateIf (p : list key) (n : key) (code : Z)
| ADelBucket (p : list key) (n : key) (code : Z)
| AForEach (p : list key) (l : list (key * val))
| AForEachBucket (p : list key) (l : list key)
| AWalk (p : list key) (mode : Z) (sk : key) (l : list (key * option val))
      (* cursor: 0 First/Next*, 1 Last/Prev*, 2 Seek sk/Next* *)
| AWalkDel (p : list key) (mask : list bool) (l : list (key * option val)) (codes : list Z).
      (* First/Next* calling Cursor.Delete on the masked positions *)

Inductive op :=
| OCfg (maxsize : Z) (always : bool)
| OBegin (h : Z) (w : bool)
| OCommit (h : Z) (code : Z)
| ORollback (h : Z)
| OTx (h : Z) (a : action)
| OLayers (st ck cr : list (key * val))
| OTxLayers (h : Z) (pk pr : list (key * val))
| OReopen.

Inductive case := Case (id : N) (writeloc : val) (init : list (key * val)) (ops : list op).

Fixpoint list_eqb {A} (eq : A -> A -> bool) (a b : list A) : bool :=
  match a, b with
  | [], [] => true
  | x :: a', y :: b' => eq x y && list_eqb eq a' b'
  | _, _ => false
  end.
Definition bytes_eqb : list Z -> list Z -> bool := list_eqb Z.eqb.
Definition opt_eqb {A} (eq : A -> A -> bool) (a b : option A) : bool :=
  match a, b with Some x, Some y => eq x y | None, None => true | _, _ => false end.
Definition kv_eqb (a b : key * val) : bool := bytes_eqb (fst a) (fst b) && bytes_eqb (snd a) (snd b).
Definition ent_eqb (a b : key * option val) : bool :=
  bytes_eqb (fst a) (fst b) && opt_eqb bytes_eqb (snd a) (snd b).
Definition kvs_eqb : list (key * val) -> list (key * val) -> bool := list_eqb kv_eqb.

Record st := { sdb : dbs; stx : list (Z * txn); ok : bool; wl : val }.

Definition upd (s : st) (d : dbs) (txs : list (Z * txn)) (b : bool) : st :=
  {| sdb := d; stx := txs; ok := ok s && b; wl := wl s |}.

Definition root_id : key := meta_id.

(* one action on transaction t: new transaction state and whether the
   observation matches *)
Definition do_action (t : txn) (a : action) : txn * bool :=
  let with_bucket (p : list key) (f : key -> txn * bool) : txn * bool :=
    match resolve t root_id p with Some id => f id | None => (t, false) end in
  match a with
  | ANoBucket p => (t, match resolve t root_id p with None => true | Some _ => false end)
  | APut p k v c => with_bucket p (fun id => let '(t', c') := b_put t id k v in (t', c' =? c))
  | AGet p k r => with_bucket p (fun id => (t, opt_eqb bytes_eqb (b_get t id k) r))
  | ADel p k c => with_bucket p (fun id => let '(t', c') := b_delete t id k in (t', c' =? c))
  | ACreate p n c => with_bucket p (fun id => let '(t', c') := b_create t id n in (t', c' =? c))
  | ACreateIf p n c => with_bucket p (fun id => let '(t', c') := b_create_if t id n in (t', c' =? c))
  | ADelBucket p n c => with_bucket p (fun id => let '(t', c') := b_delete_bucket t id n in (t', c' =? c))
  | AForEach p l => with_bucket p (fun id => (t, kvs_eqb (bucket_keys t id) l))
  | AForEachBucket p l => with_bucket p (fun id => (t, list_eqb bytes_eqb (map fst (bucket_subs t id)) l))
  | AWalk p mode sk l =>
    with_bucket p (fun id =>
      let want := if mode =? 0 then cursor_entries t id
                  else if mode =? 1 then rev (cursor_entries t id)
                  else cursor_from t id sk in
      (t, list_eqb ent_eqb want l))
  | AWalkDel p mask l codes =>
    with_bucket p (fun id =>
      let ents := cursor_entries t id in
      let fix go (es : list (key * option val)) (ms : list bool) (t : txn) (cs : list Z) : txn * list Z :=
          match es, ms with
          | e :: es', true :: ms' =>
            if negb (t_w t) then go es' ms' t (cs ++ [E_NOT_WRITABLE])
            else match snd e with
                 | Some _ => go es' ms' (delete_key t (bucketized id (fst e))) (cs ++ [E_OK])
                 | None => go es' ms' t (cs ++ [E_INCOMPATIBLE])
                 end
          | _ :: es', _ :: ms' => go es' ms' t cs
          | _, _ => (t, cs)
          end in
      let '(t', cs) := go ents mask t [] in
      (t', list_eqb ent_eqb ents l && list_eqb Z.eqb cs codes))
  end.

Definition step (s : st) (o : op) : st :=
  let d := sdb s in
  match o with
  | OCfg m a => upd s {| d_store := d_store d; d_ck := d_ck d; d_cr := d_cr d; d_max := m; d_always := a |}
                    (stx s) true
  | OBegin h w => upd s d (tx_set (stx s) h (begin d w)) true
  | OCommit h c =>
    match tx_find (stx s) h with
    | None => upd s d (stx s) false
    | Some t =>
      if t_w t then
        (* writePendingAndCommit: the write cursor row is put first *)
        let t1 := put_key t writeloc_key (wl s) in
        upd s (commit_with (needs_flush d t1) d t1) (tx_remove (stx s) h) (c =? E_OK)
      else upd s d (tx_remove (stx s) h) (c =? E_NOT_WRITABLE)
    end
  | ORollback h => upd s d (tx_remove (stx s) h) true
  | OTx h a =>
    match tx_find (stx s) h with
    | None => upd s d (stx s) false
    | Some t => let '(t', b) := do_action t a in upd s d (tx_set (stx s) h t') b
    end
  | OLayers a b c => upd s d (stx s) (kvs_eqb (d_store d) a && kvs_eqb (d_ck d) b && kvs_eqb (d_cr d) c)
  | OTxLayers h a b =>
    match tx_find (stx s) h with
    | None => upd s d (stx s) false
    | Some t => upd s d (stx s) (kvs_eqb (t_pk t) a && kvs_eqb (t_pr t) b)
    end
  | OReopen => upd s (flush d) (stx s) true
  end.

(* index of the first op after which the model disagrees (for diagnosis) *)
Fixpoint first_bad (s : st) (ops : list op) (i : Z) : option Z :=
  match ops with
  | [] => None
  | o :: r => let s' := step s o in if ok s' then first_bad s' r (i + 1) else Some i
  end.

Definition init_state (w : val) (init : list (key * val)) : st :=
  {| sdb := {| d_store := init; d_ck := []; d_cr := []; d_max := 20971520; d_always := false |};
     stx := []; ok := true; wl := w |}.

Definition check (c : case) : option N :=
  match c with
  | Case id w init ops => if ok (fold_left step ops (init_state w init)) then None else Some id
  end.

Definition mismatches (cs : list case) : list N :=
  flat_map (fun c => match check c with Some i => [i] | None => [] end) cs.
