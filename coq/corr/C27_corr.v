(* C27 correspondence: observations of Arbiters.distributeDPOSReward compared
   with the model by vm_compute, plus the tested bridge "well-formed inputs
   satisfy the side condition of the theorems".  Executable, no proofs. *)
From Coq Require Import ZArith Bool List.
From ELA Require Import lib.GoFloat model.C27_Reward proof.C27_Reward proof.C27_Rounding.
Import ListNotations.
Local Open Scope Z_scope.

Inductive case :=
| CDist (id : N) (s : st) (h reward : Z) (out : result).

Fixpoint map_eqb (a b : list (Z * Z)) : bool :=
  match a, b with
  | [], [] => true
  | (k, x) :: a', (k', x') :: b' => (k =? k') && (x =? x') && map_eqb a' b'
  | _, _ => false
  end.

Definition result_eqb (a b : result) : bool :=
  match a, b with
  | RErr, RErr | RPanic, RPanic => true
  | ROk m c, ROk m' c' => map_eqb m m' && (c =? c')
  | _, _ => false
  end.

(* Well-formed round: reward within the supply range, a non-negative vote total,
   every recorded vote between 0 and the total, at most 200 members, a positive
   arbiter count, no arbiter on a panicking path. *)
Definition inputs_ok (s : st) (v : version) (reward : Z) : bool :=
  (0 <=? reward) && (reward <=? 2 ^ 55) && (0 <=? s_total s) &&
  forallb (fun kv => (0 <=? snd kv) && (snd kv <=? s_total s)) (s_votes s) &&
  (Z.of_nat (length (s_arbs s) + length (s_cands s)) <=? 200) &&
  (0 <? count_of s v) && (count_of s v <=? 1000) &&
  forallb (fun a => match exact_of 0 (fun _ => 0) s v a with Some _ => true | None => false end) (s_arbs s).

(* ids: model/implementation disagreement = case id;
        well-formed inputs that violate the side condition = 1000000 + case id;
        Go float expression differs from exact-then-round (R64) = 2000000 + case id *)
Definition check (c : case) : list N :=
  match c with
  | CDist id s h reward out =>
      let v := version_of s h in
      (if result_eqb (distribute s h reward) out then [] else [id]) ++
      (if inputs_ok s v reward && negb (go_sane s v reward) then [(1000000 + id)%N] else []) ++
      (* Go's float expressions = exact rational operation followed by binary64 rounding *)
      (if inputs_ok s v reward && (0 <? s_total s) &&
          negb (go_matches_R64 reward (count_of s v) (s_total s) (0 :: map snd (s_votes s)))
       then [(2000000 + id)%N] else [])
  end.

Definition mismatches (cs : list case) : list N := flat_map check cs.
