(* C24 correspondence: observations of the Go implementation compared with
   model/C24_Select.v by vm_compute. *)
From Coq Require Import ZArith List Bool.
From ELA Require Import model.C24_Select.
Import ListNotations.
Local Open Scope Z_scope.

Inductive case :=
(* getCandidateIndexAtRandom: hash bytes 24..31 (empty list = block not
   found), counts, oracle entry (seed, n, value) computed with an independent
   local source, Go's answer (-1 not enough producers, -2 block not found) *)
| CSel (id : N) (hash8 : list Z) (voted unclaimed normal cands : Z) (oseed on oval : Z) (out : Z)
(* getSortedProducers: producers as inserted (votes, node key), node keys in Go's output order *)
| CSort (id : N) (input : list (Z * Z)) (out : list Z)
(* getRandomDposV2Producers: key list before drawing, count, the oracle's
   successive draws for the bounds the model asks, Go's output *)
| CV2 (id : N) (keys : list Z) (count : Z) (draws : list Z) (out : list Z).

Definition outcome_code (o : outcome) : Z :=
  match o with Idx i => i | ErrNotEnough => -1 | ErrNoBlock => -2 end.

Fixpoint list_eqb (a b : list Z) : bool :=
  match a, b with
  | [], [] => true
  | x :: r, y :: s => (x =? y) && list_eqb r s
  | _, _ => false
  end.

Definition check (c : case) : option N :=
  match c with
  | CSel id h voted unclaimed normal cands oseed on oval out =>
    let draw := fun s n => if (s =? oseed) && (n =? on) then oval else -99 in
    let h8 := match h with [] => None | _ => Some h end in
    if outcome_code (select draw h8 voted unclaimed normal cands) =? out then None else Some id
  | CSort id input out =>
    if list_eqb (map snd (sorted_voted input)) out then None else Some id
  | CV2 id keys count draws out =>
    if list_eqb (random_v2 draws keys count) out then None else Some id
  end.

Definition mismatches (cs : list case) : list N :=
  flat_map (fun c => match check c with Some i => [i] | None => [] end) cs.
