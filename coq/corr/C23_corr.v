(* C23 correspondence: bytes written by the Go Serialize methods (in whatever
   order Go iterated its maps) are decoded by the model and compared with the
   value the harness put in (printed with maps sorted by key).  Executable, no
   proofs. *)
From Coq Require Import List NArith Bool.
From ELA Require Import lib.Bytes lib.C23_codec model.C23_KeyFrame.
Import ListNotations.
Local Open Scope N_scope.

Inductive case : Type :=
| Case (id : N) {A : Type} (c : codec A) (wire : bytes) (v : A).

(* the model decodes the Go bytes completely, to exactly the value that was
   serialized, and the Go bytes are as long as the model's encoding *)
Definition check (k : case) : bool :=
  match k with
  | Case _ c wire v =>
    match dec c wire with
    | Some (v', []) => eqb c v' v && (N.of_nat (length wire) =? N.of_nat (length (enc c v)))
    | _ => false
    end
  end.

Definition case_id (k : case) : N := match k with Case id _ _ _ => id end.

Definition mismatches (cs : list case) : list N :=
  flat_map (fun k => if check k then [] else [case_id k]) cs.
