(* C15 correspondence: traces observed on the Go implementation (UTXOCache over
   a mutable store, TxCache behind UnspentIndex.FetchTx on a real ffldb store,
   the decoded block cache of GetBlock, the send cache of p2p.WriteMessage),
   compared step by step with the model by vm_compute: the result of every
   operation and the cache content after it. *)
From Coq Require Import NArith ZArith List Bool.
From ELA Require Import model.C15_Caches.
Import ListNotations.
Local Open Scope N_scope.

(* observed content of a Go map, compared as a set of entries *)
Section SameMap.
  Context {K V W : Type} (keq : K -> K -> bool) (veq : V -> W -> bool).
  Definition same_map (m : list (K * V)) (o : list (K * W)) : bool :=
    (length m =? length o)%nat &&
    forallb (fun e => match aget keq m (fst e) with Some v => veq v (snd e) | None => false end) o.
End SameMap.

Fixpoint list_eqb {A} (eq : A -> A -> bool) (a b : list A) : bool :=
  match a, b with
  | [], [] => true
  | x :: a', y :: b' => eq x y && list_eqb eq a' b'
  | _, _ => false
  end.

Definition ures_eqb (a b : ures) : bool :=
  match a, b with
  | RRefs x, RRefs y | RTx x, RTx y => list_eqb N.eqb x y
  | RNotFound, RNotFound | ROOR, ROOR | RUnit, RUnit => true
  | _, _ => false
  end.
Definition tres_eqb (a b : tres) : bool :=
  match a, b with
  | TFound x, TFound y => x =? y
  | TMissing, TMissing | TUnit, TUnit => true
  | _, _ => false
  end.
Definition bres_eqb (a b : bres) : bool :=
  match a, b with
  | BFound x, BFound y => dblk_eqb x y
  | BMissing, BMissing | BUnit, BUnit => true
  | _, _ => false
  end.

(* UTXOCache observation: Inputs (front to back), Reference entries, TxCache keys *)
Definition uobs := (list input * list (input * N) * list N)%type.
Definition uobs_ok (s : ustate) (o : uobs) : bool :=
  let '(ins, ref, txk) := o in
  list_eqb ieqb (u_inputs s) ins &&
  same_map ieqb N.eqb (u_ref s) ref &&
  same_map N.eqb (fun _ _ => true) (map (fun e => (fst e, tt)) (u_txc s)) (map (fun k => (k, tt)) txk).

Fixpoint ucheck (max : N) (st : txstore * ustate) (tr : list (uop * ures * uobs)) : bool :=
  match tr with
  | [] => true
  | (op, r, o) :: rest =>
    let '(st', r') := ustep max st op in
    ures_eqb r' r && uobs_ok (snd st') o && ucheck max st' rest
  end.

(* TxCache observation: size, and the content (id, height) when given *)
Definition tobs := (N * option (list (N * N)))%type.
Definition tobs_ok (c : list (N * N)) (o : tobs) : bool :=
  (len c =? fst o) &&
  match snd o with Some l => same_map N.eqb N.eqb c l | None => true end.

Fixpoint tcheck (p : tparams) (st : tstate) (tr : list (top * tres * tobs)) : bool :=
  match tr with
  | [] => true
  | (op, r, o) :: rest =>
    let '(st', r') := tstep p st op in
    tres_eqb r' r && tobs_ok (snd st') o && tcheck p st' rest
  end.

(* GetBlock cache observation: the hash slice, the map as hash -> HaveConfirm *)
Definition bobs := (list N * list (N * bool))%type.
Definition bobs_ok (s : bstate) (o : bobs) : bool :=
  list_eqb N.eqb (b_order s) (fst o) &&
  same_map N.eqb Bool.eqb (map (fun e => (fst e, negb (snd (snd e) =? 0))) (b_cache s)) (snd o).

Fixpoint bcheck (fixed : bool) (st : list (N * dblk) * bstate) (tr : list (bop * bres * bobs)) : bool :=
  match tr with
  | [] => true
  | (op, r, o) :: rest =>
    let '(st', r') := bstep fixed st op in
    bres_eqb r' r && bobs_ok (snd st') o && bcheck fixed st' rest
  end.

(* send cache observation: both slices, and for every outer key the keys of
   its inner map *)
Definition sobs := (list N * list bool * list (N * list bool))%type.
Definition sobs_ok (s : sstate) (o : sobs) : bool :=
  let '(hs, cs, outer) := o in
  list_eqb N.eqb (s_hashes s) hs && list_eqb Bool.eqb (s_confirms s) cs &&
  same_map N.eqb (fun (inner : list (bool * N)) (ks : list bool) =>
                    same_map Bool.eqb (fun _ _ => true) (map (fun e => (fst e, tt)) inner) (map (fun k => (k, tt)) ks))
           (s_outer s) outer.

Fixpoint scheck (fixed : bool) (st : sstate) (tr : list (sop * N * sobs)) : bool :=
  match tr with
  | [] => true
  | (op, out, o) :: rest =>
    let '(st', out') := sstep fixed st op in
    (out' =? out) && sobs_ok st' o && scheck fixed st' rest
  end.

Inductive case :=
| CUtxo (id : N) (max : N) (tr : list (uop * ures * uobs))
| CTxc (id : N) (volume interval : N) (memfirst : bool) (tr : list (top * tres * tobs))
| CBlk (id : N) (tr : list (bop * bres * bobs))
| CSend (id : N) (tr : list (sop * N * sobs)).

Definition check (c : case) : option N :=
  match c with
  | CUtxo id max tr => if ucheck max ([], uempty) tr then None else Some id
  | CTxc id v i mf tr => if tcheck (mkT v i mf) ([], []) tr then None else Some id
  | CBlk id tr => if bcheck push_fixed ([], bempty) tr then None else Some id
  | CSend id tr => if scheck send_fixed sempty tr then None else Some id
  end.

Definition mismatches (cs : list case) : list N :=
  flat_map (fun c => match check c with Some i => [i] | None => [] end) cs.
