(* C17 correspondence: real crashes of a child process at instrumented points
   against the model's cut trace + reconcile.  Executable, no proofs. *)
From Coq Require Import NArith Bool List.
From ELA Require Import model.C18_Crc32c model.C18_Flat corr.C18_corr model.C17_Crash.
Import ListNotations.
Local Open Scope N_scope.

Definition wcommit := (list bspec * list (N * option bytes) * bool)%type.
Definition to_item (w : wcommit) : item :=
  let '(bs, ops, fl) := w in ICommit (mkcommit (map gen bs) ops fl).
Definition nblocks (ws : list wcommit) : N :=
  fold_left (fun n w => n + N.of_nat (length (fst (fst w)))) ws 0.

(* what the parent sees after Open: cursor, flat files (length, CRC-32C), every
   block number of the universe (FetchBlock), its raw index row, the metadata keys *)
Inductive obs :=
| Obs (curf curo : N) (fls : list (option (N * N))) (blocks : list ob)
      (rows : list (option bytes)) (meta : list (option bytes))
| ObsFail (code : N).

Inductive case :=
  Case (id max : N) (pre sess : list wcommit) (close : bool) (post : list wcommit)
       (p k : N) (o1 o2 : obs).

Definition torn (t : list step) : list step :=
  match t with
  | SAppend f o d :: _ => [SAppend f o (firstn (Nat.div2 (length d)) d)]
  | _ => []
  end.
(* keep the trace up to (excluding) the k-th hit of mark p; the torn-write point
   additionally writes the first half of the data of the write that follows *)
Fixpoint cut_mark (p : N) (k : nat) (tr : list step) : list step :=
  match tr with
  | [] => []
  | SMark q :: t =>
      if q =? p then
        match k with
        | O => []
        | S O => if p =? 7 then torn t else []
        | S k' => SMark q :: cut_mark p k' t
        end
      else SMark q :: cut_mark p k t
  | s :: t => s :: cut_mark p k t
  end.

Definition opt_bytes_eqb (a b : option bytes) : bool :=
  match a, b with Some x, Some y => bytes_eqb x y | None, None => true | _, _ => false end.
Fixpoint list_eqb {A} (eqb : A -> A -> bool) (a b : list A) : bool :=
  match a, b with
  | [], [] => true
  | x :: a', y :: b' => eqb x y && list_eqb eqb a' b'
  | _, _ => false
  end.

Section Run.
Variable max : N.
Notation CK := crc32c_be.

Definition nseq (n : N) : list N := map N.of_nat (seq 0 (N.to_nat n)).

Definition obs_eqb (D : durable) (c : N * N) (universe : N) (o : obs) : bool :=
  match o with
  | ObsFail _ => false
  | Obs f off fls blocks rows meta =>
      (fst c =? f) && (snd c =? off) &&
      files_eqb (strip (du_files D)) fls &&
      obs_eqb (map (fun i => ob_of (d_fetch NET CK D i)) (nseq universe)) blocks &&
      list_eqb opt_bytes_eqb (map (fun i => du_kv D (KBlock i)) (nseq universe)) rows &&
      list_eqb opt_bytes_eqb (map (fun k => d_meta D k) (nseq 5)) meta
  end.

Definition fail_eqb (e : err) (o : obs) : bool :=
  match o with ObsFail c => c =? code e | _ => false end.

Definition run_clean (D : durable) (c : N * N) (nb : N) (ws : list wcommit) (close : bool) : list step :=
  session_steps max NET CK (mem_of c nb) (map to_item ws ++ (if close then [IClose] else [])).

Definition check (cs : case) : option N :=
  match cs with
  | Case id _ pre sess close post p k o1 o2 =>
    let universe := nblocks pre + nblocks sess + nblocks post in
    let D1 := apply_steps (run_clean (dur0 CK) (0, 0) 0 pre true) (dur0 CK) in
    match recover CK D1 with
    | Ok (D1', c1) =>
      let tr := run_clean D1' c1 (nblocks pre) sess close in
      let cut := if p =? 0 then tr else cut_mark p (N.to_nat k) tr in
      let D2 := apply_steps cut D1' in
      match recover CK D2 with
      | Ok (D2', c2) =>
        let j := durable_index cut 0 in
        let nb2 := nblocks pre + nblocks (firstn j sess) in
        let D3 := apply_steps (run_clean D2' c2 nb2 post true) D2' in
        let ok2 := match recover CK D3 with
                   | Ok (D3', c3) => obs_eqb D3' c3 universe o2
                   | Err e => fail_eqb e o2
                   | Panic => false
                   end in
        if obs_eqb D2' c2 universe o1 && ok2 then None else Some id
      | Err e => if fail_eqb e o1 then None else Some id
      | Panic => Some id
      end
    | _ => Some id
    end
  end.
End Run.

Definition check_case (c : case) : option N :=
  match c with Case _ max _ _ _ _ _ _ _ _ => check max c end.

Definition mismatches (cs : list case) : list N :=
  flat_map (fun c => match check_case c with Some i => [i] | None => [] end) cs.
