(* C05 correspondence: cases observed on the Go implementation
   (blockchain.RunPrograms, crypto.VerifyMultisigSignatures,
   blockchain.GetTxProgramHashes, checkTransactionSignature, contract.IsStandard etc.),
   compared with the model by vm_compute.

   The oracles are finite tables computed by the harness with the real
   primitives for the case's data: [t_ch] ToCodeHash per distinct code,
   [t_pok] DecodePoint success per key, [t_ec] the matrix crypto.Verify(key_i,
   data, sig_j), [t_sc] the matrix SchnorrVerify; keys and signatures are the
   pools extracted from the case's programs (same extraction on both sides).  A table miss falls back
   to a default; every case is evaluated with both defaults and flagged when
   the two evaluations differ (the tables did not cover a query that
   matters), so a miss can never hide a disagreement. *)
From Coq Require Import ZArith Bool List Uint63.
From ELA Require Import model.C05_Sig.
Import ListNotations.
Local Open Scope Z_scope.

(* Byte strings are shipped packed, seven bytes per primitive 63-bit integer
   (big endian, last word zero-padded), because elaborating a list of
   one-byte numerals costs ~0.2 ms per byte: [U len words] unpacks. *)
Definition word_bytes (w : int) : bytes :=
  let z := Uint63.to_Z w in
  [z / 281474976710656 mod 256; z / 1099511627776 mod 256; z / 4294967296 mod 256;
   z / 16777216 mod 256; z / 65536 mod 256; z / 256 mod 256; z mod 256].
Definition U (n : Z) (ws : list int) : bytes := firstn (Z.to_nat n) (flat_map word_bytes ws).

Fixpoint index_of (x : bytes) (l : list bytes) : option nat :=
  match l with
  | [] => None
  | y :: l' => if beq x y then Some O else option_map S (index_of x l')
  end.

(* Pools of byte strings the oracles can be asked about, extracted from the
   case's programs exactly as harness/sigkit (Tables.AddProgram) does, in
   first-occurrence order; the tables of a case are aligned with them. *)
Fixpoint add_uniq (l : list bytes) (x : bytes) : list bytes :=
  match l with
  | [] => [x]
  | y :: l' => if beq x y then l else y :: add_uniq l' x
  end.
Definition add_all (l xs : list bytes) : list bytes := fold_left add_uniq xs l.

Definition sub (c : bytes) (lo n : nat) : bytes := firstn n (skipn lo c).

Definition keys_of_code (c : bytes) : list bytes :=
  (if len c =? 35 then [sub c 1 33] else []) ++
  (if (3 <=? len c) && ((len c - 3) mod 34 =? 0)
   then map (@tl Z) (chunks (length c) 34 (sub c 1 (length c - 3))) else []).
Definition sigs_of_param (q : bytes) : list bytes :=
  (if len q =? 65 then [tl q] else []) ++
  (if len q mod 65 =? 0 then map (@tl Z) (chunks (length q) 65 q) else []).
Definition schnorr_shaped (c : bytes) : bool :=
  (len c =? 35) && (byte_at c 0 =? 81) && (byte_at c 1 =? 33).
Definition skeys_of (c : bytes) : list bytes := if schnorr_shaped c then [skipn 2 c] else [].
Definition ssigs_of (c q : bytes) : list bytes :=
  if schnorr_shaped c && (64 <=? len q) then [firstn 64 q] else [].

Record pools := Pools { p_codes : list bytes; p_keys : list bytes; p_sigs : list bytes;
                        p_skeys : list bytes; p_ssigs : list bytes }.

Definition pools_of_progs (ps : list (bytes * bytes)) : pools :=
  fold_left (fun P cp =>
    let '(c, q) := cp in
    Pools (add_uniq (p_codes P) c) (add_all (p_keys P) (keys_of_code c)) (add_all (p_sigs P) (sigs_of_param q))
          (add_all (p_skeys P) (skeys_of c)) (add_all (p_ssigs P) (ssigs_of c q)))
    ps (Pools [] [] [] [] []).

Definition pools_of_multi (keys : list bytes) (sigs : bytes) : pools :=
  Pools [] (add_all [] (map (@tl Z) (filter (fun k => 1 <=? len k) keys)))
        (add_all [] (if len sigs mod 65 =? 0 then map (@tl Z) (chunks (length sigs) 65 sigs) else [])) [] [].

(* the oracle answers of the real primitives, aligned with the pools *)
Record tables := Tables {
  t_ch : list bytes;              (* ToCodeHash of p_codes *)
  t_pok : list bool;              (* DecodePoint ok of p_keys *)
  t_ec : list (list bool);        (* Verify(key_i, data, sig_j) *)
  t_sc : list (list bool) }.      (* SchnorrVerify(skey_i, sha256d data, ssig_j) *)

Definition matrix (m : list (list bool)) (i j : option nat) (d : bool) : bool :=
  match i, j with
  | Some i, Some j =>
    match nth_error m i with
    | Some row => match nth_error row j with Some b => b | None => d end
    | None => d
    end
  | _, _ => d
  end.

Definition o_codehash (P : pools) (t : tables) (d : bool) (c : bytes) : bytes :=
  match index_of c (p_codes P) with
  | Some i => match nth_error (t_ch t) i with Some h => h | None => if d then [-1] else [] end
  | None => if d then [-1] else []
  end.
Definition o_point_ok (P : pools) (t : tables) (d : bool) (k : bytes) : bool :=
  match index_of k (p_keys P) with
  | Some i => match nth_error (t_pok t) i with Some b => b | None => d end
  | None => d
  end.
Definition o_ecdsa (P : pools) (t : tables) (d : bool) (k _data s : bytes) : bool :=
  matrix (t_ec t) (index_of k (p_keys P)) (index_of s (p_sigs P)) d.
Definition o_schnorr (P : pools) (t : tables) (d : bool) (k _data s : bytes) : bool :=
  matrix (t_sc t) (index_of k (p_skeys P)) (index_of s (p_ssigs P)) d.
Definition o_keyhash (k : bytes) : bytes := k.   (* sha256 of the 34-byte key script: injective on every case *)

Inductive case :=
| CRun (id : N) (hashes : list bytes) (progs : list (bytes * bytes)) (t : tables) (accept : bool)
| CMulti (id : N) (m n : Z) (keys : list bytes) (sigs : bytes) (t : tables) (accept : bool)
| CTx (id : N) (refs : list bytes) (attrs : list (Z * bytes)) (progs : list (bytes * bytes)) (t : tables) (accept : bool)
| CHashes (id : N) (refs : list bytes) (attrs : list (Z * bytes)) (ok : bool) (out : list bytes)
| CShape (id : N) (code : bytes) (std schn : bool) (ms : Z).

Definition tri_code (t : tri) : Z := match t with TFalse => 0 | TTrue => 1 | TPanic => 2 end.

Definition same_set (a b : list bytes) : bool :=
  (length a =? length b)%nat && forallb (fun x => mem x b) a && forallb (fun x => mem x a) b.

Definition both (f : bool -> bool) (expect : bool) : bool :=
  Bool.eqb (f false) expect && Bool.eqb (f true) expect.

Definition check (c : case) : option N :=
  match c with
  | CRun id hs ps t acc =>
    let P := pools_of_progs ps in
    if both (fun d => run_programs (o_codehash P t d) (o_point_ok P t d) (o_ecdsa P t d) (o_schnorr P t d) o_keyhash
                                    true [] hs ps) acc
    then None else Some id
  | CMulti id m n keys sigs t acc =>
    let P := pools_of_multi keys sigs in
    if both (fun d => verify_multisig (o_point_ok P t d) (o_ecdsa P t d) o_keyhash m n keys sigs []) acc
    then None else Some id
  | CTx id refs attrs ps t acc =>
    let P := pools_of_progs ps in
    if both (fun d => check_tx_signature (o_codehash P t d) (o_point_ok P t d) (o_ecdsa P t d) (o_schnorr P t d) o_keyhash
                                          true [] refs attrs ps) acc
    then None else Some id
  | CHashes id refs attrs ok out =>
    match get_tx_program_hashes refs attrs with
    | None => if ok then Some id else None
    | Some l => if ok && same_set l out then None else Some id
    end
  | CShape id code std schn ms =>
    if Bool.eqb (is_standard code) std && Bool.eqb (is_schnorr code) schn &&
       Bool.eqb (tri_code (is_multisig code) =? 1) (ms =? 1)   (* a Go panic and [false] both count as not-multisig *)
    then None else Some id
  end.

Definition mismatches (cs : list case) : list N :=
  flat_map (fun c => match check c with Some i => [i] | None => [] end) cs.
