(* C03 correspondence: outcomes (accept / reject / panic kind) observed on the
   Go implementation under recover(), compared with the model by vm_compute.
   Oracle tables (decodable keys, verifying (key, signature) pairs, hash
   triples) are computed by the harness with independent calls. *)
From Coq Require Import ZArith NArith Bool List.
From ELA Require Import lib.C03_GoSem model.C03_Script model.C03_Validate.
Import ListNotations.
Local Open Scope Z_scope.

Definition O (v : Z) (a d c p : bool) (r : option Z) : output :=
  Build_output v a d c p r.

Definition in_tbl (t : list (list Z)) (k : list Z) : bool := existsb (bytes_eqb k) t.

(* Oracle tables are given by position, to keep the case files small: the
   candidate public keys of program p are key -1 = code[1:len-1] (standard
   shape) and key j >= 0 = code[2+34j : 35+34j] (multisig shape); its
   candidate signatures are sig s = param[65s+1 : 65s+65]; the Schnorr pair is
   (pad33 code[2:], param[:64]).  The harness lists which candidates decode /
   verify (independent calls of crypto.DecodePoint / Verify / SchnorrVerify). *)
Definition key_at (code : list Z) (j : Z) : list Z :=
  if j <? 0 then firstn (Z.to_nat (len code - 2)) (skipn 1 code)
  else firstn 33 (skipn (Z.to_nat (2 + 34 * j)) code).
Definition sig_at (param : list Z) (s : Z) : list Z :=
  firstn 64 (skipn (Z.to_nat (65 * s + 1)) param).
Definition nth_prog (progs : list prog) (p : Z) : prog :=
  nth (Z.to_nat p) progs (false, [], []).
Definition p_code (p : prog) : list Z := snd (fst p).
Definition p_param (p : prog) : list Z := snd p.
Definition dec_of (progs : list prog) (t : list (Z * Z)) (k : list Z) : bool :=
  existsb (fun e => bytes_eqb (key_at (p_code (nth_prog progs (fst e))) (snd e)) k) t.
Definition ver_of (progs : list prog) (t : list (Z * Z * Z)) (k s : list Z) : bool :=
  existsb (fun e => let pr := nth_prog progs (fst (fst e)) in
                    bytes_eqb (key_at (p_code pr) (snd (fst e))) k &&
                    bytes_eqb (sig_at (p_param pr) (snd e)) s) t.
Definition sch_of (progs : list prog) (t : list Z) (k s : list Z) : bool :=
  existsb (fun p => let pr := nth_prog progs p in
                    bytes_eqb (pad33 (skipn 2 (p_code pr))) k &&
                    bytes_eqb (firstn 64 (p_param pr)) s) t.
Definition hlookup (t : list (Z * Z * Z)) (l r : Z) : Z :=
  match find (fun e => (fst (fst e) =? l) && (snd (fst e) =? r)) t with
  | Some e => snd e
  | None => -1
  end.

(* (outcome, value) of a value-returning function *)
Definition outv (r : res Z) : Z * Z :=
  match r with
  | Ok v => (0, v)
  | Panic IndexOOR => (2, 0)
  | Panic SliceOOR => (3, 0)
  | Panic DivZero => (4, 0)
  end.

Definition outkeys (r : res (option (list (list Z)))) : Z * list (list Z) :=
  match r with
  | Ok (Some ks) => (0, ks)
  | Ok None => (1, [])
  | Panic IndexOOR => (2, [])
  | Panic SliceOOR => (3, [])
  | Panic DivZero => (4, [])
  end.

Definition D (inputs : list (Z * option (list Z))) (pver : Z) (tcca : bool) (idxs : list Z)
    (outs : list (Z * Z * bool)) : deposit_tx := Build_deposit_tx inputs pver tcca idxs outs.

(* a single return output: [Ok None] = the loop goes on and the check accepts *)
Definition outo (r : res (option bool)) : Z :=
  match r with
  | Ok None => 0
  | Ok (Some true) => 0
  | Ok (Some false) => 1
  | Panic IndexOOR => 2
  | Panic SliceOOR => 3
  | Panic DivZero => 4
  end.

Inductive case :=
| CCls (id : N) (code : list Z) (std sch ms out val : Z)
| CExp (id : N) (nonce chain h : Z) (out val : Z)
| CRoot (id : N) (tbl : list (Z * Z * Z)) (hash : Z) (branch : list Z) (index : Z) (val : Z)
| CAux (id : N) (tbl : list (Z * Z * Z)) (cbhash : Z) (cbbranch : list Z) (parindex hdrroot : Z)
       (auxhash : Z) (auxbranch : list Z) (auxindex : Z) (txin : list (list Z)) (chain : Z) (out : Z)
| CAuxC (id : N) (cbroot hdrroot auxroot blen auxindex : Z) (txin : list (list Z)) (chain : Z) (out : Z)
| CParse (id : N) (code : list Z) (out : Z) (keys : list (list Z))
| CSig (id : N) (dec : list (Z * Z)) (ver : list (Z * Z * Z)) (sch : list Z) (code param : list Z)
       (std schn ms cc : Z)
| CRun (id : N) (dec : list (Z * Z)) (ver : list (Z * Z * Z)) (sch : list Z) (hashes : list Z)
       (progs : list prog) (out : Z)
| CCbSanity (id : N) (pre : bool) (outs : list output) (f1 f2 : bool) (out : Z)
| CCbCtx (id : N) (regime : Z) (pow : bool) (outs : list output)
         (rcr rmm rdpos expected nrewards : Z) (out : Z)
| CAttr (id : N) (allowed : bool) (ps : list attr_prog) (out : Z)
| CRetDep (id : N) (known : list (list Z)) (codes : list (list Z)) (out : Z)
| CRegProd (id : N) (version : Z) (sigok : bool) (codes : list (list Z)) (owner : list Z) (out : Z)
| CWithdraw (id : N) (validate : bool) (arbiters signers : list Z) (agg_ok : bool) (redeem : list Z)
            (codes : list (list Z)) (out : Z)
| CXcV0 (id : N) (is_payload : bool) (addrs idxs amounts : list Z) (outs : list (Z * Z))
        (minfee total_in : Z) (out : Z)
| CArbSigs (id : N) (cok : bool) (members : list (list Z)) (codes : list (list Z)) (out : Z)
| CRetSide (id : N) (out_ph out_value fee : Z) (dup : bool) (dep : option deposit_tx)
           (addr_ok : bool) (side : Z) (out : Z).

Definition zz_eqb (a b : Z * Z) : bool := (fst a =? fst b) && (snd a =? snd b).
Fixpoint keys_eqb (a b : list (list Z)) : bool :=
  match a, b with
  | [], [] => true
  | x :: a', y :: b' => bytes_eqb x y && keys_eqb a' b'
  | _, _ => false
  end.

Definition check (c : case) : option N :=
  let cmp (id : N) (b : bool) := if b then None else Some id in
  match c with
  | CCls id code o1 o2 o3 out v =>
      cmp id ((outcome (is_standard code) =? o1) && (outcome (is_schnorr code) =? o2) &&
              (outcome (is_multisig code) =? o3) && zz_eqb (outv (get_code_type code)) (out, v))
  | CExp id nonce chain h out v => cmp id (zz_eqb (outv (expected_index nonce chain h)) (out, v))
  | CRoot id t hash br ix v => cmp id (merkle_root (hlookup t) hash br ix =? v)
  | CAux id t cbh cbb pi hr ah ab ai txin chain out =>
      cmp id (outcome (auxpow_check (hlookup t) cbh cbb pi hr ah ab ai txin chain) =? out)
  | CAuxC id cbroot hr auxroot blen ai txin chain out =>
      (* long branches: the two merkle roots are given (computed by the harness'
         independent fold, GetMerkleRoot itself is tied by CRoot cases); the
         oracle H is the constant function, only the branch length matters *)
      cmp id (outcome (auxpow_check (fun _ _ => auxroot) cbroot [] 0 hr auxroot
                         (repeat 0 (Z.to_nat blen)) ai txin chain) =? out)
  | CParse id code out keys =>
      let r := outkeys (parse_public_keys code) in
      cmp id ((fst r =? out) && keys_eqb (snd r) keys)
  | CSig id dec ver sch code param o1 o2 o3 o4 =>
      let ps := [(true, code, param)] in
      let d := dec_of ps dec in let v := ver_of ps ver in
      (* an outcome of -1 means: not called (the caller's guard does not hold) *)
      cmp id (((o1 =? -1) || (outcome (check_standard d v code param) =? o1)) &&
              ((o2 =? -1) || (outcome (check_schnorr (sch_of ps sch) code param) =? o2)) &&
              (outcome (check_multisig d v code param) =? o3) &&
              (outcome (check_crosschain d v code param) =? o4))
  | CRun id dec ver sch hashes progs out =>
      cmp id (outcome (run_programs (dec_of progs dec) (ver_of progs ver) (sch_of progs sch) hashes progs) =? out)
  | CCbSanity id pre outs f1 f2 out => cmp id (outcome (coinbase_sanity pre outs f1 f2) =? out)
  | CCbCtx id regime pow outs rcr rmm rdpos ex nr out =>
      cmp id (outcome (coinbase_context regime pow outs rcr rmm rdpos ex nr) =? out)
  | CAttr id allowed ps out => cmp id (outcome (check_attribute_program allowed ps) =? out)
  | CRetDep id known codes out => cmp id (outcome (return_deposit_loop (in_tbl known) codes) =? out)
  | CRegProd id version sigok codes owner out =>
      cmp id (outcome (register_producer_code version sigok codes owner) =? out)
  | CWithdraw id validate arbiters signers agg_ok redeem codes out =>
      cmp id (outcome (schnorr_withdraw validate arbiters signers agg_ok redeem codes) =? out)
  | CXcV0 id isp addrs idxs amounts outs minfee tin out =>
      cmp id (outcome (crosschain_v0 isp addrs idxs amounts outs minfee tin) =? out)
  | CArbSigs id cok members codes out =>
      cmp id (outcome (arbiter_signatures (fun _ _ => cok) (in_tbl members) codes) =? out)
  | CRetSide id oph ov fee dup dep aok side out =>
      cmp id (outo (return_deposit_output oph ov fee dup dep aok side) =? out)
  end.

Definition mismatches (cs : list case) : list N :=
  flat_map (fun c => match check c with Some i => [i] | None => [] end) cs.
