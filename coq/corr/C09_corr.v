(* C09 correspondence: cases observed on the Go implementation, compared with
   the model by vm_compute. *)
From Coq Require Import ZArith Bool List.
From ELA Require Import model.C09_Compact.
Import ListNotations.
Local Open Scope Z_scope.

Inductive case :=
| CToBig (id : N) (c : Z) (out : Z)
| CToCompact (id : N) (n : Z) (out : Z)
| CPow (id : N) (bits hashnum limit : Z) (ok : bool)
| CRetarget (id : N) (old_bits prev_ts first_ts timespan factor limit : Z) (out : Z)
| CWork (id : N) (bits : Z) (out : Z).

Definition check (c : case) : option N :=
  match c with
  | CToBig id c out => if compact_to_big c =? out then None else Some id
  | CToCompact id n out => if big_to_compact n =? out then None else Some id
  | CPow id b h l ok => if Bool.eqb (check_pow b h l) ok then None else Some id
  | CRetarget id ob p f t k l out => if retarget ob p f t k l =? out then None else Some id
  | CWork id b out => if calc_work b =? out then None else Some id
  end.

Definition mismatches (cs : list case) : list N :=
  flat_map (fun c => match check c with Some i => [i] | None => [] end) cs.
