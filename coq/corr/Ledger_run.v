(* Shared correspondence runner for the ledger model (C06, C13, C14): one case
   is a whole history observed on the real node; the model is run over the
   same events and every verdict / query answer is compared.  Executable, no
   proofs. *)
From Coq Require Import List ZArith NArith Bool.
From ELA Require Import model.Ledger.
Import ListNotations.
Local Open Scope N_scope.

Inductive ev :=
(* chain level (BlockChain.ProcessBlock) *)
| EConnect (b : block) (ok : bool)   (* block validated at the tip; ok = the node connected it *)
| EDisconnect                        (* the node disconnected its tip (reorganisation) *)
| ESanity (b : block) (ok : bool)    (* CheckBlockSanity verdict of a block that is not at the tip *)
(* store level (ChainStoreFFLDB.SaveBlock / RollbackBlock) *)
| ESave (b : block) (ok : bool)
| ERollback (b : block) (ok : bool)
(* mempool *)
| ESubmit (t : tx) (ok : bool)       (* TxPool.AppendToTxPool *)
| EReadd (t : tx)                    (* ETBlockDisconnected: MaybeAcceptTransaction, else RemoveTransaction *)
| EPoolClean (b : block)             (* ETBlockConnected: CleanSubmittedTransactions *)
| EPoolCheck                         (* ETBlockProcessed: CheckAndCleanAllTransactions *)
(* observations, lists sorted by id *)
| EUnspent (l : list (N * list N))   (* GetUnspent of every known tx id, non-empty answers only *)
| ETxs (l : list (N * N))            (* GetTransaction: (id, height) of every known tx id that is found *)
| EAddr (addr : N) (l : list (N * N * Z)) (bal : Z)   (* GetUTXO + Ledger.GetAmount *)
| EPool (ids : list N)               (* ids of the transactions in the pool *)
| ETx3 (l : list N)                  (* known side-chain hashes with IsTx3Exist *)
| ERetDep (l : list N)               (* known hashes with IsSideChainReturnDepositExist *)
| EDrafts (l : list (N * N)).        (* known draft hashes with their data id *)

Record header := mkHeader {
  h_id : N; h_cfg : cfg; h_mat : N; h_genesis : block;
  h_txids : list N; h_heights : list N; h_hashes : list N }.

Inductive case := History (h : header) (evs : list ev).

(* ---- sorting / comparing *)
Fixpoint ins_N (x : N) (l : list N) : list N :=
  match l with [] => [x] | y :: r => if x <=? y then x :: l else y :: ins_N x r end.
Definition sort_N (l : list N) : list N := fold_right ins_N [] l.

Definition u_le (a b : utxo) : bool :=
  (u_tx a <? u_tx b) || ((u_tx a =? u_tx b) && (u_idx a <=? u_idx b)).
Fixpoint ins_u (x : utxo) (l : list utxo) : list utxo :=
  match l with [] => [x] | y :: r => if u_le x y then x :: l else y :: ins_u x r end.
Definition sort_u (l : list utxo) : list utxo := fold_right ins_u [] l.

Fixpoint list_eqb {A} (eqb : A -> A -> bool) (a b : list A) : bool :=
  match a, b with
  | [], [] => true
  | x :: r, y :: s => eqb x y && list_eqb eqb r s
  | _, _ => false
  end.

Definition obs_unspent (s : state) (ids : list N) : list (N * list N) :=
  flat_map (fun t => match q_unspent s t with [] => [] | l => [(t, sort_N l)] end) ids.
Definition obs_txs (s : state) (ids : list N) : list (N * N) :=
  flat_map (fun t => match q_tx s t with Some h => [(t, h)] | None => [] end) ids.
Definition obs_addr (s : state) (addr : N) (hs : list N) : list (N * N * Z) :=
  map (fun u => (u_tx u, u_idx u, u_val u)) (sort_u (q_utxos s addr hs)).
Definition obs_flags (m : N -> bool) (ks : list N) : list N := filter m ks.
Definition obs_drafts (s : state) (ks : list N) : list (N * N) :=
  flat_map (fun k => match s_draft s k with Some d => [(k, d)] | None => [] end) ks.

Definition eq_unspent := list_eqb (fun (a b : N * list N) => (fst a =? fst b) && list_eqb N.eqb (snd a) (snd b)).
Definition eq_NN := list_eqb (fun (a b : N * N) => (fst a =? fst b) && (snd a =? snd b)).
Definition eq_utxos := list_eqb (fun (a b : N * N * Z) =>
  (fst (fst a) =? fst (fst b)) && (snd (fst a) =? snd (fst b)) && (snd a =? snd b)%Z).

(* ---- mempool steps that combine model operations *)
Definition pool_remove_spenders (p : pool) (t : tx) : pool :=
  fold_left (fun p i =>
      match find (fun e => op_eqb (fst e) (t_id t, i)) (p_slot p) with
      | Some (_, holder) => match find (fun x => t_id x =? holder) (p_txs p) with Some x => pool_remove p x | None => p end
      | None => p end)
    (idxs (length (t_outs t))) p.

Record rstate := mkR { r_s : state; r_c : chain; r_p : pool }.

(* one event: new state and whether model and node agree *)
Definition run_ev (h : header) (r : rstate) (e : ev) : rstate * bool :=
  let s := r_s r in let c := r_c r in let p := r_p r in
  let cur := chain_height c in
  match e with
  | EConnect b ok =>
      match connect (h_cfg h) (h_mat h) cur s b with
      | Accepted s' => (mkR s' (c ++ [b]) p, ok)
      | _ => (r, negb ok)
      end
  | EDisconnect =>
      match rev c with
      | b :: (_ :: _) => match rollback_block (h_cfg h) s b with
                         | Ok s' => (mkR s' (removelast c) p, true)
                         | _ => (r, false) end
      | _ => (r, false)
      end
  | ESanity b ok => (r, Bool.eqb (block_sanity_ok b) ok)
  | ESave b ok =>
      match save_block s b with
      | Ok s' => (mkR s' (c ++ [b]) p, ok)
      | _ => (r, negb ok)
      end
  | ERollback b ok =>
      match rollback_block (h_cfg h) s b with
      | Ok s' => (mkR s' (removelast c) p, ok)
      | _ => (r, negb ok)
      end
  | ESubmit t ok =>
      let '(p', acc) := pool_append (h_mat h) cur s p t in (mkR s c p', Bool.eqb acc ok)
  | EReadd t =>
      let '(p', acc) := pool_append (h_mat h) cur s p t in
      (mkR s c (if acc then p' else pool_remove_spenders p t), true)
  | EPoolClean b => (mkR s c (pool_clean_block p b), true)
  | EPoolCheck => (mkR s c (pool_check_all (h_mat h) cur s p), true)
  | EUnspent l => (r, eq_unspent (obs_unspent s (h_txids h)) l)
  | ETxs l => (r, eq_NN (obs_txs s (h_txids h)) l)
  | EAddr a l bal => (r, eq_utxos (obs_addr s a (h_heights h)) l && (q_balance s a (h_heights h) =? bal)%Z)
  | EPool ids => (r, list_eqb N.eqb (sort_N (map t_id (p_txs p))) ids)
  | ETx3 l => (r, list_eqb N.eqb (obs_flags (s_tx3 s) (h_hashes h)) l)
  | ERetDep l => (r, list_eqb N.eqb (obs_flags (s_retdep s) (h_hashes h)) l)
  | EDrafts l => (r, eq_NN (obs_drafts s (h_hashes h)) l)
  end.

Fixpoint run_evs (h : header) (r : rstate) (evs : list ev) : bool :=
  match evs with
  | [] => true
  | e :: rest => let '(r', ok) := run_ev h r e in if ok then run_evs h r' rest else false
  end.

(* index of the first disagreeing event (debugging aid) *)
Fixpoint first_bad (h : header) (r : rstate) (evs : list ev) (i : N) : option N :=
  match evs with
  | [] => None
  | e :: rest => let '(r', ok) := run_ev h r e in if ok then first_bad h r' rest (i + 1) else Some i
  end.

Definition start (h : header) : option rstate :=
  match init_state (h_genesis h) with
  | Ok s => Some (mkR s [h_genesis h] empty_pool)
  | _ => None
  end.

Definition check (cs : case) : option N :=
  match cs with
  | History h evs =>
      match start h with
      | Some r => if run_evs h r evs then None else Some (h_id h)
      | None => Some (h_id h)
      end
  end.

Definition mismatches (cs : list case) : list N :=
  flat_map (fun c => match check c with Some i => [i] | None => [] end) cs.
