(* C11 correspondence: observations of the Go implementation compared with the
   model by vm_compute.  Executable, no proofs. *)
From Coq Require Import ZArith Bool List.
From ELA Require Import lib.GoFloat model.C11_Issuance.
Import ListNotations.
Local Open Scope Z_scope.

Inductive case :=
(* Configuration.GetBlockReward(h); out = None when Go panicked *)
| CReward (id : N) (c : cfg) (h : Z) (out : option Z)
(* BlockChain.GetBlockDPOSReward on a block whose cached fees sum to [cached] *)
| CDpos (id : N) (c : cfg) (h : Z) (cached : Z) (out : option Z)
(* BlockChain.checkCoinbaseTransactionContext *)
| CCheck (id : N) (e : env) (h : Z) (outs : list output) (fee dpos : Z) (v : verdict)
(* Service.AssignCoinbaseTxRewards; outputs after the call (round-reward
   outputs sorted by address), None when Go panicked *)
| CAssign (id : N) (e : env) (h : Z) (outs : list output) (total : Z) (res : option (list output)).

Definition oz_eqb (a b : option Z) : bool :=
  match a, b with
  | Some x, Some y => x =? y
  | None, None => true
  | _, _ => false
  end.

Definition out_eqb (a b : output) : bool := (o_val a =? o_val b) && (o_addr a =? o_addr b).

Fixpoint outs_eqb (a b : list output) : bool :=
  match a, b with
  | [], [] => true
  | x :: a', y :: b' => out_eqb x y && outs_eqb a' b'
  | _, _ => false
  end.

Definition verdict_eqb (a b : verdict) : bool :=
  match a, b with
  | Accept, Accept | Reject, Reject | Panic, Panic => true
  | _, _ => false
  end.

Definition check (c : case) : option N :=
  match c with
  | CReward id c h out => if oz_eqb (block_reward c h) out then None else Some id
  | CDpos id c h cached out => if oz_eqb (block_dpos_reward c h cached) out then None else Some id
  | CCheck id e h outs fee dpos v =>
      if verdict_eqb (coinbase_check e h outs fee dpos) v then None else Some id
  | CAssign id e h outs total res =>
      match assign_coinbase e h outs total, res with
      | Some a, Some b => if outs_eqb a b then None else Some id
      | None, None => None
      | _, _ => Some id
      end
  end.

Definition mismatches (cs : list case) : list N :=
  flat_map (fun c => match check c with Some i => [i] | None => [] end) cs.
