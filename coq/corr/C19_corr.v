(* C19 correspondence: op sequences run on treap.Mutable / treap.Immutable (with
   every immutable version retained) and the observations made on the Go
   implementation, replayed on the model by vm_compute. *)
From Coq Require Import ZArith List Bool.
From ELA Require Import lib.OMap model.C19_Treap.
Import ListNotations.
Local Open Scope Z_scope.

Inductive istep := SFirst | SLast | SNext | SPrev | SSeek (k : key).
(* returned bool, and (Key(),Value()) when Valid() *)
Definition obs := (bool * option (key * val))%type.

Inductive op :=
| OPut (k : key) (v : val) (p : Z)     (* p = priority the implementation drew (ignored when k exists) *)
| ODel (k : key)
| OGet (k : key) (r : option val)
| OHas (k : key) (r : bool)
| OLen (n : Z)
| OSize (n : Z)
| ODump (d : list (key * val * Z * bool * bool))
| OElems (d : list (key * val))          (* ForEach *)
| OIter (start limit : option key)       (* new iterator on the selected version *)
| OStep (s : istep) (o : obs)
| OForce                                 (* ForceReseek against the selected version *)
| OSelect (i : Z).                       (* immutable: select retained version i *)

Inductive case :=
| CMut (id : N) (ops : list op)
| CImm (id : N) (ops : list op).

Fixpoint list_eqb {A} (eq : A -> A -> bool) (a b : list A) : bool :=
  match a, b with
  | [], [] => true
  | x :: a', y :: b' => eq x y && list_eqb eq a' b'
  | _, _ => false
  end.
Definition bytes_eqb : list Z -> list Z -> bool := list_eqb Z.eqb.
Definition opt_eqb {A} (eq : A -> A -> bool) (a b : option A) : bool :=
  match a, b with Some x, Some y => eq x y | None, None => true | _, _ => false end.
Definition kv_eqb (a b : key * val) : bool := bytes_eqb (fst a) (fst b) && bytes_eqb (snd a) (snd b).
Definition dump_eqb (a b : key * val * Z * bool * bool) : bool :=
  let '(k1, v1, p1, l1, r1) := a in let '(k2, v2, p2, l2, r2) := b in
  bytes_eqb k1 k2 && bytes_eqb v1 v2 && (p1 =? p2) && Bool.eqb l1 l2 && Bool.eqb r1 r2.

Record st := { versions : list treap; sel : nat; cur_it : option iter; ok : bool }.

Definition cur (s : st) : treap := nth (sel s) (versions s) empty.

Definition set_cur (mut : bool) (s : st) (t : treap) : st :=
  if mut then {| versions := [t]; sel := 0; cur_it := cur_it s; ok := ok s |}
  else {| versions := versions s ++ [t]; sel := length (versions s); cur_it := cur_it s; ok := ok s |}.

Definition chk (s : st) (b : bool) : st :=
  {| versions := versions s; sel := sel s; cur_it := cur_it s; ok := ok s && b |}.

Definition do_step (it : iter) (sp : istep) : iter * bool :=
  match sp with
  | SFirst => first it
  | SLast => last it
  | SNext => next it
  | SPrev => prev it
  | SSeek k => seek_ge it k
  end.

Definition step (mut : bool) (s : st) (o : op) : st :=
  match o with
  | OPut k v p => set_cur mut s (put (cur s) k v p)
  | ODel k => set_cur mut s (delete (cur s) k)
  | OGet k r => chk s (opt_eqb bytes_eqb (get (cur s) k) r)
  | OHas k r => chk s (Bool.eqb (has (cur s) k) r)
  | OLen n => chk s (count (cur s) =? n)
  | OSize n => chk s (size (cur s) =? n)
  | ODump d => chk s (list_eqb dump_eqb (preorder (root (cur s))) d)
  | OElems d => chk s (list_eqb kv_eqb (abs (cur s)) d)
  | OIter a b => {| versions := versions s; sel := sel s;
                    cur_it := Some (new_iter (root (cur s)) a b mut); ok := ok s |}
  | OStep sp (rb, rkv) =>
    match cur_it s with
    | None => chk s false
    | Some it =>
      let '(it', b) := do_step it sp in
      {| versions := versions s; sel := sel s; cur_it := Some it';
         ok := ok s && Bool.eqb b rb && opt_eqb kv_eqb (current it') rkv |}
    end
  | OForce =>
    match cur_it s with
    | None => chk s false
    | Some it => {| versions := versions s; sel := sel s;
                    cur_it := Some (force_reseek it (root (cur s))); ok := ok s |}
    end
  | OSelect i => {| versions := versions s; sel := Z.to_nat i; cur_it := cur_it s; ok := ok s |}
  end.

Definition run (mut : bool) (ops : list op) : bool :=
  ok (fold_left (step mut) ops {| versions := [empty]; sel := 0; cur_it := None; ok := true |}).

Definition check (c : case) : option N :=
  match c with
  | CMut id ops => if run true ops then None else Some id
  | CImm id ops => if run false ops then None else Some id
  end.

Definition mismatches (cs : list case) : list N :=
  flat_map (fun c => match check c with Some i => [i] | None => [] end) cs.
