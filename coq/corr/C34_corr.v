(* C34 correspondence: histories observed on the real mempool.TxPool (public
   API + the verif snapshot accessor), replayed on the model with the
   regenerated slot table and Go's float64 fee-rate order.  Executable, no
   proofs. *)
From Coq Require Import ZArith NArith Bool List String PrimFloat.
From ELA Require Import lib.GoFloat model.C34_Pool gen.C34_slots.
Import ListNotations.
Local Open Scope Z_scope.

(* float64(fee)/float64(size) < float64(fee')/float64(size') *)
Definition rate_float (a : Z * Z) : float :=
  PrimFloat.div (GoFloat.of_int64 (fst a)) (GoFloat.of_int64 (snd a)).
Definition rlt_float (a b : Z * Z) : bool := PrimFloat.ltb (rate_float a) (rate_float b).

Definition dflt_tx : txinfo := mkTx 255 1 0 [] [] [] false None 0 0 0 [] 0.

Definition lookupU (l : list (N * txinfo)) (h : N) : txinfo :=
  match find (fun e => (fst e =? h)%N) l with Some e => snd e | None => dflt_tx end.

(* snapshot of the Go pool after an operation *)
Inductive obs :=
| Obs (res : N)                     (* 0 accepted / no result, 1 rejected *)
      (txs : list N)                (* txnList keys *)
      (fees : list N)               (* txFees.list hashes, in list order *)
      (total : Z)                   (* txFees.totalSize *)
      (slots : list (N * N * N))    (* (slot index, key id, holder) of every slot map *)
      (used : Z).                   (* proposalsUsedAmount *)

Inductive case :=
| Case (id : N) (maxsz : Z) (univ : list (N * txinfo)) (steps : list (op * obs))
(* same pool driven through the verif hooks that skip the pre-checks *)
| FeeCase (id : N) (maxsz : Z) (univ : list (N * txinfo)) (steps : list (op * obs)).

Definition subsetN (a b : list N) : bool := forallb (fun x => memN x b) a.
Definition same_setN (a b : list N) : bool :=
  (List.length a =? List.length b)%nat && subsetN a b && subsetN b a.

Definition eq3 (a b : N * N * N) : bool :=
  (fst (fst a) =? fst (fst b))%N && (snd (fst a) =? snd (fst b))%N && (snd a =? snd b)%N.
Definition subset3 (a b : list (N * N * N)) : bool :=
  forallb (fun x => existsb (eq3 x) b) a.
Definition same_set3 (a b : list (N * N * N)) : bool :=
  (List.length a =? List.length b)%nat && subset3 a b && subset3 b a.

Fixpoint eq_listN (a b : list N) : bool :=
  match a, b with
  | [], [] => true
  | x :: a', y :: b' => (x =? y)%N && eq_listN a' b'
  | _, _ => false
  end.

Definition res_code (o : outcome) : N := match o with Ok => 0 | Reject => 1 | GoPanic => 2 end%N.

Definition agree (p : pool) (r : N) (o : obs) : bool :=
  let '(Obs res txs fees total slots used) := o in
  (r =? res)%N && same_setN (p_txs p) txs && eq_listN (map i_hash (p_fees p)) fees &&
  (p_total p =? total) &&
  same_set3 (map (fun e => (fst (fst e), snd (fst e), snd e)) (p_slots p)) slots &&
  (p_used p =? used).

Definition step_res (U : N -> txinfo) (p : pool) (o : op) : pool * N :=
  match o with
  | OAppend h rej limit =>
      let '(q, r) := append rlt_float U slots h rej limit p in (q, res_code r)
  | _ => (step rlt_float U slots p o, 0%N)
  end.

Fixpoint replay (U : N -> txinfo) (p : pool) (steps : list (op * obs)) (i : nat) : option nat :=
  match steps with
  | [] => None
  | (o, ob) :: r =>
      let '(q, res) := step_res U p o in
      if agree q res ob then replay U q r (S i) else Some i
  end.

(* hook histories (no pre-checks, so the eviction loop of AddTx runs):
   OAppend h = TxPool.ForceAddVerif = conflictManager.AppendTx + doAddTransaction
   (+ removeTx on failure); ORemoveApi h = TxPool.ForceRemoveVerif =
   removeTransaction(tx) *)
Definition fee_step (U : N -> txinfo) (p : pool) (o : op) : pool * N :=
  match o with
  | OAppend h _ _ =>
      let p1 := mkPool (p_txs p) (p_fees p) (p_total p) (p_max p)
                       (append_keys U slots h (p_slots p)) (p_used p) in
      let '(p2, r) := do_add rlt_float U slots h p1 in
      match r with
      | Ok => (p2, 0%N)
      | _ => (mkPool (p_txs p2) (p_fees p2) (p_total p2) (p_max p2)
                     (remove_keys U slots h (p_slots p2)) (p_used p2), res_code r)
      end
  | ORemoveApi h => (do_remove rlt_float U slots h p, 0%N)
  | _ => (p, 0%N)
  end.

Fixpoint fee_replay (U : N -> txinfo) (p : pool) (steps : list (op * obs)) (i : nat) : option nat :=
  match steps with
  | [] => None
  | (o, ob) :: r =>
      let '(q, res) := fee_step U p o in
      if agree q res ob then fee_replay U q r (S i) else Some i
  end.

(* first disagreeing step of a case, if any (for debugging a mismatch) *)
Definition first_bad (c : case) : option nat :=
  match c with
  | Case _ m univ steps => replay (lookupU univ) (empty_pool m) steps 0
  | FeeCase _ m univ steps => fee_replay (lookupU univ) (empty_pool m) steps 0
  end.

Definition case_id (c : case) : N :=
  match c with Case id _ _ _ => id | FeeCase id _ _ _ => id end.

Definition mismatches (cs : list case) : list N :=
  flat_map (fun c => match first_bad c with Some _ => [case_id c] | None => [] end) cs.
