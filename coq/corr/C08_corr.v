(* C08 correspondence: observations of bloom.NewMerkleBlock,
   bloom.CheckMerkleBlock, bloom.GetTxMerkleBranch and auxpow.GetMerkleRoot
   compared with the model by vm_compute.

   As in C07_corr, hashes are numbers: with [sym = false] real 256-bit values
   hashed by lib/Sha256.v, with [sym = true] small interned numbers hashed by
   [h2_sym] (the harness keeps the real <-> symbolic correspondence a bijection
   that commutes with the parent function on the block's whole tree; a hash
   outside the tree, e.g. a corrupted one, is interned as a fresh number, and a
   hash the harness cannot name is sent as 0). *)
From Coq Require Import NArith List Bool.
From ELA Require Import lib.Sha256 model.C08_PMT corr.C07_corr.
Import ListNotations.
Local Open Scope N_scope.

(* result of CheckMerkleBlock: 0 = error, 1 = ok (with the returned ids), 2 = panic *)
Inductive case :=
| CBuild (id : N) (sym : bool) (txs : list N) (pattern : list N)
         (go_numtx : N) (go_hashes : list N) (go_flags : list N) (go_matched : list N)
| CCheck (id : N) (sym : bool) (n : N) (root : N) (flags : list N) (hashes : list N)
         (go_res : N) (go_ids : list N)
| CBranch (id : N) (sym : bool) (txs : list N) (i : N) (go_branch : list N) (go_index : N)
          (go_root : N).

Definition h2 (sym : bool) : N -> N -> N := if sym then h2_sym else sha256d_pair.

Fixpoint list_eqb (a b : list N) : bool :=
  match a, b with
  | [], [] => true
  | x :: a', y :: b' => (x =? y) && list_eqb a' b'
  | _, _ => false
  end.

Fixpoint indexes (i : N) (ms : list bool) : list N :=
  match ms with
  | [] => []
  | b :: r => if b then i :: indexes (i + 1) r else indexes (i + 1) r
  end.

Definition check (c : case) : option N :=
  match c with
  | CBuild id sym txs pat numtx hashes flags midx =>
      let ms := map (fun x => negb (x =? 0)) pat in
      let '(bits, hs) := build N (h2 sym) 0 txs ms (tree_height N txs) 0 in
      if (N.of_nat (length txs) =? numtx) && list_eqb hs hashes &&
         list_eqb (pack_flags bits) flags && list_eqb (indexes 0 ms) midx
      then None else Some id
  | CCheck id sym n root flags hashes res ids =>
      let it := check_merkle_block N N.eq_dec (h2 sym) n root flags hashes in
      let ok_it := match it with
                   | OkMatches _ ms => (res =? 1) && list_eqb ms ids
                   | Reject _ => res =? 0
                   | GoPanic _ => res =? 2
                   | OutOfFuel _ => false
                   end in
      (* the recursive reference parser works on unary heights/positions:
         compared for claimed transaction counts up to 1000 only *)
      let ok_rc := if n <=? 1000 then
                     match parse_top N N.eq_dec (h2 sym) (N.to_nat n) root flags hashes with
                     | Some ms => (res =? 1) && list_eqb ms ids
                     | None => negb (res =? 1)
                     end
                   else true in
      if ok_it && ok_rc then None else Some id
  | CBranch id sym txs i br idx root =>
      let lv := tree_height N txs in
      let '(mbr, midx) := branch N (h2 sym) 0 txs lv 0 (N.to_nat i) in
      if list_eqb mbr br && (midx =? idx) &&
         (eval_branch N (h2 sym) (nth (N.to_nat i) txs 0) br idx =? root) &&
         (calc_hash N (h2 sym) 0 txs lv 0 =? root)
      then None else Some id
  end.

Definition mismatches (cs : list case) : list N :=
  flat_map (fun c => match check c with Some i => [i] | None => [] end) cs.
