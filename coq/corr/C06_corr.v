(* C06 correspondence: histories observed on the real regnet node (blocks,
   forks, reorganisations, mempool submissions) replayed on model/Ledger.v by
   corr/Ledger_run.v; compared: accept/reject of every block and transaction,
   GetUnspent of every known transaction id and the pool content after every
   step. *)
From Coq Require Import List NArith.
From ELA Require Import model.Ledger corr.Ledger_run.
Definition case := Ledger_run.case.
Definition mismatches : list case -> list N := Ledger_run.mismatches.
