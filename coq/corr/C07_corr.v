(* C07 correspondence: observations of crypto.ComputeRoot and
   BlockChain.CheckBlockSanity compared with the model by vm_compute.

   Hashes are numbers.  [CRoot] cases and [CSanity] cases with [sym = false]
   carry real 256-bit values (big-endian reading of the 32 bytes) and are
   evaluated with the SHA-256d of lib/Sha256.v, which they thereby validate
   against Go's crypto/sha256.  [CSanity] cases with [sym = true] are symbolic
   (they keep the case files small and fast): transaction ids are interned as
   small numbers and the parent function is [h2_sym]; the harness maintains the
   bijection between the real hashes it meets and these numbers, checks that
   it commutes with the parent function on every pair it computes, and sends
   roots through it (0 = a hash the harness's reference tree never produced).
   The model is parametric in H2, so this compares the block-level logic
   (levelling, coinbase position, duplicate check, root comparison) for that H2. *)
From Coq Require Import NArith List Bool.
From ELA Require Import lib.Sha256 model.C07_Merkle.
Import ListNotations.
Local Open Scope N_scope.

Inductive case :=
| CRoot (id : N) (hs : list N) (out : option N)
| CSanity (id : N) (sym : bool) (hdr_root : N) (txs : list N)
          (go_root : option N) (go_accept : bool).

(* a transaction is encoded as 2 * id + (1 if coinbase) *)
Definition tx_of (x : N) : N * bool := (N.div2 x, N.odd x).

Definition h2_sym (a b : N) : N :=
  ((a + 7) * (a + 7) * 1000003 + (b + 11) * (b + 11) * (b + 11) * 998244353 + a * b * 31 + 12345)
    mod 2305843009213693951.

Definition opt_eqb (a b : option N) : bool :=
  match a, b with
  | Some x, Some y => x =? y
  | None, None => true
  | _, _ => false
  end.

Definition is_accept (v : verdict) : bool := match v with Accept => true | _ => false end.

Definition check (c : case) : option N :=
  match c with
  | CRoot id hs out =>
      if opt_eqb (merkle_root N sha256d_pair hs) out then None else Some id
  | CSanity id sym r txs go_root go_ok =>
      let h2 := if sym then h2_sym else sha256d_pair in
      let txs := map tx_of txs in
      (* the root is compared in symbolic cases only; real-hash roots are covered by CRoot *)
      if (if sym then opt_eqb (merkle_root N h2 (map fst txs)) go_root else true) &&
         Bool.eqb (is_accept (check_block_sanity_core N N.eq_dec h2 r txs)) go_ok
      then None else Some id
  end.

Definition mismatches (cs : list case) : list N :=
  flat_map (fun c => match check c with Some i => [i] | None => [] end) cs.
