(* C40 correspondence.
   CSnap: one snapshot function of the implementation run on a populated live
   state.  The model of a snapshot is a deep copy: it exists, has content,
   shares no reference target with the live state beyond the recorded findings
   (the harness reports the number of shared sites that are *not* recorded),
   does not change when the live state is mutated afterwards, and taking it
   does not change the live state.
   CLock: the verdict of the harness's own evaluation of the lockset checker
   on the translated summaries of one lock group, compared with the Coq
   checker's verdict on the generated file. *)
From Coq Require Import NArith Bool List.
Import ListNotations.
Local Open Scope N_scope.

Inductive case :=
| CSnap (id kind : N) (is_nil : bool) (idents unknown_shared : N) (changed_unexplained live_changed : bool)
| CLock (id group nparts nviolations : N) (expect_parts expect_violations : N).

Definition check (c : case) : option N :=
  match c with
  | CSnap id _ is_nil idents unknown changed livechg =>
      if negb is_nil && (0 <? idents) && (unknown =? 0) && negb changed && negb livechg
      then None else Some id
  | CLock id _ np nv ep ev =>
      if (np =? ep) && (nv =? ev) then None else Some id
  end.

Definition mismatches (cs : list case) : list N :=
  flat_map (fun c => match check c with Some i => [i] | None => [] end) cs.
