(* C40 correspondence.
   CSnap: one snapshot / deep-copy function of the implementation run on a
   populated live state.  The model of a snapshot is a deep copy: it exists,
   has content, shares no reference target with the live state beyond the
   recorded findings (the harness reports the number of shared sites that are
   *not* recorded), does not change when the live state is mutated
   afterwards, and taking it does not change the live state.
   CSave: the real checkpoint Manager driven asynchronously with a probe
   checkpoint (see harness/cmd/c40/ckptoracle.go).
   CLock: the harness's own evaluation of the lockset checker on the
   translated summaries of one lock group (number of parts, number of
   rejected pairs) compared with the Coq checker run on the generated file
   (the last two arguments are terms over gen/C40_summaries.v evaluated in the
   shard): ties the witness-producing Go mirror to the verified checker. *)
From Coq Require Import NArith Bool List.
Import ListNotations.
Local Open Scope N_scope.

Inductive case :=
| CSnap (id kind : N) (is_nil : bool) (idents unknown_shared : N) (changed_unexplained live_changed : bool)
| CLock (id group nparts nviolations : N) (coq_parts coq_violations : N)
| CSave (id period files_ok off_path_snapshots live_serializes bad_files : N) (panicked : bool).

Definition check (c : case) : option N :=
  match c with
  | CSnap id _ is_nil idents unknown changed livechg =>
      if negb is_nil && (0 <? idents) && (unknown =? 0) && negb changed && negb livechg
      then None else Some id
  | CSave id _ ok off lser bad p =>
      (* model of the manager: every due file is written from a snapshot taken on the block path *)
      if (0 <? ok) && (off =? 0) && (lser =? 0) && (bad =? 0) && negb p then None else Some id
  | CLock id _ np nv cp cv =>
      if (np =? cp) && (nv =? cv) then None else Some id
  end.

Definition mismatches (cs : list case) : list N :=
  flat_map (fun c => match check c with Some i => [i] | None => [] end) cs.
