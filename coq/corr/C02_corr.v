(* C02 correspondence: each case is one input fed to one Go decoder (under
   recover(), allocation measured) and what Go did; [mismatches] returns the
   ids on which the descriptor interpreter disagrees:
   outcome (0 ok / 1 error / 2 panic; 3 = the Go process died or hung, never
   produced by the model), bytes left unread, the re-serialization of the
   decoded object, and Go's measured allocation against the model's meter
   (alloc <= 3 * meter + 16 KiB). *)
From Coq Require Import NArith List Bool.
From ELA Require Import lib.GoSem lib.Bytes model.C02_Fmt model.C02_Descr.
Import ListNotations.
Local Open Scope N_scope.

(* The input of a case is derived from a seed of the shard's seed table (case
   files are dominated by the cost of parsing byte literals): the seed's first
   [off] bytes, then [repl], then the seed from [off + del] on. *)
Inductive case :=
| CDec (id fid : N) (c : list N) (src off del : N) (repl : bytes) (outcome remaining : N)
       (same : bool) (reenc : bytes) (alloc : N).

Definition input_of (seeds : list bytes) (src off del : N) (repl : bytes) : bytes :=
  let s := nth (N.to_nat src) seeds [] in
  firstn (N.to_nat off) s ++ repl ++ skipn (N.to_nat (off + del)) s.

Definition check (seeds : list bytes) (cs : case) : option N :=
  match cs with
  | CDec id fid c src off del repl oc rem same reenc alloc =>
    let input := input_of seeds src off del repl in
    let f := fmt_of fid in
    let '(r, m) := decode f c input in
    let ok :=
      (outcome r =? oc) && (alloc <=? 3 * m + 16384) &&
      match r with
      | Ok (v, rest) =>
          (N.of_nat (length rest) =? rem) &&
          bytes_eqb (encode f c v)
                    (if same then firstn (length input - length rest) input else reenc)
      | _ => true
      end in
    if ok then None else Some id
  end.

Definition mismatches (seeds : list bytes) (cs : list case) : list N :=
  flat_map (fun c => match check seeds c with Some i => [i] | None => [] end) cs.
