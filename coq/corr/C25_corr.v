(* C25 correspondence: ConfirmSanityCheck / ConfirmContextCheck /
   GetArbitersMajorityCount observed on the Go implementation, compared with
   the model by vm_compute.  Signature verification outcomes enter as tables. *)
From Coq Require Import ZArith NArith Bool List.
From ELA Require Import model.C25_Confirm.
Import ListNotations.
Local Open Scope Z_scope.

Inductive case :=
| CMajority (id : N) (n : Z) (out : Z)
| CConfirm (id : N) (arbs : list arbiter) (fallback : Z) (pt : ptable) (vt : vtable)
           (c : confirm) (sanity_ok context_ok : bool).

Definition A (k : Z) (normal : bool) : arbiter := {| a_key := k; a_normal := normal |}.
Definition V (h k : Z) (a : bool) (s : Z) : vote :=
  {| v_hash := h; v_signer := k; v_accept := a; v_sig := s |}.
Definition C (sponsor h s : Z) (vs : list vote) : confirm :=
  {| c_prop := {| p_sponsor := sponsor; p_hash := h; p_sig := s |}; c_votes := vs |}.

Definition check (c : case) : option N :=
  match c with
  | CMajority id n out => if majority n =? out then None else Some id
  | CConfirm id arbs fb pt vt cf s_ok c_ok =>
      if Bool.eqb (confirm_sanity (pverify_tbl pt) (vverify_tbl vt) cf) s_ok &&
         Bool.eqb (confirm_context arbs fb cf) c_ok
      then None else Some id
  end.

Definition mismatches (cs : list case) : list N :=
  flat_map (fun c => match check c with Some i => [i] | None => [] end) cs.
