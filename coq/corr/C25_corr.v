(* C25 correspondence: ConfirmSanityCheck / ConfirmContextCheck /
   GetArbitersMajorityCount observed on the Go implementation, compared with
   the model by vm_compute.  Signature verification outcomes enter as tables. *)
From Coq Require Import ZArith NArith Bool List.
From ELA Require Import model.C25_Confirm model.C25_Dispatch.
Import ListNotations.
Local Open Scope Z_scope.

Inductive case :=
| CMajority (id : N) (n : Z) (out : Z)
| CConfirm (id : N) (arbs : list arbiter) (fallback : Z) (pt : ptable) (vt : vtable)
           (c : confirm) (sanity_ok context_ok : bool)
(* a vote stream delivered to the real ProposalDispatcher through the real
   handlers: per-step (succeed, finished), then the collected accept / reject
   votes (as sets of (hash, signer, accept)) and whether a proposal is still
   being processed *)
| CDispatch (id : N) (arbs : list arbiter) (fallback : Z) (vt : vtable) (ops : list op)
            (tr : list (bool * bool)) (acc rej : list vote) (processing : bool).

Definition A (k : Z) (normal : bool) : arbiter := {| a_key := k; a_normal := normal |}.
Definition V (h k : Z) (a : bool) (s : Z) : vote :=
  {| v_hash := h; v_signer := k; v_accept := a; v_sig := s |}.
Definition C (sponsor h s : Z) (vs : list vote) : confirm :=
  {| c_prop := {| p_sponsor := sponsor; p_hash := h; p_sig := s |}; c_votes := vs |}.

Definition P (sponsor h s : Z) : proposal := {| p_sponsor := sponsor; p_hash := h; p_sig := s |}.

Definition trace_eqb (a b : list (bool * bool)) : bool :=
  (length a =? length b)%nat &&
  forallb (fun xy => match xy with ((s, f), (s', f')) => Bool.eqb s s' && Bool.eqb f f' end) (combine a b).

Definition check (c : case) : option N :=
  match c with
  | CMajority id n out => if majority n =? out then None else Some id
  | CConfirm id arbs fb pt vt cf s_ok c_ok =>
      if Bool.eqb (confirm_sanity (pverify_tbl pt) (vverify_tbl vt) cf) s_ok &&
         Bool.eqb (confirm_context arbs fb cf) c_ok
      then None else Some id
  | CDispatch id arbs fb vt ops tr acc rej processing =>
      let st := run (vverify_tbl vt) arbs fb d_empty ops in
      if trace_eqb (trace (vverify_tbl vt) arbs fb d_empty ops) tr &&
         same_votes (d_acc st) acc && same_votes (d_rej st) rej &&
         Bool.eqb (match d_prop st with Some _ => true | None => false end) processing
      then None else Some id
  end.

Definition mismatches (cs : list case) : list N :=
  flat_map (fun c => match check c with Some i => [i] | None => [] end) cs.
