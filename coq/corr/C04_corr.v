(* C04 correspondence.  CTx: the fields of a transaction as the Go getters
   report them (payload and output payloads as their own serialization), the
   length of SerializeUnsigned and the bytes of Serialize.  The model must
   (1) rebuild the typed record (payload bytes decode completely under the
   payload descriptor), (2) find it well formed, (3) encode it to exactly the
   Go bytes, unsigned prefix included, (4) decode the Go bytes to exactly that
   record.  CBlock: header fields, transaction lengths and the block bytes. *)
From Coq Require Import NArith List Bool.
From ELA Require Import lib.GoSem lib.Bytes model.C02_Fmt model.C02_Descr model.C04_Codec model.C04_Payloads model.C04_Proposal.
Import ListNotations.
Local Open Scope N_scope.

Fixpoint value_eqb (a b : value) : bool :=
  match a, b with
  | VUnit, VUnit => true
  | VN x, VN y => x =? y
  | VB x, VB y => bytes_eqb x y
  | VPair a1 a2, VPair b1 b2 => value_eqb a1 b1 && value_eqb a2 b2
  | VL x, VL y =>
      (fix go (x y : list value) : bool :=
         match x, y with
         | [], [] => true
         | a' :: x', b' :: y' => value_eqb a' b' && go x' y'
         | _, _ => false
         end) x y
  | VTag t v, VTag u w => (t =? u) && value_eqb v w
  | _, _ => false
  end.

Definition out_in := (bytes * N * N * bytes * option (N * bytes))%type.

Inductive case :=
| CTx (id ver ty pv : N) (payload : bytes) (attrs : list (N * bytes)) (ins : list (bytes * N * N))
      (outs : list out_in) (lock : N) (progs : list (bytes * bytes)) (ulen : N) (full : bytes)
| CBlock (id : N) (hv : N) (prev root : bytes) (tm bits nonce height : N) (txlens : list N) (full : bytes)
(* WriteVarUint v = enc in Go, ReadVarUint enc = (dec_ok, dec_v) in Go *)
| CVarint (id v : N) (enc : bytes) (dec_ok : bool) (dec_v : N)
(* a transaction generated identically on both sides with one field / list of n
   elements (n at the varint width boundaries); Go reports the length and a
   checksum of Serialize and whether the bytes decoded back to the same value *)
| CGen (id kind n glen gsum : N) (gok : bool)
(* a CRCProposal payload: the fields Go reports for the decoded object (by
   proposal kind) and the bytes of its Serialize under payload version pv *)
| CProp (id pv : N) (p : proposal) (pbytes : bytes).

From ELA Require Import lib.VarInt.

Fixpoint gdata (k : nat) (i : N) : bytes :=
  match k with O => [] | S k' => ((i * 7 + 3) mod 251) :: gdata k' (i + 1) end.
Definition bsum (bs : bytes) : N := fold_left (fun a b => (a * 31 + b + 1) mod 4294967291) bs 0.

Definition gen_tx (kind n : N) : tx :=
  let d := gdata (N.to_nat n) 0 in
  match kind with
  | 0 => mkTx 9 2 0 VUnit [(129, d)] [] [] 0 []                       (* TransferAsset, Memo attribute of n bytes *)
  | 1 => mkTx 9 7 2 (VL (map VN d)) [] [] [] 0 []                      (* WithdrawFromSideChain v2, n signers *)
  | 2 => mkTx 9 2 0 VUnit [] [] [] 0 (repeat ([], []) (N.to_nat n))    (* n empty programs *)
  | _ => mkTx 9 3 0 (VPair (VB [97]) (VB d)) [] [] [] 0 []             (* Record with n bytes of content *)
  end.

Definition dec_all (f : fmt) (c : ctx) (bs : bytes) : option value :=
  match decode f c bs with (Ok (v, []), _) => Some v | _ => None end.

Definition mk_out (o : out_in) : option output :=
  match o with
  | (a, x, l, h, None) => Some (mkOutput a x l h None)
  | (a, x, l, h, Some (t, pb)) =>
      match dec_all (outpayload_fmt t) [] pb with
      | Some v => Some (mkOutput a x l h (Some (t, v)))
      | None => None
      end
  end.

Definition check (cs : case) : option N :=
  match cs with
  | CTx id ver ty pv pb attrs ins outs lock progs ulen full =>
    let ok :=
      match dec_all (payload_fmt ty 0) [pv] pb, traverse mk_out outs with
      | Some pl, Some os =>
        let t := mkTx ver ty pv pl attrs ins os lock progs in
        wf_tx t && bytes_eqb (encode_tx t) full
        && bytes_eqb (encode_unsigned t) (firstn (N.to_nat ulen) full)
        && match decode tx_fmt [] full with
           | (Ok (v, []), _) => value_eqb v (tx_v t) && match tx_of v with Some _ => true | None => false end
           | _ => false
           end
      | _, _ => false
      end in
    if ok then None else Some id
  | CBlock id hv prev root tm bits nonce height txlens full =>
    let ok :=
      match decode_block full with
      | Ok (b, []) =>
        let h := b_header b in
        (h_version h =? hv) && bytes_eqb (h_prev h) prev && bytes_eqb (h_root h) root && (h_time h =? tm)
        && (h_bits h =? bits) && (h_nonce h =? nonce) && (h_height h =? height)
        && wf_block b && bytes_eqb (encode_block b) full
        && (fix go (ts : list tx) (ls : list N) : bool :=
              match ts, ls with
              | [], [] => true
              | t :: ts', l :: ls' => (N.of_nat (length (encode_tx t)) =? l) && go ts' ls'
              | _, _ => false
              end) (b_txs b) txlens
      | _ => false
      end in
    if ok then None else Some id
  | _ => None
  end.

Definition check2 (cs : case) : option N :=
  match cs with
  | CVarint id v enc dok dv =>
    let ok := bytes_eqb (varint_enc v) enc && dok && (dv =? v) &&
              match varint_dec enc with Some (v', []) => v' =? v | _ => false end in
    if ok then None else Some id
  | CGen id kind n glen gsum gok =>
    let t := gen_tx kind n in
    let bs := encode_tx t in
    let ok := gok && wf_tx t && (N.of_nat (length bs) =? glen) && (bsum bs =? gsum) &&
              match decode_tx bs with
              | Ok (t', []) => value_eqb (tx_v t') (tx_v t)
              | _ => false
              end in
    if ok then None else Some id
  | CProp id pv p pb =>
    let ok := kind_ok p && wt_payload 37 pv (proposal_v p) &&
              bytes_eqb (enc_payload 37 pv (proposal_v p)) pb &&
              match dec_payload 37 pv proposal_of pb with
              | Ok (p', []) => value_eqb (proposal_v p') (proposal_v p)
              | _ => false
              end in
    if ok then None else Some id
  | _ => check cs
  end.

Definition mismatches (cs : list case) : list N :=
  flat_map (fun c => match check2 c with Some i => [i] | None => [] end) cs.
