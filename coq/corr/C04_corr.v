(* C04 correspondence.  CTx: the fields of a transaction as the Go getters
   report them (payload and output payloads as their own serialization), the
   length of SerializeUnsigned and the bytes of Serialize.  The model must
   (1) rebuild the typed record (payload bytes decode completely under the
   payload descriptor), (2) find it well formed, (3) encode it to exactly the
   Go bytes, unsigned prefix included, (4) decode the Go bytes to exactly that
   record.  CBlock: header fields, transaction lengths and the block bytes. *)
From Coq Require Import NArith List Bool.
From ELA Require Import lib.GoSem lib.Bytes model.C02_Fmt model.C02_Descr model.C04_Codec.
Import ListNotations.
Local Open Scope N_scope.

Fixpoint value_eqb (a b : value) : bool :=
  match a, b with
  | VUnit, VUnit => true
  | VN x, VN y => x =? y
  | VB x, VB y => bytes_eqb x y
  | VPair a1 a2, VPair b1 b2 => value_eqb a1 b1 && value_eqb a2 b2
  | VL x, VL y =>
      (fix go (x y : list value) : bool :=
         match x, y with
         | [], [] => true
         | a' :: x', b' :: y' => value_eqb a' b' && go x' y'
         | _, _ => false
         end) x y
  | VTag t v, VTag u w => (t =? u) && value_eqb v w
  | _, _ => false
  end.

Definition out_in := (bytes * N * N * bytes * option (N * bytes))%type.

Inductive case :=
| CTx (id ver ty pv : N) (payload : bytes) (attrs : list (N * bytes)) (ins : list (bytes * N * N))
      (outs : list out_in) (lock : N) (progs : list (bytes * bytes)) (ulen : N) (full : bytes)
| CBlock (id : N) (hv : N) (prev root : bytes) (tm bits nonce height : N) (txlens : list N) (full : bytes).

Definition dec_all (f : fmt) (c : ctx) (bs : bytes) : option value :=
  match decode f c bs with (Ok (v, []), _) => Some v | _ => None end.

Definition mk_out (o : out_in) : option output :=
  match o with
  | (a, x, l, h, None) => Some (mkOutput a x l h None)
  | (a, x, l, h, Some (t, pb)) =>
      match dec_all (outpayload_fmt t) [] pb with
      | Some v => Some (mkOutput a x l h (Some (t, v)))
      | None => None
      end
  end.

Definition check (cs : case) : option N :=
  match cs with
  | CTx id ver ty pv pb attrs ins outs lock progs ulen full =>
    let ok :=
      match dec_all (payload_fmt ty 0) [pv] pb, traverse mk_out outs with
      | Some pl, Some os =>
        let t := mkTx ver ty pv pl attrs ins os lock progs in
        wf_tx t && bytes_eqb (encode_tx t) full
        && bytes_eqb (encode_unsigned t) (firstn (N.to_nat ulen) full)
        && match decode tx_fmt [] full with
           | (Ok (v, []), _) => value_eqb v (tx_v t) && match tx_of v with Some _ => true | None => false end
           | _ => false
           end
      | _, _ => false
      end in
    if ok then None else Some id
  | CBlock id hv prev root tm bits nonce height txlens full =>
    let ok :=
      match decode_block full with
      | Ok (b, []) =>
        let h := b_header b in
        (h_version h =? hv) && bytes_eqb (h_prev h) prev && bytes_eqb (h_root h) root && (h_time h =? tm)
        && (h_bits h =? bits) && (h_nonce h =? nonce) && (h_height h =? height)
        && wf_block b && bytes_eqb (encode_block b) full
        && (fix go (ts : list tx) (ls : list N) : bool :=
              match ts, ls with
              | [], [] => true
              | t :: ts', l :: ls' => (N.of_nat (length (encode_tx t)) =? l) && go ts' ls'
              | _, _ => false
              end) (b_txs b) txlens
      | _ => false
      end in
    if ok then None else Some id
  end.

Definition mismatches (cs : list case) : list N :=
  flat_map (fun c => match check c with Some i => [i] | None => [] end) cs.
