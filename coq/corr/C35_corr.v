(* C35 correspondence: observations of p2p.ReadMessage / p2p.WriteMessage with
   the real per-layer message tables, compared with the model by vm_compute.
   The checksum hash is the executable SHA-256d of lib/Sha256.v. *)
From Coq Require Import NArith List Bool.
From ELA Require Import lib.Sha256 model.C35_Framing.
Import ListNotations.
Local Open Scope N_scope.

Definition code (e : err) : N :=
  match e with
  | EShort => 1 | EInvalidHeader => 2 | EUnmatchedMagic => 3 | EUnknown => 4
  | ESizeExceeded => 5 | EInvalidPayload => 6 | EDecode => 7
  end.

Inductive case :=
(* ReadMessage on a connection holding [stream] then closed.  layer 0 = p2p/peer
   then elanet, 1 = dpos/p2p/peer then dpos; [dec] = verdict of the message's
   own Deserialize on the payload (oracle, computed separately by the harness);
   [out] = 0 accepted / error code; [cmd] = CMD() of the returned message;
   [consumed] = bytes taken from the connection *)
| CRead (id layer ctx hs magic : N) (stream : list N) (dec : bool) (out : N) (cmd : list N) (consumed : N)
(* a sweep of single-byte corruptions of one stream: each entry is
   (id, position, xor mask, dec, out, consumed, cmd) *)
| CSweep (layer ctx hs magic : N) (stream : list N)
         (muts : list (N * N * N * bool * N * N * list N))
(* WriteMessage: bytes put on the connection (ok = false: ErrMsgSizeExceeded) *)
| CWrite (id magic : N) (cmd payload : list N) (ok : bool) (wire : list N).

Definition table_of (layer ctx hs : N) : list (String.string * N) :=
  if layer =? 0 then table_main ctx hs else table_dpos ctx hs.

Definition read_agrees (layer ctx hs magic : N) (stream : list N) (dec : bool) (out : N) (cmd : list N) (consumed : N) : bool :=
  match read_message sha256d (lookup (table_of layer ctx hs)) (fun _ _ => dec) magic stream with
  | ROk c p rest al => (out =? 0) && list_eqb c cmd && (consumed =? 24 + blen p)
  | RErr e al n => (out =? code e) && (consumed =? n)
  end.

Fixpoint xor_at (l : list N) (pos : nat) (x : N) : list N :=
  match l, pos with
  | [], _ => []
  | b :: r, O => N.lxor b x :: r
  | b :: r, S k => b :: xor_at r k x
  end.

Definition check (c : case) : list N :=
  match c with
  | CRead id layer ctx hs magic stream dec out cmd consumed =>
      if read_agrees layer ctx hs magic stream dec out cmd consumed then [] else [id]
  | CSweep layer ctx hs magic stream muts =>
      flat_map (fun m =>
        match m with
        | (id, pos, x, dec, out, consumed, cmd) =>
            if read_agrees layer ctx hs magic (xor_at stream (N.to_nat pos) x) dec out cmd consumed
            then [] else [id]
        end) muts
  | CWrite id magic cmd payload ok wire =>
      let good :=
        match write_message sha256d magic cmd payload with
        | Some w => ok && list_eqb w wire
        | None => negb ok
        end in
      if good then [] else [id]
  end.

Definition mismatches (cs : list case) : list N := flat_map check cs.
