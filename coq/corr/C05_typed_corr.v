(* C05 correspondence, all transaction types: wraps the cases of
   corr/C05_corr.v and adds checkTransactionSignature observed on every
   transaction type x payload version, compared with the typed model over the
   exemption table regenerated from the code under test (gen/C05_exempt.v). *)
From Coq Require Import ZArith Bool List Uint63.
From ELA Require Import model.C05_Sig corr.C05_corr gen.C05_exempt.
Import ListNotations.
Local Open Scope Z_scope.

Inductive case :=
| CBase (c : C05_corr.case)
| CTyped (id : N) (ty v : Z) (refs : list bytes) (attrs : list (Z * bytes)) (progs : list (bytes * bytes))
         (t : tables) (accept : bool).

Definition check (c : case) : option N :=
  match c with
  | CBase c' => C05_corr.check c'
  | CTyped id ty v refs attrs ps t acc =>
    let P := pools_of_progs ps in
    if both (fun d => check_tx_signature_typed (o_codehash P t d) (o_point_ok P t d) (o_ecdsa P t d) (o_schnorr P t d)
                        o_keyhash C05_exempt.rows ty v [] refs attrs ps) acc
    then None else Some id
  end.

Definition mismatches (cs : list case) : list N :=
  flat_map (fun c => match check c with Some i => [i] | None => [] end) cs.
