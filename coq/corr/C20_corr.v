(* C20 correspondence: op traces run on the real utils.History (closures over a
   []int64 vector) compared step by step with lib/History.v: outcome
   (ok / error / panic), the vector, and the bookkeeping exposed by the verif
   hook History.VerifView (best height, seek height, held heights with their
   change counts, cached entry, number of temporary changes). No proofs. *)
From Coq Require Import ZArith NArith List Bool.
From ELA Require Import lib.History.
Import ListNotations.

(* changes over a vector of integers *)
(* every number in a case is written as a Z literal *)
Inductive chg :=
| CAssign (i : Z) (v old : Z)     (* do x[i] := v ; undo x[i] := old *)
| CAdd (i : Z) (d : Z)            (* do x[i] += d ; undo x[i] -= d *)
| CSwap (i j : Z).                (* do = undo = swap x[i], x[j] *)

Definition setnth (i : nat) (v : Z) (l : list Z) : list Z :=
  if Nat.ltb i (length l) then firstn i l ++ v :: skipn (S i) l else l.

Definition swap (i j : nat) (l : list Z) : list Z :=
  let a := nth i l 0%Z in let b := nth j l 0%Z in setnth j a (setnth i b l).

Definition interp (c : chg) : change (list Z) :=
  match c with
  | CAssign i v old => let i := Z.to_nat i in Change (setnth i v) (setnth i old)
  | CAdd i d => let i := Z.to_nat i in
                Change (fun l => setnth i (nth i l 0 + d)%Z l) (fun l => setnth i (nth i l 0 - d)%Z l)
  | CSwap i j => Change (swap (Z.to_nat i) (Z.to_nat j)) (swap (Z.to_nat i) (Z.to_nat j))
  end.

Inductive cop :=
| KAppend (h : Z) (c : chg)
| KCommit (h : Z)
| KSeek (h : Z)
| KRbSeek (h : Z)
| KRb (h : Z).

Definition interp_op (o : cop) : op (list Z) :=
  match o with
  | KAppend h c => OAppend (Z.to_N h) (interp c)
  | KCommit h => OCommit (Z.to_N h)
  | KSeek h => OSeekTo (Z.to_N h)
  | KRbSeek h => ORollbackSeekTo (Z.to_N h)
  | KRb h => ORollbackTo (Z.to_N h)
  end.

(* what the harness saw after one op; code 0 = returned nil, 1 = returned an
   error, 2 = panicked (then nothing else is recorded and the trace ends) *)
Inductive ob :=
| Ob (code : Z) (vec : list Z) (height seek : Z) (hs : list Z) (counts : list Z)
     (cached_height : Z) (cached_count : Z) (temp : Z).

Definition list_eqb {A} (eqb : A -> A -> bool) :=
  fix go (a b : list A) : bool :=
    match a, b with
    | [], [] => true
    | x :: a', y :: b' => eqb x y && go a' b'
    | _, _ => false
    end.

Definition same_view (st : history (list Z) * list Z) (o : ob) : bool :=
  let (h, s) := st in
  match o with
  | Ob _ vec height seek hs counts ch cc temp =>
      list_eqb Z.eqb s vec && Z.eqb (Z.of_N (h_height h)) height && Z.eqb (Z.of_N (h_seek h)) seek &&
      list_eqb Z.eqb (map Z.of_N (heights (h_changes h))) hs &&
      list_eqb Z.eqb (map (fun e => Z.of_nat (length (hc_changes e))) (h_changes h)) counts &&
      match h_cached h with
      | None => Z.eqb cc (-1)
      | Some e => Z.eqb (Z.of_N (hc_height e)) ch && Z.eqb (Z.of_nat (length (hc_changes e))) cc
      end &&
      Z.eqb (Z.of_nat (length (h_temp h))) temp
  end.

Definition ob_code (o : ob) : Z := match o with Ob c _ _ _ _ _ _ _ _ => c end.

Fixpoint check_trace (ops : list cop) (obs : list ob) (st : history (list Z) * list Z) : bool :=
  match ops, obs with
  | [], [] => true
  | o :: r, b :: robs =>
      match step (interp_op o) st with
      | RPanic => Z.eqb (ob_code b) 2 && match robs with [] => true | _ => false end
      | ROk st' => Z.eqb (ob_code b) 0 && same_view st' b && check_trace r robs st'
      | RErr st' => Z.eqb (ob_code b) 1 && same_view st' b && check_trace r robs st'
      end
  | _, _ => false
  end.

Inductive case := Trace (id : N) (cap : Z) (init : list Z) (ops : list cop) (obs : list ob).

Definition check (c : case) : option N :=
  match c with
  | Trace id cap init ops obs =>
      if check_trace ops obs (new_history cap, init) then None else Some id
  end.

Definition mismatches (cs : list case) : list N :=
  flat_map (fun c => match check c with Some i => [i] | None => [] end) cs.
