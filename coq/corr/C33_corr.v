(* C33 correspondence: observations of the real WithdrawFromSideChain checks
   (checkTransactionCrossChainUTXO + SpecialContextCheck with a controlled
   arbiter set and a real chain store; Tx3 save/rollback processors;
   CheckDuplicateTx; mempool key function) compared with the model.
   Executable, no proofs. *)
From Coq Require Import ZArith NArith List Bool.
From ELA Require Import model.C33_Withdraw.
Import ListNotations.
Local Open Scope Z_scope.

(* The 24 fixed public keys used by harness/cmd/c33 (compressed P-256 points of
   the private keys sha256("verif-c33-key-<k>"), k = 1..24); the harness sends
   its own derivation as a [CKeyTab] case so a difference is a mismatch. *)
Definition keytab : list (list Z) := [
  [2;134;20;107;56;73;35;177;77;205;4;217;80;4;137;125;219;52;227;153;16;66;15;211;141;119;12;140;34;200;172;24;128];
  [3;240;243;82;2;186;92;246;169;138;220;217;146;140;24;55;40;249;200;160;66;94;26;84;162;45;232;79;105;65;192;131;127];
  [2;17;211;114;77;25;169;119;138;209;120;180;127;100;106;122;117;230;67;16;112;115;14;111;244;186;193;5;209;136;149;177;22];
  [3;239;247;0;18;50;250;113;204;185;77;89;89;242;167;64;182;162;223;194;96;36;86;217;171;241;10;232;106;205;241;47;229];
  [3;168;53;151;107;221;179;135;114;241;127;22;33;179;141;73;112;169;239;28;126;198;18;170;180;237;34;218;27;14;226;158;198];
  [3;179;130;125;197;65;128;132;137;9;161;163;34;18;19;81;47;212;133;73;146;131;9;238;45;79;192;101;102;43;136;150;152];
  [3;101;104;241;192;50;18;120;215;118;105;60;62;213;142;1;181;255;35;247;147;74;86;224;6;67;150;88;160;82;83;125;63];
  [2;198;11;159;194;251;247;94;226;202;187;231;16;192;84;66;6;78;9;170;246;50;101;249;48;89;220;220;86;121;233;92;190];
  [3;100;133;98;183;144;173;39;180;208;102;16;159;239;81;16;137;124;114;4;208;206;129;87;16;255;160;174;1;73;163;195;1];
  [2;177;199;155;173;68;246;137;177;96;185;22;115;55;110;55;150;83;0;158;139;127;9;159;180;2;224;167;166;160;57;162;135];
  [3;129;188;41;243;193;153;8;212;139;84;163;62;25;56;127;181;11;7;242;125;233;143;17;50;210;196;5;24;114;67;231;43];
  [2;158;144;108;153;59;210;26;248;185;210;86;105;37;85;72;10;188;66;178;3;155;68;92;119;136;183;3;90;60;175;211;16];
  [3;42;120;134;249;114;119;123;194;66;202;74;118;3;84;119;217;47;229;156;234;44;133;19;113;68;3;14;192;144;109;21;2];
  [3;36;85;246;124;145;57;175;7;30;66;139;80;221;36;197;242;87;4;175;110;139;73;214;160;154;136;129;172;167;181;51;232];
  [2;156;66;93;91;202;228;220;103;137;255;49;250;48;178;140;141;43;70;132;127;252;142;211;165;55;136;34;239;230;117;230;217];
  [2;112;237;48;183;143;92;194;197;138;76;50;144;230;202;126;183;97;102;37;191;97;67;225;165;51;75;182;189;7;178;253;89];
  [2;158;146;88;99;146;180;110;232;206;39;223;194;207;128;231;196;73;77;219;87;14;3;154;187;210;6;99;177;53;2;247;97];
  [3;232;109;116;89;4;184;174;171;102;56;13;75;147;252;185;151;134;49;203;74;134;149;124;231;133;3;27;174;238;15;234;68];
  [2;30;160;51;89;151;10;126;189;73;84;211;251;140;199;117;71;101;236;121;18;145;146;52;190;103;59;97;160;185;72;155;15];
  [2;194;2;183;41;211;43;231;133;82;6;30;55;174;253;143;205;229;17;115;207;29;244;118;48;126;131;83;19;184;208;91;75];
  [3;158;186;173;149;56;31;146;97;185;89;41;158;219;44;114;201;84;205;127;41;222;100;33;236;219;125;42;157;162;157;97;141];
  [2;1;90;127;96;29;128;119;111;223;10;72;50;114;50;53;10;241;163;73;146;153;68;104;94;250;114;197;73;96;169;140;210];
  [2;243;27;206;242;227;79;115;49;176;242;198;179;186;29;176;26;183;50;238;166;1;140;67;74;156;199;82;75;228;46;91;198];
  [3;91;189;165;197;78;11;153;137;58;41;137;221;179;237;171;76;117;34;69;143;230;170;250;26;59;129;87;29;149;46;158;123]
].

Definition keybytes (k : Z) : list Z :=
  if (1 <=? k) && (k <=? 24) then nth (Z.to_nat (k - 1)) keytab []
  else repeat (k mod 256) 33.   (* ids outside the table: 33 equal bytes (not a curve point; never an arbiter) *)

(* Compact encodings (a numeral costs ~0.4 ms to parse, so cases are kept short):
   - program codes are sent structurally and expanded here; [psum] guards the
     expansion against the bytes the Go side really used;
   - a script key is [push*1000 + key id];
   - an arbiter is its key id, negative when IsNormal = false. *)
Inductive codeS :=
| CS (mb : Z) (ks : list Z) (nb lb : Z)   (* m byte, (push byte*1000 + key id)*, n byte, last byte *)
| CAgg                                    (* the bytes of the oracle entry [aggv] of the same tx *)
| CRaw (raw : list Z).

Definition expand (aggv : option (list Z)) (c : codeS) : list Z :=
  match c with
  | CS mb ks nb lb => mb :: flat_map (fun pk => (pk / 1000) :: keybytes (pk mod 1000)) ks ++ [nb; lb]
  | CAgg => match aggv with Some s => s | None => [] end
  | CRaw r => r
  end.

Definition bsum (l : list Z) : Z := fold_left (fun a b => (a * 31 + b + 1) mod 1000000007) l 7.
Definition psum (ps : list (list Z)) : Z := bsum (flat_map (fun p => 300 :: p) ps).

Inductive txS :=
| TX (pv : Z) (ph : list N) (oh : list (option N)) (refs : list Z) (progs : list codeS)
     (sg : list Z) (aggk : list Z) (aggv : option (list Z)).

Definition tx_of (t : txS) : tx :=
  match t with
  | TX pv ph oh refs progs sg _ aggv =>
      {| pver := pv; payload_hashes := ph; out_hashes := oh; ref_prefixes := refs;
         programs := map (expand aggv) progs; signers := sg |}
  end.

Fixpoint keys_eqb (a b : list (list Z)) : bool :=
  match a, b with
  | [], [] => true
  | x :: a', y :: b' => bytes_eqb x y && keys_eqb a' b'
  | _, _ => false
  end.

(* the oracle table of one entry the harness computed with crypto.AggregatePublickeys +
   DecodePoint + CreateSchnorrRedeemScript for the key ids [aggk] *)
Definition agg_of (t : txS) : list (list Z) -> option (list Z) :=
  match t with
  | TX _ _ _ _ _ _ aggk aggv => fun ks => if keys_eqb ks (map keybytes aggk) then aggv else Some [0]
  end.

(* the model must query the oracle exactly at the entry supplied *)
Definition agg_entry_ok (c : cfg) (e : env) (t : txS) : bool :=
  match t with
  | TX pv _ _ _ _ sg aggk _ =>
      if pv =? 2 then
        match collect (validate_indexes c) (cc_arbs e) [] sg [] with
        | CKeys ks => keys_eqb ks (map keybytes aggk)
        | CReject => true
        end
      else true
  end.

Definition mk_cfg (l : list Z) : cfg :=
  {| height := nth 0 l 0; schnorr_start := nth 1 l 0; cr_claim_start := nth 2 l 0;
     dpos_cc_height := nth 3 l 0; freeze_height := nth 4 l 0; restriction_height := nth 5 l 0;
     normal_arbiters_count := nth 6 l 0; cr_agreement_count := nth 7 l 0; member_count := nth 8 l 0 |}.

Definition mk_arbs (l : list Z) : list arbiter :=
  map (fun k => {| a_key := keybytes (Z.abs k); a_normal := 0 <? k |}) l.

(* [ar]/[crc] = None: the same list as [cc] *)
Definition mk_env (ar crc : option (list Z)) (cc : list Z) (ccn ccm : Z) (st : list N) : env :=
  {| arbs := mk_arbs (match ar with Some l => l | None => cc end);
     crc_arbs := mk_arbs (match crc with Some l => l | None => cc end);
     cc_arbs := mk_arbs cc; cc_count := ccn; cc_majority := ccm; tx3 := st |}.

Definition out_code (o : outcome) : Z := match o with Accept => 0 | Reject => 1 | Panic => 2 end.

Inductive step :=
| SCheck (i : Z) (out : Z)           (* policy + SpecialContextCheck of tx i against the store as it is now *)
| SSave (i : Z)                      (* run GetSaveProcessor of tx i in a database transaction *)
| SRollback (i : Z)                  (* run GetRollbackProcessor of tx i *)
| SProbe (h : N) (b : bool)          (* IsSidechainTxHashDuplicate h *)
| SBlockDup (txs : list Z) (ok : bool)   (* blockchain.CheckDuplicateTx on a block of these txs *)
| SKeys (i : Z) (keys : list N).     (* mempool key function on tx i *)

Fixpoint listN_eqb (a b : list N) : bool :=
  match a, b with
  | [], [] => true
  | x :: a', y :: b' => N.eqb x y && listN_eqb a' b'
  | _, _ => false
  end.

Definition dummy_tx := TX 99 [] [] [] [] [] [] None.

Inductive case :=
| CKeyTab (id : N) (tab : list (list Z))
| CCheck (id : N) (cf : list Z) (ar crc : option (list Z)) (cc : list Z) (ccn ccm : Z) (st : list N)
         (t : txS) (ps : Z) (out : Z)
  (* all signer lists of length <= 3 over [dom], enumerated as the harness does;
     [tab]: sorted index list -> Schnorr script; [outs]: outcome per list; ids base, base+1, ... *)
| CSweep (base : N) (h mc : Z) (dom : list Z) (tab : list (list Z * list Z)) (outs : list Z)
| CHist (id : N) (cf : list Z) (v2rb : bool) (txs : list txS) (ps : Z) (steps : list step).

Definition twelve : list Z := [1;2;3;4;5;6;7;8;9;10;11;12].

Definition sweep_cfg (h mc : Z) : list Z :=
  [h; 4294967295; 4294967295; 4294967295; 0; 100; 0; 0; mc].

Definition sweep_tx (sg : list Z) (aggv : option (list Z)) : txS :=
  TX 2 [] [] [75] (match aggv with Some _ => [CAgg] | None => [] end) sg
     (map (fun i => i + 1) sg) aggv.

Fixpoint insert (x : Z) (l : list Z) : list Z :=
  match l with [] => [x] | y :: r => if x <=? y then x :: l else y :: insert x r end.
Definition sort (l : list Z) : list Z := fold_right insert [] l.



Definition lookup (tab : list (list Z * list Z)) (k : list Z) : option (list Z) :=
  match find (fun e => bytes_eqb (fst e) k) tab with Some e => Some (snd e) | None => None end.

Definition lists_upto3 (dom : list Z) : list (list Z) :=
  [] :: flat_map (fun a => [a] :: flat_map (fun b => [a; b] :: map (fun c => [a; b; c]) dom) dom) dom.

Definition check_one (c : cfg) (e : env) (t : txS) (out : Z) : bool :=
  agg_entry_ok c e t && (out_code (withdraw_check (agg_of t) c e (tx_of t)) =? out).

Fixpoint run_steps (c : cfg) (e : env) (v2rb : bool) (txs : list txS) (st : list N) (steps : list step) : bool :=
  match steps with
  | [] => true
  | s :: r =>
      let tx_i i := nth (Z.to_nat i) txs dummy_tx in
      match s with
      | SCheck i out => check_one c (with_store e st) (tx_i i) out && run_steps c e v2rb txs st r
      | SSave i => run_steps c e v2rb txs (save st (tx_of (tx_i i))) r
      | SRollback i => run_steps c e v2rb txs (rollback v2rb st (tx_of (tx_i i))) r
      | SProbe h b => Bool.eqb (memN h st) b && run_steps c e v2rb txs st r
      | SBlockDup is ok => Bool.eqb (block_dup_ok (map (fun i => tx_of (tx_i i)) is)) ok && run_steps c e v2rb txs st r
      | SKeys i ks => listN_eqb (mempool_keys (tx_of (tx_i i))) ks && run_steps c e v2rb txs st r
      end
  end.

Definition progs_of (t : txS) : list (list Z) := programs (tx_of t).

Fixpoint sweep_bad (c : cfg) (e : env) (tab : list (list Z * list Z)) (k : N)
         (ls : list (list Z)) (outs : list Z) : list N :=
  match ls, outs with
  | [], [] => []
  | sg :: ls', o :: outs' =>
      (if check_one c e (sweep_tx sg (lookup tab (sort sg))) o then [] else [k])
      ++ sweep_bad c e tab (N.succ k) ls' outs'
  | _, _ => [k]   (* lengths differ *)
  end.

Definition check (c : case) : list N :=
  match c with
  | CKeyTab id tab => if keys_eqb tab keytab then [] else [id]
  | CCheck id cf ar crc cc ccn ccm st t ps out =>
      if (psum (progs_of t) =? ps) && check_one (mk_cfg cf) (mk_env ar crc cc ccn ccm st) t out
      then [] else [id]
  | CSweep base h mc dom tab outs =>
      sweep_bad (mk_cfg (sweep_cfg h mc)) (mk_env None None twelve 12 8 []) tab base (lists_upto3 dom) outs
  | CHist id cf v2rb txs ps steps =>
      if (psum (flat_map progs_of txs) =? ps)
         && run_steps (mk_cfg cf) (mk_env None None twelve 12 8 []) v2rb txs [] steps
      then [] else [id]
  end.

Definition mismatches (cs : list case) : list N := flat_map check cs.
