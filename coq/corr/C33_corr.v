(* C33 correspondence: observations of the real WithdrawFromSideChain checks
   (checkTransactionCrossChainUTXO + SpecialContextCheck with a controlled
   arbiter set and a real chain store; Tx3 save/rollback processors;
   CheckDuplicateTx; mempool key function) compared with the model.
   Executable, no proofs. *)
From Coq Require Import ZArith NArith List Bool.
From ELA Require Import model.C33_Withdraw.
Import ListNotations.
Local Open Scope Z_scope.

(* The 64 fixed public keys used by harness/cmd/c33 (compressed P-256 points of
   the private keys sha256("verif-c33-key-<k>"), k = 1..64); the harness sends
   its own derivation as a [CKeyTab] case so a difference is a mismatch. *)
Definition keytab : list (list Z) := [
  [2;134;20;107;56;73;35;177;77;205;4;217;80;4;137;125;219;52;227;153;16;66;15;211;141;119;12;140;34;200;172;24;128];
  [3;240;243;82;2;186;92;246;169;138;220;217;146;140;24;55;40;249;200;160;66;94;26;84;162;45;232;79;105;65;192;131;127];
  [2;17;211;114;77;25;169;119;138;209;120;180;127;100;106;122;117;230;67;16;112;115;14;111;244;186;193;5;209;136;149;177;22];
  [3;239;247;0;18;50;250;113;204;185;77;89;89;242;167;64;182;162;223;194;96;36;86;217;171;241;10;232;106;205;241;47;229];
  [3;168;53;151;107;221;179;135;114;241;127;22;33;179;141;73;112;169;239;28;126;198;18;170;180;237;34;218;27;14;226;158;198];
  [3;179;130;125;197;65;128;132;137;9;161;163;34;18;19;81;47;212;133;73;146;131;9;238;45;79;192;101;102;43;136;150;152];
  [3;101;104;241;192;50;18;120;215;118;105;60;62;213;142;1;181;255;35;247;147;74;86;224;6;67;150;88;160;82;83;125;63];
  [2;198;11;159;194;251;247;94;226;202;187;231;16;192;84;66;6;78;9;170;246;50;101;249;48;89;220;220;86;121;233;92;190];
  [3;100;133;98;183;144;173;39;180;208;102;16;159;239;81;16;137;124;114;4;208;206;129;87;16;255;160;174;1;73;163;195;1];
  [2;177;199;155;173;68;246;137;177;96;185;22;115;55;110;55;150;83;0;158;139;127;9;159;180;2;224;167;166;160;57;162;135];
  [3;129;188;41;243;193;153;8;212;139;84;163;62;25;56;127;181;11;7;242;125;233;143;17;50;210;196;5;24;114;67;231;43];
  [2;158;144;108;153;59;210;26;248;185;210;86;105;37;85;72;10;188;66;178;3;155;68;92;119;136;183;3;90;60;175;211;16];
  [3;42;120;134;249;114;119;123;194;66;202;74;118;3;84;119;217;47;229;156;234;44;133;19;113;68;3;14;192;144;109;21;2];
  [3;36;85;246;124;145;57;175;7;30;66;139;80;221;36;197;242;87;4;175;110;139;73;214;160;154;136;129;172;167;181;51;232];
  [2;156;66;93;91;202;228;220;103;137;255;49;250;48;178;140;141;43;70;132;127;252;142;211;165;55;136;34;239;230;117;230;217];
  [2;112;237;48;183;143;92;194;197;138;76;50;144;230;202;126;183;97;102;37;191;97;67;225;165;51;75;182;189;7;178;253;89];
  [2;158;146;88;99;146;180;110;232;206;39;223;194;207;128;231;196;73;77;219;87;14;3;154;187;210;6;99;177;53;2;247;97];
  [3;232;109;116;89;4;184;174;171;102;56;13;75;147;252;185;151;134;49;203;74;134;149;124;231;133;3;27;174;238;15;234;68];
  [2;30;160;51;89;151;10;126;189;73;84;211;251;140;199;117;71;101;236;121;18;145;146;52;190;103;59;97;160;185;72;155;15];
  [2;194;2;183;41;211;43;231;133;82;6;30;55;174;253;143;205;229;17;115;207;29;244;118;48;126;131;83;19;184;208;91;75];
  [3;158;186;173;149;56;31;146;97;185;89;41;158;219;44;114;201;84;205;127;41;222;100;33;236;219;125;42;157;162;157;97;141];
  [2;1;90;127;96;29;128;119;111;223;10;72;50;114;50;53;10;241;163;73;146;153;68;104;94;250;114;197;73;96;169;140;210];
  [2;243;27;206;242;227;79;115;49;176;242;198;179;186;29;176;26;183;50;238;166;1;140;67;74;156;199;82;75;228;46;91;198];
  [3;91;189;165;197;78;11;153;137;58;41;137;221;179;237;171;76;117;34;69;143;230;170;250;26;59;129;87;29;149;46;158;123];
  [2;34;131;82;36;107;64;66;27;120;209;111;5;42;228;248;91;165;78;65;43;18;132;150;35;32;235;102;181;48;16;249;101];
  [3;162;37;251;102;220;121;139;127;38;62;249;224;188;239;30;29;170;49;137;11;165;162;149;152;21;254;245;234;42;148;163;195];
  [3;40;211;3;226;192;69;180;173;40;73;183;39;243;55;12;167;9;250;219;143;204;214;45;135;200;75;40;54;38;119;125;193];
  [2;243;106;4;23;182;247;5;213;39;34;31;244;242;143;214;126;154;81;88;69;217;62;75;237;217;188;99;146;226;215;180;163];
  [3;179;209;193;68;142;123;179;144;51;149;63;174;111;177;55;191;188;17;147;154;7;209;101;145;110;246;207;111;62;196;40;33];
  [2;229;148;22;155;165;93;86;153;191;58;118;144;227;109;20;94;112;51;102;24;66;108;129;8;104;32;122;228;180;83;42;113];
  [2;255;228;192;97;180;159;201;38;175;137;182;163;96;187;3;225;32;226;83;132;16;203;69;81;235;222;207;226;137;61;191;6];
  [3;214;156;232;80;102;144;192;68;177;221;205;36;225;100;228;140;16;55;69;69;161;140;190;45;123;237;60;159;66;30;150;145];
  [3;64;183;68;29;251;99;93;142;81;55;64;141;21;68;145;243;253;181;4;196;21;11;63;158;207;174;217;163;254;193;249;174];
  [2;39;149;5;138;248;34;79;84;8;243;168;15;133;184;84;91;90;244;138;237;92;21;219;202;137;6;33;226;59;88;58;156];
  [2;112;143;98;101;134;23;1;94;123;166;229;151;35;6;33;32;88;114;237;87;217;143;18;179;75;174;217;80;47;57;111;201];
  [2;37;194;85;5;166;63;238;73;203;82;35;242;200;155;244;251;44;187;137;85;130;25;59;108;255;237;234;193;127;32;110;66];
  [2;173;163;81;247;17;54;242;85;45;107;46;158;27;196;98;198;242;81;240;172;63;142;241;107;224;81;10;246;87;151;122;247];
  [3;163;42;141;241;28;28;224;134;160;251;54;236;42;180;197;99;238;118;210;8;46;62;41;178;170;143;115;170;43;86;132;56];
  [2;120;212;159;241;61;217;174;132;166;226;153;129;67;210;204;17;254;47;215;162;203;182;128;106;205;122;221;255;194;2;43;163];
  [3;255;5;113;86;78;225;210;104;114;109;21;171;125;203;186;196;23;139;208;48;65;177;215;156;158;239;84;50;182;234;43;3];
  [2;12;88;98;42;131;11;28;68;100;129;241;155;115;163;119;173;21;123;146;74;155;86;189;61;159;191;36;60;227;129;171;90];
  [3;249;244;178;197;241;51;163;122;184;220;234;231;112;144;209;148;50;249;179;135;242;10;46;20;223;208;223;180;24;186;150;54];
  [2;179;252;9;252;92;94;48;176;176;255;174;44;197;246;131;125;32;104;222;101;185;42;142;179;0;149;81;150;202;147;1;79];
  [2;90;114;28;152;139;32;40;152;7;218;150;79;167;11;191;59;142;208;227;241;74;58;41;62;1;176;253;133;172;60;157;36];
  [2;238;248;145;185;60;146;107;167;8;202;134;165;116;172;168;11;216;216;75;253;225;2;88;71;198;9;56;61;249;49;126;121];
  [2;117;95;137;64;75;85;179;107;201;127;2;234;151;128;74;229;99;185;178;248;123;82;197;228;114;214;185;126;195;71;190;73];
  [2;27;227;93;95;163;14;232;209;18;212;243;191;166;171;45;221;80;139;21;168;186;192;18;23;17;187;99;36;93;142;51;18];
  [2;91;107;102;165;93;34;251;143;250;6;238;44;153;68;230;195;74;8;105;75;138;12;190;187;11;181;180;117;61;137;205;45];
  [3;216;16;104;93;81;68;142;112;68;93;231;24;132;63;9;255;78;240;159;249;110;228;170;170;60;200;147;64;83;47;62;115];
  [2;121;150;215;233;184;122;76;53;16;220;202;110;250;119;27;221;81;206;38;243;34;70;157;40;85;241;167;222;11;202;94;252];
  [3;171;227;24;173;211;181;24;199;240;190;144;225;115;8;70;36;10;134;61;5;216;69;165;31;59;45;252;193;224;37;246;99];
  [3;14;199;52;238;72;64;177;138;230;197;104;140;31;40;22;176;171;214;249;57;71;159;107;21;127;121;243;131;107;40;212;0];
  [3;22;15;186;42;183;149;252;68;107;240;11;181;69;124;74;145;71;72;109;45;203;221;39;134;12;15;231;166;217;81;217;253];
  [2;160;97;182;250;167;211;97;52;189;155;209;34;109;62;132;21;206;94;88;112;211;115;235;203;228;183;171;66;23;170;134;188];
  [2;67;102;141;168;187;169;211;145;252;26;161;254;210;228;100;102;177;119;30;111;139;70;137;6;122;13;138;131;206;53;172;226];
  [3;115;236;163;144;136;98;229;235;20;210;186;237;72;28;242;8;122;169;64;150;206;177;85;159;92;42;69;166;105;212;194;83];
  [3;238;60;113;179;182;12;204;33;8;249;157;43;187;191;175;235;139;77;21;60;67;148;3;67;232;145;211;178;182;237;17;125];
  [2;100;119;227;37;14;26;95;150;130;146;137;1;64;92;20;170;115;184;70;41;98;116;0;156;98;23;226;190;71;229;98;187];
  [3;218;141;62;105;190;11;181;92;161;146;84;166;161;27;244;59;236;241;251;83;19;235;135;72;74;90;152;126;33;108;53;33];
  [3;16;30;52;97;163;183;68;133;112;165;162;179;171;51;127;95;84;253;186;21;28;101;149;78;1;48;141;25;116;169;203;86];
  [3;76;116;154;195;25;204;179;182;19;92;110;125;173;85;188;184;161;100;209;222;45;191;102;86;163;117;202;225;197;114;214;188];
  [2;174;247;239;153;116;143;222;201;127;98;49;236;165;12;2;102;13;78;181;69;241;29;122;75;60;53;155;180;145;126;6;181];
  [3;15;206;81;197;225;233;130;55;68;252;30;30;116;198;110;73;179;137;161;16;60;163;125;169;135;182;168;43;231;144;67;215];
  [3;199;23;174;163;31;177;113;89;48;105;92;106;61;133;141;164;39;66;126;158;3;231;103;39;191;31;18;246;182;216;247;153]
].

Definition keybytes (k : Z) : list Z :=
  if (1 <=? k) && (k <=? 64) then nth (Z.to_nat (k - 1)) keytab []
  else repeat (k mod 256) 33.   (* ids outside the table: 33 equal bytes (not a curve point; never an arbiter) *)

(* Compact encodings (a numeral costs ~0.4 ms to parse, so cases are kept short):
   - program codes are sent structurally and expanded here; [psum] guards the
     expansion against the bytes the Go side really used;
   - a script key is [push*1000 + key id];
   - an arbiter is its key id, negative when IsNormal = false. *)
Inductive codeS :=
| CS (mb : Z) (ks : list Z) (nb lb : Z)   (* m byte, (push byte*1000 + key id)*, n byte, last byte *)
| CAgg                                    (* the bytes of the oracle entry [aggv] of the same tx *)
| CRaw (raw : list Z).

Definition expand (aggv : option (list Z)) (c : codeS) : list Z :=
  match c with
  | CS mb ks nb lb => mb :: flat_map (fun pk => (pk / 1000) :: keybytes (pk mod 1000)) ks ++ [nb; lb]
  | CAgg => match aggv with Some s => s | None => [] end
  | CRaw r => r
  end.

Definition bsum (l : list Z) : Z := fold_left (fun a b => (a * 31 + b + 1) mod 1000000007) l 7.
Definition psum (ps : list (list Z)) : Z := bsum (flat_map (fun p => 300 :: p) ps).

Inductive txS :=
| TX (pv : Z) (ph : list N) (oh : list (option N)) (refs : list Z) (progs : list codeS)
     (sg : list Z) (aggk : list Z) (aggv : option (list Z)).

Definition tx_of (t : txS) : tx :=
  match t with
  | TX pv ph oh refs progs sg _ aggv =>
      {| pver := pv; payload_hashes := ph; out_hashes := oh; ref_prefixes := refs;
         programs := map (expand aggv) progs; signers := sg |}
  end.

Fixpoint keys_eqb (a b : list (list Z)) : bool :=
  match a, b with
  | [], [] => true
  | x :: a', y :: b' => bytes_eqb x y && keys_eqb a' b'
  | _, _ => false
  end.

(* the oracle table of one entry the harness computed with crypto.AggregatePublickeys +
   DecodePoint + CreateSchnorrRedeemScript for the key ids [aggk] *)
Definition agg_of (t : txS) : list (list Z) -> option (list Z) :=
  match t with
  | TX _ _ _ _ _ _ aggk aggv => fun ks => if keys_eqb ks (map keybytes aggk) then aggv else Some [0]
  end.

(* the model must query the oracle exactly at the entry supplied *)
Definition agg_entry_ok (c : cfg) (e : env) (t : txS) : bool :=
  match t with
  | TX pv _ _ _ _ sg aggk _ =>
      if pv =? 2 then
        match collect (validate_indexes c) (cc_arbs e) [] sg [] with
        | CKeys ks => keys_eqb ks (map keybytes aggk)
        | CReject => true
        end
      else true
  end.

Definition mk_cfg (l : list Z) : cfg :=
  {| height := nth 0 l 0; schnorr_start := nth 1 l 0; cr_claim_start := nth 2 l 0;
     dpos_cc_height := nth 3 l 0; freeze_height := nth 4 l 0; restriction_height := nth 5 l 0;
     normal_arbiters_count := nth 6 l 0; cr_agreement_count := nth 7 l 0; member_count := nth 8 l 0 |}.

Definition mk_arbs (l : list Z) : list arbiter :=
  map (fun k => {| a_key := keybytes (Z.abs k); a_normal := 0 <? k |}) l.

(* [ar]/[crc] = None: the same list as [cc] *)
Definition mk_env (ar crc : option (list Z)) (cc : list Z) (ccn ccm : Z) (st : list N) : env :=
  {| arbs := mk_arbs (match ar with Some l => l | None => cc end);
     crc_arbs := mk_arbs (match crc with Some l => l | None => cc end);
     cc_arbs := mk_arbs cc; cc_count := ccn; cc_majority := ccm; tx3 := st |}.

Definition out_code (o : outcome) : Z := match o with Accept => 0 | Reject => 1 | Panic => 2 end.

Inductive step :=
| SCheck (i : Z) (out : Z)           (* policy + SpecialContextCheck of tx i against the store as it is now *)
| SSave (i : Z)                      (* run GetSaveProcessor of tx i in a database transaction *)
| SRollback (i : Z)                  (* run GetRollbackProcessor of tx i *)
| SProbe (h : N) (b : bool)          (* IsSidechainTxHashDuplicate h *)
| SBlockDup (txs : list Z) (ok : bool)   (* blockchain.CheckDuplicateTx on a block of these txs *)
| SKeys (i : Z) (keys : list N).     (* mempool key function on tx i *)

Fixpoint listN_eqb (a b : list N) : bool :=
  match a, b with
  | [], [] => true
  | x :: a', y :: b' => N.eqb x y && listN_eqb a' b'
  | _, _ => false
  end.

Definition dummy_tx := TX 99 [] [] [] [] [] [] None.

Inductive case :=
| CKeyTab (id : N) (tab : list (list Z))
| CCheck (id : N) (cf : list Z) (ar crc : option (list Z)) (cc : list Z) (ccn ccm : Z) (st : list N)
         (t : txS) (ps : Z) (out : Z)
  (* all signer lists of length <= 3 over [dom], enumerated as the harness does;
     [tab]: sorted index list -> Schnorr script; [outs]: outcome per list; ids base, base+1, ... *)
| CSweep (base : N) (h mc : Z) (cc : list Z) (dom : list Z) (tab : list (list Z * list Z)) (outs : list Z)
| CHist (id : N) (cf : list Z) (v2rb : bool) (txs : list txS) (ps : Z) (steps : list step).

Definition twelve : list Z := [1;2;3;4;5;6;7;8;9;10;11;12].

Definition sweep_cfg (h mc : Z) : list Z :=
  [h; 4294967295; 4294967295; 4294967295; 100; 100; 0; 0; mc].   (* freeze = restriction = 100: below it the legacy path runs *)

Definition sweep_tx (cc : list Z) (sg : list Z) (aggv : option (list Z)) : txS :=
  TX 2 [] [] [75] (match aggv with Some _ => [CAgg] | None => [] end) sg
     (map (fun i => Z.abs (nth (Z.to_nat i) cc 0)) sg) aggv.

Fixpoint insert (x : Z) (l : list Z) : list Z :=
  match l with [] => [x] | y :: r => if x <=? y then x :: l else y :: insert x r end.
Definition sort (l : list Z) : list Z := fold_right insert [] l.



Definition lookup (tab : list (list Z * list Z)) (k : list Z) : option (list Z) :=
  match find (fun e => bytes_eqb (fst e) k) tab with Some e => Some (snd e) | None => None end.

Definition lists_upto3 (dom : list Z) : list (list Z) :=
  [] :: flat_map (fun a => [a] :: flat_map (fun b => [a; b] :: map (fun c => [a; b; c]) dom) dom) dom.

Definition check_one (c : cfg) (e : env) (t : txS) (out : Z) : bool :=
  agg_entry_ok c e t && (out_code (withdraw_check (agg_of t) c e (tx_of t)) =? out).

Fixpoint run_steps (c : cfg) (e : env) (v2rb : bool) (txs : list txS) (st : list N) (steps : list step) : bool :=
  match steps with
  | [] => true
  | s :: r =>
      let tx_i i := nth (Z.to_nat i) txs dummy_tx in
      match s with
      | SCheck i out => check_one c (with_store e st) (tx_i i) out && run_steps c e v2rb txs st r
      | SSave i => run_steps c e v2rb txs (save st (tx_of (tx_i i))) r
      | SRollback i => run_steps c e v2rb txs (rollback v2rb st (tx_of (tx_i i))) r
      | SProbe h b => Bool.eqb (memN h st) b && run_steps c e v2rb txs st r
      | SBlockDup is ok => Bool.eqb (block_dup_ok (map (fun i => tx_of (tx_i i)) is)) ok && run_steps c e v2rb txs st r
      | SKeys i ks => listN_eqb (mempool_keys (tx_of (tx_i i))) ks && run_steps c e v2rb txs st r
      end
  end.

Definition progs_of (t : txS) : list (list Z) := programs (tx_of t).

Fixpoint sweep_bad (c : cfg) (e : env) (cc : list Z) (tab : list (list Z * list Z)) (k : N)
         (ls : list (list Z)) (outs : list Z) : list N :=
  match ls, outs with
  | [], [] => []
  | sg :: ls', o :: outs' =>
      (if check_one c e (sweep_tx cc sg (lookup tab (sort sg))) o then [] else [k])
      ++ sweep_bad c e cc tab (N.succ k) ls' outs'
  | _, _ => [k]   (* lengths differ *)
  end.

Definition check (c : case) : list N :=
  match c with
  | CKeyTab id tab => if keys_eqb tab keytab then [] else [id]
  | CCheck id cf ar crc cc ccn ccm st t ps out =>
      if (psum (progs_of t) =? ps) && check_one (mk_cfg cf) (mk_env ar crc cc ccn ccm st) t out
      then [] else [id]
  | CSweep base h mc cc dom tab outs =>
      sweep_bad (mk_cfg (sweep_cfg h mc)) (mk_env None None cc (zlen cc) 8 []) cc tab base (lists_upto3 dom) outs
  | CHist id cf v2rb txs ps steps =>
      if (psum (flat_map progs_of txs) =? ps)
         && run_steps (mk_cfg cf) (mk_env None None twelve 12 8 []) v2rb txs [] steps
      then [] else [id]
  end.

Definition mismatches (cs : list case) : list N := flat_map check cs.
