(* C31 correspondence.  Single cases and exhaustive sweeps: a sweep case fixes
   (type, heights) and carries, as runs over the payload versions 0..255, the
   bit mask of verdicts over all reference-prefix lists of length <= maxlen over
   an alphabet (bit i = verdict for the i-th list in the order of [mixes]). *)
From Coq Require Import ZArith Bool List.
From ELA Require Import model.C31_CrossChain.
Import ListNotations.
Local Open Scope Z_scope.

Inductive case :=
| CCheck (id : N) (tt pv : Z) (prefixes : list Z) (h fh rh : Z) (ok : bool)
| CSweep (id : N) (tt h fh rh : Z) (alphabet : list Z) (maxlen : N)
         (runs : list (Z * Z * Z))        (* (pv_lo, pv_hi, mask) *)
| CEnforce (id : N) (name : list Z) (cfg_fh cfg_rh out_fh out_rh : Z).

Fixpoint lists_of_len (al : list Z) (n : nat) : list (list Z) :=
  match n with
  | O => [[]]
  | S n' => flat_map (fun a => map (cons a) (lists_of_len al n')) al
  end.

Definition mixes (al : list Z) (maxlen : nat) : list (list Z) :=
  flat_map (lists_of_len al) (seq O (S maxlen)).

(* mask of verdicts, bit i for the i-th mix *)
Definition mask_of (f : list Z -> bool) (ms : list (list Z)) : Z :=
  fst (fold_left (fun '(acc, w) m => ((if f m then acc + w else acc), 2 * w)) ms (0, 1)).

Fixpoint find_run (runs : list (Z * Z * Z)) (pv : Z) : option Z :=
  match runs with
  | [] => None
  | (lo, hi, m) :: r => if (lo <=? pv) && (pv <=? hi) then Some m else find_run r pv
  end.

Definition sweep_ok tt h fh rh al maxlen runs : bool :=
  let ms := mixes al (N.to_nat maxlen) in
  forallb (fun pvn =>
    let pv := Z.of_nat pvn in
    match find_run runs pv with
    | Some m => mask_of (fun px => check_crosschain tt pv px h fh rh) ms =? m
    | None => false
    end) (seq O 256%nat).

Definition check (c : case) : option N :=
  match c with
  | CCheck id ty pv px h fh rh ok =>
      if Bool.eqb (check_crosschain ty pv px h fh rh) ok then None else Some id
  | CSweep id ty h fh rh al maxlen runs =>
      if sweep_ok ty h fh rh al maxlen runs then None else Some id
  | CEnforce id name cfh crh ofh orh =>
      let '(f, r) := enforce_heights name cfh crh in
      if (f =? ofh) && (r =? orh) then None else Some id
  end.

Definition mismatches (cs : list case) : list N :=
  flat_map (fun c => match check c with Some i => [i] | None => [] end) cs.
