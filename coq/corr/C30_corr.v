(* C30 correspondence: same history format and replay as C12 (the LIH after
   every delivery and the active chain are compared with model/Chain.v). *)
From Coq Require Import ZArith NArith Bool List.
From ELA Require Import model.Chain corr.C12_corr.
Import ListNotations.

Definition B := C12_corr.B.
Definition case := C12_corr.case.
Definition Hist := C12_corr.Hist.
Definition mismatches (cs : list case) : list N := C12_corr.mismatches cs.
Definition GuardGrid := C12_corr.GuardGrid.
