(* C29 correspondence: traces observed on the Go implementation (real
   SpecialContextCheck verdicts, real CheckDuplicateTx, real SortTransactions
   order, real Committee.ProcessBlock), compared block by block with the model
   by vm_compute.  Executable, no proofs. *)
From Coq Require Import ZArith Bool List.
From ELA Require Import model.C29_Budget.
Import ListNotations.
Local Open Scope Z_scope.

(* per proposal: status, withdrawable, withdrawn, budget status, tracking
   count, final-payment flag, voters' reject amount, number of approvals *)
Record pobs := { o_status : Z; o_wable : list (Z * Z); o_wn : list (Z * Z); o_bstat : list (Z * Z);
                 o_track : Z; o_final : bool; o_reject : Z; o_appr : Z }.
Record obs := { o_used : Z; o_props : list (Z * pobs); o_paid : Z (* number of payment events *) }.

Record blk := {
  k_thr : Z;
  k_cands : list (tx * bool);   (* candidates in block order with Go's check verdict *)
  k_dup : bool;                 (* CheckDuplicateTx accepted the block of accepted candidates *)
  k_order : list Z;             (* SortTransactions order, as indices into the accepted list *)
  k_obs : obs                   (* after the block *)
}.

Inductive case := CTrace (id : N) (C : cfg) (stage used0 comm h0 : Z) (blocks : list blk).

Fixpoint zz_eqb (a b : list (Z * Z)) : bool :=
  match a, b with
  | [], [] => true
  | (x, y) :: r, (x', y') :: r' => (x =? x') && (y =? y') && zz_eqb r r'
  | _, _ => false
  end.
Fixpoint z_eqb (a b : list Z) : bool :=
  match a, b with
  | [], [] => true
  | x :: r, x' :: r' => (x =? x') && z_eqb r r'
  | _, _ => false
  end.

Definition pobs_eqb (p : prop) (o : pobs) : bool :=
  (p_status p =? o_status o) && zz_eqb (p_wable p) (o_wable o) && zz_eqb (p_wn p) (o_wn o) &&
  zz_eqb (p_bstat p) (o_bstat o) && (p_track p =? o_track o) && Bool.eqb (p_final p) (o_final o) &&
  (p_reject p =? o_reject o) && (approvals p =? o_appr o).

Fixpoint props_eqb (ps : list (Z * prop)) (os : list (Z * pobs)) : bool :=
  match ps, os with
  | [], [] => true
  | (k, p) :: r, (k', o) :: r' => (k =? k') && pobs_eqb p o && props_eqb r r'
  | _, _ => false
  end.

Definition obs_eqb (S : st) (o : obs) : bool :=
  (used S =? o_used o) && props_eqb (props S) (o_props o) && (Z.of_nat (length (paid S)) =? o_paid o).

(* verdicts of the candidates, proposalsUsedAmount accumulating over the
   accepted registrations; returns (all verdicts agree, accepted list) *)
Fixpoint walk (C : cfg) (S : st) (pu : Z) (cs : list (tx * bool)) : bool * list tx :=
  match cs with
  | [] => (true, [])
  | (t, v) :: r =>
      let mv := check_tx C S pu t in
      let pu' := if v then match t with TReg _ bs => pu + total bs | _ => pu end else pu in
      let '(ok, acc) := walk C S pu' r in
      (Bool.eqb mv v && ok, if v then t :: acc else acc)
  end.

Fixpoint index_from (i : Z) (l : list tx) : list (Z * tx) :=
  match l with [] => [] | t :: r => (i, t) :: index_from (i + 1) r end.
Definition go_order (acc : list tx) : list Z :=
  let il := index_from 0 acc in
  map fst (rev (filter (fun it => is_withdraw (snd it)) il) ++
           rev (filter (fun it => negb (is_withdraw (snd it))) il)).

Definition do_blk (C : cfg) (S : st) (b : blk) : bool * st :=
  let '(ok, acc) := walk C S 0 (k_cands b) in
  let dupm := dup_ok acc in
  let S' := if k_dup b then apply_block C go_sort S (k_thr b) acc
            else S in
  (ok && Bool.eqb dupm (k_dup b) &&
   (if k_dup b then z_eqb (go_order acc) (k_order b) && check_all C S 0 acc else true) &&
   obs_eqb S' (k_obs b), S').

Fixpoint do_blks (C : cfg) (S : st) (bs : list blk) : bool :=
  match bs with
  | [] => true
  | b :: r => let '(ok, S') := do_blk C S b in ok && do_blks C S' r
  end.

Definition check (c : case) : option N :=
  match c with
  | CTrace id C stage used0 comm h0 blocks =>
      if do_blks C (init stage used0 comm h0) blocks then None else Some id
  end.

Definition mismatches (cs : list case) : list N :=
  flat_map (fun c => match check c with Some i => [i] | None => [] end) cs.
