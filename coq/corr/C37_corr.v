(* C37 correspondence: wallet-built programs (layout), wallet-signed
   transactions through the node's check (C05 model and oracle tables),
   address codec with the executable SHA-256d of lib/Sha256.v as the hash,
   amount codec.  Evaluated by vm_compute against observations of the Go code. *)
From Coq Require Import ZArith NArith Bool List Uint63.
From ELA Require Import lib.Sha256 model.C05_Sig model.C37_Wallet corr.C05_corr.
Import ListNotations.
Local Open Scope Z_scope.

Definition sha256d_z (l : bytes) : bytes := map Z.of_N (Sha256.sha256d (map Z.to_N l)).

Fixpoint beq_list (a b : list bytes) : bool :=
  match a, b with
  | [], [] => true
  | x :: a', y :: b' => beq x y && beq_list a' b'
  | _, _ => false
  end.

Inductive case :=
| CNode (c : C05_corr.case)                                      (* wallet-signed tx / mutated data through the node's check *)
| CStd (id : N) (key sig code param : bytes)                     (* SignStandardTransaction layout *)
| CMultiShape (id : N) (m : Z) (keys sigs : list bytes) (code param : bytes)   (* multisig account + AppendSignature layout *)
| CSchnorrShape (id : N) (aggkey sig code param : bytes)
| CAddr (id : N) (u addr : bytes)                                (* ToAddress *)
| CFrom (id : N) (s : bytes) (ok : bool) (out : bytes)           (* Uint168FromAddress: ok / (error or panic) *)
| CFix (id : N) (f : Z) (str : bytes)                            (* Fixed64.String *)
| CParse (id : N) (s : bytes) (ok : bool) (v : Z)                (* StringToFixed64 *)
| CBlob (id : N) (xy d blob reloaded : bytes).                   (* SaveAccount blob, private key after LoadAccounts *)

Definition check (c : case) : option N :=
  match c with
  | CNode c' => C05_corr.check c'
  | CStd id key sig code param =>
    let '(c0, p0) := sign_standard (fun _ _ => sig) key [] in
    if beq c0 code && beq p0 param then None else Some id
  | CMultiShape id m keys sigs code param =>
    if beq (multi_code m keys) code && beq (concat (map (fun s => len s :: s) sigs)) param then None else Some id
  | CSchnorrShape id k sig code param =>
    let '(c0, p0) := sign_schnorr k sig in
    if beq c0 code && beq p0 param then None else Some id
  | CAddr id u addr => if beq (to_address sha256d_z u) addr then None else Some id
  | CFrom id s ok out =>
    match from_address sha256d_z true s with
    | AOk h => if ok && beq h out then None else Some id
    | AErr => if ok then Some id else None
    | APanic => Some id
    end
  | CFix id f str => if beq (fixed64_string f) str then None else Some id
  | CBlob id xy d blob re =>
    if beq (key_blob xy d) blob && beq (blob_priv blob) re then None else Some id
  | CParse id s ok v =>
    match string_to_fixed64 true s with
    | Some x => if ok && (x =? v) then None else Some id
    | None => if ok then Some id else None
    end
  end.

Definition mismatches (cs : list case) : list N :=
  flat_map (fun c => match check c with Some i => [i] | None => [] end) cs.
