(* C39 correspondence: cases observed on bloom.MurmurHash3 / bloom.Filter /
   bloom.TxFilter, compared with the model by vm_compute. *)
From Coq Require Import NArith List Bool.
From ELA Require Import model.C39_Bloom.
Import ListNotations.
Local Open Scope N_scope.

Fixpoint list_eqb (a b : list N) : bool :=
  match a, b with
  | [], [] => true
  | x :: a', y :: b' => (x =? y) && list_eqb a' b'
  | _, _ => false
  end.

(* filter bytes given as a length and the non-zero bytes (position, value) *)
Definition mk_bytes (len : N) (nz : list (N * N)) : list N :=
  fold_left (fun bs p => upd bs (N.to_nat (fst p)) (fun _ => snd p)) nz (repeat 0 (N.to_nat len)).

Fixpoint nz_of (i : N) (bs : list N) : list (N * N) :=
  match bs with
  | [] => []
  | b :: r => if b =? 0 then nz_of (i + 1) r else (i, b) :: nz_of (i + 1) r
  end.

Fixpoint nz_eqb (a b : list (N * N)) : bool :=
  match a, b with
  | [], [] => true
  | (i, x) :: a', (j, y) :: b' => (i =? j) && (x =? y) && nz_eqb a' b'
  | _, _ => false
  end.

Definition mk_filter (len : N) (nz : list (N * N)) (hf tw : N) (types : list N) : filter :=
  mkFilter (mk_bytes len nz) hf tw types.

(* byte strings of a scenario are interned in a table [elems]; operations
   refer to them by position (keeps the case files small) *)
Inductive op :=
| OAdd (d : N)                            (* Add / AddHash / AddOutPoint *)
| OMatch (d : N) (r : bool)               (* Matches / MatchesOutPoint *)
| OTx (h ty : N) (outs ins : list N) (r : bool)  (* MatchTxAndUpdate / MatchConfirmed *)
| OState (len : N) (nz : list (N * N)).   (* the filter bytes now *)

Inductive case :=
| CMurmur (id seed : N) (data : list N) (out : N)
| COutPoint (id : N) (h : list N) (i : N) (out : list N)
| CSeq (id : N) (f : filter) (panicked : bool) (elems : list (list N)) (ops : list op).

Definition el (elems : list (list N)) (k : N) : list N := nth (N.to_nat k) elems [].

Fixpoint run_ops (elems : list (list N)) (f : filter) (ops : list op) : bool :=
  match ops with
  | [] => true
  | OAdd d :: r => run_ops elems (add murmur3 f (el elems d)) r
  | OMatch d b :: r => Bool.eqb (matches murmur3 f (el elems d)) b && run_ops elems f r
  | OTx h ty outs ins b :: r =>
      let t := mkTx (el elems h) ty (map (el elems) outs) (map (el elems) ins) in
      let '(f', m) := match_tx_and_update murmur3 f t in
      Bool.eqb m b && run_ops elems f' r
  | OState len nz :: r =>
      (blen (fbytes f) =? len) && nz_eqb (nz_of 0 (fbytes f)) nz && run_ops elems f r
  end.

Definition check (c : case) : option N :=
  match c with
  | CMurmur id seed data out => if murmur3 seed data =? out then None else Some id
  | COutPoint id h i out => if list_eqb (outpoint_bytes h i) out then None else Some id
  | CSeq id f p elems ops =>
      if panics f then (if p then None else Some id)
      else if p then Some id
      else if run_ops elems f ops then None else Some id
  end.

Definition mismatches (cs : list case) : list N :=
  flat_map (fun c => match check c with Some i => [i] | None => [] end) cs.
