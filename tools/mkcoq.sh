#!/bin/sh
# (re)generate coq/_CoqProject and coq/Makefile from the files present
set -e
cd "$(dirname "$0")/../coq"
{ echo "-Q . ELA"; echo "-arg -w -arg -deprecated-hint-rewrite-without-locality,-deprecated-instance-without-locality,-notation-overridden"; ls lib/*.v model/*.v corr/*.v proof/*.v props/*.v gen/*.v 2>/dev/null | LC_ALL=C sort; } > _CoqProject.new
if ! cmp -s _CoqProject.new _CoqProject 2>/dev/null || [ ! -f Makefile ]; then
  mv _CoqProject.new _CoqProject
  coq_makefile -f _CoqProject -o Makefile >/dev/null
else
  rm -f _CoqProject.new
fi
