#!/usr/bin/env python3
"""Run every registered check (quick by default) sequentially and print a summary table."""
import json, os, subprocess, sys, time
ROOT = os.path.dirname(os.path.dirname(os.path.abspath(__file__)))
tier = sys.argv[1] if len(sys.argv) > 1 else "quick"
only = sys.argv[2:]
man = json.load(open(os.path.join(ROOT, "MANIFEST.json")))
rows = []
for c in man["checks"]:
    pid = c["property_id"]
    if only and pid not in only: continue
    t0 = time.time()
    p = subprocess.run(["python3", "tools/check.py", pid, "--tier", tier], cwd=ROOT, stdout=subprocess.PIPE, stderr=subprocess.STDOUT, text=True)
    lines = p.stdout.strip().split("\n")
    viol = [l for l in lines if l.startswith("VIOLATION")]
    kf = [l for l in lines if l.startswith("KNOWN-FINDING")]
    rows.append((pid, p.returncode, round(time.time() - t0), len(kf), viol[0] if viol else lines[-1][:110]))
    print("%s rc=%d %4ds known=%d %s" % rows[-1], flush=True)
bad = [r for r in rows if r[1] != 0]
print("\n%d checks, %d failing: %s" % (len(rows), len(bad), " ".join(r[0] for r in bad)))
