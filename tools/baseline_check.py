#!/usr/bin/env python3
"""Run /repo's pinned test suite with the verif guard OFF and compare with BASELINE.json's stable_pass set."""
import json, os, subprocess, sys
env = dict(os.environ, GOFLAGS="-mod=mod", GOPROXY="off", GOSUMDB="off", GOTOOLCHAIN="local")
out = sys.argv[1] if len(sys.argv) > 1 else "/verif/work/baseline.gotest.json"
repo = sys.argv[2] if len(sys.argv) > 2 else "/repo"
with open(out, "w") as f:
    subprocess.run(["go", "test", "-json", "-vet=off", "-count=1", "-timeout", "25m", "./..."], cwd=repo, env=env, stdout=f, stderr=subprocess.STDOUT)
res = {}
for line in open(out, errors="replace"):
    try: e = json.loads(line)
    except Exception: continue
    if e.get("Test") and e.get("Action") in ("pass", "fail", "skip"):
        res[e["Package"] + "::" + e["Test"]] = e["Action"]
base = json.load(open("/root/.vp/BASELINE.json"))
missing = [t for t in base["stable_pass"] if res.get(t) != "pass"]
print("baseline stable_pass:", len(base["stable_pass"]), "passing now:", len(base["stable_pass"]) - len(missing))
for t in missing: print("  NOT PASSING:", t, res.get(t))
