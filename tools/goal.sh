#!/bin/sh
# usage: goal.sh file.v LINE  -- show the goal just before LINE (1-based)
f=$1; n=$2
head -n $((n-1)) "$f" > /tmp/_goal.v
printf '\nShow.\nAbort.\n' >> /tmp/_goal.v
cd /verif/coq && coqc -Q . ELA /tmp/_goal.v 2>&1 | tail -${3:-40}
rm -f /tmp/_goal.vo /tmp/_goal.glob /tmp/._goal.aux /tmp/_goal.vok /tmp/_goal.vos
