#!/bin/sh
# usage: goal.sh file.v LINE [N] -- show the goal just before LINE (1-based), last N lines of output (default 60)
f=$1; n=$2
t=$(mktemp -d /tmp/goal.XXXXXX)
head -n $((n-1)) "$f" > $t/g_goal.v
printf '\nShow.\nAbort.\n' >> $t/g_goal.v
cd /verif/coq && coqc -Q . ELA $t/g_goal.v 2>&1 | tail -${3:-60}
rm -rf $t
