#!/usr/bin/env python3
"""Driver for one property check (see DESIGN.md sections 2-4).

  tools/check.py Cxx [--tier quick|thorough] [--replay FILE]

Pipeline: hygiene grep -> build the Go harness for the property from /repo's
working tree (-tags verif) -> run it (implementation observations, Coq case
shards, optional translator output in coq/gen, property oracle) -> rebuild the
Coq proof obligations of props/Cxx.v -> evaluate the shards with coqc
(model vs implementation) -> decide, write evidence/Cxx.json.

Exit 0: property held on everything explored (KNOWN-FINDING lines possible).
Exit 1: a line "VIOLATION property=Cxx replay=<path>[ no-failing-input-found]".
"""
import argparse, fcntl, glob, json, os, re, shutil, subprocess, sys, time
from concurrent.futures import ThreadPoolExecutor

ROOT = os.path.dirname(os.path.dirname(os.path.abspath(__file__)))
COQ = os.path.join(ROOT, "coq")
HARNESS = os.path.join(ROOT, "harness")
REPO = os.environ.get("VERIF_REPO", "/repo")   # a scratch worktree may be substituted for mutation testing only
SCRATCH = REPO != "/repo"
GOENV = dict(os.environ, GOFLAGS="-mod=mod", GOPROXY="off", GOSUMDB="off", GOTOOLCHAIN="local",
             CGO_ENABLED=os.environ.get("CGO_ENABLED", "0"))

FORBIDDEN = re.compile(r"\b(Admitted|admit|Axiom|Axioms|Parameter|Parameters|Conjecture|Conjectures|"
                       r"Unset\s+Guard|bypass_check|Admit\s+Obligations|native_compute)\b|"
                       r"-type-in-type|-impredicative-set|Unset\s+Universe\s+Checking|Unset\s+Positivity")


def sh(cmd, cwd=None, timeout=None, env=None):
    t0 = time.time()
    try:
        p = subprocess.run(cmd, cwd=cwd, env=env, timeout=timeout, stdout=subprocess.PIPE,
                           stderr=subprocess.STDOUT, text=True, errors="replace")
        return p.returncode, p.stdout, time.time() - t0
    except subprocess.TimeoutExpired as e:
        out = e.stdout if isinstance(e.stdout, str) else (e.stdout or b"").decode(errors="replace")
        return 124, out + "\n[timeout]", time.time() - t0


class Lock:
    def __init__(self, name):
        os.makedirs(os.path.join(ROOT, "work"), exist_ok=True)
        self.path = os.path.join(ROOT, "work", name)

    def __enter__(self):
        self.f = open(self.path, "w")
        fcntl.flock(self.f, fcntl.LOCK_EX)

    def __exit__(self, *a):
        fcntl.flock(self.f, fcntl.LOCK_UN)
        self.f.close()


def strip_comments(src):
    out, depth, i = [], 0, 0
    while i < len(src):
        if src.startswith("(*", i):
            depth += 1; i += 2
        elif src.startswith("*)", i) and depth:
            depth -= 1; i += 2
        else:
            if not depth:
                out.append(src[i])
            i += 1
    return "".join(out)


def hygiene():
    bad = []
    for f in glob.glob(os.path.join(COQ, "**", "*.v"), recursive=True):
        src = strip_comments(open(f, errors="replace").read())
        # Variable/Hypothesis are allowed only inside a Section
        depth = 0
        for ln, line in enumerate(src.split("\n"), 1):
            if re.match(r"\s*Section\b", line): depth += 1
            if re.match(r"\s*End\b", line) and depth: depth -= 1
            if FORBIDDEN.search(line):
                bad.append("%s:%d: %s" % (os.path.relpath(f, ROOT), ln, line.strip()))
            if depth == 0 and re.match(r"\s*(Variable|Variables|Hypothesis|Hypotheses|Context)\b", line):
                bad.append("%s:%d: %s (outside a Section)" % (os.path.relpath(f, ROOT), ln, line.strip()))
    for f in (os.path.join(COQ, "_CoqProject"),):
        if os.path.exists(f) and re.search(r"type-in-type|impredicative-set|-vos", open(f).read()):
            bad.append("_CoqProject: forbidden flag")
    return bad


def load_known(pid):
    known, fixed = [], []
    p = os.path.join(ROOT, "known_findings.jsonl")
    if os.path.exists(p):
        for line in open(p):
            line = line.strip()
            if not line or line.startswith("#"):
                continue
            if line.startswith("fixed:"):
                fixed.append(line); continue
            e = json.loads(line)
            if e.get("property") == pid:
                (known if e.get("status", "known") == "known" else fixed).append(e)
    return known, fixed


def coq_build(pid, meta, log):
    """(re)build props/<pid>.vo; returns (ok, obligations, discharged, axioms, output)"""
    props = meta.get("props_file", "props/%s.v" % pid)
    src = strip_comments(open(os.path.join(COQ, props)).read())
    theorems = re.findall(r"^\s*(?:Theorem|Corollary)\s+(\w+)", src, re.M)
    with Lock(".coq.lock"):
        sh([os.path.join(ROOT, "tools", "mkcoq.sh")])
        vo = os.path.join(COQ, props[:-2] + ".vo")
        if os.path.exists(vo):
            os.remove(vo)
        targets = [props[:-2] + ".vo"]
        # the shards import the corr module(s): keep them in step with the model
        for c in sorted(glob.glob(os.path.join(COQ, "corr", pid + "_*.v"))) + \
                [os.path.join(COQ, x) for x in meta.get("extra_coq", [])]:
            targets.append(os.path.relpath(c, COQ)[:-2] + ".vo")
        rc, out, dt = sh(["make", "-j16"] + targets, cwd=COQ, timeout=meta.get("coq_timeout", 1500))
    log.write("== make %s (rc=%d, %.1fs)\n%s\n" % (props, rc, dt, out))
    blocks = len(re.findall(r"Closed under the global context|^Axioms:", out, re.M))
    axioms = sorted(set(re.findall(r"^([A-Za-z_][\w.']*)\s*:", out[out.find("Axioms:"):], re.M))) if "Axioms:" in out else []
    ok = rc == 0
    discharged = len(theorems) if ok else 0
    failing = None
    if not ok:
        m = re.search(r'File "\./([^"]+)", line (\d+)', out)
        failing = "%s:%s" % (m.group(1), m.group(2)) if m else "make failed"
        # theorems of the props file that did get through (appear before the error) are not counted: 0
    return ok, theorems, discharged, blocks, axioms, out, failing


def run_shards(rundir, meta, log):
    shards = sorted(glob.glob(os.path.join(rundir, "cases_*.v")))
    bad, timeouts = [], []

    def one(f):
        rc, out, dt = sh(["coqc", "-Q", COQ, "ELA", os.path.basename(f)], cwd=rundir, timeout=meta.get("shard_timeout", 600))
        return f, rc, out, dt

    with ThreadPoolExecutor(max_workers=int(os.environ.get("VERIF_JOBS", "8"))) as ex:
        for f, rc, out, dt in ex.map(one, shards):
            log.write("== shard %s rc=%d %.1fs\n%s\n" % (os.path.basename(f), rc, dt, out[-2000:]))
            if rc == 124:
                timeouts.append(os.path.basename(f)); continue
            flat = " ".join(out.split())
            if rc == 0 and re.search(r"M = \[\s*\]", flat):
                continue
            ids = [int(x) for x in re.findall(r"(\d+)%N", flat)]
            if not ids:
                m = re.search(r"M = \[([^\]]*)\]", flat)
                if m:
                    ids = [int(x) for x in re.findall(r"\d+", m.group(1))]
            bad.append({"shard": os.path.basename(f), "ids": ids[:50], "rc": rc,
                        "tail": out[-600:] if not ids else ""})
    return len(shards), bad, timeouts


def lookup_cases(rundir, ids):
    want, res = set(ids), []
    p = os.path.join(rundir, "cases.jsonl")
    if os.path.exists(p):
        for line in open(p):
            try:
                e = json.loads(line)
            except Exception:
                continue
            if e.get("id") in want:
                res.append(e)
                if len(res) >= 20: break
    return res


def main():
    ap = argparse.ArgumentParser()
    ap.add_argument("pid")
    ap.add_argument("--tier", default=os.environ.get("VERIF_TIER", "quick"))
    ap.add_argument("--replay")
    a = ap.parse_args()
    pid, tier = a.pid, a.tier if a.tier in ("quick", "thorough") else "quick"
    seed = int(os.environ.get("VERIF_SEED", "1") or 1)
    if a.replay and os.path.exists(a.replay):
        try:
            r = json.load(open(a.replay)); seed = int(r.get("seed", seed)); tier = r.get("tier", tier)
        except Exception:
            pass
    t0 = time.time()
    meta = json.load(open(os.path.join(ROOT, "props_meta", pid + ".json")))
    work = os.path.join(ROOT, "work", pid)
    rundir = os.path.join(work, "run")
    os.makedirs(work, exist_ok=True)
    runlock = open(os.path.join(work, ".run.lock"), "w")   # one run per property at a time (they share work/<id>)
    fcntl.flock(runlock, fcntl.LOCK_EX)
    shutil.rmtree(rundir, ignore_errors=True)
    os.makedirs(rundir, exist_ok=True)
    os.makedirs(os.path.join(ROOT, "evidence"), exist_ok=True)
    os.makedirs(os.path.join(ROOT, "replays"), exist_ok=True)
    log = open(os.path.join(work, "log.txt"), "w")
    known, fixed = load_known(pid)
    problems = []   # (kind, text, detail) -> things that make the property "no longer shown"
    failures = []   # concrete failing inputs (oracle), unknown
    known_hits = {}

    # 0. hygiene
    bad = hygiene()
    if bad:
        problems.append(("hygiene", "forbidden construct in the Coq development", bad[:10]))

    # 1. build the harness against /repo's working tree
    stats = {}
    vh = os.path.join(work, "vh")
    hb = meta.get("harness")
    if hb:
        if os.path.exists(vh):
            os.remove(vh)   # never fall back to a binary of an earlier tree
        with Lock(".go.lock"):
            env = dict(GOENV)
            if meta.get("cgo"): env["CGO_ENABLED"] = "1"
            if SCRATCH:
                modfile = os.path.join(work, "go.mod")
                open(modfile, "w").write(open(os.path.join(HARNESS, "go.mod")).read().replace("=> /repo", "=> " + REPO))
                shutil.copyfile(os.path.join(REPO if os.path.exists(os.path.join(REPO, "go.sum")) else "/repo", "go.sum"), os.path.join(work, "go.sum"))
                rc, out, dt = sh(["go", "build", "-modfile", modfile, "-tags", "verif", "-o", vh, hb], cwd=HARNESS, env=env, timeout=900)
            else:
                shutil.copyfile(os.path.join(REPO, "go.sum"), os.path.join(HARNESS, "go.sum"))
                rc, out, dt = sh(["go", "build", "-tags", "verif", "-o", vh, hb], cwd=HARNESS, env=env, timeout=900)
        log.write("== go build (rc=%d, %.1fs)\n%s\n" % (rc, dt, out))
        if rc != 0:
            problems.append(("harness-build", "the correspondence harness no longer builds against /repo", out[-1500:]))
        else:
            def run_h(seed_, scale, outdir):
                os.makedirs(outdir, exist_ok=True)
                cmd = [vh, "--seed", str(seed_), "--tier", tier, "--out", outdir, "--scale", str(scale), "--repo", REPO]
                return sh(cmd, cwd=ROOT, env=GOENV, timeout=meta.get("harness_timeout", 900 if tier == "quick" else 7200))
            rc, out, dt = run_h(seed, 1, rundir)
            log.write("== harness (rc=%d, %.1fs)\n%s\n" % (rc, dt, out[-4000:]))
            sp = os.path.join(rundir, "stats.json")
            if rc != 0 or not os.path.exists(sp):
                problems.append(("harness-run", "the harness did not complete on the implementation", out[-1500:]))
            else:
                stats = json.load(open(sp))

    # 2. proof obligations
    ok, theorems, discharged, blocks, axioms, cout, failing = coq_build(pid, meta, log)
    if not ok:
        problems.append(("proof", "proof obligation no longer checks: %s" % failing, cout[-1500:]))
    elif blocks < len(theorems):
        problems.append(("proof", "Print Assumptions missing for some theorem (%d < %d)" % (blocks, len(theorems)), ""))

    # 3. correspondence shards
    nshards, badshards, timeouts = (0, [], [])
    if stats and ok:
        nshards, badshards, timeouts = run_shards(rundir, meta, log)
        for b in badshards:
            cases = lookup_cases(rundir, b["ids"])
            problems.append(("correspondence", "model and implementation disagree on %d case(s) in %s" %
                             (len(b["ids"]) or 1, b["shard"]), {"ids": b["ids"], "cases": cases, "tail": b["tail"]}))
        for t in timeouts:
            problems.append(("correspondence", "shard %s timed out" % t, ""))
        if meta.get("corr", True) and nshards == 0 and not meta.get("no_shards"):
            problems.append(("correspondence", "no correspondence cases were produced", ""))
    if stats and stats.get("evaluations", 0) == 0 and not meta.get("no_cases"):
        problems.append(("correspondence", "zero cases executed", ""))

    # 4. oracle failures of this run
    def classify(fs):
        for f in fs:
            hit = None
            for k in known:
                if f.get("signature") == k.get("signature"):
                    hit = k; break
            if hit:
                known_hits.setdefault(hit["signature"], (hit, f))
            else:
                failures.append(f)
    classify(stats.get("oracle_failures", []))

    # 5. directed search when something broke but no failing input is at hand
    searched = 0
    if problems and not failures and hb and os.path.exists(vh):
        budget = 60 if tier == "quick" else 900
        ts = time.time(); k = 0
        while time.time() - ts < budget and not failures and k < 40:
            k += 1
            sd = os.path.join(work, "search")
            shutil.rmtree(sd, ignore_errors=True)
            rc, out, dt = sh([vh, "--seed", str(seed + 1000 + k), "--tier", tier, "--out", sd, "--scale", "2", "--repo", REPO],
                             cwd=ROOT, env=GOENV, timeout=max(30, budget))
            searched += 1
            sp = os.path.join(sd, "stats.json")
            if rc == 0 and os.path.exists(sp):
                classify(json.load(open(sp)).get("oracle_failures", []))
            else:
                break
        shutil.rmtree(os.path.join(work, "search"), ignore_errors=True)

    # 6. thorough: independent re-check
    coqchk = None
    if tier == "thorough" and ok and not os.environ.get("VERIF_NO_COQCHK"):
        mod = "ELA." + meta.get("props_file", "props/%s.v" % pid)[:-2].replace("/", ".")
        chk = os.path.join(work, "chk")
        shutil.rmtree(chk, ignore_errors=True)
        with Lock(".coq.lock"):   # copy the compiled files under the lock, re-check the copy without it
            sh(["rsync", "-a", "--include=*/", "--include=*.vo", "--exclude=*", COQ + "/", chk + "/"])
        rc, out, dt = sh(["coqchk", "-silent", "-o", "-Q", chk, "ELA", mod], cwd=chk, timeout=3000)
        shutil.rmtree(chk, ignore_errors=True)
        log.write("== coqchk rc=%d %.1fs\n%s\n" % (rc, dt, out[-3000:]))
        coqchk = {"rc": rc, "wall_s": round(dt, 1), "tail": out[-1200:]}
        if rc not in (0, 124):
            problems.append(("proof", "coqchk rejected the compiled development", out[-1500:]))

    # 7. decision
    violation = bool(failures) or bool(problems)
    replay = None
    if violation:
        replay = os.path.join(work if SCRATCH else os.path.join(ROOT, "replays"), "%s-%d.json" % (pid, seed))
        json.dump({"property": pid, "seed": seed, "tier": tier,
                   "failing_inputs": failures[:10],
                   "no_longer_checks": [{"kind": k, "what": t, "detail": d} for k, t, d in problems],
                   "search_runs": searched,
                   "replay_cmd": "VERIF_SEED=%d tools/check.py %s --tier %s" % (seed, pid, tier)},
                  open(replay, "w"), indent=1, default=str)

    # 8. evidence
    tb = list(meta.get("trusted_base", []))
    tb.append("Coq 8.16.1 kernel + vm_compute (no native_compute); Print Assumptions: " +
              ("closed under the global context for all %d theorems" % len(theorems) if not axioms
               else "axioms " + ", ".join(axioms)))
    cov = {
        "obligations": max(1, len(theorems)), "discharged": discharged if discharged else 0,
        "checker_cmd": "make -C coq %s.vo (coqc 8.16.1, full .vo build)%s" % (
            meta.get("props_file", "props/%s.v" % pid)[:-2], "; coqchk -silent -o" if coqchk else ""),
        "trusted_base": tb,
        "theorems": theorems,
        "print_assumptions_blocks": blocks,
        "axioms": axioms,
        "evaluations": int(stats.get("evaluations", 0)),
        "distinct_nontrivial": int(stats.get("distinct_nontrivial", 0)),
        "rule": stats.get("rule", meta.get("rule", "")),
        "samples": stats.get("samples", [])[:8] or [{"theorem": t} for t in theorems[:4]],
        "traces_validated_against_impl": int(stats.get("traces_validated_against_impl", 0)),
        "correspondence_shards": nshards,
        "correspondence_disagreements": sum(len(b["ids"]) or 1 for b in badshards),
        "histogram": stats.get("histogram", {}),
        "oracle_failures_unknown": len(failures),
        "known_findings_observed": sorted(known_hits.keys()),
        "search_runs": searched,
        "extra": stats.get("extra", {}),
    }
    if coqchk: cov["coqchk"] = coqchk
    if discharged == 0:
        cov["discharged"] = 0
    ev = {"property_id": pid, "tier": tier, "seed": seed, "level": "proof", "coverage": cov,
          "assumptions": meta.get("assumptions", []), "wall_s": round(time.time() - t0, 1),
          "violations": (len(failures) or len(problems)) if violation else 0}
    evpath = os.path.join(work, "evidence.scratch.json") if SCRATCH else os.path.join(ROOT, "evidence", pid + ".json")
    json.dump(ev, open(evpath, "w"), indent=1, default=str)
    log.close()

    for sig, (k, f) in sorted(known_hits.items()):
        print("KNOWN-FINDING: property=%s %s" % (pid, k.get("what", sig)))
    print("%s tier=%s seed=%d theorems=%d/%d cases=%d distinct=%d shards=%d wall=%.1fs" % (
        pid, tier, seed, discharged, len(theorems), cov["evaluations"], cov["distinct_nontrivial"], nshards,
        time.time() - t0))
    if violation:
        for k, t, d in problems[:6]:
            print("  broken[%s]: %s" % (k, t))
        for f in failures[:4]:
            print("  failing input [%s]: %s %s" % (f.get("signature"), f.get("what"), json.dumps(f.get("input"))[:300]))
        rel = os.path.relpath(replay, ROOT)
        print("VIOLATION property=%s replay=%s%s" % (pid, rel, "" if failures else " no-failing-input-found"))
        sys.exit(1)
    sys.exit(0)


if __name__ == "__main__":
    main()
