#!/usr/bin/env python3
"""Confirm every seed under /tmp/seed/out that has no result yet (N workers; seeds of one property run one after another)."""
import collections, json, os, subprocess, sys, threading
ROOT = os.path.dirname(os.path.dirname(os.path.abspath(__file__)))
N = int(sys.argv[1]) if len(sys.argv) > 1 else 3
only = set(sys.argv[2:])
resf = os.path.join(ROOT, "work", "seed_results.txt")
done = set()
if os.path.exists(resf):
    done = {l.split()[0] for l in open(resf) if l.strip()}
groups = collections.defaultdict(list)
for name in sorted(os.listdir(os.environ.get("SEED_OUT", "/tmp/seed/out"))):
    d = os.path.join(os.environ.get("SEED_OUT", "/tmp/seed/out"), name)
    if name in done or (only and name not in only and name[:3] not in only): continue
    if not (os.path.exists(os.path.join(d, "patch.diff")) and os.path.exists(os.path.join(d, "meta.json"))): continue
    groups[name[:3]].append(name)
lock = threading.Lock()
queue = list(groups.items())
def worker():
    while True:
        with lock:
            if not queue: return
            pid, names = queue.pop(0)
        for n in names:
            p = subprocess.run(["python3", "tools/seed_confirm.py", os.path.join(os.environ.get("SEED_OUT", "/tmp/seed/out"), n), pid], cwd=ROOT, stdout=subprocess.PIPE, stderr=subprocess.STDOUT, text=True)
            last = [l for l in p.stdout.strip().split("\n") if l.startswith(n)] or [n + " " + pid + ": ERROR " + p.stdout[-300:].replace("\n", " ")]
            with lock:
                open(resf, "a").write(last[-1] + "\n")
                open(os.path.join(ROOT, "work", "seed_batch.log"), "a").write(p.stdout + "\n")
ts = [threading.Thread(target=worker) for _ in range(N)]
[t.start() for t in ts]; [t.join() for t in ts]
print("done")
