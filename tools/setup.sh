#!/bin/sh
# Build the framework offline: full Coq .vo build and a warm Go build cache.
set -e
cd "$(dirname "$0")/.."
export GOFLAGS=-mod=mod GOPROXY=off GOSUMDB=off GOTOOLCHAIN=local CGO_ENABLED=0
mkdir -p work evidence replays coq/gen
sh tools/mkcoq.sh
(cd coq && timeout 3000 make -k -j16 2>&1 | grep -v '^COQ' | tail -n 40)
cp /repo/go.sum harness/go.sum
(cd harness && go build -tags verif ./... 2>&1 | tail -n 20) || true
echo setup done
