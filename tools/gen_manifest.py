#!/usr/bin/env python3
"""Regenerate MANIFEST.json from props_meta/*.json (+ props_meta/_na.json)."""
import glob, json, os
ROOT = os.path.dirname(os.path.dirname(os.path.abspath(__file__)))
ids = [json.loads(l)["id"] for l in open(os.path.join(ROOT, "properties.jsonl"))]
checks, claimed = [], set()
for pid in ids:
    p = os.path.join(ROOT, "props_meta", pid + ".json")
    if not os.path.exists(p):
        continue
    m = json.load(open(p))
    claimed.add(pid)
    checks.append({
        "property_id": pid,
        "quick_cmd": "python3 tools/check.py %s --tier quick" % pid,
        "thorough_cmd": "python3 tools/check.py %s --tier thorough" % pid,
        "evidence_file": "/verif/evidence/%s.json" % pid,
        "replay_cmd_template": "python3 tools/check.py %s --replay {path}" % pid,
        "engine": "coq-model-proof+correspondence",
        "level_claimed": {"category": "proof", "text": m["level_text"], "design_ref": m.get("design_ref", "DESIGN.md section 7")},
        "level_note": m["level_note"],
        "technique": m["technique"],
    })
na_path = os.path.join(ROOT, "props_meta", "_na.json")
na = json.load(open(na_path)) if os.path.exists(na_path) else {}
not_app = []
for pid in ids:
    if pid not in claimed:
        not_app.append({"property_id": pid, "reason": na.get(pid, "not yet built: no check is registered for this property in this revision (design in DESIGN.md section 7)")})
hooks = json.load(open(os.path.join(ROOT, "props_meta", "_hooks.json")))
man = {
    "version": 1,
    "setup_cmd": "sh tools/setup.sh",
    "hooks": hooks,
    "engines": [{"name": "coq-model-proof+correspondence", "path": "tools/check.py",
                 "serves_properties": sorted(claimed),
                 "kind_free_text": "Coq 8.16.1 theorems about executable Gallina models (coq/), tied to /repo on every run by a Go differential harness (harness/) whose observations are evaluated against the model with vm_compute, plus translators that regenerate fact tables from the Go source"}],
    "checks": checks,
    "notes": "See DESIGN.md. known_findings.jsonl lists recorded defects; seeded/ holds confirmed property-breaking patches used to validate the checks.",
    "not_applicable": not_app,
}
json.dump(man, open(os.path.join(ROOT, "MANIFEST.json"), "w"), indent=1)
print("claimed", len(claimed), "not claimed", len(not_app))
