#!/usr/bin/env python3
"""Confirm a seeded property-breaking change and run the property's check on it.

  tools/seed_confirm.py <seed-dir> <PROPERTY> [--no-tests] [--tier quick]

<seed-dir> holds patch.diff, demo/ and meta.json (demo_cmd) as delivered by a
seeding sub-agent.  Everything runs in a scratch worktree of /repo's HEAD
(never in /repo): apply, build, existing tests of the touched packages, demo
fails with the change and passes without it, then the property's check with
VERIF_REPO pointing at the patched worktree.  The outcome is written to
/verif/seeded/<name>/ (patch.diff, demo/, meta.json)."""
import json, os, re, shutil, subprocess, sys, time

ROOT = os.path.dirname(os.path.dirname(os.path.abspath(__file__)))
ENV = dict(os.environ, GOFLAGS="-mod=mod", GOPROXY="off", GOSUMDB="off", GOTOOLCHAIN="local", CGO_ENABLED="0")


def sh(cmd, cwd, timeout=3600, env=ENV):
    t0 = time.time()
    try:
        p = subprocess.run(cmd, cwd=cwd, shell=isinstance(cmd, str), env=env, timeout=timeout,
                           stdout=subprocess.PIPE, stderr=subprocess.STDOUT, text=True, errors="replace")
        return p.returncode, p.stdout, round(time.time() - t0, 1)
    except subprocess.TimeoutExpired:
        return 124, "[timeout]", round(time.time() - t0, 1)


def main():
    sd, pid = sys.argv[1].rstrip("/"), sys.argv[2]
    no_tests = "--no-tests" in sys.argv
    tier = "thorough" if "--thorough" in sys.argv else "quick"
    name = os.path.basename(sd)
    meta = json.load(open(os.path.join(sd, "meta.json")))
    wt = "/tmp/scratch/sc-" + name
    subprocess.run(["git", "-C", "/repo", "worktree", "remove", "--force", wt], capture_output=True)
    os.makedirs("/tmp/scratch", exist_ok=True)
    rc, out, _ = sh(["git", "-C", "/repo", "worktree", "add", "--detach", wt, "HEAD"], "/")
    assert rc == 0, out
    shutil.copyfile("/repo/go.sum", os.path.join(wt, "go.sum"))
    res = {"property": pid, "seed": name, "repo_head": subprocess.check_output(["git", "-C", "/repo", "rev-parse", "--short", "HEAD"], text=True).strip(), "ran": []}

    def rec(what, rc, out, dt):
        res["ran"].append({"what": what, "rc": rc, "wall_s": dt, "tail": out[-400:]})
        print("  [%s] rc=%d %.0fs" % (what, rc, dt), flush=True)

    try:
        patch = os.path.join(sd, "patch.diff")
        rc, out, dt = sh(["git", "apply", "--whitespace=nowarn", patch], wt); rec("git apply patch.diff", rc, out, dt)
        if rc != 0:
            rc, out, dt = sh(["git", "apply", "--3way", "--whitespace=nowarn", patch], wt); rec("git apply --3way", rc, out, dt)
            if rc != 0:
                res["verdict"] = "patch does not apply to current HEAD"; return res
        files = re.findall(r"^\+\+\+ b/(\S+)", open(patch).read(), re.M)
        pkgs = sorted({"./" + os.path.dirname(f) + "/" for f in files if f.endswith(".go")})
        res["files_touched"] = files
        rc, out, dt = sh("go build ./... && go build -tags verif ./...", wt); rec("go build ./... (with and without -tags verif)", rc, out, dt)
        res["builds"] = rc == 0
        if rc != 0:
            res["verdict"] = "does not compile"; return res
        if not no_tests:
            rc, out, dt = sh("go test -vet=off -count=1 -timeout 25m " + " ".join(pkgs), wt, timeout=2400)
            fails = re.findall(r"^--- FAIL: (\S+)", out, re.M)
            rec("existing tests of touched packages: " + " ".join(pkgs), rc, "FAIL: " + " ".join(fails) if fails else out, dt)
            res["existing_tests_failing"] = fails
        # demonstration
        demo_cmd = meta.get("demo_cmd", "")
        demo_cmd = demo_cmd.replace("/tmp/seed/out/" + name, sd)
        demo_cmd = demo_cmd.replace("<out>", os.path.dirname(sd))
        demo_cmd = re.sub(r"\s{2,}[(#].*$", "", demo_cmd.strip())        # trailing prose "(demo file goes to …)" / "# …"
        place = re.search(r"\bto\s+([\w./-]+/)", str(meta.get("demo_placement", "")))
        if not place and "cp " not in demo_cmd:                            # infer the package from the go test argument
            place = re.search(r"\s\./([\w/.-]+?)/?(?:\s|$)", demo_cmd)
            if place:
                class _P:                                                   # same interface as a match object
                    def __init__(s, g): s.g = g
                    def group(s, i): return s.g
                place = _P(place.group(1).rstrip("/") + "/")
        if place and "cp " not in demo_cmd:
            for fn in os.listdir(os.path.join(sd, "demo")):
                src = os.path.join(sd, "demo", fn)
                if os.path.isfile(src):
                    shutil.copyfile(src, os.path.join(wt, place.group(1), fn))
            demo_cmd = "# demo files copied to %s\n%s" % (place.group(1), demo_cmd)
        rc1, out1, dt = sh(demo_cmd, wt, timeout=2400); rec("demo with the change: " + demo_cmd, rc1, out1, dt)
        sh(["git", "apply", "-R", "--whitespace=nowarn", patch], wt)
        rc2, out2, dt = sh(demo_cmd, wt, timeout=2400); rec("demo without the change", rc2, out2, dt)
        res["demo_fails_with_change"] = rc1 != 0
        res["demo_passes_without"] = rc2 == 0
        # remove demo files, re-apply, run our check
        sh("git clean -fdq -e go.sum && git checkout -q -- .", wt)
        shutil.copyfile("/repo/go.sum", os.path.join(wt, "go.sum"))
        rc, out, dt = sh(["git", "apply", "--whitespace=nowarn", patch], wt)
        if rc != 0:
            sh(["git", "apply", "--3way", "--whitespace=nowarn", patch], wt)
        env = dict(ENV, VERIF_REPO=wt)
        rc, out, dt = sh(["python3", "tools/check.py", pid, "--tier", tier], ROOT, timeout=7200, env=env)
        rec("VERIF_REPO=<patched worktree> python3 tools/check.py %s --tier %s" % (pid, tier), rc, out, dt)
        vl = [l for l in out.split("\n") if l.startswith("VIOLATION")]
        res["check_exit"] = rc
        res["check_violation_line"] = vl[0] if vl else None
        res["check_detail"] = [l for l in out.split("\n") if l.startswith("  ")][:8]
        res["detected"] = rc == 1 and bool(vl)
        res["with_failing_input"] = bool(vl) and "no-failing-input-found" not in vl[0]
        ok = res["demo_fails_with_change"] and res["demo_passes_without"]
        res["verdict"] = ("confirmed; " if ok else "NOT confirmed (demo); ") + ("detected" if res["detected"] else "MISSED")
    finally:
        subprocess.run(["git", "-C", "/repo", "worktree", "remove", "--force", wt], capture_output=True)
        shutil.rmtree(wt, ignore_errors=True)
        subprocess.run(["git", "-C", "/repo", "worktree", "prune"], capture_output=True)
    return res


if __name__ == "__main__":
    r = main()
    sd = sys.argv[1].rstrip("/")
    name = os.path.basename(sd)
    out = os.path.join(ROOT, "seeded", name)
    if r.get("verdict", "").startswith("confirmed"):
        os.makedirs(out, exist_ok=True)
        shutil.copyfile(os.path.join(sd, "patch.diff"), os.path.join(out, "patch.diff"))
        shutil.rmtree(os.path.join(out, "demo"), ignore_errors=True)
        shutil.copytree(os.path.join(sd, "demo"), os.path.join(out, "demo"))
        m = json.load(open(os.path.join(sd, "meta.json")))
        m["confirmation"] = r
        json.dump(m, open(os.path.join(out, "meta.json"), "w"), indent=1)
    print("%s %s: %s | %s" % (name, r["property"], r.get("verdict"), r.get("check_violation_line")))
