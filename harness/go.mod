module verifharness

go 1.20

require (
	github.com/btcsuite/btcd v0.23.2
	github.com/elastos/Elastos.ELA v0.0.0
)

require (
	github.com/RainFallsSilent/screw v1.1.1 // indirect
	github.com/antlabs/strsim v0.0.2 // indirect
	github.com/btcsuite/btcd/chaincfg/chainhash v1.0.1 // indirect
	github.com/fsnotify/fsnotify v1.5.4 // indirect
	github.com/go-echarts/go-echarts/v2 v2.2.3 // indirect
	github.com/go-echarts/statsview v0.3.4 // indirect
	github.com/go-playground/locales v0.14.0 // indirect
	github.com/go-playground/universal-translator v0.18.0 // indirect
	github.com/go-playground/validator/v10 v10.10.1 // indirect
	github.com/golang/snappy v0.0.4 // indirect
	github.com/hashicorp/hcl v1.0.0 // indirect
	github.com/howeyc/gopass v0.0.0-20190910152052-7cb4b85ec19c // indirect
	github.com/itchyny/base58-go v0.1.0 // indirect
	github.com/leodido/go-urn v1.2.1 // indirect
	github.com/magiconair/properties v1.8.6 // indirect
	github.com/mitchellh/mapstructure v1.5.0 // indirect
	github.com/pelletier/go-toml/v2 v2.0.1 // indirect
	github.com/rs/cors v1.8.0 // indirect
	github.com/spf13/afero v1.8.2 // indirect
	github.com/spf13/cast v1.5.0 // indirect
	github.com/spf13/jwalterweatherman v1.1.0 // indirect
	github.com/spf13/pflag v1.0.5 // indirect
	github.com/spf13/viper v1.12.0 // indirect
	github.com/subosito/gotenv v1.3.0 // indirect
	github.com/syndtr/goleveldb v1.0.1-0.20210819022825-2ae1ddf74ef7 // indirect
	github.com/tidwall/gjson v1.9.3 // indirect
	github.com/tidwall/match v1.1.1 // indirect
	github.com/tidwall/pretty v1.2.0 // indirect
	golang.org/x/crypto v0.17.0 // indirect
	golang.org/x/sys v0.15.0 // indirect
	golang.org/x/term v0.15.0 // indirect
	golang.org/x/text v0.14.0 // indirect
	gopkg.in/ini.v1 v1.66.4 // indirect
	gopkg.in/yaml.v3 v3.0.1 // indirect
)

replace github.com/elastos/Elastos.ELA => /repo
