module verifharness

go 1.20

require (
	github.com/btcsuite/btcd v0.23.2
	github.com/elastos/Elastos.ELA v0.0.0
)

require (
	github.com/btcsuite/btcd/chaincfg/chainhash v1.0.1 // indirect
	github.com/go-echarts/go-echarts/v2 v2.2.3 // indirect
	github.com/go-echarts/statsview v0.3.4 // indirect
	github.com/golang/snappy v0.0.4 // indirect
	github.com/howeyc/gopass v0.0.0-20190910152052-7cb4b85ec19c // indirect
	github.com/itchyny/base58-go v0.1.0 // indirect
	github.com/rs/cors v1.8.0 // indirect
	github.com/syndtr/goleveldb v1.0.1-0.20210819022825-2ae1ddf74ef7 // indirect
	golang.org/x/crypto v0.17.0 // indirect
	golang.org/x/sys v0.15.0 // indirect
	golang.org/x/term v0.15.0 // indirect
)

replace github.com/elastos/Elastos.ELA => /repo
