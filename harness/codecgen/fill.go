// Package codecgen is shared by the C02 and C04 harnesses: reflection-based
// random construction of every transaction payload / envelope / message of
// /repo, and the registry of decoders (ids shared with coq/model/C02_Descr.v).
package codecgen

import (
	"reflect"

	"verifharness/lib"
)

var byteLens = []int{0, 1, 20, 33, 33, 21, 2}

// Fill sets every settable field reachable from v to random content: byte
// slices of length 0/1/2/20/21/33, strings, boundary-biased integers, slices
// of 0..3 elements, pointers to fresh values. Interfaces are left alone.
func Fill(rng *lib.Rng, v reflect.Value, depth int) {
	switch v.Kind() {
	case reflect.Bool:
		v.SetBool(rng.Bool())
	case reflect.Uint8, reflect.Uint16, reflect.Uint32, reflect.Uint64, reflect.Uint:
		v.SetUint(randUint(rng, v.Type().Bits()))
	case reflect.Int8, reflect.Int16, reflect.Int32, reflect.Int64, reflect.Int:
		bits := v.Type().Bits()
		u := randUint(rng, bits)
		v.SetInt(int64(u<<(64-uint(bits))) >> (64 - uint(bits)))
	case reflect.String:
		n := []int{0, 1, 5, 34}[rng.Intn(4)]
		b := make([]byte, n)
		for i := range b {
			b[i] = byte('a' + rng.Intn(26))
		}
		v.SetString(string(b))
	case reflect.Array:
		for i := 0; i < v.Len(); i++ {
			Fill(rng, v.Index(i), depth+1)
		}
	case reflect.Slice:
		if v.Type().Elem().Kind() == reflect.Uint8 {
			n := byteLens[rng.Intn(len(byteLens))]
			if v.Type().Elem() == reflect.TypeOf(byte(0)) {
				v.Set(reflect.ValueOf(rng.Bytes(n)).Convert(v.Type()))
				return
			}
			s := reflect.MakeSlice(v.Type(), n, n) // named byte types ([]TxType)
			for i := 0; i < n; i++ {
				s.Index(i).SetUint(uint64(byte(rng.U64())))
			}
			v.Set(s)
			return
		}
		n := []int{0, 1, 2, 3}[rng.Intn(4)]
		if depth > 4 {
			n = 0
		}
		s := reflect.MakeSlice(v.Type(), n, n)
		for i := 0; i < n; i++ {
			Fill(rng, s.Index(i), depth+1)
		}
		v.Set(s)
	case reflect.Struct:
		for i := 0; i < v.NumField(); i++ {
			f := v.Field(i)
			if f.CanSet() {
				Fill(rng, f, depth+1)
			}
		}
	case reflect.Ptr:
		if v.Type().Elem().Kind() == reflect.Struct || v.Type().Elem().Kind() == reflect.Array {
			p := reflect.New(v.Type().Elem())
			Fill(rng, p.Elem(), depth+1)
			v.Set(p)
		}
	}
}

func randUint(rng *lib.Rng, bits int) uint64 {
	var mask uint64 = ^uint64(0)
	if bits < 64 {
		mask = (uint64(1) << uint(bits)) - 1
	}
	switch rng.Intn(6) {
	case 0:
		return 0
	case 1:
		return 1
	case 2:
		return mask
	case 3:
		return (mask >> 1) + uint64(rng.Intn(2))
	default:
		return rng.U64() & mask
	}
}
