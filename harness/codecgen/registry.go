package codecgen

import (
	"bytes"
	"fmt"
	"io"
	"reflect"

	"github.com/elastos/Elastos.ELA/auxpow"
	"github.com/elastos/Elastos.ELA/core/transaction"
	"github.com/elastos/Elastos.ELA/core/types"
	common2 "github.com/elastos/Elastos.ELA/core/types/common"
	"github.com/elastos/Elastos.ELA/core/types/interfaces"
	"github.com/elastos/Elastos.ELA/core/types/payload"
	"github.com/elastos/Elastos.ELA/dpos/dtime"
	dmsg "github.com/elastos/Elastos.ELA/dpos/p2p/msg"
	"github.com/elastos/Elastos.ELA/elanet/bloom"
	"github.com/elastos/Elastos.ELA/p2p"
	"github.com/elastos/Elastos.ELA/p2p/msg"

	elacommon "github.com/elastos/Elastos.ELA/common"
	pg "github.com/elastos/Elastos.ELA/core/contract/program"
	"verifharness/lib"
)

// Reenc re-serializes the object a decoder produced.
type Reenc func(w io.Writer) error

// Decoder is one Go Deserialize entry point with its descriptor id.
type Decoder struct {
	ID     int
	Name   string
	Ctx    []uint64 // enclosing discriminants the descriptor expects (payload version)
	Decode func(r io.Reader) (Reenc, error)
	// DecodeBuf is set for entry points that take *bytes.Buffer.
	DecodeBuf func(b *bytes.Buffer) (Reenc, error)
	Seed      func(rng *lib.Rng) []byte // serializer-produced bytes (nil: could not serialize)
	// Prealloc is the memory the decoder may request up front because the
	// protocol bounds the count by a constant (MaxInvPerMsg x element size, ...).
	Prealloc uint64
}

type serializable interface {
	Serialize(w io.Writer) error
	Deserialize(r io.Reader) error
}

func ser(f func(w io.Writer) error) []byte {
	var buf bytes.Buffer
	if err := f(&buf); err != nil {
		return nil
	}
	return buf.Bytes()
}

// plain registers a type with Serialize(w)/Deserialize(r) built by reflection.
func plain(id int, name string, mk func() serializable, fix func(rng *lib.Rng, o serializable)) Decoder {
	return Decoder{ID: id, Name: name,
		Decode: func(r io.Reader) (Reenc, error) {
			o := mk()
			if err := o.Deserialize(r); err != nil {
				return nil, err
			}
			return o.Serialize, nil
		},
		Seed: func(rng *lib.Rng) []byte {
			o := mk()
			Fill(rng, reflect.ValueOf(o).Elem(), 0)
			if fix != nil {
				fix(rng, o)
			}
			return ser(o.Serialize)
		}}
}

type outputV struct {
	o  common2.Output
	v9 bool
}

func (x *outputV) ver() common2.TransactionVersion {
	if x.v9 {
		return common2.TxVersion09
	}
	return common2.TxVersionDefault
}
func (x *outputV) Serialize(w io.Writer) error   { return x.o.Serialize(w, x.ver()) }
func (x *outputV) Deserialize(r io.Reader) error { return x.o.Deserialize(r, x.ver()) }

func outputDecoder(id int, v9 bool) Decoder {
	name := "common.Output.Deserialize(v0)"
	if v9 {
		name = "common.Output.Deserialize(v9)"
	}
	return Decoder{ID: id, Name: name,
		Decode: func(r io.Reader) (Reenc, error) {
			x := &outputV{v9: v9}
			if err := x.Deserialize(r); err != nil {
				return nil, err
			}
			return x.Serialize, nil
		},
		Seed: func(rng *lib.Rng) []byte {
			x := &outputV{o: *RandomOutput(rng, v9), v9: v9}
			return ser(x.Serialize)
		}}
}

// Decoders returns the registry; ids as in coq/model/C02_Descr.v [fmt_of].
func Decoders() []Decoder {
	var ds []Decoder
	// 1: GetTransactionByBytes + Deserialize
	txSeed := func(rng *lib.Rng) []byte {
		ty := common2.TxType(TxTypes[rng.Intn(len(TxTypes))])
		pv := byte([]int{0, 0, 1, 1, 2, 3, 4, 200}[rng.Intn(8)])
		tx := RandomTx(rng, ty, pv, TxVersionFor(rng, ty))
		if tx == nil {
			return nil
		}
		return ser(tx.Serialize)
	}
	ds = append(ds, Decoder{ID: 1, Name: "transaction.GetTransactionByBytes+Transaction.Deserialize",
		Decode: func(r io.Reader) (Reenc, error) {
			tx, err := transaction.GetTransactionByBytes(r)
			if err != nil {
				return nil, err
			}
			if err := tx.Deserialize(r); err != nil {
				return nil, err
			}
			return tx.Serialize, nil
		}, Seed: txSeed})
	ds = append(ds, Decoder{ID: 11, Name: "transaction.GetTransactionByBytes+Transaction.DeserializeUnsigned",
		Decode: func(r io.Reader) (Reenc, error) {
			tx, err := transaction.GetTransactionByBytes(r)
			if err != nil {
				return nil, err
			}
			if err := tx.DeserializeUnsigned(r); err != nil {
				return nil, err
			}
			return tx.SerializeUnsigned, nil
		}, Seed: txSeed})
	blockSeed := func(rng *lib.Rng) []byte { return ser(RandomBlock(rng, []int{0, 1, 2, 4}[rng.Intn(4)]).Serialize) }
	ds = append(ds, Decoder{ID: 2, Name: "types.Block.Deserialize",
		Decode: func(r io.Reader) (Reenc, error) {
			b := &types.Block{}
			if err := b.Deserialize(r); err != nil {
				return nil, err
			}
			return b.Serialize, nil
		}, Seed: blockSeed})
	ds = append(ds, Decoder{ID: 10, Name: "types.Block.DeserializeTxLoc",
		DecodeBuf: func(buf *bytes.Buffer) (Reenc, error) {
			b := &types.Block{}
			if _, err := b.DeserializeTxLoc(buf); err != nil {
				return nil, err
			}
			return b.Serialize, nil
		}, Seed: blockSeed})
	ds = append(ds, plain(3, "common.Header.Deserialize", func() serializable { return &common2.Header{} }, nil))
	ds = append(ds, plain(4, "auxpow.AuxPow.Deserialize", func() serializable { return &auxpow.AuxPow{} }, nil))
	ds = append(ds, plain(5, "auxpow.BtcTx.Deserialize", func() serializable { return &auxpow.BtcTx{} }, nil))
	ds = append(ds, Decoder{ID: 6, Name: "types.DposBlock.Deserialize",
		Decode: func(r io.Reader) (Reenc, error) {
			b := &types.DposBlock{}
			if err := b.Deserialize(r); err != nil {
				return nil, err
			}
			return b.Serialize, nil
		},
		Seed: func(rng *lib.Rng) []byte {
			b := &types.DposBlock{Block: RandomBlock(rng, rng.Intn(3)), HaveConfirm: rng.Bool()}
			b.Confirm = RandomConfirm(rng)
			return ser(b.Serialize)
		}})
	ds = append(ds, plain(7, "payload.Confirm.Deserialize", func() serializable { return &payload.Confirm{} }, nil))
	ds = append(ds, plain(8, "payload.DPOSProposal.Deserialize", func() serializable { return &payload.DPOSProposal{} }, nil))
	ds = append(ds, plain(9, "payload.DPOSProposalVote.Deserialize", func() serializable { return &payload.DPOSProposalVote{} }, nil))
	ds = append(ds, primitiveDecoders()...)
	ds = append(ds, outputDecoder(30, true), outputDecoder(31, false))
	ds = append(ds, plain(32, "common.Attribute.Deserialize", func() serializable { return &common2.Attribute{} },
		func(rng *lib.Rng, o serializable) { o.(*common2.Attribute).Usage = AttrUsages[rng.Intn(len(AttrUsages))] }))
	ds = append(ds, plain(33, "common.Input.Deserialize", func() serializable { return &common2.Input{} }, nil))
	ds = append(ds, plain(34, "program.Program.Deserialize", func() serializable { return &pg.Program{} }, nil))
	ds = append(ds, plain(35, "payload.DetailedVoteInfo.Deserialize", func() serializable { return &payload.DetailedVoteInfo{} }, nil))

	// payloads standalone: 100 + type, one decoder per payload version 0..4 and 200
	for _, t := range TxTypes {
		for _, v := range []byte{0, 1, 2, 3, 4, 200} {
			ty, pv := common2.TxType(t), v
			ds = append(ds, Decoder{ID: 100 + int(t), Name: "payload[" + ty.Name() + "].Deserialize", Ctx: []uint64{uint64(pv)},
				Decode: func(r io.Reader) (Reenc, error) {
					p, err := interfaces.GetPayload(ty, pv)
					if err != nil {
						return nil, err
					}
					if err := p.Deserialize(r, pv); err != nil {
						return nil, err
					}
					return func(w io.Writer) error { return p.Serialize(w, pv) }, nil
				},
				Seed: func(rng *lib.Rng) []byte {
					p := RandomPayload(rng, ty, pv)
					return ser(func(w io.Writer) error { return p.Serialize(w, pv) })
				}})
		}
	}
	// output payloads: 250 + output type
	for ot := 0; ot < 8; ot++ {
		t := common2.OutputType(ot)
		ds = append(ds, Decoder{ID: 250 + ot, Name: "outputpayload[" + string(rune('0'+ot)) + "].Deserialize",
			Decode: func(r io.Reader) (Reenc, error) {
				op := NewOutputPayload(lib.NewRng(1), t)
				op = reflect.New(reflect.TypeOf(op).Elem()).Interface().(common2.OutputPayload)
				if err := op.Deserialize(r); err != nil {
					return nil, err
				}
				return op.Serialize, nil
			},
			Seed: func(rng *lib.Rng) []byte { return ser(NewOutputPayload(rng, t).Serialize) }})
	}
	// p2p messages
	ds = append(ds, plain(300, "msg.Inv.Deserialize", func() serializable { return &msg.Inv{} }, nil))
	ds = append(ds, plain(301, "msg.GetBlocks.Deserialize", func() serializable { return &msg.GetBlocks{} }, nil))
	ds = append(ds, plain(302, "msg.Addr.Deserialize", func() serializable { return &msg.Addr{} }, nil))
	ds = append(ds, Decoder{ID: 303, Name: "msg.MerkleBlock.Deserialize",
		Decode: func(r io.Reader) (Reenc, error) {
			m := msg.NewMerkleBlock(&common2.Header{})
			if err := m.Deserialize(r); err != nil {
				return nil, err
			}
			return m.Serialize, nil
		},
		Seed: func(rng *lib.Rng) []byte {
			m := msg.NewMerkleBlock(RandomHeader(rng))
			Fill(rng, reflect.ValueOf(&m.Transactions).Elem(), 0)
			Fill(rng, reflect.ValueOf(&m.Hashes).Elem(), 0)
			Fill(rng, reflect.ValueOf(&m.Flags).Elem(), 0)
			return ser(m.Serialize)
		}})
	ds = append(ds, plain(304, "msg.Version.Deserialize", func() serializable { return &msg.Version{} },
		func(rng *lib.Rng, o serializable) {
			if rng.Bool() {
				o.(*msg.Version).Version = uint32(80000 + rng.Intn(3) - 1)
			}
		}))
	ds = append(ds, plain(305, "msg.Reject.Deserialize", func() serializable { return &msg.Reject{} }, nil))
	ds = append(ds, plain(307, "msg.FilterAdd.Deserialize", func() serializable { return &msg.FilterAdd{} }, nil))
	ds = append(ds, plain(308, "msg.TxFilterLoad.Deserialize", func() serializable { return &msg.TxFilterLoad{} }, nil))
	ds = append(ds, plain(309, "msg.DAddr.Deserialize", func() serializable { return &msg.DAddr{} }, nil))
	ds = append(ds, plain(310, "msg.Ping.Deserialize", func() serializable { return &msg.Ping{} }, nil))
	ds = append(ds, plain(311, "bloom.MerkleProof.Deserialize", func() serializable { return &bloom.MerkleProof{} }, nil))
	ds = append(ds, plain(312, "p2p.NetAddress.Deserialize", func() serializable { return &p2p.NetAddress{} }, nil))
	// dpos p2p messages
	ds = append(ds, Decoder{ID: 401, Name: "dpos/msg.ResponseBlocks.Deserialize",
		Decode: func(r io.Reader) (Reenc, error) {
			m := &dmsg.ResponseBlocks{}
			if err := m.Deserialize(r); err != nil {
				return nil, err
			}
			return m.Serialize, nil
		},
		Seed: func(rng *lib.Rng) []byte {
			m := &dmsg.ResponseBlocks{}
			for i, n := 0, rng.Intn(3); i < n; i++ {
				b := &types.DposBlock{Block: RandomBlock(rng, rng.Intn(2)), HaveConfirm: rng.Bool()}
				b.Confirm = RandomConfirm(rng)
				m.BlockConfirms = append(m.BlockConfirms, b)
			}
			return ser(m.Serialize)
		}})
	ds = append(ds, plain(402, "dpos/msg.ResetView.Deserialize", func() serializable { return &dmsg.ResetView{} }, nil))
	ds = append(ds, plain(403, "dpos/msg.ResponseInactiveArbitrators.Deserialize", func() serializable { return &dmsg.ResponseInactiveArbitrators{} }, nil))
	ds = append(ds, plain(404, "dpos/msg.Addr.Deserialize", func() serializable { return &dmsg.Addr{} }, nil))
	ds = append(ds, plain(405, "dpos/msg.GetBlocks.Deserialize", func() serializable { return &dmsg.GetBlocks{} }, nil))
	ds = append(ds, plain(313, "msg.GetData.Deserialize", func() serializable { return &msg.GetData{} }, nil))
	ds = append(ds, plain(314, "msg.NotFound.Deserialize", func() serializable { return &msg.NotFound{} }, nil))
	ds = append(ds, plain(315, "msg.Pong.Deserialize", func() serializable { return &msg.Pong{} }, nil))
	ds = append(ds, plain(406, "dpos/msg.Inventory.Deserialize", func() serializable { return &dmsg.Inventory{} }, nil))
	ds = append(ds, plain(407, "dpos/msg.RequestConsensus.Deserialize", func() serializable { return &dmsg.RequestConsensus{} }, nil))
	ds = append(ds, plain(408, "dpos/msg.RequestProposal.Deserialize", func() serializable { return &dmsg.RequestProposal{} }, nil))
	ds = append(ds, plain(409, "dpos/msg.Daddr.Deserialize", func() serializable { return &dmsg.Daddr{} }, nil))
	ds = append(ds, plain(410, "dpos/msg.Ping.Deserialize", func() serializable { return &dmsg.Ping{} }, nil))
	ds = append(ds, plain(411, "dpos/msg.Reject.Deserialize", func() serializable { return &dmsg.Reject{} }, nil))
	ds = append(ds, plain(412, "dpos/msg.ResponseRevertToDPOS.Deserialize", func() serializable { return &dmsg.ResponseRevertToDPOS{} }, nil))
	ds = append(ds, plain(413, "dpos/msg.VerAck.Deserialize", func() serializable { return &dmsg.VerAck{} }, nil))
	ds = append(ds, plain(414, "dpos/msg.IllegalProposals.Deserialize", func() serializable { return &dmsg.IllegalProposals{} }, nil))
	ds = append(ds, plain(415, "dpos/msg.IllegalVotes.Deserialize", func() serializable { return &dmsg.IllegalVotes{} }, nil))
	ds = append(ds, plain(416, "dpos/msg.SidechainIllegalData.Deserialize", func() serializable { return &dmsg.SidechainIllegalData{} }, nil))
	ds = append(ds, plain(417, "dpos/msg.Proposal.Deserialize", func() serializable { return &dmsg.Proposal{} }, nil))
	ds = append(ds, plain(418, "dpos/msg.Vote.Deserialize", func() serializable { return &dmsg.Vote{} }, nil))
	ds = append(ds, plain(306, "msg.FilterLoad.Deserialize", func() serializable { return &msg.FilterLoad{} },
		func(rng *lib.Rng, o serializable) { o.(*msg.FilterLoad).HashFuncs = uint32(rng.Intn(51)) }))
	ds = append(ds, plain(400, "dpos/msg.ConsensusStatus.Deserialize", func() serializable { return &dmsg.ConsensusStatus{} }, nil))
	ds = append(ds, plain(421, "dpos/msg.ResponseConsensus.Deserialize", func() serializable { return &dmsg.ResponseConsensus{} }, nil))
	ds = append(ds, dposVersion(419, 0), dposVersion(420, 1))
	ds = append(ds, plain(12, "types.DPOSHeader.Deserialize", func() serializable { return &types.DPOSHeader{} }, nil))
	ds = append(ds, plain(23, "common.Uint168.Deserialize", func() serializable { return &elacommon.Uint168{} }, nil))
	ds = append(ds, plain(24, "common.Fixed64.Deserialize", func() serializable { return new(elacommon.Fixed64) }, nil))
	ds = append(ds, plain(25, "common.Uint160.Deserialize", func() serializable { return &elacommon.Uint160{} }, nil))
	ds = append(ds, plain(36, "common.OutPoint.Deserialize", func() serializable { return &common2.OutPoint{} }, nil))
	ds = append(ds, plain(37, "common.UTXO.Deserialize", func() serializable { return &common2.UTXO{} }, nil))
	ds = append(ds, plain(38, "common.OutputInfo.Deserialize", func() serializable { return &common2.OutputInfo{} }, nil))
	ds = append(ds, plain(40, "payload.NFTInfo.Deserialize", func() serializable { return &payload.NFTInfo{} }, nil))
	ds = append(ds, Decoder{ID: 39, Name: "payload.CRCProposalInfo.Deserialize",
		Decode: func(r io.Reader) (Reenc, error) {
			p := &payload.CRCProposalInfo{}
			if err := p.Deserialize(r, 0); err != nil {
				return nil, err
			}
			return func(w io.Writer) error { return p.Serialize(w, 0) }, nil
		},
		Seed: func(rng *lib.Rng) []byte {
			p := &payload.CRCProposalInfo{}
			Fill(rng, reflect.ValueOf(p).Elem(), 0)
			return ser(func(w io.Writer) error { return p.Serialize(w, 0) })
		}})
	for i := range ds {
		switch ds[i].ID {
		case 300, 313, 314:
			ds[i].Prealloc = 50000 * 48 // MaxInvPerMsg x (InvVect + pointer)
		case 301:
			ds[i].Prealloc = 500 * 48 // MaxBlockLocatorsPerMsg
		case 302:
			ds[i].Prealloc = 1000 * 112 // MaxAddrPerMsg
		case 303, 311:
			ds[i].Prealloc = 10000 * 48 // pact.MaxTxPerBlock hashes
		}
	}
	return ds
}

// VarintBoundaries are the width boundaries of the canonical varint.
var VarintBoundaries = []uint64{0, 1, 0xfc, 0xfd, 0xfe, 0xff, 0x100, 0xfffe, 0xffff, 0x10000, 0x10001,
	0xfffffffe, 0xffffffff, 0x100000000, 0x100000001, 1<<63 - 1, 1 << 63, 1<<64 - 1}

// primitiveDecoders expose common.ReadVarUint / ReadVarBytes / ReadVarString
// directly (ids 20..22), seeded at the varint width boundaries.
func primitiveDecoders() []Decoder {
	pick := func(rng *lib.Rng) uint64 {
		if rng.Chance(75) {
			return VarintBoundaries[rng.Intn(len(VarintBoundaries))]
		}
		return rng.U64() >> uint(rng.Intn(64))
	}
	lens := []int{0, 1, 32, 33, 0xfc, 0xfd, 0xfe}
	return []Decoder{
		{ID: 20, Name: "common.ReadVarUint",
			Decode: func(r io.Reader) (Reenc, error) {
				v, err := elacommon.ReadVarUint(r, 0)
				if err != nil {
					return nil, err
				}
				return func(w io.Writer) error { return elacommon.WriteVarUint(w, v) }, nil
			},
			Seed: func(rng *lib.Rng) []byte {
				v := pick(rng)
				return ser(func(w io.Writer) error { return elacommon.WriteVarUint(w, v) })
			}},
		{ID: 21, Name: "common.ReadVarBytes(33)",
			Decode: func(r io.Reader) (Reenc, error) {
				b, err := elacommon.ReadVarBytes(r, 33, "field")
				if err != nil {
					return nil, err
				}
				return func(w io.Writer) error { return elacommon.WriteVarBytes(w, b) }, nil
			},
			Seed: func(rng *lib.Rng) []byte {
				b := rng.Bytes(lens[rng.Intn(4)])
				return ser(func(w io.Writer) error { return elacommon.WriteVarBytes(w, b) })
			}},
		{ID: 22, Name: "common.ReadVarString",
			Decode: func(r io.Reader) (Reenc, error) {
				s, err := elacommon.ReadVarString(r)
				if err != nil {
					return nil, err
				}
				return func(w io.Writer) error { return elacommon.WriteVarString(w, s) }, nil
			},
			Seed: func(rng *lib.Rng) []byte {
				b := rng.Bytes(lens[rng.Intn(len(lens))])
				return ser(func(w io.Writer) error { return elacommon.WriteVarString(w, string(b)) })
			}},
	}
}

// dposVersion registers dpos msg.Version under one value of the process-global
// payload version (set before every decode / re-serialization).
func dposVersion(id int, pv uint32) Decoder {
	return Decoder{ID: id, Name: fmt.Sprintf("dpos/msg.Version.Deserialize(payload version %d)", pv),
		Decode: func(r io.Reader) (Reenc, error) {
			dmsg.SetPayloadVersion(pv)
			m := &dmsg.Version{}
			if err := m.Deserialize(r); err != nil {
				return nil, err
			}
			return func(w io.Writer) error { dmsg.SetPayloadVersion(pv); return m.Serialize(w) }, nil
		},
		Seed: func(rng *lib.Rng) []byte {
			dmsg.SetPayloadVersion(pv)
			m := &dmsg.Version{}
			Fill(rng, reflect.ValueOf(m).Elem(), 0)
			ts := int64(rng.U64()>>uint(1+rng.Intn(40))) / 1000000 * 1000000
			if rng.Chance(25) {
				ts = -ts
			}
			m.Timestamp = dtime.Int64ToTime(ts)
			return ser(m.Serialize)
		}}
}
