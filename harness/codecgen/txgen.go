package codecgen

import (
	"bytes"
	"reflect"

	elacommon "github.com/elastos/Elastos.ELA/common"
	pg "github.com/elastos/Elastos.ELA/core/contract/program"
	"github.com/elastos/Elastos.ELA/core/transaction"
	"github.com/elastos/Elastos.ELA/core/types"
	common2 "github.com/elastos/Elastos.ELA/core/types/common"
	"github.com/elastos/Elastos.ELA/core/types/functions"
	"github.com/elastos/Elastos.ELA/core/types/interfaces"
	"github.com/elastos/Elastos.ELA/core/types/outputpayload"
	"github.com/elastos/Elastos.ELA/core/types/payload"

	"verifharness/lib"
)

// Init installs the function hooks the node's main() installs.
func Init() {
	functions.GetTransactionByTxType = transaction.GetTransaction
	functions.GetTransactionByBytes = transaction.GetTransactionByBytes
	functions.CreateTransaction = transaction.CreateTransaction
}

// TxTypes are the types transaction.GetTransaction accepts (= tx_types of
// coq/model/C02_Descr.v).
var TxTypes = []byte{0, 1, 2, 3, 5, 7, 8, 9, 10, 11, 12, 13, 14, 15, 16, 17, 18, 19, 20, 21,
	33, 34, 35, 36, 37, 38, 39, 40, 41, 42, 43, 49, 65, 66, 81,
	96, 97, 98, 99, 100, 101, 102, 113, 114}

var AttrUsages = []common2.AttributeUsage{common2.Nonce, common2.Script, common2.Memo,
	common2.Description, common2.DescriptionUrl, common2.Confirmations}

var ProposalTypes = []payload.CRCProposalType{payload.Normal, payload.ELIP, payload.FLOWELIP, payload.INFOELIP,
	payload.MainChainUpgradeCode, payload.DIDUpgradeCode, payload.ETHUpgradeCode, payload.SecretaryGeneral,
	payload.ChangeProposalOwner, payload.CloseProposal, payload.RegisterSideChain,
	payload.ReserveCustomID, payload.ReceiveCustomID, payload.ChangeCustomIDFee, 0x0300, 0xffff}

// RandomPayload builds a payload of the given type with every field random.
func RandomPayload(rng *lib.Rng, ty common2.TxType, pv byte) interfaces.Payload {
	p, err := interfaces.GetPayload(ty, pv)
	if err != nil {
		return nil
	}
	Fill(rng, reflect.ValueOf(p).Elem(), 0)
	if c, ok := p.(*payload.CRCProposal); ok {
		c.ProposalType = ProposalTypes[rng.Intn(len(ProposalTypes))]
		if c.UpgradeCodeInfo == nil {
			c.UpgradeCodeInfo = &payload.UpgradeCodeInfo{NodeBinHash: &elacommon.Uint256{}}
		}
		if c.UpgradeCodeInfo.NodeBinHash == nil {
			c.UpgradeCodeInfo.NodeBinHash = &elacommon.Uint256{}
		}
	}
	return p
}

func NewOutputPayload(rng *lib.Rng, t common2.OutputType) common2.OutputPayload {
	var op common2.OutputPayload
	switch t {
	case common2.OTNone:
		op = new(outputpayload.DefaultOutput)
	case common2.OTVote, common2.OTDposV2Vote:
		op = new(outputpayload.VoteOutput)
	case common2.OTMapping:
		op = new(outputpayload.Mapping)
	case common2.OTCrossChain:
		op = new(outputpayload.CrossChainOutput)
	case common2.OTWithdrawFromSideChain:
		op = new(outputpayload.Withdraw)
	case common2.OTReturnSideChainDepositCoin:
		op = new(outputpayload.ReturnSideChainDeposit)
	case common2.OTStake:
		op = new(outputpayload.ExchangeVotesOutput)
	default:
		return nil
	}
	Fill(rng, reflect.ValueOf(op).Elem(), 0)
	return op
}

func RandomOutput(rng *lib.Rng, v9 bool) *common2.Output {
	o := &common2.Output{}
	Fill(rng, reflect.ValueOf(&o.AssetID).Elem(), 0)
	Fill(rng, reflect.ValueOf(&o.Value).Elem(), 0)
	Fill(rng, reflect.ValueOf(&o.OutputLock).Elem(), 0)
	Fill(rng, reflect.ValueOf(&o.ProgramHash).Elem(), 0)
	if v9 {
		o.Type = common2.OutputType(rng.Intn(8))
		o.Payload = NewOutputPayload(rng, o.Type)
	}
	return o
}

func RandomAttr(rng *lib.Rng) *common2.Attribute {
	return &common2.Attribute{Usage: AttrUsages[rng.Intn(len(AttrUsages))], Data: rng.Bytes(byteLens[rng.Intn(len(byteLens))])}
}

func RandomProgram(rng *lib.Rng) *pg.Program {
	return &pg.Program{Code: rng.Bytes(byteLens[rng.Intn(len(byteLens))]), Parameter: rng.Bytes([]int{0, 1, 64, 65, 130}[rng.Intn(5)])}
}

func counts(rng *lib.Rng) int { return []int{0, 1, 1, 2, 3}[rng.Intn(5)] }

// RandomTx builds a transaction of type ty / payload version pv. version 0 is
// only representable for types below 9 (GetTransactionByBytes).
func RandomTx(rng *lib.Rng, ty common2.TxType, pv byte, version common2.TransactionVersion) interfaces.Transaction {
	p := RandomPayload(rng, ty, pv)
	if p == nil {
		return nil
	}
	var attrs []*common2.Attribute
	for i, n := 0, counts(rng); i < n; i++ {
		attrs = append(attrs, RandomAttr(rng))
	}
	var ins []*common2.Input
	for i, n := 0, counts(rng); i < n; i++ {
		in := &common2.Input{}
		Fill(rng, reflect.ValueOf(in).Elem(), 0)
		ins = append(ins, in)
	}
	var outs []*common2.Output
	for i, n := 0, counts(rng); i < n; i++ {
		outs = append(outs, RandomOutput(rng, version >= common2.TxVersion09))
	}
	var progs []*pg.Program
	for i, n := 0, counts(rng); i < n; i++ {
		progs = append(progs, RandomProgram(rng))
	}
	return transaction.CreateTransaction(version, ty, pv, p, attrs, ins, outs, uint32(randUint(rng, 32)), progs)
}

// TxVersionFor picks a transaction version representable on the wire.
func TxVersionFor(rng *lib.Rng, ty common2.TxType) common2.TransactionVersion {
	if ty < 9 && rng.Chance(50) {
		return common2.TxVersionDefault
	}
	if rng.Chance(70) {
		return common2.TxVersion09
	}
	return common2.TransactionVersion(9 + rng.Intn(247))
}

func RandomHeader(rng *lib.Rng) *common2.Header {
	h := &common2.Header{}
	Fill(rng, reflect.ValueOf(h).Elem(), 0)
	return h
}

func RandomBlock(rng *lib.Rng, ntx int) *types.Block {
	b := &types.Block{Header: *RandomHeader(rng)}
	for i := 0; i < ntx; i++ {
		ty := common2.TxType(TxTypes[rng.Intn(len(TxTypes))])
		tx := RandomTx(rng, ty, byte(rng.Intn(4)), TxVersionFor(rng, ty))
		if tx == nil {
			continue
		}
		var buf bytes.Buffer
		if tx.Serialize(&buf) != nil {
			continue
		}
		b.Transactions = append(b.Transactions, tx)
	}
	return b
}

func RandomConfirm(rng *lib.Rng) *payload.Confirm {
	c := &payload.Confirm{}
	Fill(rng, reflect.ValueOf(c).Elem(), 0)
	if c.Votes == nil {
		c.Votes = []payload.DPOSProposalVote{}
	}
	return c
}
