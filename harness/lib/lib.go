// Package lib is the shared part of the correspondence harness: one PRNG,
// Coq term printers, shard writer and the stats file every check reads.
package lib

import (
	"encoding/json"
	"flag"
	"fmt"
	"math/big"
	"os"
	"path/filepath"
	"sort"
	"strings"
)

// ---------------------------------------------------------------- PRNG

// Rng is SplitMix64; every random choice of a run derives from one state so
// a disagreement replays exactly from (seed, tier).
type Rng struct{ s uint64 }

// NewRng hashes the seed first: the state advances by a constant per draw, so
// un-hashed neighbouring seeds would yield shifted copies of one stream.
func NewRng(seed uint64) *Rng {
	z := seed + 0x632BE59BD9B4E019
	z = (z ^ (z >> 30)) * 0xBF58476D1CE4E5B9
	z = (z ^ (z >> 27)) * 0x94D049BB133111EB
	z ^= z >> 31
	return &Rng{s: z*0xD6E8FEB86659FD93 + 0x1234567}
}

func (r *Rng) U64() uint64 {
	r.s += 0x9E3779B97F4A7C15
	z := r.s
	z = (z ^ (z >> 30)) * 0xBF58476D1CE4E5B9
	z = (z ^ (z >> 27)) * 0x94D049BB133111EB
	return z ^ (z >> 31)
}
func (r *Rng) Intn(n int) int {
	if n <= 0 {
		return 0
	}
	return int(r.U64() % uint64(n))
}
func (r *Rng) Range(lo, hi int) int { return lo + r.Intn(hi-lo+1) }
func (r *Rng) Bool() bool           { return r.U64()&1 == 1 }
func (r *Rng) Chance(pct int) bool  { return r.Intn(100) < pct }
func (r *Rng) Bytes(n int) []byte {
	b := make([]byte, n)
	for i := range b {
		b[i] = byte(r.U64())
	}
	return b
}
func (r *Rng) PickU64(xs ...uint64) uint64 { return xs[r.Intn(len(xs))] }
func (r *Rng) PickI64(xs ...int64) int64   { return xs[r.Intn(len(xs))] }

// Fork derives an independent stream (for sub-generators) deterministically.
func (r *Rng) Fork() *Rng { return NewRng(r.U64()) }

// ---------------------------------------------------------------- args

type Run struct {
	Seed   uint64
	Tier   string
	Out    string
	Scale  int    // multiplier for case counts (search mode uses >1)
	Replay string // path of a replay file to re-run, if any
	Repo   string // source tree the binary was built from (translators read it)
}

func ParseArgs() *Run {
	r := &Run{}
	flag.Uint64Var(&r.Seed, "seed", 1, "seed")
	flag.StringVar(&r.Tier, "tier", "quick", "quick|thorough")
	flag.StringVar(&r.Out, "out", ".", "output directory")
	flag.IntVar(&r.Scale, "scale", 1, "case count multiplier")
	flag.StringVar(&r.Replay, "replay", "", "replay file")
	flag.StringVar(&r.Repo, "repo", "/repo", "source tree (for translators)")
	flag.Parse()
	if err := os.MkdirAll(r.Out, 0o755); err != nil {
		panic(err)
	}
	return r
}

func (r *Run) Thorough() bool { return r.Tier == "thorough" }

// N picks the case count for the tier.
func (r *Run) N(quick, thorough int) int {
	n := quick
	if r.Thorough() {
		n = thorough
		// Every case is re-evaluated inside Coq (a few ms to tens of ms each); cap the thorough volume at
		// 15x the quick volume so that a thorough run stays within tens of minutes on 16 cores.
		// VERIF_THOROUGH_CAP=0 lifts the cap for a soak run.
		cap := 15
		if v := os.Getenv("VERIF_THOROUGH_CAP"); v != "" {
			fmt.Sscanf(v, "%d", &cap)
		}
		if cap > 0 && quick > 0 && n > cap*quick {
			n = cap * quick
		}
	}
	return n * r.Scale
}

// ---------------------------------------------------------------- Coq printers

func CoqZ(z *big.Int) string {
	if z.Sign() < 0 {
		return "(" + z.String() + ")"
	}
	return z.String()
}
func CoqZi(i int64) string {
	if i < 0 {
		return fmt.Sprintf("(%d)", i)
	}
	return fmt.Sprintf("%d", i)
}
func CoqU(u uint64) string { return fmt.Sprintf("%d", u) }
func CoqBool(b bool) string {
	if b {
		return "true"
	}
	return "false"
}

// CoqBytes prints a byte string as a list of numbers (scope given by the
// surrounding term, e.g. (..)%N or %Z).
func CoqBytes(b []byte) string {
	var sb strings.Builder
	sb.WriteByte('[')
	for i, x := range b {
		if i > 0 {
			sb.WriteByte(';')
		}
		fmt.Fprintf(&sb, "%d", x)
	}
	sb.WriteByte(']')
	return sb.String()
}
func CoqList(xs []string) string { return "[" + strings.Join(xs, "; ") + "]" }
func CoqOpt(some bool, v string) string {
	if some {
		return "(Some " + v + ")"
	}
	return "None"
}

// ---------------------------------------------------------------- shards

// Shards collects Coq case terms and writes cases_NNN.v files; each file
// evaluates <Mismatch> (a function list case -> list N returning the ids of
// disagreeing cases) with vm_compute and prints the result.
type Shards struct {
	Dir      string
	Imports  string // e.g. "From ELA Require Import corr.C09_corr."
	CaseType string // e.g. "C09_corr.case"
	Mismatch string // e.g. "C09_corr.mismatches"
	Scope    string // e.g. "Z" -> terms closed with %Z
	PerShard int
	cases    []string
}

func (s *Shards) Add(term string) { s.cases = append(s.cases, term) }
func (s *Shards) Len() int        { return len(s.cases) }

func (s *Shards) Flush() int {
	per := s.PerShard
	if per <= 0 {
		per = 400
	}
	n := 0
	for i := 0; i < len(s.cases); i += per {
		j := i + per
		if j > len(s.cases) {
			j = len(s.cases)
		}
		var sb strings.Builder
		sb.WriteString("From Coq Require Import List ZArith NArith Bool String.\nImport ListNotations.\n")
		sb.WriteString(s.Imports + "\n")
		if s.Scope != "" {
			fmt.Fprintf(&sb, "Local Open Scope %s_scope.\n", s.Scope)
		}
		fmt.Fprintf(&sb, "Definition cases : list (%s) := [\n", s.CaseType)
		for k, c := range s.cases[i:j] {
			if k > 0 {
				sb.WriteString(";\n")
			}
			sb.WriteString("  " + c)
		}
		sb.WriteString("\n].\n")
		fmt.Fprintf(&sb, "Definition M := Eval vm_compute in (%s cases).\nPrint M.\n", s.Mismatch)
		name := filepath.Join(s.Dir, fmt.Sprintf("cases_%03d.v", n))
		if err := os.WriteFile(name, []byte(sb.String()), 0o644); err != nil {
			panic(err)
		}
		n++
	}
	return n
}

// ---------------------------------------------------------------- stats

// OracleFailure is a concrete input on which the property statement itself
// (evaluated on the implementation's outputs) fails.
type OracleFailure struct {
	Signature string      `json:"signature"` // class, matched against known_findings.jsonl
	What      string      `json:"what"`
	Input     interface{} `json:"input"`
}

type Stats struct {
	Property   string                 `json:"property"`
	Evals      int                    `json:"evaluations"`
	Rule       string                 `json:"rule"`
	Samples    []interface{}          `json:"samples"`
	Hist       map[string]int         `json:"histogram"`
	Failures   []OracleFailure        `json:"oracle_failures"`
	Extra      map[string]interface{} `json:"extra,omitempty"`
	Traces     int                    `json:"traces_validated_against_impl"`
	distinct   map[string]struct{}
	Distinct   int `json:"distinct_nontrivial"`
	maxSamples int
	caseLog    *os.File
}

func NewStats(prop, rule string) *Stats {
	return &Stats{Property: prop, Rule: rule, Hist: map[string]int{}, distinct: map[string]struct{}{},
		Extra: map[string]interface{}{}, maxSamples: 6}
}

// Count records one executed case. key is its canonical observation (used for
// distinctness); nontrivial says whether it meets the property's rule.
func (s *Stats) Count(key string, nontrivial bool, kind string) {
	s.Evals++
	s.Hist[kind]++
	if nontrivial {
		s.distinct[key] = struct{}{}
	}
}
func (s *Stats) Sample(v interface{}) {
	if len(s.Samples) < s.maxSamples {
		s.Samples = append(s.Samples, v)
	}
}
func (s *Stats) Fail(sig, what string, input interface{}) {
	if len(s.Failures) < 50 {
		s.Failures = append(s.Failures, OracleFailure{sig, what, input})
	}
	s.Hist["oracle_fail:"+sig]++
}

// LogCase appends a human-readable record of case id to cases.jsonl so a
// mismatching id reported by Coq can be mapped back to its input.
func (s *Stats) LogCase(dir string, id int, v interface{}) {
	if s.caseLog == nil {
		f, err := os.Create(filepath.Join(dir, "cases.jsonl"))
		if err != nil {
			panic(err)
		}
		s.caseLog = f
	}
	b, _ := json.Marshal(map[string]interface{}{"id": id, "case": v})
	s.caseLog.Write(append(b, '\n'))
}

func (s *Stats) Write(dir string) {
	if s.caseLog != nil {
		s.caseLog.Close()
	}
	s.Distinct = len(s.distinct)
	if s.Failures == nil {
		s.Failures = []OracleFailure{}
	}
	if s.Samples == nil {
		s.Samples = []interface{}{}
	}
	b, err := json.MarshalIndent(s, "", " ")
	if err != nil {
		panic(err)
	}
	if err := os.WriteFile(filepath.Join(dir, "stats.json"), b, 0o644); err != nil {
		panic(err)
	}
}

// SortedKeys helps canonicalise Go maps before they are observed.
func SortedKeys(m map[string]int) []string {
	ks := make([]string, 0, len(m))
	for k := range m {
		ks = append(ks, k)
	}
	sort.Strings(ks)
	return ks
}

// Recover runs f and reports whether it panicked (and with what).
func Recover(f func()) (panicked bool, val interface{}) {
	defer func() {
		if r := recover(); r != nil {
			panicked = true
			val = r
		}
	}()
	f()
	return
}
