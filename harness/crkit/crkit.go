// Package crkit holds the helpers shared by the C22 and C29 harnesses:
// deterministic key material, builders for the CR-related transactions (signed
// exactly as the repository's own tests sign them) and a standalone Committee
// wired to a params-only BlockChain (verif hook blockchain.NewCRCommitteeVerif)
// so that the real SpecialContextCheck of the CRC proposal transactions can be
// driven without a database.
package crkit

import (
	"bytes"
	"crypto/sha256"
	"encoding/binary"

	"github.com/elastos/Elastos.ELA/blockchain"
	"github.com/elastos/Elastos.ELA/common"
	"github.com/elastos/Elastos.ELA/common/config"
	"github.com/elastos/Elastos.ELA/core/checkpoint"
	"github.com/elastos/Elastos.ELA/core/contract"
	"github.com/elastos/Elastos.ELA/core/contract/program"
	"github.com/elastos/Elastos.ELA/core/transaction"
	"github.com/elastos/Elastos.ELA/core/types"
	common2 "github.com/elastos/Elastos.ELA/core/types/common"
	"github.com/elastos/Elastos.ELA/core/types/functions"
	"github.com/elastos/Elastos.ELA/core/types/interfaces"
	"github.com/elastos/Elastos.ELA/core/types/outputpayload"
	"github.com/elastos/Elastos.ELA/core/types/payload"
	"github.com/elastos/Elastos.ELA/cr/state"
	"github.com/elastos/Elastos.ELA/crypto"
)

// Init sets the process-wide function table the transaction package needs.
func Init() {
	functions.GetTransactionByTxType = transaction.GetTransaction
	functions.GetTransactionByBytes = transaction.GetTransactionByBytes
	functions.CreateTransaction = transaction.CreateTransaction
	functions.GetTransactionParameters = transaction.GetTransactionparameters
	config.DefaultParams = *config.GetDefaultParams()
}

// Key is one deterministic key pair with everything derived from it.
type Key struct {
	Priv    []byte
	Pub     []byte // compressed, 33 bytes
	Code    []byte // standard redeem script
	CID     common.Uint168
	DID     common.Uint168
	Deposit common.Uint168 // deposit program hash
	Addr    common.Uint168 // standard program hash
	Stake   common.Uint168
}

// NewKey derives a key pair from (seed, index): private key = SHA-256 of both.
func NewKey(seed uint64, index int) *Key {
	var b [16]byte
	binary.LittleEndian.PutUint64(b[:8], seed)
	binary.LittleEndian.PutUint64(b[8:], uint64(index))
	h := sha256.Sum256(b[:])
	h[0] &= 0x7f // stay below the group order
	if h[0] == 0 && h[1] == 0 {
		h[1] = 1
	}
	k := &Key{Priv: h[:]}
	pk := crypto.NewPubKey(k.Priv)
	k.Pub, _ = pk.EncodePoint(true)
	k.Code, _ = contract.CreateStandardRedeemScript(pk)
	cid, _ := state.GetCIDByCode(k.Code)
	did, _ := state.GetDIDByCode(k.Code)
	k.CID, k.DID = *cid, *did
	dep, _ := contract.PublicKeyToDepositProgramHash(k.Pub)
	k.Deposit = *dep
	addr, _ := contract.PublicKeyToStandardProgramHash(k.Pub)
	k.Addr = *addr
	st, _ := contract.CreateStakeContractByCode(k.Code)
	k.Stake = *st.ToProgramHash()
	return k
}

func (k *Key) Sign(data []byte) []byte {
	s, err := crypto.Sign(k.Priv, data)
	if err != nil {
		panic(err)
	}
	return s
}

// nonce makes otherwise identical transactions distinct.
func nonceAttr(n uint64) []*common2.Attribute {
	var b [8]byte
	binary.LittleEndian.PutUint64(b[:], n)
	a := common2.NewAttribute(common2.Nonce, b[:])
	return []*common2.Attribute{&a}
}

func mk(ver common2.TransactionVersion, typ common2.TxType, pver byte, p interfaces.Payload, n uint64,
	ins []*common2.Input, outs []*common2.Output, progs []*program.Program) interfaces.Transaction {
	if ins == nil {
		ins = []*common2.Input{}
	}
	if outs == nil {
		outs = []*common2.Output{}
	}
	if progs == nil {
		progs = []*program.Program{}
	}
	return functions.CreateTransaction(ver, typ, pver, p, nonceAttr(n), ins, outs, 0, progs)
}

// Coinbase is a stand-in for Transactions[0] (ProcessBlock never sorts or
// interprets it specially apart from its outputs).
func Coinbase(n uint64, outs []*common2.Output) interfaces.Transaction {
	return mk(0, common2.CoinBase, 0, &payload.CoinBase{}, n, nil, outs, nil)
}

func RegisterCR(k *Key, nick string, n uint64, deposit common.Fixed64) interfaces.Transaction {
	info := &payload.CRInfo{Code: k.Code, CID: k.CID, DID: k.DID, NickName: nick, Url: "http://x", Location: 1}
	buf := new(bytes.Buffer)
	info.SerializeUnsigned(buf, payload.CRInfoVersion)
	info.Signature = k.Sign(buf.Bytes())
	return mk(common2.TxVersion09, common2.RegisterCR, payload.CRInfoVersion, info, n, nil,
		[]*common2.Output{{Value: deposit, ProgramHash: k.Deposit, Payload: new(outputpayload.DefaultOutput)}},
		[]*program.Program{{Code: k.Code}})
}

func UpdateCR(k *Key, nick string, n uint64) interfaces.Transaction {
	info := &payload.CRInfo{Code: k.Code, CID: k.CID, DID: k.DID, NickName: nick, Url: "http://y", Location: 2}
	buf := new(bytes.Buffer)
	info.SerializeUnsigned(buf, payload.CRInfoVersion)
	info.Signature = k.Sign(buf.Bytes())
	return mk(common2.TxVersion09, common2.UpdateCR, payload.CRInfoVersion, info, n, nil, nil,
		[]*program.Program{{Code: k.Code}})
}

func UnregisterCR(k *Key, n uint64) interfaces.Transaction {
	p := &payload.UnregisterCR{CID: k.CID}
	buf := new(bytes.Buffer)
	p.SerializeUnsigned(buf, payload.UnregisterCRVersion)
	p.Signature = k.Sign(buf.Bytes())
	return mk(common2.TxVersion09, common2.UnregisterCR, 0, p, n, nil, nil, []*program.Program{{Code: k.Code}})
}

// ReturnDeposit spends the given deposit outpoints of k (they must be known to
// the committee's DepositOutputs) and pays `out` to k's own address.
func ReturnDeposit(k *Key, n uint64, ins []*common2.Input, out common.Fixed64) interfaces.Transaction {
	return mk(common2.TxVersion09, common2.ReturnCRDepositCoin, 0, &payload.ReturnDepositCoin{}, n, ins,
		[]*common2.Output{{Value: out, ProgramHash: k.Addr, Payload: new(outputpayload.DefaultOutput)}},
		[]*program.Program{{Code: k.Code}})
}

// VoteOutputTx is a TransferAsset carrying one vote output with the given
// contents (CRC / CRCProposal / CRCImpeachment), optionally spending earlier
// outputs (which cancels the votes they carried).
func VoteOutputTx(n uint64, value common.Fixed64, contents []outputpayload.VoteContent,
	ins []*common2.Input, extra []*common2.Output) interfaces.Transaction {
	outs := []*common2.Output{}
	if contents != nil {
		outs = append(outs, &common2.Output{Value: value, ProgramHash: common.Uint168{0x21, 123}, Type: common2.OTVote,
			Payload: &outputpayload.VoteOutput{Version: outputpayload.VoteProducerAndCRVersion, Contents: contents}})
	}
	outs = append(outs, extra...)
	return mk(common2.TxVersion09, common2.TransferAsset, 0, &payload.TransferAsset{}, n, ins, outs, nil)
}

// Proposal builds a Normal proposal owned by `owner`, sponsored by council
// member `member`, paying to `recipient`.
func Proposal(owner, member *Key, recipient common.Uint168, budgets []payload.Budget, draft []byte,
	n uint64) (interfaces.Transaction, common.Uint256) {
	p := &payload.CRCProposal{
		ProposalType:       payload.Normal,
		OwnerKey:           owner.Pub,
		CRCouncilMemberDID: member.DID,
		DraftHash:          common.Hash(draft),
		DraftData:          draft,
		Budgets:            budgets,
		Recipient:          recipient,
	}
	ver := payload.CRCProposalVersion01
	buf := new(bytes.Buffer)
	p.SerializeUnsigned(buf, ver)
	sig := owner.Sign(buf.Bytes())
	p.Signature = sig
	common.WriteVarBytes(buf, sig)
	p.CRCouncilMemberDID.Serialize(buf)
	p.CRCouncilMemberSignature = member.Sign(buf.Bytes())
	tx := mk(common2.TxVersion09, common2.CRCProposal, ver, p, n, nil, nil, []*program.Program{{Code: owner.Code}})
	return tx, p.Hash(ver)
}

func Review(member *Key, hash common.Uint256, vote payload.VoteResult, n uint64) interfaces.Transaction {
	p := &payload.CRCProposalReview{ProposalHash: hash, VoteResult: vote, DID: member.DID}
	buf := new(bytes.Buffer)
	p.SerializeUnsigned(buf, payload.CRCProposalReviewVersion)
	p.Signature = member.Sign(buf.Bytes())
	return mk(common2.TxVersion09, common2.CRCProposalReview, payload.CRCProposalReviewVersion, p, n, nil, nil,
		[]*program.Program{{Code: member.Code}})
}

// Tracking signs with the owner, the optional new owner and the secretary
// general, in the order checkCRCProposalTrackingSignature expects.
func Tracking(typ payload.CRCProposalTrackingType, hash common.Uint256, stage uint8, owner, newOwner, sg *Key,
	n uint64) interfaces.Transaction {
	var nb [8]byte
	binary.LittleEndian.PutUint64(nb[:], n)
	p := &payload.CRCProposalTracking{
		ProposalTrackingType:        typ,
		ProposalHash:                hash,
		Stage:                       stage,
		MessageHash:                 common.Hash(append([]byte("msg"), nb[:]...)),
		OwnerKey:                    owner.Pub,
		SecretaryGeneralOpinionHash: common.Hash(append([]byte("op"), nb[:]...)),
	}
	if newOwner != nil {
		p.NewOwnerKey = newOwner.Pub
	}
	ver := payload.CRCProposalTrackingVersion
	buf := new(bytes.Buffer)
	p.SerializeUnsigned(buf, ver)
	sig := owner.Sign(buf.Bytes())
	p.OwnerSignature = sig
	common.WriteVarBytes(buf, sig)
	if newOwner != nil {
		nsig := newOwner.Sign(buf.Bytes())
		p.NewOwnerSignature = nsig
	}
	common.WriteVarBytes(buf, p.NewOwnerSignature)
	buf.Write([]byte{byte(typ)})
	p.SecretaryGeneralOpinionHash.Serialize(buf)
	p.SecretaryGeneralSignature = sg.Sign(buf.Bytes())
	return mk(common2.TxVersion09, common2.CRCProposalTracking, ver, p, n, nil, nil, nil)
}

// WithdrawV1 is the payload-version-1 withdrawal (recipient and amount in the
// payload; the payment itself is made later by a real-withdraw transaction).
// ins pay the fee.
func WithdrawV1(owner *Key, hash common.Uint256, recipient common.Uint168, amount common.Fixed64,
	ins []*common2.Input, n uint64) interfaces.Transaction {
	p := &payload.CRCProposalWithdraw{ProposalHash: hash, OwnerKey: owner.Pub, Recipient: recipient, Amount: amount}
	buf := new(bytes.Buffer)
	p.SerializeUnsigned(buf, payload.CRCProposalWithdrawVersion01)
	p.Signature = owner.Sign(buf.Bytes())
	return mk(common2.TxVersion09, common2.CRCProposalWithdraw, payload.CRCProposalWithdrawVersion01, p, n, ins, nil,
		[]*program.Program{{Code: owner.Code, Parameter: []byte{1}}})
}

// WithdrawV0 is the original withdrawal: it spends committee-address outputs
// (ins, worth inValue in total), pays `pay` to the recipient and the change
// back to the committee address; fee = inValue - pay - change.
func WithdrawV0(owner *Key, hash common.Uint256, recipient, committeeAddr common.Uint168,
	ins []*common2.Input, pay, change common.Fixed64, n uint64) interfaces.Transaction {
	p := &payload.CRCProposalWithdraw{ProposalHash: hash, OwnerKey: owner.Pub}
	buf := new(bytes.Buffer)
	p.SerializeUnsigned(buf, payload.CRCProposalWithdrawDefault)
	p.Signature = owner.Sign(buf.Bytes())
	outs := []*common2.Output{{Value: pay, ProgramHash: recipient, Payload: new(outputpayload.DefaultOutput)}}
	if change > 0 {
		outs = append(outs, &common2.Output{Value: change, ProgramHash: committeeAddr, Payload: new(outputpayload.DefaultOutput)})
	}
	return mk(common2.TxVersion09, common2.CRCProposalWithdraw, payload.CRCProposalWithdrawDefault, p, n, ins, outs, nil)
}

func RealWithdraw(hashes []common.Uint256, n uint64) interfaces.Transaction {
	return mk(common2.TxVersion09, common2.CRCProposalRealWithdraw, 0,
		&payload.CRCProposalRealWithdraw{WithdrawTransactionHashes: hashes}, n, nil, nil, nil)
}

func Appropriation(n uint64, outs []*common2.Output) interfaces.Transaction {
	return mk(common2.TxVersion09, common2.CRCAppropriation, 0, &payload.CRCAppropriation{}, n, nil, outs, nil)
}

// Env is a standalone committee plus the params-only chain its transaction
// checks read it through.
type Env struct {
	Params    *config.Configuration
	Committee *state.Committee
	Chain     *blockchain.BlockChain
	Height    uint32 // best height reported to the committee (GetHeight)
	Refs      map[string]common2.Output
}

// NewEnv builds a fresh committee over its own copy of params.
func NewEnv(params *config.Configuration) *Env {
	e := &Env{Params: params, Refs: map[string]common2.Output{}}
	ckp := checkpoint.NewManager(params)
	e.Committee = state.NewCommittee(params, ckp)
	e.Committee.RegisterFuncitons(&state.CommitteeFuncsConfig{
		GetHeight: func() uint32 { return e.Height },
		GetTxReference: func(tx interfaces.Transaction) (map[*common2.Input]common2.Output, error) {
			r := map[*common2.Input]common2.Output{}
			for _, in := range tx.Inputs() {
				if o, ok := e.Refs[in.ReferKey()]; ok {
					r[in] = o
				}
			}
			return r, nil
		},
	})
	e.Chain = blockchain.NewCRCommitteeVerif(params, e.Committee)
	return e
}

// Check runs the real SpecialContextCheck of tx against the committee as the
// block validator does (state before the block, proposalsUsedAmount of the
// proposals earlier in the same block). refs are the outputs its inputs spend.
func (e *Env) Check(tx interfaces.Transaction, height uint32, proposalsUsed common.Fixed64,
	refs map[*common2.Input]common2.Output) (ok bool, msg string, panicked bool) {
	defer func() {
		if r := recover(); r != nil {
			ok, panicked = false, true
		}
	}()
	tx.SetParameters(&transaction.TransactionParameters{
		Transaction:         tx,
		BlockHeight:         height,
		TimeStamp:           0,
		Config:              e.Params,
		BlockChain:          e.Chain,
		ProposalsUsedAmount: proposalsUsed,
	})
	if refs == nil {
		refs = map[*common2.Input]common2.Output{}
	}
	tx.SetReferences(refs)
	err, _ := tx.SpecialContextCheck()
	if err != nil {
		return false, err.Error(), false
	}
	return true, "", false
}

// Block wraps txs (Transactions[0] is a coinbase stand-in) at the height.
func Block(height uint32, txs []interfaces.Transaction) *types.Block {
	return &types.Block{Header: common2.Header{Height: height}, Transactions: txs}
}

// Process feeds one block, keeping GetHeight equal to the block height as on a
// node that is extending its best chain.
func (e *Env) Process(height uint32, txs []interfaces.Transaction) {
	e.Height = height
	e.Committee.ProcessBlock(Block(height, txs), nil)
}

// ClaimNode: council member did claims the DPoS node key (current term).
func ClaimNode(nodePub []byte, did common.Uint168, n uint64) interfaces.Transaction {
	return mk(common2.TxVersion09, common2.CRCouncilMemberClaimNode, payload.CurrentCRClaimDPoSNodeVersion,
		&payload.CRCouncilMemberClaimNode{NodePublicKey: nodePub, CRCouncilCommitteeDID: did}, n, nil, nil, nil)
}

// CloseProposalTx builds a CloseProposal proposal (no budgets, no recipient)
// asking to terminate the proposal `target`.
func CloseProposalTx(owner, member *Key, target common.Uint256, draft []byte, n uint64) (interfaces.Transaction, common.Uint256) {
	p := &payload.CRCProposal{
		ProposalType:       payload.CloseProposal,
		OwnerKey:           owner.Pub,
		CRCouncilMemberDID: member.DID,
		DraftHash:          common.Hash(draft),
		DraftData:          draft,
		TargetProposalHash: target,
	}
	ver := payload.CRCProposalVersion01
	buf := new(bytes.Buffer)
	p.SerializeUnsigned(buf, ver)
	sig := owner.Sign(buf.Bytes())
	p.Signature = sig
	common.WriteVarBytes(buf, sig)
	p.CRCouncilMemberDID.Serialize(buf)
	p.CRCouncilMemberSignature = member.Sign(buf.Bytes())
	tx := mk(common2.TxVersion09, common2.CRCProposal, ver, p, n, nil, nil, []*program.Program{{Code: owner.Code}})
	return tx, p.Hash(ver)
}
