package crkit

import (
	"encoding/hex"
	"fmt"
	"reflect"
	"sort"
	"strings"
)

// Canon renders v as a list of "path = value" lines, independent of map
// iteration order, pointer identity and nil-vs-empty containers.  Slices keep
// their order unless their path (without indices) is listed in unordered, in
// which case they are sorted (their order in the implementation follows a Go
// map iteration and is not part of the state).
func Canon(v interface{}, unordered map[string]bool) []string {
	var out []string
	canon(reflect.ValueOf(v), "", unordered, &out)
	return out
}

func scalar(v reflect.Value) (string, bool) {
	switch v.Kind() {
	case reflect.Bool:
		return fmt.Sprint(v.Bool()), true
	case reflect.Int, reflect.Int8, reflect.Int16, reflect.Int32, reflect.Int64:
		return fmt.Sprint(v.Int()), true
	case reflect.Uint, reflect.Uint8, reflect.Uint16, reflect.Uint32, reflect.Uint64:
		return fmt.Sprint(v.Uint()), true
	case reflect.String:
		return fmt.Sprintf("%q", v.String()), true
	case reflect.Float32, reflect.Float64:
		return fmt.Sprint(v.Float()), true
	case reflect.Array, reflect.Slice:
		if v.Type().Elem().Kind() == reflect.Uint8 {
			b := make([]byte, v.Len())
			for i := range b {
				b[i] = byte(v.Index(i).Uint())
			}
			return "x" + hex.EncodeToString(b), true
		}
	}
	return "", false
}

func flat(v reflect.Value, unordered map[string]bool) string {
	var out []string
	canon(v, "", unordered, &out)
	return strings.Join(out, ",")
}

func canon(v reflect.Value, path string, unordered map[string]bool, out *[]string) {
	if s, ok := scalar(v); ok {
		*out = append(*out, path+" = "+s)
		return
	}
	switch v.Kind() {
	case reflect.Ptr, reflect.Interface:
		if v.IsNil() {
			*out = append(*out, path+" = nil")
			return
		}
		canon(v.Elem(), path, unordered, out)
	case reflect.Struct:
		for i := 0; i < v.NumField(); i++ {
			name := v.Type().Field(i).Name
			if name == "hash" || name == "txHash" { // caches
				continue
			}
			canon(v.Field(i), path+"."+name, unordered, out)
		}
	case reflect.Map:
		type kv struct {
			k string
			v reflect.Value
		}
		var kvs []kv
		for _, k := range v.MapKeys() {
			kvs = append(kvs, kv{flat(k, unordered), v.MapIndex(k)})
		}
		sort.Slice(kvs, func(i, j int) bool { return kvs[i].k < kvs[j].k })
		for _, e := range kvs {
			if e.v.Kind() == reflect.Struct && e.v.NumField() == 0 {
				*out = append(*out, path+"["+e.k+"] = {}")
				continue
			}
			canon(e.v, path+"["+e.k+"]", unordered, out)
		}
	case reflect.Slice, reflect.Array:
		if unordered[path] {
			var items []string
			for i := 0; i < v.Len(); i++ {
				items = append(items, flat(v.Index(i), unordered))
			}
			sort.Strings(items)
			for i, s := range items {
				*out = append(*out, fmt.Sprintf("%s{%d} = %s", path, i, s))
			}
			return
		}
		for i := 0; i < v.Len(); i++ {
			canon(v.Index(i), fmt.Sprintf("%s{%d}", path, i), unordered, out)
		}
	default:
		*out = append(*out, path+" = ?"+v.Kind().String())
	}
}

// Diff returns the first few lines present in exactly one of a, b.
func Diff(a, b []string, max int) (onlyA, onlyB []string) {
	ma, mb := map[string]int{}, map[string]int{}
	for _, s := range a {
		ma[s]++
	}
	for _, s := range b {
		mb[s]++
	}
	for _, s := range a {
		if mb[s] < ma[s] && len(onlyA) < max {
			onlyA = append(onlyA, s)
		}
	}
	for _, s := range b {
		if ma[s] < mb[s] && len(onlyB) < max {
			onlyB = append(onlyB, s)
		}
	}
	return
}

// FieldOf strips indices and values from a canon line: ".A.B[k].C = v" -> ".A.B.C".
func FieldOf(line string) string {
	if i := strings.Index(line, " = "); i >= 0 {
		line = line[:i]
	}
	var sb strings.Builder
	depth := 0
	for _, r := range line {
		switch {
		case r == '[' || r == '{':
			depth++
		case r == ']' || r == '}':
			depth--
		case depth == 0:
			sb.WriteRune(r)
		}
	}
	return sb.String()
}
