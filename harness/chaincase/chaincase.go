// Package chaincase runs block-tree histories (forks, orphans first, invalid
// blocks inside heavier branches, forced consensus modes) against the real
// BlockChain of the fixture and prints them as Coq cases for
// corr/C12_corr.v / corr/C30_corr.v.  Shared by cmd/c12 and cmd/c30.
package chaincase

import (
	"fmt"
	"strings"

	"github.com/elastos/Elastos.ELA/blockchain"
	"github.com/elastos/Elastos.ELA/common"
	"github.com/elastos/Elastos.ELA/common/config"
	"github.com/elastos/Elastos.ELA/core/types"
	"github.com/elastos/Elastos.ELA/core/types/interfaces"
	"github.com/elastos/Elastos.ELA/dpos/state"
	"github.com/elastos/Elastos.ELA/events"

	"verifharness/fixture"
	"verifharness/lib"
)

// Block kinds.
const (
	Valid     = 0
	BadReward = 1 // coinbase pays the miner too much: fails CheckBlockSanity (foundation share below 30%)
	Spend     = 2 // spends the genesis coinbase output: valid from height 2 on, immature (invalid in context) at height 1
	Respend   = 3 // spends the genesis output again below a Spend block: sane, invalid in context (double spend)
	NoPow     = 4 // unsolved header: fails CheckBlockSanity
	BadSpend  = 5 // spends an outpoint that does not exist: sane, invalid in context
)

// Sane: the block passes CheckBlockSanity.
func (h *Hist) Sane(id int) bool {
	k := h.Blocks[id-1].Kind
	return k != NoPow && k != BadReward
}

// CtxValid: connectBlock accepts the block on top of its own parent chain
// (meaningful when all ancestors are valid).
func (h *Hist) CtxValid(id int) bool {
	switch h.Blocks[id-1].Kind {
	case Valid:
		return true
	case Spend:
		return h.Height(id) >= 2
	}
	return false
}

// Blk describes one block of the tree; ids are 1.. (0 is genesis), parents
// have smaller ids.
type Blk struct {
	ID     int  `json:"id"`
	Parent int  `json:"parent"`
	Kind   int  `json:"kind"`
	Dpos   bool `json:"dpos"`   // ConsensusAlgorithm == DPOS once this block is the tip
	Resume bool `json:"resume"` // DPOSWorkHeight+1 == height when this block is processed
}

// Hist is one history: a tree and a delivery order (ids, repeats allowed).
type Hist struct {
	Name   string `json:"name"`
	Blocks []Blk  `json:"blocks"`
	Order  []int  `json:"order"`
	// Irr switches the irreversibility machinery on: the DPoS state sees
	// CRCOnlyDPOSHeight = CRC and RevertToPOWStartHeight = RS (a private copy
	// of the parameters; the rest of the node keeps regnet's), the
	// consensus mode follows the Dpos bits of the blocks.
	Irr bool   `json:"irr"`
	CRC uint32 `json:"crc"`
	RS  uint32 `json:"rs"`
}

func (h *Hist) Height(id int) int {
	n := 0
	for id != 0 {
		id = h.Blocks[id-1].Parent
		n++
	}
	return n
}

// Obs is what was observed for one delivery.
type Obs struct {
	Blk       int      `json:"blk"`
	InMain    bool     `json:"in_main"`
	Orphan    bool     `json:"orphan"`
	Err       bool     `json:"err"`
	ErrText   string   `json:"err_text,omitempty"`
	Main      []int    `json:"main"` // tip first
	LihBefore uint32   `json:"lih_before"`
	Lih       uint32   `json:"lih"`
	Detached  []int    `json:"detached"` // heights of blocks disconnected during the delivery
	Connected []int    `json:"connected"`
	Events    []int    `json:"events"`    // +h connected, -h disconnected, in order
	LihTrace  []uint32 `json:"lih_trace"` // LIH read at each event (connect: before the DPoS state processes the block; disconnect: after the rollback)
	Orphans   []int    `json:"orphans"`   // ids in the orphan pool after the delivery (IsKnownOrphan)
}

// FailedSwitch reports whether the delivery ended in an error after a
// reorganisation that detached blocks and did not get above the height it
// started from (all blocks of the fixture have equal work).
func (o *Obs) FailedSwitch() bool {
	if !o.Err {
		return false
	}
	i := len(o.Events) - 1
	for i >= 0 && o.Events[i] > 0 {
		i--
	}
	if i < 0 {
		return false
	}
	connects := len(o.Events) - 1 - i
	j := i
	for j >= 0 && o.Events[j] < 0 {
		j--
	}
	before := -o.Events[j+1] // height of the tip when the last detach run started
	k := i - j
	return before-k+connects <= before
}

// current history for the process-wide event callback
var cur *runner
var subscribed bool

type runner struct {
	f     *fixture.Fixture
	h     *Hist
	blk   map[int]*types.Block
	idOf  map[common.Uint256]int
	det   []int
	con   []int
	evs   []int
	ltr   []uint32
	st    *state.State
	inRun bool
}

func (r *runner) setMode(dpos bool) {
	if dpos {
		r.st.ConsensusAlgorithm = state.DPOS
	} else {
		r.st.ConsensusAlgorithm = state.POW
	}
}

func (r *runner) bits(id int) (bool, bool) {
	if id == 0 {
		return false, false
	}
	b := r.h.Blocks[id-1]
	return b.Dpos, b.Resume
}

func onEvent(e *events.Event) {
	r := cur
	if r == nil || !r.inRun {
		return
	}
	switch e.Type {
	case events.ETBlockConnected:
		b := e.Data.(*types.Block)
		id := r.idOf[b.Hash()]
		r.con = append(r.con, int(b.Height))
		r.evs = append(r.evs, int(b.Height))
		r.ltr = append(r.ltr, r.st.LastIrreversibleHeight)
		if r.h.Irr {
			// the DPoS state processes this block next: it must read the mode left
			// by the parent block and the resume condition of this block
			pd, _ := r.bits(r.h.Blocks[id-1].Parent)
			r.setMode(pd)
			if _, res := r.bits(id); res {
				r.st.DPOSWorkHeight = b.Height - 1
			} else {
				r.st.DPOSWorkHeight = 0
			}
		}
	case events.ETBlockDisconnected:
		b := e.Data.(*types.Block)
		r.det = append(r.det, int(b.Height))
		r.evs = append(r.evs, -int(b.Height))
		r.ltr = append(r.ltr, r.st.LastIrreversibleHeight)
	case events.ETBlockProcessed:
		if r.h.Irr && r.f.Chain.BestChain != nil {
			d, _ := r.bits(r.idOf[*r.f.Chain.BestChain.Hash])
			r.setMode(d)
			r.st.DPOSWorkHeight = 0
		}
	}
}

// Run executes the history on a fresh fixture.
func Run(h *Hist) ([]Obs, []int64, error) {
	f, err := fixture.New(fixture.Options{Tune: func(p *config.Configuration) {
		if h.Irr {
			p.VoteStartHeight = 0 // so that reorganisations roll the DPoS state back (OnRollbackTo)
		}
	}})
	if err != nil {
		return nil, nil, err
	}
	defer f.Close()
	r := &runner{f: f, h: h, blk: map[int]*types.Block{0: f.Genesis}, idOf: map[common.Uint256]int{f.Genesis.Hash(): 0},
		st: f.Arbiters.State}
	if h.Irr {
		cp := *r.st.ChainParams
		cp.CRCOnlyDPOSHeight = h.CRC
		cp.DPoSConfiguration.RevertToPOWStartHeight = h.RS
		r.st.ChainParams = &cp
		r.setMode(false)
	}
	if !subscribed {
		events.Subscribe(onEvent)
		subscribed = true
	}
	cur = r
	defer func() { cur = nil }()

	total := f.Genesis.Transactions[0].Outputs()[0].Value
	works := make([]int64, len(h.Blocks)+1)
	for _, b := range h.Blocks {
		var txs []interfaces.Transaction
		opt := fixture.BlockOpt{Miner: b.ID % 4, Salt: uint64(1000 + b.ID)}
		switch b.Kind {
		case BadReward:
			opt.BadReward = 12345
		case NoPow:
			opt.NoPow = true
		case BadSpend:
			op := f.GenesisOut
			op.TxID[0] ^= 0x5a
			op.TxID[7] = byte(b.ID)
			tx, e := f.Transfer([]fixture.In{{Op: op, Key: 0}},
				[]fixture.Out{{Key: 1, Value: 1000}}, uint64(7000+b.ID))
			if e != nil {
				return nil, nil, e
			}
			txs = append(txs, tx)
		case Spend, Respend:
			tx, e := f.Transfer([]fixture.In{{Op: f.GenesisOut, Key: 0}},
				[]fixture.Out{{Key: 1 + b.ID%3, Value: total - 1000 - common.Fixed64(b.ID)}}, uint64(5000+b.ID))
			if e != nil {
				return nil, nil, e
			}
			txs = append(txs, tx)
		}
		blk, e := f.BuildBlock(r.blk[b.Parent], txs, opt)
		if e != nil {
			return nil, nil, e
		}
		r.blk[b.ID] = blk
		r.idOf[blk.Hash()] = b.ID
		works[b.ID] = blockchain.CalcWork(blk.Bits).Int64()
	}

	var obs []Obs
	for _, id := range h.Order {
		o := Obs{Blk: id, LihBefore: r.st.GetLastIrreversibleHeight()}
		if h.Irr {
			tip, _ := f.Tip()
			d, _ := r.bits(r.idOf[tip])
			r.setMode(d)
			r.st.DPOSWorkHeight = 0
		}
		r.det, r.con, r.evs, r.ltr = nil, nil, nil, nil
		r.inRun = true
		var in, orphan bool
		var perr error
		panicked, pv := lib.Recover(func() { in, orphan, perr = f.ProcessBlock(r.blk[id]) })
		r.inRun = false
		if panicked {
			return obs, works, fmt.Errorf("ProcessBlock panicked on block %d: %v", id, pv)
		}
		o.InMain, o.Orphan, o.Err = in, orphan, perr != nil
		if perr != nil {
			o.ErrText = strings.TrimSpace(perr.Error())
			if len(o.ErrText) > 120 {
				o.ErrText = o.ErrText[:120]
			}
		}
		mc := f.MainChain()
		for i := len(mc) - 1; i >= 0; i-- {
			o.Main = append(o.Main, r.idOf[mc[i]])
		}
		o.Lih = r.st.GetLastIrreversibleHeight()
		o.Detached, o.Connected, o.Events, o.LihTrace = r.det, r.con, r.evs, r.ltr
		for _, b := range h.Blocks {
			hh := r.blk[b.ID].Hash()
			if f.Chain.IsKnownOrphan(&hh) {
				o.Orphans = append(o.Orphans, b.ID)
			}
		}
		obs = append(obs, o)
	}
	return obs, works, nil
}

// CoqCase prints the history with its observations as a C12_corr.Hist term.
func CoqCase(ctor string, id int, h *Hist, obs []Obs, works []int64, cap int) string {
	var sb strings.Builder
	crc, rs := uint32(1000000), uint32(2000000)
	if h.Irr {
		crc, rs = h.CRC, h.RS
	}
	fmt.Fprintf(&sb, "%s %d %d %d %d [", ctor, id, crc, rs, cap)
	for i, o := range obs {
		if i > 0 {
			sb.WriteString("; ")
		}
		b := h.Blocks[o.Blk-1]
		ids := make([]string, len(o.Main))
		for k, m := range o.Main {
			ids[k] = fmt.Sprintf("%d", m)
		}
		fmt.Fprintf(&sb, "(B %d %d %d %d %s %s %s %s, (%s, %s, %s), [%s]%%N, %d)",
			b.ID, b.Parent, h.Height(b.ID), works[b.ID],
			lib.CoqBool(h.Sane(b.ID)), lib.CoqBool(h.CtxValid(b.ID)),
			lib.CoqBool(b.Dpos && h.Irr), lib.CoqBool(b.Resume && h.Irr),
			lib.CoqBool(o.InMain), lib.CoqBool(o.Orphan), lib.CoqBool(o.Err), strings.Join(ids, ";"), o.Lih)
	}
	sb.WriteString("]")
	return sb.String()
}

// ---------------------------------------------------------------- generators

// Tree builds a random tree: a trunk, up to nforks forks of depth <= maxDepth,
// at most maxBlocks blocks; with probability pInvalid one invalid block is put
// inside a branch that ends heavier than the trunk.
func Tree(rng *lib.Rng, maxBlocks, maxDepth int, pInvalid, pInsane int) []Blk {
	trunk := rng.Range(1, 6)
	var bs []Blk
	add := func(parent int) int {
		bs = append(bs, Blk{ID: len(bs) + 1, Parent: parent})
		return len(bs)
	}
	prev := 0
	trunkIDs := []int{0}
	for i := 0; i < trunk; i++ {
		prev = add(prev)
		trunkIDs = append(trunkIDs, prev)
	}
	nforks := rng.Range(1, 3)
	type branch struct{ ids []int }
	var branches []branch
	for k := 0; k < nforks && len(bs) < maxBlocks; k++ {
		// fork point: a trunk node (or, sometimes, a node of an earlier branch)
		fp := trunkIDs[rng.Intn(len(trunkIDs))]
		if len(branches) > 0 && rng.Chance(25) {
			b := branches[rng.Intn(len(branches))]
			fp = b.ids[rng.Intn(len(b.ids))]
		}
		depth := rng.Range(1, maxDepth)
		var br branch
		p := fp
		for d := 0; d < depth && len(bs) < maxBlocks; d++ {
			p = add(p)
			br.ids = append(br.ids, p)
		}
		if len(br.ids) > 0 {
			branches = append(branches, br)
		}
	}
	h := &Hist{Blocks: bs}
	if len(branches) > 0 && rng.Chance(pInvalid) {
		// prefer a branch whose end is higher than the trunk
		cand := branches[rng.Intn(len(branches))]
		for _, b := range branches {
			if h.Height(b.ids[len(b.ids)-1]) > trunk {
				cand = b
				break
			}
		}
		pos := rng.Intn(len(cand.ids))
		if pos > 0 && rng.Chance(50) {
			// double spend inside the branch: an earlier block spends, this one re-spends
			bs[cand.ids[rng.Intn(pos)]-1].Kind = Spend
			bs[cand.ids[pos]-1].Kind = Respend
		} else {
			bs[cand.ids[pos]-1].Kind = BadSpend
		}
	}
	if rng.Chance(pInsane) {
		i := rng.Intn(len(bs))
		if bs[i].Kind == Valid {
			bs[i].Kind = NoPow
			if rng.Bool() {
				bs[i].Kind = BadReward
			}
		}
	}
	return bs
}

// Order returns a delivery order: natural, reversed (orphans first), shuffled,
// or branch-wise shuffled; sometimes with a repeated delivery.
func Order(rng *lib.Rng, n int) []int {
	ord := make([]int, n)
	for i := range ord {
		ord[i] = i + 1
	}
	switch rng.Intn(4) {
	case 0:
	case 1:
		for i, j := 0, n-1; i < j; i, j = i+1, j-1 {
			ord[i], ord[j] = ord[j], ord[i]
		}
	default:
		for i := n - 1; i > 0; i-- {
			j := rng.Intn(i + 1)
			ord[i], ord[j] = ord[j], ord[i]
		}
	}
	if rng.Chance(20) {
		k := rng.Intn(n)
		ord = append(ord, ord[k])
	}
	return ord
}

// ---------------------------------------------------------------- oracle helpers

// Info gives per-block facts computed from the tree alone.
type Info struct {
	h     *Hist
	works []int64
}

func NewInfo(h *Hist, works []int64) *Info { return &Info{h, works} }

// ContextValid: the block itself is sane and valid on its parent chain.
func (x *Info) BlockOK(id int) bool {
	if id == 0 {
		return true
	}
	return x.h.Sane(id) && x.h.CtxValid(id)
}

// WorkSum of the chain ending in id.
func (x *Info) WorkSum(id int) int64 {
	var w int64
	for id != 0 {
		w += x.works[id]
		id = x.h.Blocks[id-1].Parent
	}
	return w
}

// ChainOK: every block from id down to genesis is delivered and valid.
func (x *Info) ChainOK(id int, delivered map[int]bool) bool {
	for id != 0 {
		if !delivered[id] || !x.BlockOK(id) {
			return false
		}
		id = x.h.Blocks[id-1].Parent
	}
	return true
}

// SecondGenesis delivers, to a chain of two blocks, a solved block whose
// previous hash is empty and whose height is 0.  It reports whether
// ProcessBlock panicked, its error and whether the active chain changed.
func SecondGenesis() (panicked bool, errText string, changed bool, err error) {
	f, err := fixture.New(fixture.Options{})
	if err != nil {
		return false, "", false, err
	}
	defer f.Close()
	b1, _ := f.BuildBlock(f.Genesis, nil, fixture.BlockOpt{Miner: 1})
	f.ProcessBlock(b1)
	before, _ := f.Tip()
	b, _ := f.BuildBlock(f.Genesis, nil, fixture.BlockOpt{Miner: 2, Salt: 9})
	b.Header.Previous = common.EmptyHash
	b.Header.Height = 0
	f.Resolve(b)
	var perr error
	panicked, _ = lib.Recover(func() { _, _, perr = f.ProcessBlock(b) })
	if perr != nil {
		errText = perr.Error()
	}
	after, _ := f.Tip()
	return panicked, errText, before != after, nil
}

// DeepFork builds a proof-of-work history in which a fork starting 7-15 blocks
// below the final trunk tip overtakes late: the trunk is delivered up to some
// height, the first blocks of the side branch arrive (at a random moment, not
// heavier yet), the trunk connects further blocks, then the rest of the side
// branch arrives parent first until it is 1-2 blocks higher than the trunk;
// sometimes the trunk then answers with a shallow fork back.  No irreversibility
// is involved (heights are below CRCOnlyDPOSHeight), so the node must follow.
func DeepFork(rng *lib.Rng) ([]Blk, []int) {
	depth := rng.Range(7, 15)
	fp := rng.Range(0, 3)    // fork point height (trunk block id = height)
	trunk := fp + depth      // final trunk height
	early := rng.Range(1, 4) // side blocks delivered before the trunk is complete
	over := rng.Range(1, 2)
	side := depth + over
	if early > side-1 {
		early = side - 1
	}
	var bs []Blk
	prev := 0
	for h := 1; h <= trunk; h++ {
		bs = append(bs, Blk{ID: len(bs) + 1, Parent: prev})
		prev = len(bs)
	}
	prev = fp
	sideIDs := []int{}
	for k := 0; k < side; k++ {
		bs = append(bs, Blk{ID: len(bs) + 1, Parent: prev})
		prev = len(bs)
		sideIDs = append(sideIDs, prev)
	}
	// the early side blocks are delivered once the trunk has reached height at,
	// with fp+early <= at (not heavier) and at < trunk (the trunk still grows)
	lo := fp + early
	if lo < 1 {
		lo = 1
	}
	at := rng.Range(lo, trunk-1)
	var ord []int
	for h := 1; h <= at; h++ {
		ord = append(ord, h)
	}
	ord = append(ord, sideIDs[:early]...)
	for h := at + 1; h <= trunk; h++ {
		ord = append(ord, h)
	}
	ord = append(ord, sideIDs[early:]...)
	if rng.Chance(40) {
		// the old trunk comes back with a shallow extension
		p := trunk
		for k := 0; k < over+1; k++ {
			bs = append(bs, Blk{ID: len(bs) + 1, Parent: p})
			p = len(bs)
			ord = append(ord, p)
		}
	}
	return bs, ord
}

// ---------------------------------------------------------------- guard grid

// GuardSpec restates what the irreversibility guard is meant to refuse
// (C12_guard_excludes), for 0 <= d <= cur: above CRCOnlyDPOSHeight, a fork point
// at or below LIH, or depth >= 6 in DPoS mode from RevertToPOWStartHeight on, or
// depth > 6 before that height.
func GuardSpec(crc, rs uint32, dpos bool, lih uint32, cur, d int) bool {
	if uint32(cur) <= crc {
		return false
	}
	if uint32(cur-d) <= lih {
		return true
	}
	if uint32(cur) >= rs {
		return dpos && d >= 6
	}
	return d > 6
}

// GuardGridLs are the LIH values of the grid.
var GuardGridLs = []uint32{0, 1, 3, 6, 11, 4294967290}

// GuardGrid evaluates the real State.IsIrreversible for one (crc, rs) on the
// grid mode x LIH x cur 0..maxCur x detach 0..maxCur+1 (detach > cur exercises
// the uint32 subtraction), in that nesting order.
func GuardGrid(crc, rs uint32, maxCur int) ([]bool, error) {
	f, err := fixture.New(fixture.Options{})
	if err != nil {
		return nil, err
	}
	defer f.Close()
	st := f.Arbiters.State
	cp := *st.ChainParams
	cp.CRCOnlyDPOSHeight = crc
	cp.DPoSConfiguration.RevertToPOWStartHeight = rs
	st.ChainParams = &cp
	var out []bool
	for _, dpos := range []bool{false, true} {
		if dpos {
			st.ConsensusAlgorithm = state.DPOS
		} else {
			st.ConsensusAlgorithm = state.POW
		}
		for _, l := range GuardGridLs {
			st.LastIrreversibleHeight = l
			for cur := 0; cur <= maxCur; cur++ {
				for d := 0; d <= maxCur+1; d++ {
					out = append(out, st.IsIrreversible(uint32(cur), d))
				}
			}
		}
	}
	return out, nil
}

// CoqGuardGrid prints the grid as a C12_corr.GuardGrid term.
func CoqGuardGrid(id int, crc, rs uint32, maxCur int, outs []bool) string {
	var sb strings.Builder
	ls := make([]string, len(GuardGridLs))
	for i, l := range GuardGridLs {
		ls[i] = fmt.Sprintf("%d", l)
	}
	fmt.Fprintf(&sb, "GuardGrid %d %d %d [%s] %d [", id, crc, rs, strings.Join(ls, ";"), maxCur)
	for i, o := range outs {
		if i > 0 {
			sb.WriteByte(';')
		}
		if o {
			sb.WriteString("true")
		} else {
			sb.WriteString("false")
		}
	}
	sb.WriteString("]")
	return sb.String()
}

// ---------------------------------------------------------------- height regimes

// RegimeFork builds an in-order history with the irreversibility machinery on,
// in one of the three height regimes (all heights at or below CRCOnlyDPOSHeight:
// guard off; between CRCOnlyDPOSHeight and RevertToPOWStartHeight; at or above
// RevertToPOWStartHeight) and one of the consensus modes (DPoS throughout, PoW
// throughout, DPoS then reverted to PoW): a trunk of 10-16 blocks and one fork
// 1-12 below the tip that ends one block higher than the trunk.
func RegimeFork(rng *lib.Rng) *Hist {
	trunk := rng.Range(10, 16)
	var crc, rs uint32
	regime := rng.Intn(3)
	switch regime {
	case 0:
		crc, rs = 100, 200
	case 1:
		crc, rs = uint32(rng.Range(1, 3)), 100
	default:
		crc, rs = uint32(rng.Range(1, 3)), uint32(rng.Range(7, 9))
	}
	sw := rng.Range(8, trunk)
	var mode func(h int) bool
	mname := ""
	switch rng.Intn(3) {
	case 0:
		mode, mname = func(h int) bool { return true }, "dpos"
	case 1:
		mode, mname = func(h int) bool { return false }, "pow"
	default:
		mode, mname = func(h int) bool { return h < sw }, "revert"
	}
	depth := rng.Range(1, 12)
	if depth > trunk {
		depth = trunk
	}
	forkAt := trunk - depth
	var bs []Blk
	prev := 0
	for h := 1; h <= trunk; h++ {
		bs = append(bs, Blk{ID: len(bs) + 1, Parent: prev, Dpos: mode(h)})
		prev = len(bs)
	}
	prev = forkAt
	for k := 1; k <= depth+1; k++ {
		bs = append(bs, Blk{ID: len(bs) + 1, Parent: prev, Dpos: mode(forkAt + k)})
		prev = len(bs)
	}
	ord := make([]int, len(bs))
	for i := range ord {
		ord[i] = i + 1
	}
	return &Hist{Name: fmt.Sprintf("regime%d-%s-d%d", regime, mname, depth), Blocks: bs, Order: ord, Irr: true, CRC: crc, RS: rs}
}
