// Package ledgerh drives whole histories (blocks, forks, reorganisations,
// mempool submissions) on the real node core of harness/fixture, records them
// as Coq cases for corr/Ledger_run.v and evaluates the property oracles of
// C06 / C14 with an independent replay of the active chain.
package ledgerh

import (
	"bytes"
	"fmt"
	"sort"
	"strings"

	"github.com/elastos/Elastos.ELA/common"
	"github.com/elastos/Elastos.ELA/core/types"
	ctypes "github.com/elastos/Elastos.ELA/core/types/common"
	"github.com/elastos/Elastos.ELA/core/types/interfaces"

	"verifharness/fixture"
	"verifharness/lib"
)

// Mode selects what is observed after every step.
type Mode struct {
	Unspent bool // GetUnspent of every known tx id
	Txs     bool // GetTransaction of every known tx id
	Addr    bool // GetUTXO + GetAmount of every key
	Pool    bool // mempool content, submissions
	Side    bool // Tx3 / return-deposit / draft buckets
	Store   bool // store-level history (StoreSave / StoreRollback): the active chain is the harness' own stack
	Prop    string
	Cfg     string // Coq term of the model configuration
}

type out struct {
	addr int
	val  common.Fixed64
}
type htx struct {
	id   int
	tx   interfaces.Transaction
	cb   bool
	lock uint32
	ins  []ctypes.OutPoint
	outs []out
	side *sideInfo
}
type hblk struct {
	id     int
	b      *types.Block
	parent *hblk
	height uint32
	txs    []*htx
	fault  string
}

// H is one history in progress.
type H struct {
	F      *fixture.Fixture
	Rng    *lib.Rng
	ID     int
	Mode   Mode
	St     *lib.Stats
	txID   map[common.Uint256]int
	txs    []*htx
	blocks map[common.Uint256]*hblk
	nblk   int
	evs    []string
	log    []string
	maxH   uint32
	tag    uint64
	nFail  int
	kinds  map[string]int
	reorgs int

	// store-level mode
	stack     []*hblk                      // saved blocks above genesis
	snaps     []map[string]string          // snapshot taken before each save
	side      map[common.Uint256]*sideInfo // side data of special transactions
	hashID    map[common.Uint256]int       // side-chain / deposit / draft hashes
	dataID    map[string]int               // draft data
	hashes    []common.Uint256
	tainted   map[int]bool
	ShareData bool // draft-carrying transactions reuse the bytes already stored under a hash
	draftData map[common.Uint256][]byte
	Layout    string // see store.go: position of ordinary outputs in special transactions ("" = random)
}

func New(f *fixture.Fixture, rng *lib.Rng, id int, mode Mode, st *lib.Stats) *H {
	h := &H{F: f, Rng: rng, ID: id, Mode: mode, St: st, txID: map[common.Uint256]int{}, blocks: map[common.Uint256]*hblk{}, kinds: map[string]int{},
		side: map[common.Uint256]*sideInfo{}, hashID: map[common.Uint256]int{}, dataID: map[string]int{}}
	g := &hblk{id: 0, b: f.Genesis, height: 0}
	for _, t := range f.Genesis.Transactions {
		g.txs = append(g.txs, h.reg(t))
	}
	h.blocks[f.Genesis.Hash()] = g
	h.nblk = 1
	return h
}

func (h *H) addrOf(ph common.Uint168) int {
	for i, k := range h.F.Keys {
		if k.Hash == ph {
			return i
		}
	}
	return 9 // unknown address (never produced by the generator)
}

// reg assigns an abstract id to a transaction.
func (h *H) reg(t interfaces.Transaction) *htx {
	hash := t.Hash()
	id, ok := h.txID[hash]
	if !ok {
		id = len(h.txID) + 1
		h.txID[hash] = id
	}
	x := &htx{id: id, tx: t, cb: t.IsCoinBaseTx(), lock: t.LockTime(), side: h.side[hash]}
	if !x.cb {
		for _, in := range t.Inputs() {
			x.ins = append(x.ins, in.Previous)
		}
	}
	for _, o := range t.Outputs() {
		x.outs = append(x.outs, out{h.addrOf(o.ProgramHash), o.Value})
	}
	if !ok {
		h.txs = append(h.txs, x)
	}
	return x
}

// refID maps a referenced tx hash to its abstract id (unknown hashes get a
// fresh id that no transaction carries).
func (h *H) refID(hash common.Uint256) int {
	if id, ok := h.txID[hash]; ok {
		return id
	}
	id := len(h.txID) + 1
	h.txID[hash] = id
	return id
}

func (h *H) coqTx(x *htx) string {
	var ins, outs []string
	for _, op := range x.ins {
		ins = append(ins, fmt.Sprintf("(%d,%d)", h.refID(op.TxID), op.Index))
	}
	for _, o := range x.outs {
		outs = append(outs, fmt.Sprintf("mkOut %d %d", o.addr, int64(o.val)))
	}
	side := "SNone"
	if x.side != nil {
		side = x.side.coq
	}
	return fmt.Sprintf("mkTx %d %s %d %s %s %s", x.id, lib.CoqBool(x.cb), x.lock, lib.CoqList(ins), "["+strings.Join(outs, "; ")+"]%Z", side)
}

func (h *H) coqBlock(b *hblk) string {
	var txs []string
	for _, x := range b.txs {
		txs = append(txs, h.coqTx(x))
	}
	pid := 0
	if b.parent != nil {
		pid = b.parent.id + 1
	}
	return fmt.Sprintf("(mkBlock %d %d %d %s)", b.id+1, pid, b.height, lib.CoqList(txs))
}

// ---------------------------------------------------------------- views (harness-side replay)

type uinfo struct {
	addr   int
	val    common.Fixed64
	cb     bool
	height uint32
	lock   uint32
}

// view replays the branch ending in b; ok=false when some block on it spends
// an outpoint that is not available (the branch is invalid).
func (h *H) view(b *hblk) (set map[ctypes.OutPoint]uinfo, spent map[ctypes.OutPoint]bool, firstBad string) {
	var path []*hblk
	for x := b; x != nil; x = x.parent {
		path = append(path, x)
	}
	set = map[ctypes.OutPoint]uinfo{}
	spent = map[ctypes.OutPoint]bool{}
	for i := len(path) - 1; i >= 0; i-- {
		blk := path[i]
		for _, x := range blk.txs {
			for _, op := range x.ins {
				if _, ok := set[op]; !ok && firstBad == "" {
					firstBad = fmt.Sprintf("block %d tx %d spends (%d,%d) which is not unspent on its chain", blk.id+1, x.id, h.refID(op.TxID), op.Index)
				}
				delete(set, op)
				spent[op] = true
			}
			for i, o := range x.outs {
				set[ctypes.OutPoint{TxID: x.tx.Hash(), Index: uint16(i)}] = uinfo{o.addr, o.val, x.cb, blk.height, x.lock}
			}
		}
	}
	return
}

type cand struct {
	op ctypes.OutPoint
	u  uinfo
}

func sortedCands(set map[ctypes.OutPoint]uinfo) []cand {
	res := make([]cand, 0, len(set))
	for op, u := range set {
		res = append(res, cand{op, u})
	}
	sort.Slice(res, func(i, j int) bool {
		if c := bytes.Compare(res[i].op.TxID[:], res[j].op.TxID[:]); c != 0 {
			return c < 0
		}
		return res[i].op.Index < res[j].op.Index
	})
	return res
}

// genTx builds a valid transfer over the spendable outputs of set that are
// not in used; marks its inputs used.
func (h *H) genTx(set map[ctypes.OutPoint]uinfo, used map[ctypes.OutPoint]bool, curHeight uint32) interfaces.Transaction {
	var cs []cand
	mat := h.F.Params.PowConfiguration.CoinbaseMaturity
	for _, c := range sortedCands(set) {
		if used[c.op] || c.u.val < 2000 {
			continue
		}
		if c.u.cb && curHeight-c.u.lock < mat {
			continue
		}
		cs = append(cs, c)
	}
	if len(cs) == 0 {
		return nil
	}
	first := cs[h.Rng.Intn(len(cs))]
	picked := []cand{first}
	// more inputs: prefer siblings (same parent transaction), then anything
	for _, c := range cs {
		if len(picked) >= 4 {
			break
		}
		if c.op == first.op {
			continue
		}
		if c.op.TxID == first.op.TxID && h.Rng.Chance(60) || h.Rng.Chance(8) {
			picked = append(picked, c)
		}
	}
	var ins []fixture.In
	var total common.Fixed64
	for _, c := range picked {
		ins = append(ins, fixture.In{Op: c.op, Key: c.u.addr})
		total += c.u.val
		used[c.op] = true
	}
	fee := common.Fixed64(100 + h.Rng.Intn(900))
	rest := total - fee
	n := 1 + h.Rng.Intn(4)
	var outs []fixture.Out
	for i := 0; i < n; i++ {
		v := rest
		if i < n-1 {
			v = common.Fixed64(h.Rng.U64() % uint64(rest/2+1))
			if h.Rng.Chance(12) {
				v = 0 // zero-value output
			}
		}
		rest -= v
		outs = append(outs, fixture.Out{Key: h.Rng.Intn(fixture.NKeys), Value: v})
	}
	if h.Rng.Chance(8) {
		outs = append(outs, fixture.Out{Key: h.Rng.Intn(fixture.NKeys), Value: 0})
	}
	h.tag++
	tx, err := h.F.Transfer(ins, outs, uint64(h.ID)<<32|h.tag)
	if err != nil {
		panic(err)
	}
	return tx
}

// faultyTx builds a transaction that violates the property on the branch
// described by set/spent.
func (h *H) faultyTx(kind string, set map[ctypes.OutPoint]uinfo, spent map[ctypes.OutPoint]bool, parent *hblk) interfaces.Transaction {
	h.tag++
	tag := uint64(h.ID)<<32 | h.tag
	cs := sortedCands(set)
	var good *cand
	for i := range cs {
		if cs[i].u.val >= 2000 && !(cs[i].u.cb && parent.height-cs[i].u.lock < h.F.Params.PowConfiguration.CoinbaseMaturity) {
			good = &cs[i]
			break
		}
	}
	mk := func(ins []fixture.In, total common.Fixed64) interfaces.Transaction {
		tx, err := h.F.Transfer(ins, []fixture.Out{{Key: h.Rng.Intn(4), Value: total - 500}}, tag)
		if err != nil {
			panic(err)
		}
		return tx
	}
	switch kind {
	case "spent": // an outpoint already spent on this chain
		var ops []ctypes.OutPoint
		for op := range spent {
			ops = append(ops, op)
		}
		if len(ops) == 0 {
			return nil
		}
		sort.Slice(ops, func(i, j int) bool {
			if c := bytes.Compare(ops[i].TxID[:], ops[j].TxID[:]); c != 0 {
				return c < 0
			}
			return ops[i].Index < ops[j].Index
		})
		op := ops[h.Rng.Intn(len(ops))]
		owner, val := 0, common.Fixed64(100000)
		if id, ok := h.txID[op.TxID]; ok {
			for _, x := range h.txs {
				if x.id == id && int(op.Index) < len(x.outs) {
					owner, val = x.outs[op.Index].addr, x.outs[op.Index].val
				}
			}
		}
		if val < 2000 {
			return nil
		}
		ins := []fixture.In{{Op: op, Key: owner}}
		if good != nil && h.Rng.Bool() { // mixed with a good input
			ins = append(ins, fixture.In{Op: good.op, Key: good.u.addr})
			val += good.u.val
		}
		return mk(ins, val)
	case "sibling": // several inputs on ONE parent transaction: unspent ones before / after / around an already spent one
		type sp struct {
			op    ctypes.OutPoint
			owner int
			val   common.Fixed64
		}
		var cands []sp
		for op := range spent {
			id, ok := h.txID[op.TxID]
			if !ok {
				continue
			}
			for _, x := range h.txs {
				if x.id == id && int(op.Index) < len(x.outs) && x.outs[op.Index].val >= 2000 {
					for i := range x.outs { // the parent still has an unspent output on this chain
						if u, ok := set[ctypes.OutPoint{TxID: op.TxID, Index: uint16(i)}]; ok && !(u.cb && parent.height-u.lock < h.F.Params.PowConfiguration.CoinbaseMaturity) {
							cands = append(cands, sp{op, x.outs[op.Index].addr, x.outs[op.Index].val})
							break
						}
					}
				}
			}
		}
		if len(cands) == 0 {
			return nil
		}
		sort.Slice(cands, func(i, j int) bool {
			if c := bytes.Compare(cands[i].op.TxID[:], cands[j].op.TxID[:]); c != 0 {
				return c < 0
			}
			return cands[i].op.Index < cands[j].op.Index
		})
		c := cands[h.Rng.Intn(len(cands))]
		var free []fixture.In
		var freeVal []common.Fixed64
		for _, k := range sortedCands(set) {
			if k.op.TxID == c.op.TxID {
				free = append(free, fixture.In{Op: k.op, Key: k.u.addr})
				freeVal = append(freeVal, k.u.val)
			}
		}
		bad := fixture.In{Op: c.op, Key: c.owner}
		total := c.val + freeVal[0]
		var ins []fixture.In
		switch h.Rng.Intn(4) {
		case 0:
			ins = []fixture.In{free[0], bad} // the spent one inherits the verdict of its unspent sibling
		case 1:
			ins = []fixture.In{bad, free[0]}
		case 2:
			ins = []fixture.In{free[0], bad}
			if len(free) > 1 {
				ins = append(ins, free[1])
				total += freeVal[1]
			}
		default:
			ins = []fixture.In{free[0]}
			if len(free) > 1 {
				ins = append(ins, free[1])
				total += freeVal[1]
			}
			ins = append(ins, bad)
		}
		if total < 3000 {
			return nil
		}
		return mk(ins, total)
	case "dupin", "dupinseq": // the same outpoint twice in one transaction (second one possibly with another Sequence)
		if good == nil {
			return nil
		}
		seq := uint32(0)
		if kind == "dupinseq" {
			seq = uint32(1 + h.Rng.Intn(3))
		}
		return mk([]fixture.In{{Op: good.op, Key: good.u.addr}, {Op: good.op, Key: good.u.addr, Seq: seq}}, 2*good.u.val)
	case "unknown": // never created
		var id common.Uint256
		copy(id[:], h.Rng.Bytes(32))
		return mk([]fixture.In{{Op: ctypes.OutPoint{TxID: id, Index: uint16(h.Rng.Intn(3))}, Key: h.Rng.Intn(4)}}, 100000)
	case "oor": // existing transaction, output index beyond its outputs
		if good == nil {
			return nil
		}
		n := 0
		for _, x := range h.txs {
			if x.tx.Hash() == good.op.TxID {
				n = len(x.outs)
			}
		}
		return mk([]fixture.In{{Op: ctypes.OutPoint{TxID: good.op.TxID, Index: uint16(n + h.Rng.Intn(2))}, Key: good.u.addr}}, 100000)
	case "immature": // coinbase of the parent block
		if parent.parent == nil {
			return nil
		}
		cb := parent.txs[0]
		return mk([]fixture.In{{Op: ctypes.OutPoint{TxID: cb.tx.Hash(), Index: 1}, Key: cb.outs[1].addr}}, cb.outs[1].val)
	}
	return nil
}

// ---------------------------------------------------------------- steps

func (h *H) tip() *hblk {
	hash, _ := h.F.Tip()
	return h.blocks[hash]
}

func (h *H) ev(s string)                     { h.evs = append(h.evs, s) }
func (h *H) note(f string, a ...interface{}) { h.log = append(h.log, fmt.Sprintf(f, a...)) }

// BuildOn assembles (and registers) a block with the given transactions.
func (h *H) BuildOn(parent *hblk, txs []interfaces.Transaction, fault string, opt fixture.BlockOpt) *hblk {
	h.tag++
	opt.Salt = uint64(h.ID)<<32 | h.tag
	b, err := h.F.BuildBlock(parent.b, txs, opt)
	if err != nil {
		panic(err)
	}
	return h.register(b, parent, fault)
}

func (h *H) register(b *types.Block, parent *hblk, fault string) *hblk {
	hb := &hblk{id: h.nblk, b: b, parent: parent, height: parent.height + 1, fault: fault}
	h.nblk++
	for _, t := range b.Transactions {
		hb.txs = append(hb.txs, h.reg(t))
	}
	h.blocks[b.Hash()] = hb
	if hb.height > h.maxH {
		h.maxH = hb.height
	}
	return hb
}

// Process submits the block and translates what the node did into model events.
func (h *H) Process(hb *hblk) error {
	oldTip := h.tip()
	h.F.Events = nil
	_, _, err := h.F.ProcessBlock(hb.b)
	var lastConnected *hblk
	sawDisc := false
	for _, e := range h.F.Events {
		x := h.blocks[e.Block.Hash()]
		switch e.Kind {
		case "disconnected":
			sawDisc = true
			h.ev("EDisconnect")
			if h.Mode.Pool {
				for _, t := range x.txs[1:] {
					h.ev("EReadd (" + h.coqTx(t) + ")")
				}
			}
		case "connected":
			lastConnected = x
			h.ev("EConnect " + h.coqBlock(x) + " true")
			if h.Mode.Pool {
				h.ev("EPoolClean " + h.coqBlock(x))
			}
		case "processed":
			if h.Mode.Pool {
				h.ev("EPoolCheck")
			}
		}
	}
	if sawDisc {
		h.reorgs++
	}
	verdict := "ok"
	if err != nil {
		verdict = "reject"
		switch {
		case hb.parent == oldTip && !sawDisc:
			h.ev("EConnect " + h.coqBlock(hb) + " false")
		case sawDisc:
			// failing block = the next one on the path to hb after the last connected
			var path []*hblk
			for x := hb; x != nil; x = x.parent {
				path = append(path, x)
			}
			var failing *hblk
			for i := len(path) - 1; i >= 0; i-- {
				if lastConnected == nil {
					if path[i].parent == h.tip() {
						failing = path[i]
						break
					}
				} else if path[i].parent == lastConnected {
					failing = path[i]
					break
				}
			}
			if failing != nil {
				h.ev("EConnect " + h.coqBlock(failing) + " false")
				verdict = fmt.Sprintf("reorg-failed-at-%d", failing.id+1)
			}
		default:
			h.ev("ESanity " + h.coqBlock(hb) + " false")
		}
	}
	_, th := h.F.Tip()
	h.note("block %d (parent %d, h=%d, txs=%d, fault=%q) -> %s (%v); tip h=%d", hb.id+1, hb.parent.id+1, hb.height, len(hb.txs)-1, hb.fault, verdict, errStr(err), th)
	h.kinds["block:"+verdict]++
	if hb.fault != "" {
		h.kinds["fault:"+hb.fault]++
	}
	h.Observe()
	return err
}

func errStr(err error) string {
	if err == nil {
		return ""
	}
	s := err.Error()
	if len(s) > 90 {
		s = s[:90]
	}
	return s
}

// Submit sends a transaction to the pool.
func (h *H) Submit(tx interfaces.Transaction, what string) {
	x := h.reg(tx)
	err := h.F.SubmitTx(tx)
	h.ev(fmt.Sprintf("ESubmit (%s) %s", h.coqTx(x), lib.CoqBool(err == nil)))
	h.note("submit tx %d (%s) -> %v %s", x.id, what, err == nil, errStr(err))
	h.kinds["submit:"+what+fmt.Sprintf(":%v", err == nil)]++
	h.Observe()
}

// ---------------------------------------------------------------- observation + oracles

func (h *H) fail(sig, what string, extra map[string]interface{}) {
	h.nFail++
	in := map[string]interface{}{"history": h.ID, "log": h.log}
	for k, v := range extra {
		in[k] = v
	}
	h.St.Fail(sig, what, in)
}

// Observe queries the node, emits the observations for the model and checks
// them against an independent replay of the active chain.
func (h *H) Observe() {
	// --- independent replay of the active chain
	main := h.F.MainChain()
	if h.Mode.Store {
		main = []common.Uint256{h.F.Genesis.Hash()}
		for _, b := range h.stack {
			main = append(main, b.b.Hash())
		}
	}
	set := map[ctypes.OutPoint]uinfo{}
	onChain := map[common.Uint256]uint32{}
	spentBy := map[ctypes.OutPoint]int{}
	for _, bh := range main {
		blk := h.blocks[bh]
		if blk == nil {
			h.fail(h.Mode.Prop+":harness", "active chain contains a block the harness never built", nil)
			return
		}
		for _, x := range blk.txs {
			for _, op := range x.ins {
				if by, dup := spentBy[op]; dup {
					h.fail("ProcessBlock:outpoint-spent-twice", "an outpoint is spent by two transactions of the active chain",
						map[string]interface{}{"outpoint": fmt.Sprintf("(%d,%d)", h.refID(op.TxID), op.Index), "first": by, "second": x.id})
				} else if _, ok := set[op]; !ok {
					h.fail("ProcessBlock:spends-uncreated", "the active chain spends an outpoint that its own history never created",
						map[string]interface{}{"outpoint": fmt.Sprintf("(%d,%d)", h.refID(op.TxID), op.Index), "tx": x.id})
				}
				spentBy[op] = x.id
				delete(set, op)
			}
			th := x.tx.Hash()
			if _, dup := onChain[th]; dup {
				h.fail("ProcessBlock:duplicate-txid", "the active chain contains the same transaction id twice", map[string]interface{}{"tx": x.id})
			}
			onChain[th] = blk.height
			for i, o := range x.outs {
				set[ctypes.OutPoint{TxID: th, Index: uint16(i)}] = uinfo{addr: o.addr, val: o.val, cb: x.cb, height: blk.height}
			}
		}
	}
	// --- unspent index
	if h.Mode.Unspent {
		var items []string
		for _, x := range h.sortedTxs() {
			th := x.tx.Hash()
			got, err := h.F.Unspent(th)
			var want []uint16
			for i := range x.outs {
				if _, ok := set[ctypes.OutPoint{TxID: th, Index: uint16(i)}]; ok {
					want = append(want, uint16(i))
				}
			}
			if err != nil || !eqU16(got, want) {
				h.fail("GetUnspent:disagrees-with-replay", "GetUnspent differs from created-minus-spent of the active chain",
					map[string]interface{}{"tx": x.id, "got": got, "want": want, "err": errStr(err)})
			}
			if len(got) > 0 {
				var xs []string
				for _, i := range got {
					xs = append(xs, fmt.Sprint(i))
				}
				items = append(items, fmt.Sprintf("(%d,%s)", x.id, lib.CoqList(xs)))
			}
		}
		h.ev("EUnspent " + lib.CoqList(items))
	}
	// --- tx index
	if h.Mode.Txs {
		var items []string
		for _, x := range h.sortedTxs() {
			th := x.tx.Hash()
			tx, height, err := h.F.Tx(th)
			wantH, want := onChain[th]
			found := err == nil && tx != nil
			if found != want || (found && (height != wantH || tx.Hash() != th)) {
				h.fail("GetTransaction:disagrees-with-replay", "transaction lookup differs from the active chain",
					map[string]interface{}{"tx": x.id, "found": found, "height": height, "want_found": want, "want_height": wantH})
			}
			if found {
				items = append(items, fmt.Sprintf("(%d,%d)", x.id, height))
			}
		}
		h.ev("ETxs " + lib.CoqList(items))
	}
	// --- per-address index and balance
	if h.Mode.Addr {
		for a, k := range h.F.Keys {
			us, err := h.F.UTXOs(k.Hash)
			bal, err2 := h.F.Balance(k.Hash)
			type ent struct {
				id  int
				idx uint16
				val common.Fixed64
			}
			var got, want []ent
			var sum common.Fixed64
			for _, u := range us {
				got = append(got, ent{h.refID(u.TxID), u.Index, u.Value})
				if u.Value == 0 {
					h.fail("GetUTXO:zero-value-entry", "a zero-value output appears in a per-address list", map[string]interface{}{"addr": a, "tx": h.refID(u.TxID), "index": u.Index})
				}
			}
			for op, u := range set {
				if u.addr == a && u.val != 0 {
					want = append(want, ent{h.refID(op.TxID), op.Index, u.val})
					sum += u.val
				}
			}
			less := func(l []ent) func(i, j int) bool {
				return func(i, j int) bool {
					if l[i].id != l[j].id {
						return l[i].id < l[j].id
					}
					return l[i].idx < l[j].idx
				}
			}
			sort.Slice(got, less(got))
			sort.Slice(want, less(want))
			if err != nil || err2 != nil || fmt.Sprint(got) != fmt.Sprint(want) {
				h.fail("GetUTXO:disagrees-with-replay", "per-address UTXO list differs from the UTXO set of the active chain",
					map[string]interface{}{"addr": a, "got": fmt.Sprint(got), "want": fmt.Sprint(want)})
			}
			if bal != sum {
				h.fail("GetAmount:disagrees-with-replay", "balance differs from the sum over the UTXO set of the active chain",
					map[string]interface{}{"addr": a, "got": int64(bal), "want": int64(sum)})
			}
			var items []string
			for _, e := range got {
				items = append(items, fmt.Sprintf("(%d,%d,%d%%Z)", e.id, e.idx, int64(e.val)))
			}
			h.ev(fmt.Sprintf("EAddr %d %s %d%%Z", a, lib.CoqList(items), int64(bal)))
		}
	}
	// --- Tx3 / return-deposit / draft buckets
	if h.Mode.Side {
		h.observeSide(main)
	}
	// --- mempool
	if h.Mode.Pool {
		seen := map[ctypes.OutPoint]int{}
		var ids []int
		for _, t := range h.F.PoolTxs() {
			id := h.refID(t.Hash())
			ids = append(ids, id)
			for _, in := range t.Inputs() {
				if other, dup := seen[in.Previous]; dup {
					h.fail("TxPool:shared-outpoint", "the pool holds two transactions spending the same outpoint",
						map[string]interface{}{"outpoint": fmt.Sprintf("(%d,%d)", h.refID(in.Previous.TxID), in.Previous.Index), "txs": []int{other, id}})
				}
				seen[in.Previous] = id
			}
		}
		// the input slot must hold exactly the outpoints of the pool members
		inSlot := map[string]common.Uint256{}
		for _, e := range h.F.Pool.SnapshotVerif().Slots {
			if e.Slot == "TxInputsReferKeys" {
				inSlot[e.Key] = e.Holder
			}
		}
		want := map[string]common.Uint256{}
		for _, t := range h.F.PoolTxs() {
			for _, in := range t.Inputs() {
				want[in.ReferKey()] = t.Hash()
			}
		}
		for k, holder := range inSlot {
			if w, ok := want[k]; !ok || w != holder {
				h.fail("TxPool:stale-input-key", "the input slot blocks an outpoint that no pool transaction spends", map[string]interface{}{"key": k[:16], "holder": h.refID(holder)})
				break
			}
		}
		for k := range want {
			if _, ok := inSlot[k]; !ok {
				h.fail("TxPool:missing-input-key", "a pool transaction's outpoint is not registered in the input slot", map[string]interface{}{"key": k[:16]})
				break
			}
		}
		sort.Ints(ids)
		var xs []string
		for _, i := range ids {
			xs = append(xs, fmt.Sprint(i))
		}
		h.ev("EPool " + lib.CoqList(xs))
	}
}

func (h *H) sortedTxs() []*htx {
	res := append([]*htx(nil), h.txs...)
	sort.Slice(res, func(i, j int) bool { return res[i].id < res[j].id })
	return res
}

func eqU16(a, b []uint16) bool {
	if len(a) != len(b) {
		return false
	}
	for i := range a {
		if a[i] != b[i] {
			return false
		}
	}
	return true
}

// ---------------------------------------------------------------- generated history

// Random drives steps random steps.
func (h *H) Random(steps int) {
	for s := 0; s < steps; s++ {
		tip := h.tip()
		if h.Rng.Chance(15) {
			h.F.DropTxCache() // node restart / cache trim: the following lookups miss the TxCache
			h.note("tx cache dropped")
		}
		r := h.Rng.Intn(100)
		switch {
		case r < 50: // extend the tip with a valid block
			h.Process(h.validBlock(tip, h.Rng.Intn(5)))
		case r < 64: // fork: a branch from an ancestor, long enough to take over (or not)
			depth := 1 + h.Rng.Intn(5)
			base := tip
			for i := 0; i < depth && base.parent != nil; i++ {
				base = base.parent
			}
			n := int(tip.height-base.height) + h.Rng.Intn(3) - 1
			if n < 1 {
				n = 1
			}
			bad := -1
			if h.Rng.Chance(25) {
				bad = h.Rng.Intn(n) // a double-spending block inside the heavier branch
			}
			cur := base
			for i := 0; i < n; i++ {
				var nb *hblk
				if i == bad {
					nb = h.faultyBlock(cur, "spent")
				}
				if nb == nil {
					nb = h.validBlock(cur, h.Rng.Intn(4))
				}
				var err error
				if h.Rng.Chance(50) {
					err = h.ProcessDuringLookup(nb)
				} else {
					err = h.Process(nb)
				}
				if err != nil {
					break
				}
				cur = nb
			}
		case r < 82: // an invalid block at the tip
			kinds := []string{"spent", "sibling", "sibling", "dupin", "dupinseq", "unknown", "oor", "immature", "dupblock", "dupblockseq", "dupblockseq", "dupcoinbase", "sameblock", "duptx"}
			if nb := h.faultyBlock(tip, kinds[h.Rng.Intn(len(kinds))]); nb != nil {
				h.Process(nb)
			}
		default: // mempool
			if !h.Mode.Pool {
				h.Process(h.validBlock(tip, 1+h.Rng.Intn(3)))
				continue
			}
			set, spent, _ := h.view(tip)
			used := map[ctypes.OutPoint]bool{}
			switch h.Rng.Intn(6) {
			case 4, 5: // collisions between transaction types on one outpoint
				h.TypedCollision(tip)
			case 0, 1:
				if tx := h.genTx(set, used, tip.height); tx != nil {
					h.Submit(tx, "valid")
					if h.Rng.Chance(50) { // a second transaction spending one of the same outpoints
						in := tx.Inputs()[h.Rng.Intn(len(tx.Inputs()))].Previous
						u := set[in]
						h.tag++
						ins2 := []fixture.In{{Op: in, Key: u.addr}}
						val2 := u.val
						for _, k := range sortedCands(set) { // a free output of the same parent before / after the claimed one
							if k.op.TxID == in.TxID && !used[k.op] && h.Rng.Chance(60) {
								if h.Rng.Bool() {
									ins2 = append([]fixture.In{{Op: k.op, Key: k.u.addr}}, ins2...)
								} else {
									ins2 = append(ins2, fixture.In{Op: k.op, Key: k.u.addr})
								}
								val2 += k.u.val
								break
							}
						}
						tx2, _ := h.F.Transfer(ins2, []fixture.Out{{Key: h.Rng.Intn(4), Value: val2 - 700}}, uint64(h.ID)<<32|h.tag)
						h.Submit(tx2, "conflict")
					}
				}
			case 2:
				if tx := h.faultyTx([]string{"spent", "sibling", "sibling", "dupin", "unknown", "oor"}[h.Rng.Intn(6)], set, spent, tip); tx != nil {
					h.Submit(tx, "invalid")
				}
			case 3: // mine what is in the pool
				h.Process(h.BuildOn(tip, h.F.PoolTxs(), "", fixture.BlockOpt{Miner: h.Rng.Intn(4)}))
			}
		}
	}
}

func (h *H) validBlock(parent *hblk, ntx int) *hblk {
	set, _, _ := h.view(parent)
	used := map[ctypes.OutPoint]bool{}
	var txs []interfaces.Transaction
	for i := 0; i < ntx; i++ {
		if tx := h.genTx(set, used, parent.height); tx != nil {
			txs = append(txs, tx)
		}
	}
	return h.BuildOn(parent, txs, "", fixture.BlockOpt{Miner: h.Rng.Intn(4)})
}

func (h *H) faultyBlock(parent *hblk, kind string) *hblk {
	set, spent, _ := h.view(parent)
	used := map[ctypes.OutPoint]bool{}
	var txs []interfaces.Transaction
	if h.Rng.Bool() {
		if tx := h.genTx(set, used, parent.height); tx != nil {
			txs = append(txs, tx)
		}
	}
	switch kind {
	case "dupblock", "dupblockseq": // two transactions of the block spend the same outpoint (second one possibly with another Sequence)
		a := h.genTx(set, used, parent.height)
		if a == nil {
			return nil
		}
		in := a.Inputs()[h.Rng.Intn(len(a.Inputs()))].Previous
		u := set[in]
		h.tag++
		seq := uint32(0)
		if kind == "dupblockseq" {
			seq = []uint32{1, 2, 0xfffffffe, 0xffffffff}[h.Rng.Intn(4)]
		}
		ins := []fixture.In{{Op: in, Key: u.addr, Seq: seq}}
		val := u.val
		if h.Rng.Chance(40) { // the clashing input is not the only / first one
			for _, c := range sortedCands(set) {
				if !used[c.op] && c.u.val >= 2000 && !(c.u.cb && parent.height-c.u.lock < h.F.Params.PowConfiguration.CoinbaseMaturity) {
					used[c.op] = true
					extra := fixture.In{Op: c.op, Key: c.u.addr}
					if h.Rng.Bool() {
						ins = append([]fixture.In{extra}, ins...)
					} else {
						ins = append(ins, extra)
					}
					val += c.u.val
					break
				}
			}
		}
		b, _ := h.F.Transfer(ins, []fixture.Out{{Key: h.Rng.Intn(4), Value: val - 300}}, uint64(h.ID)<<32|h.tag)
		if h.Rng.Bool() {
			txs = append(txs, a, b)
		} else {
			txs = append(txs, b, a)
		}
		if h.Rng.Chance(30) { // and something valid after them
			if c := h.genTx(set, used, parent.height); c != nil {
				txs = append(txs, c)
			}
		}
	case "sameblock": // spends an output created in the same block
		a := h.genTx(set, used, parent.height)
		if a == nil {
			return nil
		}
		var idx = -1
		for i, o := range a.Outputs() {
			if o.Value >= 2000 {
				idx = i
			}
		}
		if idx < 0 {
			return nil
		}
		h.tag++
		b, _ := h.F.Transfer([]fixture.In{{Op: ctypes.OutPoint{TxID: a.Hash(), Index: uint16(idx)}, Key: h.addrOf(a.Outputs()[idx].ProgramHash)}},
			[]fixture.Out{{Key: h.Rng.Intn(4), Value: a.Outputs()[idx].Value - 300}}, uint64(h.ID)<<32|h.tag)
		txs = append(txs, a, b)
	case "duptx": // a transaction that is already on this chain
		var old []*htx
		for x := parent; x != nil && x.parent != nil; x = x.parent {
			old = append(old, x.txs[1:]...)
		}
		if len(old) == 0 {
			return nil
		}
		txs = append(txs, old[h.Rng.Intn(len(old))].tx)
	case "dupcoinbase": // the coinbase of an ancestor, verbatim
		var anc []*hblk
		for x := parent; x != nil && x.parent != nil; x = x.parent {
			anc = append(anc, x)
		}
		if len(anc) == 0 || len(txs) > 0 {
			return nil
		}
		src := anc[h.Rng.Intn(len(anc))]
		b, _ := h.F.BuildBlock(parent.b, nil, fixture.BlockOpt{})
		b.Transactions[0] = src.txs[0].tx
		b.Header.MerkleRoot = src.txs[0].tx.Hash()
		h.F.Resolve(b)
		return h.register(b, parent, kind)
	default:
		tx := h.faultyTx(kind, set, spent, parent)
		if tx == nil {
			return nil
		}
		txs = append(txs, tx)
	}
	return h.BuildOn(parent, txs, kind, fixture.BlockOpt{Miner: h.Rng.Intn(4)})
}

// ---------------------------------------------------------------- output

// Case returns the Coq term of the whole history.
func (h *H) Case() string {
	var ids, hs []string
	for i := 1; i <= len(h.txID); i++ {
		ids = append(ids, fmt.Sprint(i))
	}
	for i := uint32(0); i <= h.maxH; i++ {
		hs = append(hs, fmt.Sprint(i))
	}
	g := h.blocks[h.F.Genesis.Hash()]
	var hh []string
	for i := 1; i <= len(h.hashID); i++ {
		hh = append(hh, fmt.Sprint(i))
	}
	hdr := fmt.Sprintf("(mkHeader %d %s %d %s %s %s %s)", h.ID, h.Mode.Cfg, h.F.Params.PowConfiguration.CoinbaseMaturity, h.coqBlock(g), lib.CoqList(ids), lib.CoqList(hs), lib.CoqList(hh))
	return fmt.Sprintf("History %s\n    [%s]", hdr, strings.Join(h.evs, ";\n     "))
}

// Finish logs and counts the history.
func (h *H) Finish(sh *lib.Shards, out string) {
	sh.Add(h.Case())
	h.St.LogCase(out, h.ID, map[string]interface{}{"steps": h.log, "blocks": h.nblk, "txs": len(h.txs), "reorgs": h.reorgs})
	_, th := h.F.Tip()
	key := fmt.Sprintf("%v", h.log)
	nontrivial := th >= 2 && len(h.txs) > 4
	if h.Mode.Store {
		nontrivial = h.kinds["rollback:ok"] > 0 && len(h.txs) > 3
	}
	h.St.Count(key, nontrivial, "history")
	for k, v := range h.kinds {
		h.St.Hist[k] += v
	}
	h.St.Hist["reorgs"] += h.reorgs
	h.St.Hist["blocks"] += h.nblk - 1
	h.St.Hist["txs"] += len(h.txs)
}

// Tip exposes the harness view of the current tip (for corpus scripts).
func (h *H) Tip() *hblk { return h.tip() }

// Genesis returns the genesis block record.
func (h *H) GenesisBlk() *hblk { return h.blocks[h.F.Genesis.Hash()] }

// ValidBlock / FaultyBlock are exported for corpus scripts.
func (h *H) ValidBlock(parent *hblk, ntx int) *hblk      { return h.validBlock(parent, ntx) }
func (h *H) FaultyBlock(parent *hblk, kind string) *hblk { return h.faultyBlock(parent, kind) }
func (h *H) Note(f string, a ...interface{})             { h.note(f, a...) }
func (h *H) Failures() int                               { return h.nFail }
func (b *hblk) Block() *types.Block                      { return b.b }
func (b *hblk) Coinbase() interfaces.Transaction         { return b.txs[0].tx }
func (b *hblk) Parent() *hblk                            { return b.parent }
