package ledgerh

import (
	"bytes"
	"fmt"
	"sort"

	"github.com/elastos/Elastos.ELA/common"
	"github.com/elastos/Elastos.ELA/core"
	ctypes "github.com/elastos/Elastos.ELA/core/types/common"
	"github.com/elastos/Elastos.ELA/core/types/interfaces"
	"github.com/elastos/Elastos.ELA/core/types/outputpayload"
	"github.com/elastos/Elastos.ELA/core/types/payload"
	"github.com/elastos/Elastos.ELA/crypto"

	"verifharness/fixture"
	"verifharness/lib"
)

// sideInfo is what the save/rollback processors and the return-deposit index
// see of a special transaction.
type sideInfo struct {
	coq    string
	tx3    []common.Uint256 // hashes the save processor records
	retdep []common.Uint256 // return-deposit hashes
	drafts []struct {
		h common.Uint256
		d []byte
	}
}

func (h *H) hid(x common.Uint256) int {
	if id, ok := h.hashID[x]; ok {
		return id
	}
	id := len(h.hashID) + 1
	h.hashID[x] = id
	h.hashes = append(h.hashes, x)
	return id
}
func (h *H) did(d []byte) int {
	if id, ok := h.dataID[string(d)]; ok {
		return id
	}
	id := len(h.dataID) + 1
	h.dataID[string(d)] = id
	return id
}

// NewHash draws a fresh 32-byte value (side-chain tx hash, deposit hash, draft hash).
func (h *H) NewHash() common.Uint256 {
	var x common.Uint256
	copy(x[:], h.Rng.Bytes(32))
	h.hid(x)
	return x
}

// KnownHash returns a hash used before in this history (nil if none).
func (h *H) KnownHash() *common.Uint256 {
	if len(h.hashes) == 0 {
		return nil
	}
	x := h.hashes[h.Rng.Intn(len(h.hashes))]
	return &x
}

func hlist(h *H, xs []common.Uint256) string {
	var r []string
	for _, x := range xs {
		r = append(r, fmt.Sprint(h.hid(x)))
	}
	return lib.CoqList(r)
}

// Layout forces where ordinary (change) outputs go relative to the special
// outputs of the next Special transactions: "first", "between", "last",
// "around" (first and last), "none"; "" = random.
var layouts = []string{"first", "between", "last", "around", "none"}

// mixOutputs inserts ordinary outputs among the special ones.
func (h *H) mixOutputs(special []*ctypes.Output, plain func(k int, v common.Fixed64) *ctypes.Output) []*ctypes.Output {
	lay := h.Layout
	if lay == "" {
		lay = layouts[h.Rng.Intn(len(layouts))]
	}
	mk := func() *ctypes.Output {
		v := common.Fixed64(0)
		if h.Rng.Bool() {
			v = common.Fixed64(1 + h.Rng.Intn(50))
		}
		return plain(h.Rng.Intn(4), v)
	}
	var res []*ctypes.Output
	switch lay {
	case "first":
		res = append([]*ctypes.Output{mk()}, special...)
	case "last":
		res = append(append(res, special...), mk())
	case "around":
		res = append(append([]*ctypes.Output{mk()}, special...), mk())
	case "between":
		if len(special) < 2 {
			res = append([]*ctypes.Output{mk()}, special...)
		} else {
			for i, o := range special {
				res = append(res, o)
				if i < len(special)-1 {
					res = append(res, mk())
				}
			}
		}
	default:
		res = special
	}
	return res
}

// Special builds a special transaction of the given kind spending one good
// output of the view; hashes are the keys it writes.
//
//	kinds: withdraw0 withdraw1 withdraw2 retdep proposal review tracking
func (h *H) Special(kind string, set map[ctypes.OutPoint]uinfo, used map[ctypes.OutPoint]bool, hashes []common.Uint256) interfaces.Transaction {
	var c *cand
	for _, x := range sortedCands(set) {
		if !used[x.op] && x.u.val >= 5000 {
			x := x
			c = &x
			break
		}
	}
	if c == nil {
		return nil
	}
	used[c.op] = true
	ins := []fixture.In{{Op: c.op, Key: c.u.addr}}
	extraVal := common.Fixed64(0)
	if h.Rng.Chance(35) { // a second input, before or after the first
		for _, x := range sortedCands(set) {
			if !used[x.op] && x.u.val >= 2000 && !(x.u.cb) {
				used[x.op] = true
				e := fixture.In{Op: x.op, Key: x.u.addr}
				if h.Rng.Bool() {
					ins = append(ins, e)
				} else {
					ins = append([]fixture.In{e}, ins...)
				}
				extraVal = x.u.val
				break
			}
		}
	}
	plain := func(k int, v common.Fixed64) *ctypes.Output {
		return &ctypes.Output{AssetID: core.ELAAssetID, Value: v, ProgramHash: h.F.Keys[k].Hash, Type: ctypes.OTNone, Payload: &outputpayload.DefaultOutput{}}
	}
	h.tag++
	tag := uint64(h.ID)<<32 | h.tag
	si := &sideInfo{}
	var tx interfaces.Transaction
	var err error
	rest := c.u.val + extraVal - 300
	switch kind {
	case "withdraw0":
		pl := &payload.WithdrawFromSideChain{BlockHeight: 1, GenesisBlockAddress: "side", SideChainTransactionHashes: hashes}
		tx, err = h.F.RawTx(ctypes.WithdrawFromSideChain, payload.WithdrawFromSideChainVersion, pl, ins, h.mixOutputs([]*ctypes.Output{plain(h.Rng.Intn(4), rest-100)}, plain), tag)
		si.tx3 = hashes
		si.coq = fmt.Sprintf("(SWithdraw 0 %s [])", hlist(h, hashes))
	case "withdraw1", "withdraw2":
		ver := payload.WithdrawFromSideChainVersionV1
		if kind == "withdraw2" {
			ver = payload.WithdrawFromSideChainVersionV2
		}
		var outs []*ctypes.Output
		n := len(hashes)
		for i, x := range hashes {
			v := (rest - 100) / common.Fixed64(n)
			if i == n-1 {
				v = (rest - 100) - v*common.Fixed64(n-1)
			}
			outs = append(outs, &ctypes.Output{AssetID: core.ELAAssetID, Value: v, ProgramHash: h.F.Keys[h.Rng.Intn(4)].Hash, Type: ctypes.OTWithdrawFromSideChain,
				Payload: &outputpayload.Withdraw{GenesisBlockAddress: "side", SideChainTransactionHash: x, TargetData: []byte{1}}})
		}
		outs = h.mixOutputs(outs, plain) // ordinary outputs before / between / after the withdraw outputs
		tx, err = h.F.RawTx(ctypes.WithdrawFromSideChain, ver, &payload.WithdrawFromSideChain{}, ins, outs, tag)
		si.tx3 = hashes
		si.coq = fmt.Sprintf("(SWithdraw %d [] %s)", ver, hlist(h, hashes))
	case "retdep":
		var outs []*ctypes.Output
		n := len(hashes)
		for _, x := range hashes {
			outs = append(outs, &ctypes.Output{AssetID: core.ELAAssetID, Value: (rest - 100) / common.Fixed64(n), ProgramHash: h.F.Keys[h.Rng.Intn(4)].Hash, Type: ctypes.OTReturnSideChainDepositCoin,
				Payload: &outputpayload.ReturnSideChainDeposit{GenesisBlockAddress: "side", DepositTransactionHash: x}})
		}
		outs = h.mixOutputs(outs, plain)
		tx, err = h.F.RawTx(ctypes.ReturnSideChainDepositCoin, 0, &payload.ReturnSideChainDepositCoin{}, ins, outs, tag)
		si.retdep = hashes
		si.coq = fmt.Sprintf("(SRetDep %s)", hlist(h, hashes))
	case "proposal", "review", "tracking":
		var ds []string
		mk := func(x common.Uint256) []byte {
			d, known := h.draftData[x]
			if !known || !(h.ShareData || h.Rng.Bool()) { // byte-identical data under a shared hash, or new bytes
				d = append([]byte("data-"), h.Rng.Bytes(6)...)
			}
			if h.draftData == nil {
				h.draftData = map[common.Uint256][]byte{}
			}
			h.draftData[x] = d
			si.drafts = append(si.drafts, struct {
				h common.Uint256
				d []byte
			}{x, d})
			ds = append(ds, fmt.Sprintf("(%d,%d)", h.hid(x), h.did(d)))
			return d
		}
		outs := []*ctypes.Output{plain(h.Rng.Intn(4), rest)}
		switch kind {
		case "proposal":
			pl := &payload.CRCProposal{ProposalType: payload.Normal, CategoryData: "c", OwnerKey: pubBytes(h), DraftHash: hashes[0],
				Budgets: []payload.Budget{{Type: payload.Imprest, Stage: 0, Amount: 1}}, Recipient: h.F.Keys[1].Hash, Signature: []byte{1}, CRCouncilMemberSignature: []byte{2}}
			pl.DraftData = mk(hashes[0])
			tx, err = h.F.RawTx(ctypes.CRCProposal, h.draftVersion(payload.CRCProposalVersion, payload.CRCProposalVersion01), pl, ins, outs, tag)
		case "review":
			pl := &payload.CRCProposalReview{VoteResult: payload.Approve, OpinionHash: hashes[0], Signature: []byte{1}}
			pl.OpinionData = mk(hashes[0])
			tx, err = h.F.RawTx(ctypes.CRCProposalReview, h.draftVersion(payload.CRCProposalReviewVersion, payload.CRCProposalReviewVersion01), pl, ins, outs, tag)
		case "tracking":
			pl := &payload.CRCProposalTracking{ProposalTrackingType: payload.Common, OwnerKey: pubBytes(h), OwnerSignature: []byte{1},
				SecretaryGeneralSignature: []byte{2}, SecretaryGeneralOpinionHash: hashes[0], MessageHash: hashes[len(hashes)-1]}
			pl.SecretaryGeneralOpinionData = mk(hashes[0])
			pl.MessageData = mk(hashes[len(hashes)-1])
			tx, err = h.F.RawTx(ctypes.CRCProposalTracking, h.draftVersion(payload.CRCProposalTrackingVersion, payload.CRCProposalTrackingVersion01), pl, ins, outs, tag)
		}
		si.coq = "(SDraft " + lib.CoqList(ds) + ")"
	}
	if err != nil || tx == nil {
		panic(fmt.Sprint("special ", kind, ": ", err))
	}
	h.side[tx.Hash()] = si
	return tx
}

// snapshot of every query over every id known so far; only non-empty answers
// are recorded, so "absent" and "empty" are the same observation.
func (h *H) snapshot() map[string]string {
	m := map[string]string{}
	for _, x := range h.txs {
		th := x.tx.Hash()
		if u, err := h.F.Unspent(th); err == nil && len(u) > 0 {
			m[fmt.Sprintf("GetUnspent(tx %d)", x.id)] = fmt.Sprint(u)
		}
		if tx, ht, err := h.F.Tx(th); err == nil && tx != nil {
			m[fmt.Sprintf("GetTransaction(tx %d)", x.id)] = fmt.Sprint(ht)
		}
	}
	for a, k := range h.F.Keys {
		us, _ := h.F.UTXOs(k.Hash)
		if len(us) > 0 {
			var xs []string
			for _, u := range us {
				xs = append(xs, fmt.Sprintf("(%d,%d,%d)", h.refID(u.TxID), u.Index, int64(u.Value)))
			}
			sort.Strings(xs)
			m[fmt.Sprintf("GetUTXO(key %d)", a)] = fmt.Sprint(xs)
		}
		if b, _ := h.F.Balance(k.Hash); b != 0 {
			m[fmt.Sprintf("GetAmount(key %d)", a)] = fmt.Sprint(int64(b))
		}
	}
	for _, x := range h.hashes {
		if h.F.Tx3Exists(x) {
			m[fmt.Sprintf("IsTx3Exist(hash %d)", h.hid(x))] = "true"
		}
		if h.F.ReturnDepositExists(x) {
			m[fmt.Sprintf("IsSideChainReturnDepositExist(hash %d)", h.hid(x))] = "true"
		}
		if d, err := h.F.Draft(x); err == nil && d != nil {
			m[fmt.Sprintf("GetProposalDraftDataByDraftHash(hash %d)", h.hid(x))] = fmt.Sprint(h.did(d))
		}
	}
	return m
}

// StoreSave connects b on the store tip (ChainStoreFFLDB.SaveBlock).
func (h *H) StoreSave(b *hblk) error {
	snap := h.snapshot()
	err := h.F.StoreSave(b.b)
	h.ev("ESave " + h.coqBlock(b) + " " + lib.CoqBool(err == nil))
	h.note("save block %d (h=%d, txs=%d, %s) -> %v", b.id+1, b.height, len(b.txs)-1, b.fault, errStr(err))
	if err == nil {
		h.stack = append(h.stack, b)
		h.snaps = append(h.snaps, snap)
		h.kinds["save:ok"]++
		if b.fault != "" { // keys written by a block of the excluded class are not judged any more
			if h.tainted == nil {
				h.tainted = map[int]bool{}
			}
			for _, x := range b.txs {
				if x.side != nil {
					for _, y := range x.side.tx3 {
						h.tainted[h.hid(y)] = true
					}
					for _, y := range x.side.retdep {
						h.tainted[h.hid(y)] = true
					}
					for _, y := range x.side.drafts {
						h.tainted[h.hid(y.h)] = true
					}
				}
			}
		}
	} else {
		h.kinds["save:err"]++
	}
	h.Observe()
	return err
}

// StoreRollback disconnects the store tip (ChainStoreFFLDB.RollbackBlock) and
// evaluates the property: every query must answer as it did before the block
// was connected.
func (h *H) StoreRollback() error {
	n := len(h.stack)
	if n == 0 {
		return nil
	}
	b := h.stack[n-1]
	err := h.F.StoreRollback(b.b)
	h.ev("ERollback " + h.coqBlock(b) + " " + lib.CoqBool(err == nil))
	h.note("rollback block %d -> %v", b.id+1, errStr(err))
	if err == nil {
		before := h.snaps[n-1]
		h.stack, h.snaps = h.stack[:n-1], h.snaps[:n-1]
		after := h.snapshot()
		var diffs []string
		for id := range h.tainted {
			for _, q := range []string{"IsTx3Exist", "IsSideChainReturnDepositExist", "GetProposalDraftDataByDraftHash"} {
				k := fmt.Sprintf("%s(hash %d)", q, id)
				delete(before, k)
				delete(after, k)
			}
		}
		for k, v := range before {
			if after[k] != v {
				diffs = append(diffs, fmt.Sprintf("%s: before connect %s, after disconnect %q", k, v, after[k]))
			}
		}
		for k, v := range after {
			if _, ok := before[k]; !ok {
				diffs = append(diffs, fmt.Sprintf("%s: absent before connect, %s after disconnect", k, v))
			}
		}
		sort.Strings(diffs)
		h.kinds["rollback:ok"]++
		if len(diffs) > 0 {
			if b.fault == "" {
				h.fail("RollbackBlock:query-differs-after-disconnect", "a query answers differently after connect+disconnect of a block", map[string]interface{}{"block": b.id + 1, "diffs": diffs})
			} else {
				h.kinds["excluded:"+b.fault]++
			}
		}
	} else {
		h.kinds["rollback:err"]++
		h.fail("RollbackBlock:error", "RollbackBlock failed on a block the store had connected", map[string]interface{}{"block": b.id + 1, "err": errStr(err)})
	}
	h.Observe()
	return err
}

func (h *H) StoreTip() *hblk {
	if len(h.stack) == 0 {
		return h.GenesisBlk()
	}
	return h.stack[len(h.stack)-1]
}

// observeSide emits (and checks against the harness' own bookkeeping of the
// active chain) the three key/value buckets.
func (h *H) observeSide(main []common.Uint256) {
	tx3 := map[common.Uint256]bool{}
	rd := map[common.Uint256]bool{}
	dr := map[common.Uint256][]byte{}
	for _, bh := range main {
		for _, x := range h.blocks[bh].txs {
			if x.side == nil {
				continue
			}
			for _, y := range x.side.tx3 {
				tx3[y] = true
			}
			for _, y := range x.side.retdep {
				rd[y] = true
			}
			for _, y := range x.side.drafts {
				dr[y.h] = y.d
			}
		}
	}
	var a, b, c []string
	ids := make([]int, 0, len(h.hashes))
	byID := map[int]common.Uint256{}
	for _, x := range h.hashes {
		ids = append(ids, h.hid(x))
		byID[h.hid(x)] = x
	}
	sort.Ints(ids)
	for _, id := range ids {
		x := byID[id]
		strict := !h.tainted[id] // a key that was deliberately re-used: bookkeeping by sets does not apply
		g3, gr := h.F.Tx3Exists(x), h.F.ReturnDepositExists(x)
		gd, err := h.F.Draft(x)
		if g3 {
			a = append(a, fmt.Sprint(id))
		}
		if gr {
			b = append(b, fmt.Sprint(id))
		}
		if err == nil && gd != nil {
			c = append(c, fmt.Sprintf("(%d,%d)", id, h.did(gd)))
		}
		if strict {
			if g3 != tx3[x] {
				h.fail("IsTx3Exist:disagrees-with-active-chain", "recorded side-chain withdrawal hashes differ from the withdrawals of the active chain", map[string]interface{}{"hash": id, "got": g3})
			}
			if gr != rd[x] {
				h.fail("IsSideChainReturnDepositExist:disagrees-with-active-chain", "recorded deposit returns differ from the active chain", map[string]interface{}{"hash": id, "got": gr})
			}
			if (err == nil && gd != nil) != (dr[x] != nil) || (dr[x] != nil && string(gd) != string(dr[x])) {
				h.fail("GetProposalDraftData:disagrees-with-active-chain", "stored drafts differ from the active chain", map[string]interface{}{"hash": id})
			}
		}
	}
	h.ev("ETx3 " + lib.CoqList(a))
	h.ev("ERetDep " + lib.CoqList(b))
	h.ev("EDrafts " + lib.CoqList(c))
}

// StoreRandom drives a store-level history: saves and rollbacks in stack
// discipline, blocks mixing transfers and special transactions.
func (h *H) StoreRandom(steps int) {
	kinds := []string{"withdraw0", "withdraw1", "withdraw2", "retdep", "proposal", "review", "tracking"}
	for s := 0; s < steps; s++ {
		if len(h.stack) > 0 && h.Rng.Chance(38) {
			n := 1 + h.Rng.Intn(3)
			for i := 0; i < n && len(h.stack) > 0; i++ {
				h.StoreRollback()
			}
			continue
		}
		tip := h.StoreTip()
		set, _, _ := h.view(tip)
		used := map[ctypes.OutPoint]bool{}
		var txs []interfaces.Transaction
		fault := ""
		var blockDrafts []common.Uint256
		for i, n := 0, h.Rng.Intn(5); i < n; i++ {
			if h.Rng.Chance(45) {
				if tx := h.genTx(set, used, tip.height); tx != nil {
					txs = append(txs, tx)
				}
				continue
			}
			kind := kinds[h.Rng.Intn(len(kinds))]
			nh := 1 + h.Rng.Intn(3)
			if kind == "proposal" || kind == "review" {
				nh = 1
			}
			if kind == "tracking" {
				nh = 2
			}
			var hs []common.Uint256
			isDraft := kind == "proposal" || kind == "review" || kind == "tracking"
			h.ShareData = false
			for j := 0; j < nh; j++ {
				if isDraft && len(blockDrafts) > 0 && h.Rng.Chance(35) {
					// a key first written by an earlier transaction of THIS block, with byte-identical data
					hs = append(hs, blockDrafts[h.Rng.Intn(len(blockDrafts))])
					h.ShareData = true
					h.kinds["shared-in-block"]++
				} else if k := h.KnownHash(); k != nil && h.Rng.Chance(6) {
					hs = append(hs, *k) // deliberately re-used key (excluded class)
					fault = "reused-key"
				} else {
					x := h.NewHash()
					hs = append(hs, x)
					if isDraft {
						blockDrafts = append(blockDrafts, x)
					}
				}
			}
			if tx := h.Special(kind, set, used, hs); tx != nil {
				txs = append(txs, tx)
				h.kinds["tx:"+kind]++
			}
		}
		b := h.BuildOn(tip, txs, fault, fixture.BlockOpt{Miner: h.Rng.Intn(4)})
		h.StoreSave(b)
	}
	// unwind completely: the store must be back at genesis
	for len(h.stack) > 0 {
		if h.StoreRollback() != nil {
			break
		}
	}
}

func pubBytes(h *H) []byte {
	b, _ := h.F.Keys[0].Acc.PublicKey.EncodePoint(true)
	return b
}

// SpecialOn builds a special transaction on the view of block b.
func (h *H) SpecialOn(b *hblk, kind string, hashes []common.Uint256) interfaces.Transaction {
	set, _, _ := h.view(b)
	return h.Special(kind, set, map[ctypes.OutPoint]bool{}, hashes)
}

// ---------------------------------------------------------------- typed pool traffic (C06)

// PoolTypes are the transaction types with inputs the fixture can push
// through the real TxPool.AppendToTxPool (sanity + context + pool checks):
// transfers, Record, and SideChainPow (the only type with its own branch in
// verifyTransactionWithTxnPool; needs the on-duty arbiter to be Keys[0]).
var PoolTypes = []string{"transfer", "record", "sidechainpow"}

// CanSidePow says whether the on-duty cross-chain arbiter is Keys[0].
func (h *H) CanSidePow() bool {
	pk, _ := h.F.Keys[0].Acc.PublicKey.EncodePoint(true)
	return string(h.F.Arbiters.GetOnDutyCrossChainArbitrator()) == string(pk)
}

// Typed builds a transaction of the given type spending ins.
func (h *H) Typed(kind string, ins []fixture.In, total common.Fixed64, genesis byte) interfaces.Transaction {
	h.tag++
	tag := uint64(h.ID)<<32 | h.tag
	out := []*ctypes.Output{{AssetID: core.ELAAssetID, Value: total - common.Fixed64(200+h.Rng.Intn(500)), ProgramHash: h.F.Keys[h.Rng.Intn(4)].Hash,
		Type: ctypes.OTNone, Payload: &outputpayload.DefaultOutput{}}}
	var tx interfaces.Transaction
	var err error
	switch kind {
	case "record":
		tx, err = h.F.RawTx(ctypes.Record, 0, &payload.Record{Type: "verif", Content: h.Rng.Bytes(4)}, ins, out, tag)
	case "sidechainpow":
		pl := &payload.SideChainPow{SideBlockHash: common.Uint256{0xb1, byte(h.tag)}, SideGenesisHash: common.Uint256{0x9e, genesis}, BlockHeight: uint32(h.tag)}
		buf := new(bytes.Buffer)
		pl.Serialize(buf, payload.SideChainPowVersion)
		pl.Signature, _ = crypto.Sign(fixture.KeySeed(0), buf.Bytes()[0:68])
		tx, err = h.F.RawTx(ctypes.SideChainPow, payload.SideChainPowVersion, pl, ins, out, tag)
		if err == nil {
			h.side[tx.Hash()] = &sideInfo{coq: fmt.Sprintf("(SPow %d)", genesis)}
		}
	default:
		tx, err = h.F.Transfer(ins, []fixture.Out{{Key: h.Rng.Intn(4), Value: out[0].Value}}, tag)
	}
	if err != nil {
		panic(err)
	}
	return tx
}

// TypedCollision submits two or three transactions of (possibly) different
// types that spend one common outpoint (possibly with different Sequence).
func (h *H) TypedCollision(tip *hblk) {
	set, _, _ := h.view(tip)
	inPool := map[ctypes.OutPoint]bool{}
	for _, t := range h.F.PoolTxs() {
		for _, in := range t.Inputs() {
			inPool[in.Previous] = true
		}
	}
	var cs []cand
	for _, c := range sortedCands(set) {
		if c.u.val >= 5000 && !inPool[c.op] && !(c.u.cb && tip.height-c.u.lock < h.F.Params.PowConfiguration.CoinbaseMaturity) {
			cs = append(cs, c)
		}
	}
	if len(cs) == 0 {
		return
	}
	c := cs[h.Rng.Intn(len(cs))]
	types := PoolTypes
	if !h.CanSidePow() {
		types = types[:2]
	}
	n := 2 + h.Rng.Intn(2)
	for i := 0; i < n; i++ {
		kind := types[h.Rng.Intn(len(types))]
		seq := uint32(0)
		if h.Rng.Chance(40) {
			seq = uint32(h.Rng.Intn(3))
		}
		ins := []fixture.In{{Op: c.op, Key: c.u.addr, Seq: seq}}
		total := c.u.val
		if len(cs) > 1 && h.Rng.Chance(30) { // plus a private input
			o := cs[h.Rng.Intn(len(cs))]
			if o.op != c.op {
				ins = append(ins, fixture.In{Op: o.op, Key: o.u.addr})
				total += o.u.val
			}
		}
		h.Submit(h.Typed(kind, ins, total, byte(1+h.Rng.Intn(2))), "typed:"+kind)
	}
}

// CorpusSeqBlocks: in-block double spends where the two spenders use
// different Sequence values (different transactions in both orders, with and
// without other inputs / transactions around them; once inside one
// transaction), each on the current tip, then a valid block.
func (h *H) CorpusSeqBlocks() {
	h.Process(h.validBlock(h.tip(), 0))
	h.Process(h.validBlock(h.tip(), 2))
	for i := 0; i < 6; i++ {
		if b := h.faultyBlock(h.tip(), "dupblockseq"); b != nil {
			h.Process(b)
		}
	}
	for i := 0; i < 2; i++ {
		if b := h.faultyBlock(h.tip(), "dupinseq"); b != nil {
			h.Process(b)
		}
	}
	h.Process(h.validBlock(h.tip(), 2))
}

// CorpusTypedPool: every ordered pair of pool-capable transaction types
// collides on one outpoint (equal and different Sequence); SideChainPow of
// one side chain replaces its predecessor, of another side chain must not
// share the outpoint.
func (h *H) CorpusTypedPool() {
	h.Process(h.validBlock(h.tip(), 0))
	h.Process(h.validBlock(h.tip(), 3))
	h.Process(h.validBlock(h.tip(), 3))
	types := PoolTypes
	if !h.CanSidePow() {
		types = types[:2]
	}
	pick := func() *cand {
		set, _, _ := h.view(h.tip())
		inPool := map[ctypes.OutPoint]bool{}
		for _, t := range h.F.PoolTxs() {
			for _, in := range t.Inputs() {
				inPool[in.Previous] = true
			}
		}
		for _, c := range sortedCands(set) {
			if c.u.val >= 5000 && !inPool[c.op] && !(c.u.cb && h.tip().height-c.u.lock < h.F.Params.PowConfiguration.CoinbaseMaturity) {
				c := c
				return &c
			}
		}
		return nil
	}
	for _, first := range types {
		for _, second := range types {
			for _, seq := range []uint32{0, 1} {
				c := pick()
				if c == nil {
					h.Process(h.BuildOn(h.tip(), h.F.PoolTxs(), "", fixture.BlockOpt{}))
					h.Process(h.validBlock(h.tip(), 3))
					if c = pick(); c == nil {
						return
					}
				}
				h.Submit(h.Typed(first, []fixture.In{{Op: c.op, Key: c.u.addr}}, c.u.val, 1), "typed:"+first)
				h.Submit(h.Typed(second, []fixture.In{{Op: c.op, Key: c.u.addr, Seq: seq}}, c.u.val, 2), "typed:"+second)
			}
		}
	}
	if h.CanSidePow() { // same side chain: replacement of the predecessor, same outpoint
		if c := pick(); c != nil {
			h.Submit(h.Typed("sidechainpow", []fixture.In{{Op: c.op, Key: c.u.addr}}, c.u.val, 7), "typed:sidechainpow")
			h.Submit(h.Typed("sidechainpow", []fixture.In{{Op: c.op, Key: c.u.addr}}, c.u.val, 7), "typed:sidechainpow-replace")
		}
	}
	h.Process(h.BuildOn(h.tip(), h.F.PoolTxs(), "", fixture.BlockOpt{})) // mine the pool
}

// SpecialsOn builds several special transactions (fresh keys, nh hashes each)
// on the view of block b, with distinct inputs.
func (h *H) SpecialsOn(b *hblk, kinds []string, nh int) []interfaces.Transaction {
	set, _, _ := h.view(b)
	used := map[ctypes.OutPoint]bool{}
	var txs []interfaces.Transaction
	for _, k := range kinds {
		var hs []common.Uint256
		for i := 0; i < nh; i++ {
			hs = append(hs, h.NewHash())
		}
		if tx := h.Special(k, set, used, hs); tx != nil {
			txs = append(txs, tx)
		}
	}
	return txs
}

// ---------------------------------------------------------------- readers interleaved with the chain, sibling inputs (C06c / C14c classes)

// ProcessDuringLookup submits hb in the middle of a transaction lookup: the
// TxCache is dropped (cache miss), GetTransaction of a transaction of the
// current tip block is started, and right after its database view returned
// the block is processed (possibly disconnecting that tip block); then the
// lookup finishes.  Queries are observed again afterwards.
func (h *H) ProcessDuringLookup(hb *hblk) error {
	tip := h.tip()
	target := tip.txs[h.Rng.Intn(len(tip.txs))].tx.Hash()
	h.F.DropTxCache()
	var err error
	ran := false
	h.F.AfterNextView(func() { ran = true; err = h.Process(hb) })
	h.F.Tx(target)
	h.F.AfterNextView(nil)
	if !ran {
		err = h.Process(hb)
	}
	h.note("(block %d was processed in the middle of GetTransaction(tx %d), cache miss)", hb.id+1, h.refID(target))
	h.Observe()
	return err
}

// CorpusRacyLookup: b1-b2(T) main chain, competing c2-c3 from b1; c3 (which
// disconnects b2) is processed in the middle of a cache-missing lookup of T
// and of b2's coinbase; then the chain moves on and everything is queried.
func (h *H) CorpusRacyLookup() {
	g := h.GenesisBlk()
	b1 := h.validBlock(g, 0)
	h.Process(b1)
	b2 := h.validBlock(b1, 0)
	h.Process(b2)
	b3 := h.validBlock(b2, 2)
	h.Process(b3)
	c3 := h.validBlock(b2, 1)
	h.Process(c3)
	c4 := h.validBlock(c3, 1)
	h.ProcessDuringLookup(c4) // reorganisation: b3 disconnected while one of its transactions is being looked up
	h.Process(h.validBlock(h.tip(), 1))
	d := h.validBlock(h.tip().parent, 1)
	h.Process(d)
	h.ProcessDuringLookup(h.validBlock(d, 1))
	h.Process(h.validBlock(h.tip(), 2))
}

// CorpusSiblings: a parent P with four outputs; P:1 is spent in a block; then
// transactions with several inputs on P in every order (unspent before /
// after / around the spent one) are offered in blocks and to the mempool;
// after a reorganisation that un-spends P:1 and spends P:2 the same again.
func (h *H) CorpusSiblings() {
	f := h.F
	g := h.GenesisBlk()
	b1 := h.validBlock(g, 0)
	h.Process(b1)
	total := f.Genesis.Transactions[0].Outputs()[0].Value
	fan, _ := f.Transfer([]fixture.In{{Op: f.GenesisOut, Key: 0}}, []fixture.Out{{Key: 1, Value: 500000}, {Key: 1, Value: 600000}, {Key: 2, Value: 700000}, {Key: 3, Value: 800000}, {Key: 0, Value: total - 2600000 - 100}}, 930000)
	b2 := h.BuildOn(b1, []interfaces.Transaction{fan}, "", fixture.BlockOpt{Miner: 1})
	h.Process(b2)
	P := func(i uint16, k int) fixture.In {
		return fixture.In{Op: ctypes.OutPoint{TxID: fan.Hash(), Index: i}, Key: k}
	}
	vals := []common.Fixed64{500000, 600000, 700000, 800000}
	keys := []int{1, 1, 2, 3}
	spend := func(tag uint64, idx ...uint16) interfaces.Transaction {
		var ins []fixture.In
		var tot common.Fixed64
		for _, i := range idx {
			ins = append(ins, P(i, keys[i]))
			tot += vals[i]
		}
		tx, _ := f.Transfer(ins, []fixture.Out{{Key: 0, Value: tot - 300}}, tag)
		return tx
	}
	s1 := spend(930001, 1)
	b3 := h.BuildOn(b2, []interfaces.Transaction{s1}, "", fixture.BlockOpt{Miner: 2})
	h.Process(b3)
	try := func(base uint64, spentIdx uint16, free []uint16) {
		orders := [][]uint16{{free[0], spentIdx}, {spentIdx, free[0]}, {free[0], spentIdx, free[1]}, {free[0], free[1], spentIdx}}
		for k, o := range orders {
			tx := spend(base+uint64(k), o...)
			h.Process(h.BuildOn(h.tip(), []interfaces.Transaction{tx}, "sibling", fixture.BlockOpt{Miner: 2}))
			if h.Mode.Pool {
				h.Submit(tx, "invalid")
			}
		}
	}
	try(930010, 1, []uint16{0, 2})
	// competing branch from b2: P:2 is spent there, P:1 is not
	c3 := h.BuildOn(b2, []interfaces.Transaction{spend(930020, 2)}, "", fixture.BlockOpt{Miner: 3})
	h.Process(c3)
	h.Process(h.validBlock(c3, 0)) // reorganisation
	try(930030, 2, []uint16{1, 3})
	if h.Mode.Pool { // an output of P claimed by a pool transaction, its siblings free
		h.Submit(spend(930040, 0), "valid")
		h.Submit(spend(930041, 1, 0), "conflict")
		h.Submit(spend(930042, 0, 3), "conflict")
	}
	h.Process(h.validBlock(h.tip(), 1))
}

// draftVersion picks the payload version of a draft-carrying transaction
// (version 0 does not serialize the data, the processors store it all the same).
func (h *H) draftVersion(v0, v1 byte) byte {
	if h.Rng.Chance(30) {
		return v0
	}
	return v1
}

// CorpusSharedDrafts: blocks whose draft-carrying transactions share
// byte-identical data (identical hashes) within the block, every ordered pair
// of {proposal, review, tracking} on one shared key plus two trackings with
// one opinion and different messages; each block connected, disconnected,
// re-included in the other transaction order, disconnected.
func (h *H) CorpusSharedDrafts() {
	f := h.F
	total := f.Genesis.Transactions[0].Outputs()[0].Value
	var outs []fixture.Out
	for i := 0; i < 12; i++ {
		outs = append(outs, fixture.Out{Key: i % 4, Value: 600000})
	}
	outs = append(outs, fixture.Out{Key: 0, Value: total - 7200000 - 100})
	fan, _ := f.Transfer([]fixture.In{{Op: f.GenesisOut, Key: 0}}, outs, 940000)
	b1 := h.BuildOn(h.GenesisBlk(), []interfaces.Transaction{fan}, "", fixture.BlockOpt{Miner: 1})
	h.StoreSave(b1)
	kinds := []string{"tracking", "review", "proposal"}
	for _, k1 := range kinds {
		for _, k2 := range kinds {
			set, _, _ := h.view(h.StoreTip())
			used := map[ctypes.OutPoint]bool{}
			shared := h.NewHash()
			keys := func(k string) []common.Uint256 {
				if k == "tracking" {
					return []common.Uint256{shared, h.NewHash()} // shared opinion, own message
				}
				return []common.Uint256{shared}
			}
			h.ShareData = true
			t1 := h.Special(k1, set, used, keys(k1))
			t2 := h.Special(k2, set, used, keys(k2))
			h.ShareData = false
			if t1 == nil || t2 == nil {
				continue
			}
			h.Note("corpus: %s and %s share one draft key with identical data in one block", k1, k2)
			h.StoreSave(h.BuildOn(h.StoreTip(), []interfaces.Transaction{t1, t2}, "", fixture.BlockOpt{Miner: 2}))
			h.StoreRollback()
			h.StoreSave(h.BuildOn(h.StoreTip(), []interfaces.Transaction{t2, t1}, "", fixture.BlockOpt{Miner: 3}))
			h.StoreRollback()
		}
	}
	h.StoreRollback()
}
