// Package sigkit holds what the C05 and C37 harnesses share: deterministic
// key material, script builders, an independent (harness-side) evaluation of
// "this program authorises spending from this address over this data", and the
// oracle tables handed to the Coq model.
package sigkit

import (
	"bytes"
	"crypto/sha256"
	"fmt"
	"math/big"
	"sort"
	"strings"

	"github.com/elastos/Elastos.ELA/common"
	"github.com/elastos/Elastos.ELA/core/contract"
	pg "github.com/elastos/Elastos.ELA/core/contract/program"
	"github.com/elastos/Elastos.ELA/crypto"

	"verifharness/lib"
)

type Key struct {
	Priv []byte
	Pub  *crypto.PublicKey
	Enc  []byte // 33-byte compressed encoding
}

// NewKey derives a P-256 key pair from the run's PRNG.
func NewKey(rng *lib.Rng) *Key {
	for {
		d := new(big.Int).SetBytes(rng.Bytes(32))
		d.Mod(d, crypto.DefaultParams.N)
		if d.Sign() == 0 {
			continue
		}
		priv := make([]byte, 32)
		b := d.Bytes()
		copy(priv[32-len(b):], b)
		x, y := crypto.DefaultCurve.ScalarBaseMult(priv)
		pub := &crypto.PublicKey{X: x, Y: y}
		enc, _ := pub.EncodePoint(true)
		return &Key{Priv: priv, Pub: pub, Enc: enc}
	}
}

func must(err error) {
	if err != nil {
		panic(err)
	}
}

func StdCode(k *Key) []byte {
	c, err := contract.CreateStandardRedeemScript(k.Pub)
	must(err)
	return c
}

func SchnorrCode(k *Key) []byte {
	c, err := contract.CreateSchnorrRedeemScript(k.Pub)
	must(err)
	return c
}

// RawMulti builds m || (0x21 key)* || n || last by hand: keys in the given
// order, duplicates allowed, m and n bytes as given (0x50+m, 0x50+n).
func RawMulti(m int, keys [][]byte, n int, last byte) []byte {
	buf := []byte{byte(0x50 + m)}
	for _, k := range keys {
		buf = append(buf, 0x21)
		buf = append(buf, k...)
	}
	return append(buf, byte(0x50+n), last)
}

// SigScript is 0x40 || crypto.Sign(priv, data).
func SigScript(k *Key, data []byte) []byte {
	s, err := crypto.Sign(k.Priv, data)
	must(err)
	return append([]byte{0x40}, s...)
}

func SchnorrSig(keys []*Key, data []byte) []byte {
	var ds []*big.Int
	for _, k := range keys {
		ds = append(ds, new(big.Int).SetBytes(k.Priv))
	}
	s, err := crypto.AggregateSignatures(ds, common.Sha256D(data))
	must(err)
	return s[:]
}

func Hash(prefix byte, code []byte) common.Uint168 { return *common.ToProgramHash(prefix, code) }

// ---------------------------------------------------------------- primitives (as the node calls them)

func PointOK(key []byte) bool {
	ok := false
	lib.Recover(func() { _, err := crypto.DecodePoint(key); ok = err == nil })
	return ok
}

func EcdsaOK(key, data, sig []byte) bool {
	ok := false
	lib.Recover(func() {
		p, err := crypto.DecodePoint(key)
		if err != nil {
			return
		}
		ok = crypto.Verify(*p, data, sig) == nil
	})
	return ok
}

func SchnorrOK(key, data, sig []byte) bool {
	if len(key) != 33 || len(sig) != 64 {
		return false
	}
	var k [33]byte
	var s [64]byte
	copy(k[:], key)
	copy(s[:], sig)
	ok := false
	lib.Recover(func() { ok, _ = crypto.SchnorrVerify(k, common.Sha256D(data), s) })
	return ok
}

// ---------------------------------------------------------------- independent statement of the property

// Authorised says whether program p, by itself, proves control of the script
// p.Code over data: a Schnorr-shaped code with a verifying Schnorr signature, a
// standard code with a verifying ECDSA signature, or an m-of-n script
// (terminated by `last`) for which at least m >= 1 distinct keys of the
// script have a verifying signature among the 65-byte parameter chunks.
// Written from the property statement, not from the node's control flow.
func Authorised(p *pg.Program, data []byte, last byte) (bool, string) {
	c := p.Code
	if len(c) == 35 && c[0] == 0x51 && c[1] == 33 {
		if len(p.Parameter) >= 64 && SchnorrOK(c[2:], data, p.Parameter[:64]) {
			return true, "schnorr"
		}
		return false, "schnorr"
	}
	if len(c) == 35 && c[0] == 33 && c[34] == 0xac {
		if len(p.Parameter) == 65 && EcdsaOK(c[1:34], data, p.Parameter[1:]) {
			return true, "standard"
		}
		return false, "standard"
	}
	if len(c) >= 37 && c[len(c)-1] == last && (len(c)-3)%34 == 0 {
		m := int(c[0]) - 0x50
		if m < 1 {
			return false, "multisig"
		}
		distinct := map[string]bool{}
		for i := 1; i+34 <= len(c)-2; i += 34 {
			key := c[i+1 : i+34]
			for j := 0; j+65 <= len(p.Parameter); j += 65 {
				if EcdsaOK(key, data, p.Parameter[j+1:j+65]) {
					distinct[string(key)] = true
					break
				}
			}
		}
		return len(distinct) >= m, "multisig"
	}
	return false, "unknown"
}

// ---------------------------------------------------------------- oracle tables for the Coq model

type Tables struct {
	codes [][]byte
	keys  [][]byte
	sigs  [][]byte
	sKeys [][]byte // keys of Schnorr-shaped codes
	sSigs [][]byte
}

func addUniq(l *[][]byte, b []byte) {
	for _, x := range *l {
		if bytes.Equal(x, b) {
			return
		}
	}
	*l = append(*l, append([]byte{}, b...))
}

// AddProgram registers every key / signature window the node could read
// from this program (a superset is harmless; a miss is detected in Coq).
func (t *Tables) AddProgram(p *pg.Program) {
	c, q := p.Code, p.Parameter
	addUniq(&t.codes, c)
	if len(c) == 35 {
		addUniq(&t.keys, c[1:34])
		if c[0] == 0x51 && c[1] == 33 {
			addUniq(&t.sKeys, c[2:])
			if len(q) >= 64 {
				addUniq(&t.sSigs, q[:64])
			}
		}
	}
	if len(c) >= 3 && (len(c)-3)%34 == 0 {
		for i := 1; i+34 <= len(c)-2; i += 34 {
			addUniq(&t.keys, c[i+1:i+34])
		}
	}
	if len(q) == 65 {
		addUniq(&t.sigs, q[1:])
	}
	if len(q)%65 == 0 {
		for j := 0; j+65 <= len(q); j += 65 {
			addUniq(&t.sigs, q[j+1:j+65])
		}
	}
}

func (t *Tables) AddKeySig(keys34 [][]byte, sigs []byte) {
	for _, k := range keys34 {
		if len(k) >= 1 {
			addUniq(&t.keys, k[1:])
		}
	}
	if len(sigs)%65 == 0 {
		for j := 0; j+65 <= len(sigs); j += 65 {
			addUniq(&t.sigs, sigs[j+1:j+65])
		}
	}
}

// Pack renders a byte string as (U len [w1;...]%uint63): seven bytes per
// primitive integer, big endian, last word zero-padded (see corr/C05_corr.v).
func Pack(b []byte) string {
	if len(b) == 0 {
		return "(U 0 [])"
	}
	var sb strings.Builder
	fmt.Fprintf(&sb, "(U %d [", len(b))
	for i := 0; i < len(b); i += 7 {
		var w uint64
		for j := 0; j < 7; j++ {
			w <<= 8
			if i+j < len(b) {
				w |= uint64(b[i+j])
			}
		}
		if i > 0 {
			sb.WriteByte(';')
		}
		fmt.Fprintf(&sb, "%d", w)
	}
	sb.WriteString("]%uint63)")
	return sb.String()
}

func zb(b []byte) string { return Pack(b) }

// Coq renders the oracle answers of the real primitives over data, aligned
// with the pools (corr/C05_corr.v recomputes the same pools from the case).
func (t *Tables) Coq(data []byte) string {
	var ch, pok, ec, sc []string
	for _, c := range t.codes {
		ch = append(ch, zb(common.ToCodeHash(c).Bytes()))
	}
	for _, k := range t.keys {
		pok = append(pok, lib.CoqBool(PointOK(k)))
		var row []string
		for _, s := range t.sigs {
			row = append(row, lib.CoqBool(EcdsaOK(k, data, s)))
		}
		ec = append(ec, lib.CoqList(row))
	}
	for _, k := range t.sKeys {
		var row []string
		for _, s := range t.sSigs {
			row = append(row, lib.CoqBool(SchnorrOK(k, data, s)))
		}
		sc = append(sc, lib.CoqList(row))
	}
	return fmt.Sprintf("(Tables %s %s %s %s)", lib.CoqList(ch), lib.CoqList(pok), lib.CoqList(ec), lib.CoqList(sc))
}

func CoqProgs(ps []*pg.Program) string {
	var xs []string
	for _, p := range ps {
		xs = append(xs, fmt.Sprintf("(%s, %s)", zb(p.Code), zb(p.Parameter)))
	}
	return lib.CoqList(xs)
}

func CoqHashes(hs []common.Uint168) string {
	var xs []string
	for _, h := range hs {
		xs = append(xs, zb(h[:]))
	}
	return lib.CoqList(xs)
}

func Hex(b []byte) string { return common.BytesToHexString(b) }

func ProgsJSON(ps []*pg.Program) []map[string]string {
	var out []map[string]string
	for _, p := range ps {
		out = append(out, map[string]string{"code": Hex(p.Code), "param": Hex(p.Parameter)})
	}
	return out
}

func HashesJSON(hs []common.Uint168) []string {
	var out []string
	for _, h := range hs {
		out = append(out, Hex(h[:]))
	}
	return out
}

// Digest is a short canonical key for distinctness counting.
func Digest(parts ...string) string {
	h := sha256.Sum256([]byte(strings.Join(parts, "|")))
	return fmt.Sprintf("%x", h[:8])
}

// SortedHashes returns the hashes sorted bytewise (canonical set order).
func SortedHashes(hs []common.Uint168) []common.Uint168 {
	out := append([]common.Uint168{}, hs...)
	sort.Slice(out, func(i, j int) bool { return bytes.Compare(out[i][:], out[j][:]) < 0 })
	return out
}
