package fixture

import (
	"bytes"
	"encoding/hex"
	"testing"

	"github.com/elastos/Elastos.ELA/common"
	"github.com/elastos/Elastos.ELA/common/config"
	"github.com/elastos/Elastos.ELA/core"
	ctypes "github.com/elastos/Elastos.ELA/core/types/common"
	"github.com/elastos/Elastos.ELA/core/types/interfaces"
	"github.com/elastos/Elastos.ELA/core/types/outputpayload"
	"github.com/elastos/Elastos.ELA/core/types/payload"
	"github.com/elastos/Elastos.ELA/crypto"
)

func TestTypes(t *testing.T) {
	f, err := New(Options{Tune: func(p *config.Configuration) {
		pk, _ := crypto.NewPubKey(KeySeed(0)).EncodePoint(true)
		p.DPoSConfiguration.OriginArbiters = []string{hex.EncodeToString(pk)}
	}})
	if err != nil {
		t.Fatal(err)
	}
	defer f.Close()
	b1, _ := f.BuildBlock(f.Genesis, nil, BlockOpt{Miner: 1})
	_, _, err = f.ProcessBlock(b1)
	t.Log("b1", err, "onduty", hex.EncodeToString(f.Arbiters.GetOnDutyCrossChainArbitrator()))
	total := f.Genesis.Transactions[0].Outputs()[0].Value
	plain := func(k int, v common.Fixed64) *ctypes.Output {
		return &ctypes.Output{AssetID: core.ELAAssetID, Value: v, ProgramHash: f.Keys[k].Hash, Type: ctypes.OTNone, Payload: &outputpayload.DefaultOutput{}}
	}
	tr, _ := f.Transfer([]In{{Op: f.GenesisOut, Key: 0}}, []Out{{Key: 1, Value: total - 100}}, 1)
	t.Log("transfer", f.SubmitTx(tr))
	pl := &payload.SideChainPow{SideBlockHash: common.Uint256{1}, SideGenesisHash: common.Uint256{2}, BlockHeight: 5}
	buf := new(bytes.Buffer)
	pl.Serialize(buf, payload.SideChainPowVersion)
	sig, _ := crypto.Sign(KeySeed(0), buf.Bytes()[0:68])
	pl.Signature = sig
	sp, err := f.RawTx(ctypes.SideChainPow, payload.SideChainPowVersion, pl, []In{{Op: f.GenesisOut, Key: 0}}, []*ctypes.Output{plain(2, total-200)}, 2)
	t.Log("sidechainpow build", err)
	t.Log("sidechainpow submit (conflict)", f.SubmitTx(sp))
	rec, _ := f.RawTx(ctypes.Record, 0, &payload.Record{Type: "x", Content: []byte{1}}, []In{{Op: f.GenesisOut, Key: 0}}, []*ctypes.Output{plain(2, total-300)}, 3)
	t.Log("record submit (conflict)", f.SubmitTx(rec))
	// without the transfer
	for _, x := range f.PoolTxs() {
		f.Pool.RemoveTransaction(x)
	}
	t.Log("pool", len(f.PoolTxs()))
	b2, _ := f.BuildBlock(b1, []interfaces.Transaction{sp}, BlockOpt{Miner: 1})
	_, _, err = f.ProcessBlock(b2)
	t.Log("block with sidechainpow", err)
}
