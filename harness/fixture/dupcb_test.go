package fixture

import (
	"testing"

	ctypes "github.com/elastos/Elastos.ELA/core/types/common"
	"github.com/elastos/Elastos.ELA/core/types/interfaces"
)

// duplicate coinbase: does the chain accept a second coinbase with the same txid?
func TestDupCoinbase(t *testing.T) {
	f, err := New(Options{})
	if err != nil {
		t.Fatal(err)
	}
	defer f.Close()
	b1, _ := f.BuildBlock(f.Genesis, nil, BlockOpt{Miner: 1})
	_, _, err = f.ProcessBlock(b1)
	t.Log("b1", err)
	cb := b1.Transactions[0]
	b2, _ := f.BuildBlock(b1, nil, BlockOpt{Miner: 2})
	_, _, err = f.ProcessBlock(b2)
	t.Log("b2", err)
	v := cb.Outputs()[1].Value
	tx1, _ := f.Transfer([]In{{Op: ctypes.OutPoint{TxID: cb.Hash(), Index: 1}, Key: 1}}, []Out{{Key: 3, Value: v - 100}}, 1)
	b3, _ := f.BuildBlock(b2, []interfaces.Transaction{tx1}, BlockOpt{Miner: 2})
	_, _, err = f.ProcessBlock(b3)
	u, _ := f.Unspent(cb.Hash())
	t.Log("b3 (spends cb1:1)", err, "unspent(cb1) =", u)
	// b4 re-uses b1's coinbase verbatim
	b4, _ := f.BuildBlock(b3, nil, BlockOpt{Miner: 2})
	b4.Transactions[0] = cb
	b4.Header.MerkleRoot = cb.Hash()
	b4 = f.Resolve(b4)
	_, _, err = f.ProcessBlock(b4)
	u, _ = f.Unspent(cb.Hash())
	_, h, _ := f.Tx(cb.Hash())
	t.Log("b4 (duplicate coinbase)", err, "unspent(cb1) =", u, "tx height", h)
	b5, _ := f.BuildBlock(b4, nil, BlockOpt{Miner: 2})
	_, _, err = f.ProcessBlock(b5)
	tx2, _ := f.Transfer([]In{{Op: ctypes.OutPoint{TxID: cb.Hash(), Index: 1}, Key: 1}}, []Out{{Key: 2, Value: v - 200}}, 2)
	b6, _ := f.BuildBlock(b5, []interfaces.Transaction{tx2}, BlockOpt{Miner: 2})
	_, _, err = f.ProcessBlock(b6)
	_, ht := f.Tip()
	t.Log("b6 (spends cb1:1 again)", err, "tip height", ht)
	us, _ := f.UTXOs(f.Keys[0].Hash)
	n := 0
	for _, x := range us {
		if x.TxID == cb.Hash() {
			n++
		}
	}
	t.Log("entries of cb1 in key0 address list:", n)
}
