package fixture

import (
	"bytes"
	"os"
	"os/exec"
)

// ChildEnv is set in the environment of a process started by RunChild; its
// value is the payload string the parent passed.
const ChildEnv = "VERIF_FIXTURE_CHILD"

// ChildPayload reports whether this process was started by RunChild and with
// what payload.  A harness main() checks it first and, if set, runs the one
// history described by the payload and prints its observations to stdout.
func ChildPayload() (string, bool) {
	v, ok := os.LookupEnv(ChildEnv)
	return v, ok
}

// RunChild re-executes the current binary with the payload in ChildEnv (all
// other arguments and environment are inherited) and returns its stdout.  Use
// it for histories that must not share process globals with others (failed
// reorganisations, forced panics, crash tests).
func RunChild(payload string) ([]byte, error) {
	cmd := exec.Command(os.Args[0], os.Args[1:]...)
	cmd.Env = append(os.Environ(), ChildEnv+"="+payload)
	var out bytes.Buffer
	cmd.Stdout = &out
	cmd.Stderr = os.Stderr
	err := cmd.Run()
	return out.Bytes(), err
}
