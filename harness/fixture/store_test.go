package fixture

import (
	"testing"

	"github.com/elastos/Elastos.ELA/common"
	"github.com/elastos/Elastos.ELA/core"
	ctypes "github.com/elastos/Elastos.ELA/core/types/common"
	"github.com/elastos/Elastos.ELA/core/types/interfaces"
	"github.com/elastos/Elastos.ELA/core/types/outputpayload"
	"github.com/elastos/Elastos.ELA/core/types/payload"
)

func TestStoreV2(t *testing.T) {
	for round := 0; round < 3; round++ {
		f, err := New(Options{})
		if err != nil {
			t.Fatal(err)
		}
		for _, ver := range []byte{0, 1, 2} {
			var sh common.Uint256
			sh[0] = 0xA0 + ver
			sh[1] = byte(round)
			pl := &payload.WithdrawFromSideChain{}
			outs := []*ctypes.Output{{AssetID: core.ELAAssetID, Value: 5, ProgramHash: f.Keys[1].Hash, Type: ctypes.OTNone, Payload: &outputpayload.DefaultOutput{}}}
			if ver == 0 {
				pl.SideChainTransactionHashes = []common.Uint256{sh}
			} else {
				outs = []*ctypes.Output{{AssetID: core.ELAAssetID, Value: 5, ProgramHash: f.Keys[1].Hash, Type: ctypes.OTWithdrawFromSideChain,
					Payload: &outputpayload.Withdraw{GenesisBlockAddress: "x", SideChainTransactionHash: sh, TargetData: []byte{1}}}}
			}
			tx, err := f.RawTx(ctypes.WithdrawFromSideChain, ver, pl, []In{{Op: f.GenesisOut, Key: 0}}, outs, uint64(ver))
			if err != nil {
				t.Fatal(err)
			}
			b, err := f.BuildBlock(f.Genesis, []interfaces.Transaction{tx}, BlockOpt{Salt: uint64(ver)})
			if err != nil {
				t.Fatal(err)
			}
			before := f.Tx3Exists(sh)
			if err := f.StoreSave(b); err != nil {
				t.Fatalf("save v%d: %v", ver, err)
			}
			mid := f.Tx3Exists(sh)
			u, _ := f.Unspent(f.GenesisOut.TxID)
			if err := f.StoreRollback(b); err != nil {
				t.Fatalf("rollback v%d: %v", ver, err)
			}
			after := f.Tx3Exists(sh)
			u2, _ := f.Unspent(f.GenesisOut.TxID)
			t.Logf("round %d v%d tx3 before=%v connected=%v after-rollback=%v genesis-unspent %v -> %v", round, ver, before, mid, after, u, u2)
		}
		f.Close()
	}
}
