package fixture

import (
	"testing"
	"time"

	"github.com/elastos/Elastos.ELA/core/types/interfaces"
)

func TestSmoke(t *testing.T) {
	t0 := time.Now()
	f, err := New(Options{})
	if err != nil {
		t.Fatal(err)
	}
	defer f.Close()
	t.Logf("start %v", time.Since(t0))
	b1, err := f.BuildBlock(f.Genesis, nil, BlockOpt{Miner: 1})
	if err != nil {
		t.Fatal(err)
	}
	in, orphan, err := f.ProcessBlock(b1)
	t.Logf("b1 inMain=%v orphan=%v err=%v", in, orphan, err)
	if err != nil || !in {
		t.Fatal("b1 not connected")
	}
	total := f.Genesis.Transactions[0].Outputs()[0].Value
	tx, err := f.Transfer([]In{{Op: f.GenesisOut, Key: 0}}, []Out{{Key: 1, Value: 1000}, {Key: 2, Value: 0}, {Key: 0, Value: total - 1000 - 100}}, 1)
	if err != nil {
		t.Fatal(err)
	}
	if e := f.SubmitTx(tx); e != nil {
		t.Fatalf("submit: %v", e)
	}
	b2, _ := f.BuildBlock(b1, []interfaces.Transaction{tx}, BlockOpt{Miner: 2})
	in, orphan, err = f.ProcessBlock(b2)
	t.Logf("b2 inMain=%v orphan=%v err=%v pool=%d", in, orphan, err, len(f.PoolTxs()))
	if err != nil || !in {
		t.Fatal("b2 not connected")
	}
	u, err := f.Unspent(tx.Hash())
	t.Logf("unspent %v %v", u, err)
	us, _ := f.UTXOs(f.Keys[1].Hash)
	t.Logf("utxos k1 %v", us)
	us, _ = f.UTXOs(f.Keys[2].Hash)
	t.Logf("utxos k2 %v", us)
	bal, _ := f.Balance(f.Keys[0].Hash)
	t.Logf("bal k0 %v", bal)
	// fork: two blocks on b1 -> reorg
	c2, _ := f.BuildBlock(b1, nil, BlockOpt{Miner: 3, Salt: 7})
	in, orphan, err = f.ProcessBlock(c2)
	t.Logf("c2 inMain=%v orphan=%v err=%v", in, orphan, err)
	c3, _ := f.BuildBlock(c2, nil, BlockOpt{Miner: 3, Salt: 8})
	in, orphan, err = f.ProcessBlock(c3)
	t.Logf("c3 inMain=%v orphan=%v err=%v pool=%d", in, orphan, err, len(f.PoolTxs()))
	u, err = f.Unspent(tx.Hash())
	t.Logf("unspent after reorg %v %v", u, err)
	u, err = f.Unspent(f.GenesisOut.TxID)
	t.Logf("genesis unspent after reorg %v %v", u, err)
	h, ht := f.Tip()
	t.Logf("tip %v %d total %v", h, ht, time.Since(t0))
}
