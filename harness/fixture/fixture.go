// Package fixture builds a real regnet Elastos.ELA node core in a temp
// directory: ChainStore (leveldb + ffldb with every indexer), BlockChain, DPoS
// arbitrators/state, CR committee, checkpoint manager and transaction pool,
// wired as main.go:startNode wires them (minus network and RPC), with the
// post-block mempool maintenance of elanet/netsync reproduced from its event
// handler.  Proof of work runs at the "instant" limit (0x207fffff) so a block
// is mined by trying a few nonces of the parent (aux) header.
//
// One live Fixture per process at a time: blockchain.DefaultLedger,
// blockchain.FoundationAddress, config.DefaultParams, functions.* and the
// events callback list are process globals.  Close() a fixture before New()
// of the next one; histories that must not share a process use RunChild.
package fixture

import (
	"bytes"
	"encoding/binary"
	"errors"
	"fmt"
	"os"
	"path/filepath"
	"sort"
	"sync"
	"time"

	"github.com/elastos/Elastos.ELA/account"
	"github.com/elastos/Elastos.ELA/auxpow"
	"github.com/elastos/Elastos.ELA/blockchain"
	"github.com/elastos/Elastos.ELA/blockchain/indexers"
	"github.com/elastos/Elastos.ELA/common"
	"github.com/elastos/Elastos.ELA/common/config"
	"github.com/elastos/Elastos.ELA/common/log"
	"github.com/elastos/Elastos.ELA/core"
	"github.com/elastos/Elastos.ELA/core/checkpoint"
	"github.com/elastos/Elastos.ELA/core/contract/program"
	"github.com/elastos/Elastos.ELA/core/transaction"
	"github.com/elastos/Elastos.ELA/core/types"
	ctypes "github.com/elastos/Elastos.ELA/core/types/common"
	"github.com/elastos/Elastos.ELA/core/types/functions"
	"github.com/elastos/Elastos.ELA/core/types/interfaces"
	"github.com/elastos/Elastos.ELA/core/types/outputpayload"
	"github.com/elastos/Elastos.ELA/core/types/payload"
	crstate "github.com/elastos/Elastos.ELA/cr/state"
	"github.com/elastos/Elastos.ELA/crypto"
	"github.com/elastos/Elastos.ELA/database"
	dplog "github.com/elastos/Elastos.ELA/dpos/log"
	"github.com/elastos/Elastos.ELA/dpos/state"
	"github.com/elastos/Elastos.ELA/events"
	"github.com/elastos/Elastos.ELA/mempool"
)

// NKeys is the number of funded keys.
const NKeys = 4

// Options tune a fixture. The zero value is the default used by C06/C13/C14.
type Options struct {
	// Dir is the data directory; empty = a fresh os.MkdirTemp directory,
	// removed by Close.
	Dir string
	// CoinbaseMaturity overrides PowConfiguration.CoinbaseMaturity (regnet:
	// 100).  Default 1, so that mined rewards enter the transfer graph.  The
	// genesis coinbase (lock time 0) is spendable from height Maturity on.
	CoinbaseMaturity uint32
	// KeepMaturity keeps the network's own maturity (100).
	KeepMaturity bool
	// Tune is applied to the parameters after the defaults above, before
	// anything is created (e.g. lower a fork height for C30).
	Tune func(*config.Configuration)
	// NoPoolEvents disables the netsync-like mempool maintenance.
	NoPoolEvents bool
}

// Key is one funded standard (single-signature) account.
type Key struct {
	Index int
	Acc   *account.Account
	Hash  common.Uint168 // program hash = address
	Addr  string
}

// Fixture is a live node core.
type Fixture struct {
	Dir       string
	ownDir    bool
	Params    *config.Configuration
	Store     blockchain.IChainStore
	FFLDB     blockchain.IFFLDBChainStore
	Chain     *blockchain.BlockChain
	Arbiters  *state.Arbiters
	Committee *crstate.Committee
	Ckp       *checkpoint.Manager
	Pool      *mempool.TxPool
	Keys      [NKeys]*Key
	Genesis   *types.Block
	// GenesisOut is the funding outpoint: the genesis coinbase output 0
	// (33,000,000 ELA) owned by Keys[0].
	GenesisOut ctypes.OutPoint

	blocks map[common.Uint256]*types.Block          // every block ever built or processed
	nodes  map[common.Uint256]*blockchain.BlockNode // store-level nodes (StoreSave/StoreRollback)
	nonce  uint64
	closed bool

	poolEvents bool
	hook       *hookDB

	// Events is the log of chain events seen since the caller last reset it
	// (in the order the node emitted them).
	Events []Event
}

// Event is one chain notification: Kind is "connected", "disconnected" or
// "processed".
type Event struct {
	Kind  string
	Block *types.Block
}

var (
	globalsOnce sync.Once
	curMu       sync.Mutex
	cur         *Fixture
)

func initGlobals(logDir string) {
	globalsOnce.Do(func() {
		functions.GetTransactionByTxType = transaction.GetTransaction
		functions.GetTransactionByBytes = transaction.GetTransactionByBytes
		functions.CreateTransaction = transaction.CreateTransaction
		functions.GetTransactionParameters = transaction.GetTransactionparameters
		log.NewDefault(filepath.Join(logDir, "elalog"), 255, 0, 0)
		dplog.Init(filepath.Join(logDir, "dposlog"), 255, 0, 0)
		events.Subscribe(onEvent)
	})
}

// onEvent mirrors elanet/netsync.(*SyncManager).handleBlockchainEvents for the
// three cases that maintain the transaction pool.
func onEvent(e *events.Event) {
	f := cur
	if f == nil || f.closed {
		return
	}
	if block, ok := e.Data.(*types.Block); ok {
		switch e.Type {
		case events.ETBlockProcessed:
			f.Events = append(f.Events, Event{"processed", block})
		case events.ETBlockConnected:
			f.Events = append(f.Events, Event{"connected", block})
		case events.ETBlockDisconnected:
			f.Events = append(f.Events, Event{"disconnected", block})
		}
	}
	if !f.poolEvents {
		return
	}
	switch e.Type {
	case events.ETBlockProcessed:
		if block, ok := e.Data.(*types.Block); ok {
			f.Pool.CheckAndCleanAllTransactions()
			f.Pool.BroadcastSmallCrossChainTransactions(block.Height)
		}
	case events.ETBlockConnected:
		if block, ok := e.Data.(*types.Block); ok {
			f.Pool.CleanSubmittedTransactions(block)
			f.Chain.UTXOCache.CleanTxCache()
			f.Pool.ResendOutdatedTransactions(block)
		}
	case events.ETBlockDisconnected:
		if block, ok := e.Data.(*types.Block); ok {
			for _, tx := range block.Transactions[1:] {
				if err := f.Pool.MaybeAcceptTransaction(tx); err != nil {
					f.Pool.RemoveTransaction(tx)
				}
			}
		}
	}
}

// KeySeed returns the fixed private key of funded key i.
func KeySeed(i int) []byte {
	k := make([]byte, 32)
	for j := range k {
		k[j] = byte(0x11*(i+1) + j)
	}
	k[0] = 0x01 + byte(i) // keep it well inside the group order
	return k
}

// New creates the node core. Any previous fixture must have been closed.
func New(opt Options) (f *Fixture, err error) {
	curMu.Lock()
	defer curMu.Unlock()
	if cur != nil && !cur.closed {
		return nil, errors.New("fixture: previous fixture still open (one chain per process at a time)")
	}
	f = &Fixture{Dir: opt.Dir, blocks: map[common.Uint256]*types.Block{}, nodes: map[common.Uint256]*blockchain.BlockNode{}}
	if f.Dir == "" {
		if f.Dir, err = os.MkdirTemp("", "elafix"); err != nil {
			return nil, err
		}
		f.ownDir = true
	}
	initGlobals(f.Dir)

	for i := 0; i < NKeys; i++ {
		acc, e := account.NewAccountWithPrivateKey(KeySeed(i))
		if e != nil {
			return nil, e
		}
		f.Keys[i] = &Key{Index: i, Acc: acc, Hash: acc.ProgramHash, Addr: acc.Address}
	}

	// Regnet at the instant proof-of-work limit, foundation = key 0.
	params := config.GetDefaultParams().RegNet().InstantBlock()
	params.ActiveNet = "regnet"
	params.DataDir = f.Dir
	fh := f.Keys[0].Hash
	params.FoundationProgramHash = &fh
	params.GenesisBlock = core.GenesisBlock(fh)
	params.DPoSConfiguration.SponsorsFilePath = filepath.Join(f.Dir, "sponsors")
	if !opt.KeepMaturity {
		params.PowConfiguration.CoinbaseMaturity = 1
		if opt.CoinbaseMaturity != 0 {
			params.PowConfiguration.CoinbaseMaturity = opt.CoinbaseMaturity
		}
	}
	if opt.Tune != nil {
		opt.Tune(params)
	}
	f.Params = params
	config.DefaultParams = *params
	blockchain.FoundationAddress = fh
	f.Genesis = params.GenesisBlock
	f.GenesisOut = ctypes.OutPoint{TxID: f.Genesis.Transactions[0].Hash(), Index: 0}
	f.blocks[f.Genesis.Hash()] = f.Genesis

	// --- main.go:startNode, in its order
	ckp := checkpoint.NewManager(params)
	ckp.SetDataPath(filepath.Join(f.Dir, "checkpoints"))
	f.Ckp = ckp
	ledger := &blockchain.Ledger{}
	store, err := blockchain.NewChainStore(f.Dir, params)
	if err != nil {
		return nil, err
	}
	f.Store, f.FFLDB = store, store.GetFFLDB()
	ledger.Store = store
	f.Pool = mempool.NewTxPool(params, ckp)
	f.poolEvents = !opt.NoPoolEvents
	blockchain.DefaultLedger = ledger
	committee := crstate.NewCommittee(params, ckp)
	ledger.Committee = committee
	f.Committee = committee
	arbiters, err := state.NewArbitrators(params, committee, ledger.GetAmount,
		committee.TryUpdateCRMemberInactivity, committee.TryRevertCRMemberInactivity,
		committee.TryUpdateCRMemberIllegal, committee.TryRevertCRMemberIllegal,
		committee.UpdateCRInactivePenalty, committee.RevertUpdateCRInactivePenalty, ckp)
	if err != nil {
		store.Close()
		return nil, err
	}
	ledger.Arbitrators = arbiters
	f.Arbiters = arbiters
	chain, err := blockchain.New(store, params, arbiters.State, committee, ckp)
	if err != nil {
		store.Close()
		return nil, err
	}
	if err = chain.Init(nil); err != nil {
		store.Close()
		return nil, err
	}
	ledger.Blockchain = chain
	f.Chain = chain
	arbiters.RegisterFunction(chain.GetHeight, chain.GetBestBlockHash, chain.GetBlock, chain.UTXOCache.GetTxReference)
	arbiters.State.RegisterFuncitons(&state.StateFuncsConfig{
		GetHeight:                           store.GetHeight,
		IsCurrent:                           func() bool { return true },
		AppendToTxpool:                      f.Pool.AppendToTxPool,
		CreateDposV2RealWithdrawTransaction: chain.CreateDposV2RealWithdrawTransaction,
		CreateVotesRealWithdrawTransaction:  chain.CreateVotesRealWithdrawTransaction,
	})
	committee.RegisterFuncitons(&crstate.CommitteeFuncsConfig{
		GetTxReference:                   chain.UTXOCache.GetTxReference,
		GetUTXO:                          store.GetFFLDB().GetUTXO,
		GetHeight:                        store.GetHeight,
		CreateCRAppropriationTransaction: chain.CreateCRCAppropriationTransaction,
		CreateCRAssetsRectifyTransaction: chain.CreateCRAssetsRectifyTransaction,
		CreateCRRealWithdrawTransaction:  chain.CreateCRRealWithdrawTransaction,
		IsCurrent:                        func() bool { return true },
		AppendToTxpool:                   f.Pool.AppendToTxPool,
		GetCurrentArbiters:               arbiters.GetCurrentArbitratorKeys,
	})
	if err = chain.InitCheckpoint(nil, nil, nil); err != nil {
		store.Close()
		return nil, err
	}
	if usp := f.unspentIndex(); usp != nil {
		f.hook = &hookDB{DB: usp.DB}
		usp.DB = f.hook
	}
	cur = f
	return f, nil
}

// hookDB wraps the database handle the transaction store (UnspentIndex.FetchTx)
// reads through, so that a harness can run a chain step right after a
// reader's database view returned (a reader interleaved with the chain).
type hookDB struct {
	database.DB
	afterView func()
}

func (h *hookDB) View(fn func(tx database.Tx) error) error {
	err := h.DB.View(fn)
	if f := h.afterView; f != nil {
		h.afterView = nil
		f()
	}
	return err
}

func (f *Fixture) unspentIndex() *indexers.UnspentIndex {
	if c, ok := f.FFLDB.(*blockchain.ChainStoreFFLDB); ok {
		return c.UnspentIndexVerif()
	}
	return nil
}

// DropTxCache empties the in-memory transaction cache in front of the tx
// index (what a node restart or a trim does): the next lookups are cache
// misses.
func (f *Fixture) DropTxCache() {
	if usp := f.unspentIndex(); usp != nil {
		for h := range usp.TxCache.KeysVerif() {
			usp.TxCache.DeleteTxnVerif(h)
		}
	}
}

// AfterNextView arms a one-shot hook that runs right after the next database
// view of the transaction store returned (i.e. in the middle of the next
// cache-missing FetchTx / GetTransaction); nil disarms.
func (f *Fixture) AfterNextView(fn func()) {
	if f.hook != nil {
		f.hook.afterView = fn
	}
}

// Close releases the databases (and removes the directory New created).
func (f *Fixture) Close() {
	curMu.Lock()
	defer curMu.Unlock()
	if f.closed {
		return
	}
	f.closed = true
	f.Store.Close()
	f.Store.CloseLeveldb()
	if cur == f {
		cur = nil
	}
	if f.ownDir {
		os.RemoveAll(f.Dir)
	}
}

// ---------------------------------------------------------------- transactions

// In is an input to spend together with the key that owns the referenced output.
type In struct {
	Op  ctypes.OutPoint
	Key int // index into Keys of the owner of the referenced output
	Seq uint32
}

// Out is an output to create.
type Out struct {
	Key   int            // pay to Keys[Key] ...
	To    *common.Uint168 // ... unless To is set
	Value common.Fixed64
	Lock  uint32 // OutputLock
}

func (f *Fixture) outputs(outs []Out) []*ctypes.Output {
	res := make([]*ctypes.Output, 0, len(outs))
	for _, o := range outs {
		ph := f.Keys[o.Key%NKeys].Hash
		if o.To != nil {
			ph = *o.To
		}
		res = append(res, &ctypes.Output{AssetID: core.ELAAssetID, Value: o.Value, OutputLock: o.Lock,
			ProgramHash: ph, Type: ctypes.OTNone, Payload: &outputpayload.DefaultOutput{}})
	}
	return res
}

func (f *Fixture) nextNonce() []byte {
	f.nonce++
	b := make([]byte, 8)
	binary.BigEndian.PutUint64(b, f.nonce)
	return b
}

// Sign attaches one standard program per distinct owning key.
func (f *Fixture) Sign(tx interfaces.Transaction, keys []int) error {
	seen := map[int]bool{}
	var progs []*program.Program
	for _, k := range keys {
		k %= NKeys
		if seen[k] {
			continue
		}
		seen[k] = true
		sig, err := account.SignBySigner(tx, f.Keys[k].Acc)
		if err != nil {
			return err
		}
		param := append([]byte{byte(len(sig))}, sig...)
		progs = append(progs, &program.Program{Code: f.Keys[k].Acc.RedeemScript, Parameter: param})
	}
	tx.SetPrograms(progs)
	return nil
}

// Transfer builds and signs a TransferAsset transaction. The fee is whatever
// the caller leaves between inputs and outputs (>= MinTransactionFee, 100 sela,
// to be accepted). tag makes otherwise identical transactions distinct.
func (f *Fixture) Transfer(ins []In, outs []Out, tag uint64) (interfaces.Transaction, error) {
	inputs := make([]*ctypes.Input, 0, len(ins))
	keys := make([]int, 0, len(ins))
	for _, in := range ins {
		inputs = append(inputs, &ctypes.Input{Previous: in.Op, Sequence: in.Seq})
		keys = append(keys, in.Key)
	}
	nb := make([]byte, 8)
	binary.BigEndian.PutUint64(nb, tag)
	attr := ctypes.NewAttribute(ctypes.Nonce, nb)
	tx := functions.CreateTransaction(ctypes.TxVersionDefault, ctypes.TransferAsset, 0, &payload.TransferAsset{},
		[]*ctypes.Attribute{&attr}, inputs, f.outputs(outs), 0, []*program.Program{})
	if err := f.Sign(tx, keys); err != nil {
		return nil, err
	}
	return tx, nil
}

// RawTx builds a transaction of any type with the given payload and outputs,
// signed by the owners of its inputs (for store-level histories: withdrawals,
// return-deposit, proposals ...).
func (f *Fixture) RawTx(txType ctypes.TxType, payloadVersion byte, pl interfaces.Payload, ins []In,
	outputs []*ctypes.Output, tag uint64) (interfaces.Transaction, error) {
	inputs := make([]*ctypes.Input, 0, len(ins))
	keys := make([]int, 0, len(ins))
	for _, in := range ins {
		inputs = append(inputs, &ctypes.Input{Previous: in.Op, Sequence: in.Seq})
		keys = append(keys, in.Key)
	}
	nb := make([]byte, 8)
	binary.BigEndian.PutUint64(nb, tag)
	attr := ctypes.NewAttribute(ctypes.Nonce, nb)
	tx := functions.CreateTransaction(ctypes.TxVersion09, txType, payloadVersion, pl,
		[]*ctypes.Attribute{&attr}, inputs, outputs, 0, []*program.Program{})
	if len(keys) > 0 {
		if err := f.Sign(tx, keys); err != nil {
			return nil, err
		}
	}
	return tx, nil
}

// ---------------------------------------------------------------- blocks

// BlockOpt adjusts BuildBlock.
type BlockOpt struct {
	Miner     int    // key receiving the miner share of the reward
	Salt      uint64 // distinguishes sibling blocks with equal content
	Timestamp uint32 // 0 = parent timestamp + 1
	// BadReward adds this amount to the miner output (an invalid block).
	BadReward common.Fixed64
	// NoPow leaves the header unsolved (fails CheckBlockSanity).
	NoPow bool
}

// Block returns a block by hash if the fixture has seen it (built or genesis).
func (f *Fixture) Block(h common.Uint256) *types.Block { return f.blocks[h] }

// refOutput finds the output an outpoint refers to among extra and every
// block the fixture has seen (used to compute fees for the coinbase reward).
func (f *Fixture) refOutput(op ctypes.OutPoint, extra []interfaces.Transaction) *ctypes.Output {
	for _, t := range extra {
		if t.Hash() == op.TxID && int(op.Index) < len(t.Outputs()) {
			return t.Outputs()[op.Index]
		}
	}
	for _, b := range f.blocks {
		for _, t := range b.Transactions {
			if t.Hash() == op.TxID && int(op.Index) < len(t.Outputs()) {
				return t.Outputs()[op.Index]
			}
		}
	}
	return nil
}

// BuildBlock assembles a block on parent with a correct coinbase (pre-DPoS
// 30/35/35 split as pow.Service.AssignCoinbaseTxRewards does below
// PublicDPOSHeight), merkle root, timestamp, difficulty bits and a solved
// aux proof of work.  Nothing is submitted.
func (f *Fixture) BuildBlock(parent *types.Block, txs []interfaces.Transaction, o BlockOpt) (*types.Block, error) {
	height := parent.Height + 1
	var fee common.Fixed64
	for _, t := range txs {
		var in, out common.Fixed64
		for _, i := range t.Inputs() {
			if ro := f.refOutput(i.Previous, txs); ro != nil {
				in += ro.Value
			}
		}
		for _, op := range t.Outputs() {
			out += op.Value
		}
		fee += in - out
	}
	total := fee + f.Params.GetBlockReward(height)
	rewardCR := common.Fixed64(float64(total) * 0.3)
	rewardMiner := common.Fixed64(float64(total) * 0.35)
	rewardDpos := total - rewardCR - rewardMiner
	nonce := make([]byte, 16)
	binary.BigEndian.PutUint64(nonce, uint64(height))
	binary.BigEndian.PutUint64(nonce[8:], o.Salt)
	attr := ctypes.NewAttribute(ctypes.Nonce, nonce)
	mk := func(ph common.Uint168, v common.Fixed64) *ctypes.Output {
		return &ctypes.Output{AssetID: core.ELAAssetID, Value: v, ProgramHash: ph, Type: ctypes.OTNone, Payload: &outputpayload.DefaultOutput{}}
	}
	cb := functions.CreateTransaction(ctypes.TxVersionDefault, ctypes.CoinBase, payload.CoinBaseVersion,
		&payload.CoinBase{Content: []byte("verif")}, []*ctypes.Attribute{&attr},
		[]*ctypes.Input{{Previous: ctypes.OutPoint{TxID: common.EmptyHash, Index: 0xffff}, Sequence: 0xffffffff}},
		[]*ctypes.Output{mk(*f.Params.FoundationProgramHash, rewardCR), mk(f.Keys[o.Miner%NKeys].Hash, rewardMiner+o.BadReward),
			mk(blockchain.FoundationAddress, rewardDpos)},
		height, []*program.Program{})
	all := append([]interfaces.Transaction{cb}, txs...)
	ids := make([]common.Uint256, 0, len(all))
	for _, t := range all {
		ids = append(ids, t.Hash())
	}
	root, err := crypto.ComputeRoot(ids)
	if err != nil {
		return nil, err
	}
	ts := o.Timestamp
	if ts == 0 {
		ts = parent.Timestamp + 1
	}
	b := &types.Block{Header: ctypes.Header{Version: 0, Previous: parent.Hash(), MerkleRoot: root, Timestamp: ts,
		Bits: f.Params.PowConfiguration.PowLimitBits, Height: height, Nonce: 0}, Transactions: all}
	ap := auxpow.GenerateAuxPow(b.Hash())
	ap.ParBlockHeader.Timestamp = ts
	if !o.NoPow {
		target := blockchain.CompactToBig(b.Bits)
		for n := uint32(0); ; n++ {
			ap.ParBlockHeader.Nonce = n
			h := ap.ParBlockHeader.Hash()
			if blockchain.HashToBig(&h).Cmp(target) <= 0 {
				break
			}
		}
	} else {
		target := blockchain.CompactToBig(b.Bits)
		for n := uint32(0); ; n++ {
			ap.ParBlockHeader.Nonce = n
			h := ap.ParBlockHeader.Hash()
			if blockchain.HashToBig(&h).Cmp(target) > 0 {
				break
			}
		}
	}
	b.Header.AuxPow = *ap
	f.blocks[b.Hash()] = b
	return b, nil
}

// Resolve re-mines b after its header or transactions were edited by the
// caller (merkle root is NOT recomputed: set it yourself) and registers it.
func (f *Fixture) Resolve(b *types.Block) *types.Block {
	ap := auxpow.GenerateAuxPow(b.Hash())
	ap.ParBlockHeader.Timestamp = b.Timestamp
	target := blockchain.CompactToBig(b.Bits)
	for n := uint32(0); ; n++ {
		ap.ParBlockHeader.Nonce = n
		h := ap.ParBlockHeader.Hash()
		if blockchain.HashToBig(&h).Cmp(target) <= 0 {
			break
		}
	}
	b.Header.AuxPow = *ap
	f.blocks[b.Hash()] = b
	return b
}

// ProcessBlock submits through BlockChain.ProcessBlock.
func (f *Fixture) ProcessBlock(b *types.Block) (inMain, orphan bool, err error) {
	f.blocks[b.Hash()] = b
	return f.Chain.ProcessBlock(b, nil)
}

// SubmitTx submits through TxPool.AppendToTxPool.
func (f *Fixture) SubmitTx(tx interfaces.Transaction) error {
	if e := f.Pool.AppendToTxPool(tx); e != nil {
		return e
	}
	return nil
}

// PoolTxs returns the hashes of the transactions in the pool, sorted.
func (f *Fixture) PoolTxs() []interfaces.Transaction {
	txs := f.Pool.GetTxsInPool()
	sort.Slice(txs, func(i, j int) bool { h1, h2 := txs[i].Hash(), txs[j].Hash(); return bytes.Compare(h1[:], h2[:]) < 0 })
	return txs
}

// Tip returns the best block hash and height.
func (f *Fixture) Tip() (common.Uint256, uint32) {
	n := f.Chain.GetBestChain()
	return *n.Hash, n.Height
}

// MainChain returns the hashes of the active chain from genesis to tip.
func (f *Fixture) MainChain() []common.Uint256 {
	_, h := f.Tip()
	res := make([]common.Uint256, 0, h+1)
	for i := uint32(0); i <= h; i++ {
		x, err := f.Chain.GetBlockHash(i)
		if err != nil {
			break
		}
		res = append(res, x)
	}
	return res
}

// ---------------------------------------------------------------- store-level steps (C13)

// StoreSave connects b directly with ChainStore.SaveBlock (processors +
// every indexer), bypassing validation.  b's parent must be the store tip.
// After the first StoreSave/StoreRollback the BlockChain object is stale: use
// either the chain-level or the store-level API in one history.
func (f *Fixture) StoreSave(b *types.Block) error {
	h := b.Hash()
	f.blocks[h] = b
	node := blockchain.NewBlockNode(&b.Header, &h)
	if p, ok := f.nodes[b.Header.Previous]; ok {
		node.Parent = p
	} else if b.Header.Previous == f.Genesis.Hash() {
		gh := f.Genesis.Hash()
		g := blockchain.NewBlockNode(&f.Genesis.Header, &gh)
		f.nodes[gh] = g
		node.Parent = g
	} else {
		return fmt.Errorf("fixture: unknown parent %s", b.Header.Previous)
	}
	node.WorkSum.Add(node.Parent.WorkSum, node.WorkSum)
	ps, err := blockchain.GetSaveProcessorsFromBlock(b)
	if err != nil {
		return err
	}
	if err := f.FFLDB.SaveBlock(b, node, nil, time.Unix(int64(b.Timestamp), 0), ps); err != nil {
		return err
	}
	f.nodes[h] = node
	return nil
}

// StoreRollback disconnects b (the store tip) with ChainStoreFFLDB.RollbackBlock.
func (f *Fixture) StoreRollback(b *types.Block) error {
	node, ok := f.nodes[b.Hash()]
	if !ok {
		return errors.New("fixture: block was not saved through StoreSave")
	}
	ps, err := blockchain.GetRollbackProcessorsFromBlock(b)
	if err != nil {
		return err
	}
	return f.FFLDB.RollbackBlock(b, node, nil, time.Unix(int64(node.Parent.Timestamp), 0), ps)
}

// ---------------------------------------------------------------- queries

// Unspent = ChainStoreFFLDB.GetUnspent, sorted.
func (f *Fixture) Unspent(txid common.Uint256) ([]uint16, error) {
	u, err := f.FFLDB.GetUnspent(txid)
	if err != nil {
		return nil, err
	}
	res := append([]uint16(nil), u...)
	sort.Slice(res, func(i, j int) bool { return res[i] < res[j] })
	return res, nil
}

// UTXO is one entry of the per-address list.
type UTXO struct {
	TxID  common.Uint256
	Index uint16
	Value common.Fixed64
}

// UTXOs = ChainStoreFFLDB.GetUTXO, sorted by (txid, index).
func (f *Fixture) UTXOs(ph common.Uint168) ([]UTXO, error) {
	us, err := f.FFLDB.GetUTXO(&ph)
	if err != nil {
		return nil, err
	}
	res := make([]UTXO, 0, len(us))
	for _, u := range us {
		res = append(res, UTXO{u.TxID, u.Index, u.Value})
	}
	sort.Slice(res, func(i, j int) bool {
		if c := bytes.Compare(res[i].TxID[:], res[j].TxID[:]); c != 0 {
			return c < 0
		}
		return res[i].Index < res[j].Index
	})
	return res, nil
}

// Balance = Ledger.GetAmount.
func (f *Fixture) Balance(ph common.Uint168) (common.Fixed64, error) {
	return blockchain.DefaultLedger.GetAmount(ph)
}

// Tx = ChainStoreFFLDB.GetTransaction.
func (f *Fixture) Tx(txid common.Uint256) (interfaces.Transaction, uint32, error) {
	return f.FFLDB.GetTransaction(txid)
}

// Tx3Exists = ChainStoreFFLDB.IsTx3Exist (side-chain withdrawal hash recorded).
func (f *Fixture) Tx3Exists(h common.Uint256) bool { return f.FFLDB.IsTx3Exist(&h) }

// ReturnDepositExists = ChainStoreFFLDB.IsSideChainReturnDepositExist.
func (f *Fixture) ReturnDepositExists(h common.Uint256) bool {
	return f.FFLDB.IsSideChainReturnDepositExist(&h)
}

// Draft = ChainStoreFFLDB.GetProposalDraftDataByDraftHash.
func (f *Fixture) Draft(h common.Uint256) ([]byte, error) {
	return f.FFLDB.GetProposalDraftDataByDraftHash(&h)
}

// IsDoubleSpend = ChainStore.IsDoubleSpend.
func (f *Fixture) IsDoubleSpend(tx interfaces.Transaction) bool { return f.Store.IsDoubleSpend(tx) }
