// Package elaenv sets the process-wide globals of Elastos.ELA that library
// code expects (logger), so harness binaries can call into /repo packages.
package elaenv

import (
	"path/filepath"

	"github.com/elastos/Elastos.ELA/common/log"
)

// InitLog installs a silent logger writing under dir.
func InitLog(dir string) {
	log.NewDefault(filepath.Join(dir, "elalog"), 255, 0, 0)
}
