// Package ctxcheck reads core/transaction/*.go of the source tree under test
// and checks how DefaultChecker.SanityCheck / ContextCheck wire the helpers
// that properties C01, C31 and C32 are about: the helper is called as a
// top-level statement `if err := helper(args...); err != nil { ... return <nil,> <error> }`
// with the expected arguments, in the expected position, and no transaction
// type other than the coinbase overrides the method.
package ctxcheck

import (
	"bytes"
	"fmt"
	"go/ast"
	"go/parser"
	"go/printer"
	"go/token"
	"os"
	"path/filepath"
	"strings"
)

type Call struct {
	Index  int      // position among the top-level statements of the method
	Args   []string // printed arguments
	Guards bool     // the statement is `if err := call; err != nil { ...; return ..., non-nil }`
}

type Method struct {
	Receivers map[string]bool   // receiver types that define the method in the package
	Calls     map[string][]Call // helper name (last selector element) -> top-level guarded calls in DefaultChecker's method
	Order     map[string]int    // first top-level statement index mentioning the name anywhere (calls in assignments too)
}

func render(fset *token.FileSet, n ast.Node) string {
	var b bytes.Buffer
	printer.Fprint(&b, fset, n)
	return strings.Join(strings.Fields(b.String()), "")
}

func calleeName(e ast.Expr) string {
	switch f := e.(type) {
	case *ast.Ident:
		return f.Name
	case *ast.SelectorExpr:
		return f.Sel.Name
	}
	return ""
}

func returnsError(fset *token.FileSet, body *ast.BlockStmt) bool {
	for _, s := range body.List {
		if r, ok := s.(*ast.ReturnStmt); ok && len(r.Results) > 0 {
			last := render(fset, r.Results[len(r.Results)-1])
			return last != "nil"
		}
	}
	return false
}

// Load analyses method `name` ("ContextCheck" or "SanityCheck") of package core/transaction under repo.
func Load(repo, name string) (*Method, error) {
	dir := filepath.Join(repo, "core", "transaction")
	ents, err := os.ReadDir(dir)
	if err != nil {
		return nil, err
	}
	fset := token.NewFileSet()
	m := &Method{Receivers: map[string]bool{}, Calls: map[string][]Call{}, Order: map[string]int{}}
	for _, e := range ents {
		fn := e.Name()
		if !strings.HasSuffix(fn, ".go") || strings.HasSuffix(fn, "_test.go") {
			continue
		}
		f, err := parser.ParseFile(fset, filepath.Join(dir, fn), nil, 0)
		if err != nil {
			return nil, err
		}
		for _, d := range f.Decls {
			fd, ok := d.(*ast.FuncDecl)
			if !ok || fd.Recv == nil || fd.Name.Name != name || fd.Body == nil {
				continue
			}
			recv := render(fset, fd.Recv.List[0].Type)
			m.Receivers[strings.TrimPrefix(recv, "*")] = true
			if strings.TrimPrefix(recv, "*") != "DefaultChecker" {
				continue
			}
			for i, s := range fd.Body.List {
				ast.Inspect(s, func(n ast.Node) bool {
					if c, ok := n.(*ast.CallExpr); ok {
						if cn := calleeName(c.Fun); cn != "" {
							if _, seen := m.Order[cn]; !seen {
								m.Order[cn] = i
							}
						}
					}
					return true
				})
				is, ok := s.(*ast.IfStmt)
				if !ok || is.Init == nil {
					continue
				}
				as, ok := is.Init.(*ast.AssignStmt)
				if !ok || len(as.Rhs) != 1 {
					continue
				}
				c, ok := as.Rhs[0].(*ast.CallExpr)
				if !ok {
					continue
				}
				call := Call{Index: i}
				for _, a := range c.Args {
					call.Args = append(call.Args, render(fset, a))
				}
				cond := render(fset, is.Cond)
				call.Guards = len(as.Lhs) == 1 && cond == render(fset, as.Lhs[0])+"!=nil" && returnsError(fset, is.Body)
				m.Calls[calleeName(c.Fun)] = append(m.Calls[calleeName(c.Fun)], call)
			}
		}
	}
	if !m.Receivers["DefaultChecker"] {
		return nil, fmt.Errorf("DefaultChecker.%s not found", name)
	}
	return m, nil
}

// Expect returns a problem description unless helper is called exactly once as a
// guarding top-level statement with the given arguments, after every name in
// `after` and before every name in `before` (by first top-level occurrence).
func (m *Method) Expect(helper string, args []string, after, before []string) string {
	cs := m.Calls[helper]
	if len(cs) != 1 {
		return fmt.Sprintf("%s: expected exactly one guarded top-level call, found %d", helper, len(cs))
	}
	c := cs[0]
	if !c.Guards {
		return fmt.Sprintf("%s: its error does not end validation", helper)
	}
	if args != nil && strings.Join(c.Args, ",") != strings.Join(args, ",") {
		return fmt.Sprintf("%s: arguments %v, expected %v", helper, c.Args, args)
	}
	for _, a := range after {
		if i, ok := m.Order[a]; !ok || i >= c.Index {
			return fmt.Sprintf("%s: not called after %s", helper, a)
		}
	}
	for _, b := range before {
		if i, ok := m.Order[b]; !ok || i <= c.Index {
			return fmt.Sprintf("%s: not called before %s", helper, b)
		}
	}
	return ""
}

// OnlyReceivers returns a problem unless the method is defined exactly by the given receiver types.
func (m *Method) OnlyReceivers(allowed ...string) string {
	al := map[string]bool{}
	for _, a := range allowed {
		al[a] = true
	}
	for r := range m.Receivers {
		if !al[r] {
			return fmt.Sprintf("unexpected override by %s", r)
		}
	}
	return ""
}

// EarlyEnd lists, per receiver type of package core/transaction, how its
// SpecialContextCheck can end validation on success: the printed second result
// of every `return nil, X` with X != false ("true", or an expression).
func EarlyEnd(repo string) (map[string][]string, error) {
	dir := filepath.Join(repo, "core", "transaction")
	ents, err := os.ReadDir(dir)
	if err != nil {
		return nil, err
	}
	fset := token.NewFileSet()
	res := map[string][]string{}
	for _, e := range ents {
		fn := e.Name()
		if !strings.HasSuffix(fn, ".go") || strings.HasSuffix(fn, "_test.go") {
			continue
		}
		f, err := parser.ParseFile(fset, filepath.Join(dir, fn), nil, 0)
		if err != nil {
			return nil, err
		}
		for _, d := range f.Decls {
			fd, ok := d.(*ast.FuncDecl)
			if !ok || fd.Recv == nil || fd.Name.Name != "SpecialContextCheck" || fd.Body == nil {
				continue
			}
			recv := strings.TrimPrefix(render(fset, fd.Recv.List[0].Type), "*")
			ast.Inspect(fd.Body, func(n ast.Node) bool {
				if _, isLit := n.(*ast.FuncLit); isLit {
					return false
				}
				r, ok := n.(*ast.ReturnStmt)
				if !ok || len(r.Results) != 2 {
					return true
				}
				if render(fset, r.Results[0]) == "nil" {
					if x := render(fset, r.Results[1]); x != "false" {
						res[recv] = append(res[recv], x)
					}
				}
				return true
			})
		}
	}
	return res, nil
}
