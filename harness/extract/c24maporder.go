// C24, map iteration order flowing into an ordered result.
//
// For every `range` over a map in a function of the consensus packages the
// loop body is searched for `append`: the slice then holds its elements in
// Go's per-iteration random map order. Each such site is listed with a
// verdict:
//
//	sorted    a sort (sort.Slice / SliceStable / Sort / Stable / Strings / Ints /
//	          Float64s, slices.Sort*) on that slice dominates every use of the
//	          slice after the loop (other than len/cap)
//	unused    the slice has no use after the loop other than len/cap
//	unsorted  otherwise: the map order reaches whatever consumes the slice
//
// Unsorted sites must be on the allow-list of c24MapOrderAllowed (with the reason
// why the consumer is order-insensitive), else C24_map_order_sites_sorted fails.
package main

import (
	"go/token"
	"go/types"
	"sort"
	"strings"

	"golang.org/x/tools/go/ssa"
)

type mapOrderSite struct {
	Func    string `json:"func"`
	Node    int    `json:"node"`
	At      string `json:"at"` // position of the append
	RangeAt string `json:"range_at"`
	Verdict string `json:"verdict"`       // sorted | unused | unsorted | allowed
	Use     string `json:"use,omitempty"` // first use not dominated by a sort
	Why     string `json:"why,omitempty"`
}

func isSortCall(c *ssa.CallCommon) bool {
	sf := c.StaticCallee()
	if sf == nil {
		return false
	}
	if isModulePkg(PkgOf(sf)) && strings.HasPrefix(sf.Name(), "Sort") {
		return true // in-place sort helpers of the module (common.SortProgramHashByCodeHash ...)
	}
	switch PkgOf(sf) {
	case "sort":
		switch sf.Name() {
		case "Slice", "SliceStable", "Sort", "Stable", "Strings", "Ints", "Float64s":
			return true
		}
	case "slices":
		return strings.HasPrefix(sf.Name(), "Sort")
	}
	return false
}

// loopBlocks: the blocks of the natural loop headed by h (h reaches b and b reaches h).
func loopBlocks(h *ssa.BasicBlock) map[*ssa.BasicBlock]bool {
	fwd := map[*ssa.BasicBlock]bool{}
	var f func(b *ssa.BasicBlock)
	f = func(b *ssa.BasicBlock) {
		if fwd[b] {
			return
		}
		fwd[b] = true
		for _, s := range b.Succs {
			f(s)
		}
	}
	f(h)
	bwd := map[*ssa.BasicBlock]bool{}
	var g func(b *ssa.BasicBlock)
	g = func(b *ssa.BasicBlock) {
		if bwd[b] {
			return
		}
		bwd[b] = true
		for _, p := range b.Preds {
			g(p)
		}
	}
	g(h)
	res := map[*ssa.BasicBlock]bool{}
	for b := range fwd {
		if bwd[b] {
			res[b] = true
		}
	}
	// a header that is not on a cycle is not a loop
	onCycle := false
	for _, p := range h.Preds {
		if fwd[p] {
			onCycle = true
		}
	}
	if !onCycle {
		return map[*ssa.BasicBlock]bool{}
	}
	return res
}

func instrIndex(ins ssa.Instruction) int {
	for i, x := range ins.Block().Instrs {
		if x == ins {
			return i
		}
	}
	return -1
}

func dominatesInstr(a, b ssa.Instruction) bool {
	if a.Block() == b.Block() {
		return instrIndex(a) < instrIndex(b)
	}
	return a.Block().Dominates(b.Block())
}

// sliceAliases: values outside the loop that denote the slice rooted at root
// (a header phi or an alloc): the root, loads of the alloc, phis / slices /
// conversions of those.
type sliceUse struct {
	ins  ssa.Instruction
	sort bool
	val  ssa.Value // the alias of the collection that the instruction uses
}

func collectUses(fn *ssa.Function, root ssa.Value, loop map[*ssa.BasicBlock]bool) []sliceUse {
	var uses []sliceUse
	seen := map[ssa.Value]bool{}
	var walk func(v ssa.Value)
	walk = func(v ssa.Value) {
		if seen[v] {
			return
		}
		seen[v] = true
		refs := v.Referrers()
		if refs == nil {
			return
		}
		for _, r := range *refs {
			if r.Block() == nil || r.Parent() != fn {
				continue
			}
			inLoop := loop[r.Block()]
			switch x := r.(type) {
			case *ssa.DebugRef:
				continue
			case *ssa.UnOp: // load of the alloc
				if x.Op == token.MUL {
					walk(x)
					continue
				}
			case *ssa.Store:
				if x.Addr == v { // a store INTO the alloc (the append result or an initialiser)
					continue
				}
				if al, ok := x.Addr.(*ssa.Alloc); ok && x.Val == v {
					walk(al) // kept in a local variable (captured by the sort closure, typically)
					continue
				}
			case *ssa.Phi, *ssa.ChangeType, *ssa.Convert, *ssa.MakeInterface, *ssa.Slice:
				if !inLoop {
					walk(r.(ssa.Value))
				} else if _, isPhi := r.(*ssa.Phi); isPhi {
					walk(r.(ssa.Value))
				}
				continue
			case *ssa.Call:
				if b, ok := x.Call.Value.(*ssa.Builtin); ok {
					switch b.Name() {
					case "len", "cap":
						continue
					case "append":
						if len(x.Call.Args) > 0 && x.Call.Args[0] == v {
							walk(x) // the grown slice is the same collection
							continue
						}
					}
				}
				if isSortCall(&x.Call) && !inLoop {
					uses = append(uses, sliceUse{r, true, v})
					continue
				}
			case *ssa.MakeClosure:
				// the comparison closure handed to sort.Slice captures the variable
				onlySort := true
				if crefs := x.Referrers(); crefs != nil {
					for _, cr := range *crefs {
						if c, ok := cr.(*ssa.Call); !ok || !isSortCall(&c.Call) {
							onlySort = false
						}
					}
				}
				if onlySort {
					continue
				}
			}
			if inLoop {
				continue // uses inside the loop see a prefix in map order too, but the collection leaves through the uses after it
			}
			uses = append(uses, sliceUse{r, false, v})
		}
	}
	walk(root)
	return uses
}

// ---- inter-procedural propagation
//
// A slice filled inside a loop over a map-ordered collection is map-ordered.
// Map-ordered collections are maps, and map-ordered slices. A function that
// returns a map-ordered slice makes the call result map-ordered in its callers
// (consensus packages only). Uses of a map-ordered slice that are not dominated
// by a sort are classified:
//
//	return        -> the function is recorded as returning map order (its callers are analysed)
//	loop over it  -> the loop is analysed like a loop over a map (appends inside)
//	append(x, s...)-> x becomes map-ordered
//	anything else (element selection s[0], s[1:], store into a field, argument of a call)
//	              -> the site is `unsorted`: the map order reaches a consumer
type moAnalysis struct {
	p       *Program
	g       *Graph
	inScope map[*ssa.Function]int
	callers map[*ssa.Function][]*ssa.Call
	seen    map[ssa.Value]bool
	mor     map[*ssa.Function]map[int]bool
	sites   []mapOrderSite
	queue   []func()
}

// indexPhi: the loop counter an index expression is built from (i, or i+1 as
// in the SSA form of `for _, x := range slice`).
func indexPhi(v ssa.Value) *ssa.Phi {
	switch x := v.(type) {
	case *ssa.Phi:
		return x
	case *ssa.BinOp:
		if x.Op == token.ADD || x.Op == token.SUB {
			if p, ok := x.X.(*ssa.Phi); ok {
				return p
			}
			if p, ok := x.Y.(*ssa.Phi); ok {
				return p
			}
		}
	}
	return nil
}

func appendRoot(call *ssa.Call) ssa.Value {
	var root ssa.Value = call
	if crefs := call.Referrers(); crefs != nil {
		for _, cr := range *crefs {
			switch x := cr.(type) {
			case *ssa.Phi:
				root = x
			case *ssa.Store:
				if x.Val == ssa.Value(call) {
					root = x.Addr
				}
			}
		}
	}
	return root
}

// appendsIn lists the append calls inside a loop (the collections that are
// filled in the loop's iteration order).
func appendsIn(loop map[*ssa.BasicBlock]bool) []*ssa.Call {
	var res []*ssa.Call
	var blocks []*ssa.BasicBlock
	for b := range loop {
		blocks = append(blocks, b)
	}
	sort.Slice(blocks, func(i, j int) bool { return blocks[i].Index < blocks[j].Index })
	for _, lb := range blocks {
		for _, li := range lb.Instrs {
			if call, ok := li.(*ssa.Call); ok {
				if b, ok := call.Call.Value.(*ssa.Builtin); ok && b.Name() == "append" {
					res = append(res, call)
				}
			}
		}
	}
	return res
}

func (m *moAnalysis) loopSources(fn *ssa.Function, loop map[*ssa.BasicBlock]bool, origin string) {
	for _, call := range appendsIn(loop) {
		m.source(fn, appendRoot(call), loop, m.p.PosOf(call.Pos()), origin)
	}
}

// source analyses one map-ordered collection `root` of fn.
func (m *moAnalysis) source(fn *ssa.Function, root ssa.Value, loop map[*ssa.BasicBlock]bool, at, origin string) {
	if m.seen[root] {
		return
	}
	m.seen[root] = true
	id := m.inScope[fn]
	site := mapOrderSite{Func: m.g.Names[id-1], Node: id, At: at, RangeAt: origin}
	switch root.(type) {
	case *ssa.Alloc, *ssa.Phi, *ssa.Call, *ssa.Extract, *ssa.Parameter:
	default:
		site.Verdict, site.Use = "unsorted", "stored through "+root.String()
		m.sites = append(m.sites, site)
		return
	}
	uses := collectUses(fn, root, loop)
	var sorts []ssa.Instruction
	for _, u := range uses {
		if u.sort {
			sorts = append(sorts, u.ins)
		}
	}
	site.Verdict = "unused"
	if len(sorts) > 0 {
		site.Verdict = "sorted"
	}
	for _, u := range uses {
		if u.sort {
			continue
		}
		dom := false
		for _, s := range sorts {
			if dominatesInstr(s, u.ins) {
				dom = true
			}
		}
		if dom {
			continue
		}
		switch x := u.ins.(type) {
		case *ssa.Return:
			if site.Verdict != "unsorted" {
				site.Verdict = "returned"
			}
			for ri, rv := range x.Results {
				if u.val != nil && rv == u.val {
					m.markMOR(fn, ri, at)
				}
			}
			continue
		case *ssa.IndexAddr:
			if ph := indexPhi(x.Index); ph != nil {
				if lp := loopBlocks(ph.Block()); len(lp) > 0 {
					if site.Verdict != "unsorted" && site.Verdict != "returned" {
						site.Verdict = "iterated"
					}
					ffn, at2 := fn, at
					m.queue = append(m.queue, func() { m.loopSources(ffn, lp, at2) })
					continue
				}
			}
		case *ssa.Index:
			if ph := indexPhi(x.Index); ph != nil {
				if lp := loopBlocks(ph.Block()); len(lp) > 0 {
					if site.Verdict != "unsorted" && site.Verdict != "returned" {
						site.Verdict = "iterated"
					}
					ffn, at2 := fn, at
					m.queue = append(m.queue, func() { m.loopSources(ffn, lp, at2) })
					continue
				}
			}
		case *ssa.Call:
			if b, ok := x.Call.Value.(*ssa.Builtin); ok && b.Name() == "append" && len(x.Call.Args) > 1 && x.Call.Args[1] == u.val {
				ffn, at2, xx := fn, at, x
				m.queue = append(m.queue, func() { m.source(ffn, appendRoot(xx), map[*ssa.BasicBlock]bool{}, m.p.PosOf(xx.Pos()), at2) })
				continue
			}
			if sf := x.Call.StaticCallee(); sf != nil && len(sf.Blocks) > 0 {
				if _, ok := m.inScope[sf]; ok {
					args := x.Call.Args
					handled := false
					for ai, a := range args {
						if a == u.val && ai < len(sf.Params) {
							par, at2 := sf.Params[ai], at
							m.queue = append(m.queue, func() {
								m.source(sf, par, map[*ssa.BasicBlock]bool{}, m.p.PosOf(par.Pos()), "argument from "+site.Func+" ("+at2+")")
							})
							handled = true
						}
					}
					if handled {
						if site.Verdict != "unsorted" && site.Verdict != "returned" {
							site.Verdict = "passed"
						}
						continue
					}
				}
			}
		}
		if site.Verdict != "unsorted" {
			site.Verdict, site.Use = "unsorted", m.p.PosOf(u.ins.Pos())+" "+u.ins.String()
		}
	}
	m.sites = append(m.sites, site)
}

func (m *moAnalysis) markMOR(fn *ssa.Function, idx int, origin string) {
	if m.mor[fn] == nil {
		m.mor[fn] = map[int]bool{}
	}
	if m.mor[fn][idx] {
		return
	}
	m.mor[fn][idx] = true
	nres := fn.Signature.Results().Len()
	for _, c := range m.callers[fn] {
		caller := c.Parent()
		if _, ok := m.inScope[caller]; !ok {
			continue
		}
		cc := c
		m.queue = append(m.queue, func() {
			var root ssa.Value = cc
			if nres > 1 {
				root = nil
				if refs := cc.Referrers(); refs != nil {
					for _, r := range *refs {
						if ex, ok := r.(*ssa.Extract); ok && ex.Index == idx {
							root = ex
						}
					}
				}
				if root == nil {
					return
				}
			}
			m.source(caller, root, map[*ssa.BasicBlock]bool{}, m.p.PosOf(cc.Pos()), "result of "+Rel(fn.String())+" ("+origin+")")
		})
	}
}

func mapOrderSites(p *Program, g *Graph, ids []int, allowed map[string]string) []mapOrderSite {
	m := &moAnalysis{p: p, g: g, inScope: map[*ssa.Function]int{}, callers: map[*ssa.Function][]*ssa.Call{},
		seen: map[ssa.Value]bool{}, mor: map[*ssa.Function]map[int]bool{}}
	sort.Ints(ids)
	for _, id := range ids {
		if fn := g.Fn[id]; fn != nil {
			m.inScope[fn] = id
		}
	}
	for fn := range p.Funcs {
		for _, blk := range fn.Blocks {
			for _, ins := range blk.Instrs {
				if c, ok := ins.(*ssa.Call); ok {
					if sf := c.Call.StaticCallee(); sf != nil {
						m.callers[sf] = append(m.callers[sf], c)
					}
				}
			}
		}
	}
	for sf := range m.callers {
		cs := m.callers[sf]
		sort.Slice(cs, func(i, j int) bool { return cs[i].Pos() < cs[j].Pos() })
	}
	for _, id := range ids {
		fn := g.Fn[id]
		if fn == nil || len(fn.Blocks) == 0 {
			continue
		}
		for _, blk := range fn.Blocks {
			for _, ins := range blk.Instrs {
				rg, ok := ins.(*ssa.Range)
				if !ok {
					continue
				}
				if _, isMap := rg.X.Type().Underlying().(*types.Map); !isMap {
					continue
				}
				refs := rg.Referrers()
				if refs == nil {
					continue
				}
				for _, nr := range *refs {
					if nx, ok := nr.(*ssa.Next); ok {
						m.loopSources(fn, loopBlocks(nx.Block()), "range over a map at "+p.PosOf(rg.Pos()))
					}
				}
			}
		}
	}
	for len(m.queue) > 0 {
		f := m.queue[0]
		m.queue = m.queue[1:]
		f()
	}
	res := m.sites
	for i := range res {
		if res[i].Verdict == "unsorted" {
			if why, ok := allowed[res[i].Func]; ok {
				res[i].Verdict, res[i].Why = "allowed", why
			}
		}
	}
	sort.SliceStable(res, func(i, j int) bool {
		if res[i].Func != res[j].Func {
			return res[i].Func < res[j].Func
		}
		return res[i].At < res[j].At
	})
	return res
}
