// C38, second family of weak sources (beyond math/rand):
//
//	clock      a key-material function reads the clock / process id
//	           (time.Now, time.Since, time.Until, os.Getpid, os.Getppid), directly or
//	           through helpers of any package other than the logging packages;
//	bareread   crypto/rand.Reader.Read called directly (without io.ReadFull /
//	           io.ReadAtLeast / rand.Read): a short read leaves key bytes unfilled;
//	randerr    the error of a call that draws from crypto/rand (rand.Read,
//	           rand.Int, rand.Prime, io.ReadFull(rand.Reader, ..), or any
//	           non-std function that reaches crypto/rand and returns an error)
//	           is ignored, or checked but the error branch continues into the
//	           normal path (a fallback) instead of leaving the function.
//
// clock and bareread become edges to synthetic bad nodes of the graph (checked
// in Coq through the reachability checker); randerr sites are emitted as a
// table with their classification.
package main

import (
	"go/token"
	"go/types"
	"sort"
	"strings"

	"golang.org/x/tools/go/ssa"
)

const bareReadNode = "crypto/rand.Reader.Read without io.ReadFull (short reads leave key bytes unfilled)"

// packages that are barriers for the clock rule (time stamps of log lines)
var c38ClockBarriers = []string{"common/log", "utils/elalog", "dpos/log", "utils/signal"}

// functions that draw from crypto/rand for something that is not key material:
// their own rand-error sites are classified `allowed`, and their callers are
// not treated as drawing key material through them.
var c38PublicRandomness = map[string]string{
	"crypto.curveSqrt": "random prime parameter of the Lucas-sequence square root used to decompress public points: a public computation, any value works, nothing secret is derived from it",
}

func isClockFunc(fn *ssa.Function) bool {
	if fn.Signature.Recv() != nil || fn.Parent() != nil {
		return false
	}
	switch PkgOf(fn) {
	case "time":
		return fn.Name() == "Now" || fn.Name() == "Since" || fn.Name() == "Until"
	case "os":
		return fn.Name() == "Getpid" || fn.Name() == "Getppid"
	}
	return false
}

// derivesFromRandReader: v is (a copy of) the variable crypto/rand.Reader.
func derivesFromRandReader(v ssa.Value, depth int) bool {
	if v == nil || depth > 8 {
		return false
	}
	switch x := v.(type) {
	case *ssa.Global:
		return x.Pkg != nil && x.Pkg.Pkg.Path() == "crypto/rand" && x.Name() == "Reader"
	case *ssa.UnOp:
		if x.Op == token.MUL {
			if al, ok := x.X.(*ssa.Alloc); ok {
				if refs := al.Referrers(); refs != nil {
					for _, r := range *refs {
						if st, ok := r.(*ssa.Store); ok && st.Addr == al && derivesFromRandReader(st.Val, depth+1) {
							return true
						}
					}
				}
				return false
			}
		}
		return derivesFromRandReader(x.X, depth+1)
	case *ssa.Phi:
		for _, e := range x.Edges {
			if derivesFromRandReader(e, depth+1) {
				return true
			}
		}
	case *ssa.ChangeInterface:
		return derivesFromRandReader(x.X, depth+1)
	case *ssa.MakeInterface:
		return derivesFromRandReader(x.X, depth+1)
	case *ssa.TypeAssert:
		return derivesFromRandReader(x.X, depth+1)
	}
	return false
}

type randErrSite struct {
	Func   string `json:"func"`
	Node   int    `json:"node"`
	Callee string `json:"callee"`
	At     string `json:"at"`
	Kind   string `json:"kind"` // propagated | checked-fails | checked-continues | ignored | allowed
	Why    string `json:"why,omitempty"`
}

func isErrorType(t types.Type) bool {
	return types.Identical(t, types.Universe.Lookup("error").Type())
}

// blockReaches: is `to` reachable from `from` in the CFG of their function?
func blockReaches(from, to *ssa.BasicBlock) bool {
	seen := map[*ssa.BasicBlock]bool{}
	var walk func(b *ssa.BasicBlock) bool
	walk = func(b *ssa.BasicBlock) bool {
		if b == to {
			return true
		}
		if seen[b] {
			return false
		}
		seen[b] = true
		for _, s := range b.Succs {
			if walk(s) {
				return true
			}
		}
		return false
	}
	return walk(from)
}

// classifyErr decides what the caller does with the error value errV.
func classifyErr(errV ssa.Value) string {
	refs := errV.Referrers()
	if refs == nil || len(*refs) == 0 {
		return "ignored"
	}
	kind := "ignored"
	var visit func(v ssa.Value, depth int)
	visit = func(v ssa.Value, depth int) {
		rs := v.Referrers()
		if rs == nil || depth > 4 {
			return
		}
		for _, r := range *rs {
			switch x := r.(type) {
			case *ssa.Return:
				if kind != "checked-continues" {
					kind = "propagated"
				}
			case *ssa.BinOp:
				if x.Op != token.NEQ && x.Op != token.EQL {
					continue
				}
				other := x.Y
				if other == v {
					other = x.X
				}
				if c, ok := other.(*ssa.Const); !ok || !c.IsNil() {
					continue
				}
				brs := x.Referrers()
				if brs == nil {
					continue
				}
				for _, br := range *brs {
					ifi, ok := br.(*ssa.If)
					if !ok {
						continue
					}
					blk := ifi.Block()
					errB, okB := blk.Succs[0], blk.Succs[1]
					if x.Op == token.EQL {
						errB, okB = okB, errB
					}
					if blockReaches(errB, okB) {
						kind = "checked-continues"
					} else if kind == "ignored" {
						kind = "checked-fails"
					}
				}
			case *ssa.Phi:
				visit(x, depth+1)
			case *ssa.Store:
				// spilled into a local: follow the loads
				if al, ok := x.Addr.(*ssa.Alloc); ok && x.Val == v {
					if ars := al.Referrers(); ars != nil {
						for _, ar := range *ars {
							if ld, ok := ar.(*ssa.UnOp); ok && ld.Op == token.MUL {
								visit(ld, depth+1)
							}
						}
					}
				}
			case *ssa.MakeInterface, *ssa.ChangeInterface:
				visit(r.(ssa.Value), depth+1)
			}
		}
	}
	visit(errV, 0)
	return kind
}

// c38Weak adds the clock / bareread edges to the graph and returns the synthetic
// bad nodes, the clock nodes and the table of rand-error sites.
func c38Weak(p *Program, g *Graph, sources []int, secure []int) (bareNode int, clock []int, sites []randErrSite) {
	b := g.b
	isSrc := map[int]bool{}
	for _, s := range sources {
		isSrc[s] = true
	}
	// which functions reach crypto/rand (backwards closure over the graph)
	pred := map[int][]int{}
	for a, ss := range g.Succ {
		for _, c := range ss {
			pred[c] = append(pred[c], a)
		}
	}
	reachesSecure := map[int]bool{}
	queue := append([]int{}, secure...)
	for _, s := range secure {
		reachesSecure[s] = true
	}
	for len(queue) > 0 {
		x := queue[0]
		queue = queue[1:]
		for _, y := range pred[x] {
			// only through real functions (not the dyn:/invoke: fan-out nodes)
			if _, public := c38PublicRandomness[g.Names[y-1]]; public {
				continue
			}
			if !reachesSecure[y] && g.Fn[y] != nil {
				reachesSecure[y] = true
				queue = append(queue, y)
			}
		}
	}
	for id, fn := range g.Fn {
		if isClockFunc(fn) {
			clock = append(clock, id)
		}
	}
	sort.Ints(clock)

	ids := append([]int{}, sources...)
	sort.Ints(ids)
	for _, id := range ids {
		fn := g.Fn[id]
		if fn == nil {
			continue
		}
		for _, blk := range fn.Blocks {
			for _, ins := range blk.Instrs {
				ci, ok := ins.(ssa.CallInstruction)
				if !ok {
					continue
				}
				c := ci.Common()
				// bare Reader.Read
				if c.IsInvoke() && c.Method.Name() == "Read" && derivesFromRandReader(c.Value, 0) {
					if bareNode == 0 {
						bareNode, _ = g.node(bareReadNode)
					}
					b.edge(id, bareNode, ins.Pos())
				}
				// rand-error sites
				var callee string
				draws := false
				if sf := c.StaticCallee(); sf != nil {
					callee = Rel(sf.String())
					pk := PkgOf(sf)
					switch {
					case pk == "crypto/rand":
						draws = true
					case pk == "io" && (sf.Name() == "ReadFull" || sf.Name() == "ReadAtLeast"):
						draws = len(c.Args) > 0 && derivesFromRandReader(c.Args[0], 0)
					case !IsStd(pk):
						if sid, ok := b.byFn[sf]; ok && reachesSecure[sid] && hasPrefixPkg(pk, c38KeyPkgs) && isModulePkg(pk) {
							draws = true
						}
					}
				} else if c.IsInvoke() && c.Method.Name() == "Read" && derivesFromRandReader(c.Value, 0) {
					callee, draws = "crypto/rand.Reader.Read", true
				}
				if !draws {
					continue
				}
				res := c.Signature().Results()
				if res.Len() == 0 || !isErrorType(res.At(res.Len()-1).Type()) {
					continue
				}
				val, isVal := ins.(ssa.Value)
				if !isVal {
					// go / defer: result dropped
					sites = append(sites, randErrSite{Func: g.Names[id-1], Node: id, Callee: callee, At: p.PosOf(ins.Pos()), Kind: "ignored"})
					continue
				}
				kind := "ignored"
				if res.Len() == 1 {
					kind = classifyErr(val)
				} else if refs := val.Referrers(); refs != nil {
					for _, r := range *refs {
						if ex, ok := r.(*ssa.Extract); ok && ex.Index == res.Len()-1 {
							kind = classifyErr(ex)
						}
					}
				}
				site := randErrSite{Func: g.Names[id-1], Node: id, Callee: callee, At: p.PosOf(ins.Pos()), Kind: kind}
				if why, ok := c38PublicRandomness[site.Func]; ok {
					site.Kind, site.Why = "allowed", why
				}
				sites = append(sites, site)
			}
		}
	}
	return
}

// clockBarrier: functions of the logging packages do not propagate the clock rule.
func clockBarrier(pkg string) bool {
	return isModulePkg(pkg) && hasPrefixPkg(pkg, c38ClockBarriers)
}

var _ = strings.HasPrefix
