// C38: key material (private keys, signing nonces, keystore master key and
// IV) is generated only from crypto/rand.
//
// Facts emitted (coq/gen/C38_uses.v): the call/reference graph of every
// non-std package in the dependency closure of the key-material packages;
// sources = every function of the key-material packages (account, crypto,
// crypto/ecies, wallet, dpos/account) and of the wallet's key-management
// command file cmd/wallet/account.go; bad = every function and method of
// math/rand and math/rand/v2 (a weak generator, however it is seeded); no
// allowed edges. `secure` lists the crypto/rand nodes (functions and the
// Reader variable) so that the proof can show the anchors do reach them.
package main

import (
	"path/filepath"
	"sort"
	"strings"
)

var c38KeyPkgs = []string{"account", "crypto", "dpos/account"}

// files outside those packages whose functions create or import keys
var c38KeyFiles = []string{"cmd/wallet/account.go"}

var c38Load = []string{"./account/...", "./crypto/...", "./wallet/...", "./dpos/account/...", "./cmd/wallet/..."}

var c38Anchors = []string{
	"account.NewClient",
	"crypto.deterministicGetK0",
	"crypto.GenerateKeyPair",
	"crypto.Sign",
}

func runC38(repo, coq, js string) {
	p := Load(repo, c38Load...)
	g := BuildGraph(p)

	badSet := map[int]bool{}
	secure := []int{}
	for id := range g.Names {
		pk := g.Pkg[id]
		if pk == "math/rand" || pk == "math/rand/v2" {
			badSet[id+1] = true
		}
		if pk == "crypto/rand" {
			secure = append(secure, id+1)
		}
	}
	var sources, direct []int
	srcPkgs := map[string]int{}
	for id, fn := range g.Fn {
		pk := PkgOf(fn)
		if !isModulePkg(pk) {
			continue
		}
		if fn.Synthetic == "package initializer" {
			continue // import-order chaining of initializers is not a key path
		}
		if hasPrefixPkg(pk, c38KeyPkgs) {
			sources = append(sources, id)
			srcPkgs[Rel(pk)]++
			continue
		}
		pos := g.Pos[id-1]
		if i := strings.LastIndex(pos, ":"); i >= 0 {
			pos = pos[:i]
		}
		for _, f := range c38KeyFiles {
			if filepath.ToSlash(pos) == f {
				direct = append(direct, id)
				srcPkgs[f]++
			}
		}
	}
	sort.Ints(sources)
	sort.Ints(direct)
	for _, c := range append(append([]string{}, c38KeyPkgs...), c38KeyFiles...) {
		found := false
		for pk := range srcPkgs {
			if pk == c || strings.HasPrefix(pk, c+"/") {
				found = true
			}
		}
		if !found {
			die("C38: key-material package/file %q has no functions in %s (anchor missing)", c, repo)
		}
	}
	isSource := map[int]bool{}
	for _, s := range sources {
		isSource[s] = true
	}
	anchors := map[string]int{}
	for _, a := range c38Anchors {
		id := g.Find(a)
		if id == 0 || !isSource[id] {
			die("C38: anchor %s not found among the key-material functions of %s", a, repo)
		}
		anchors[a] = id
	}
	sort.Ints(secure)
	// second family: clock-derived values, bare Reader.Read, swallowed random-source errors
	bareNode, clock, sites := c38Weak(p, g, append(append([]int{}, sources...), direct...), secure)
	_ = clock
	g.finish()
	if bareNode != 0 {
		badSet[bareNode] = true
	}
	var barrier []int
	for id, fn := range g.Fn {
		if clockBarrier(PkgOf(fn)) {
			barrier = append(barrier, id)
		}
	}
	sort.Ints(barrier)
	var bad []int
	for id := range badSet {
		bad = append(bad, id)
	}
	sort.Ints(bad)
	// every direct use of math/rand by a source function, for the report
	var uses []map[string]string
	for _, s := range sources {
		for _, t := range g.Succ[s] {
			if badSet[t] {
				uses = append(uses, map[string]string{"func": g.Names[s-1], "callee": g.Names[t-1], "at": g.Site[[2]int{s, t}]})
			}
		}
	}
	f := &Facts{Property: "C38", Repo: repo, Names: g.Names, Pos: g.Pos, Pkg: g.Pkg, Succ: g.Succ, Sites: g.sites(),
		Sources: sources, Bad: bad, Allowed: nil, AllowedWhy: nil, Anchors: anchors, Secure: secure, Direct: direct, Clock: clock, Barrier: barrier, RandErr: sites,
		Extra: map[string]interface{}{"key_packages": c38KeyPkgs, "key_files": c38KeyFiles, "source_packages": srcPkgs, "direct_uses": uses, "clock_barrier_packages": c38ClockBarriers}}
	writeFacts(f, "C38_uses", coq, js)
}
