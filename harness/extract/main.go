// Command extract regenerates the fact tables of the translated properties
// (C24, C38, C36) from the Go source tree given by --repo.
//
//	extract --prop c24 --repo /repo --coq /verif/coq/gen/C24_graph.v --json out.json
//
// It fails closed (exit status 2) when the tree does not type-check or an
// anchor named in the property's configuration is missing.
package main

import (
	"flag"
	"os"
	"runtime/pprof"
)

func main() {
	prop := flag.String("prop", "", "c24|c38|c36")
	repo := flag.String("repo", "/repo", "source tree")
	coq := flag.String("coq", "", "output .v file")
	js := flag.String("json", "", "output .json file (same facts, with names and positions, for the witness search)")
	flag.Parse()
	if pf := os.Getenv("EXTRACT_PROF"); pf != "" {
		f, _ := os.Create(pf)
		pprof.StartCPUProfile(f)
		defer pprof.StopCPUProfile()
	}
	switch *prop {
	case "c24":
		runC24(*repo, *coq, *js)
	case "c36":
		runC36(*repo, *coq, *js)
	case "c38":
		runC38(*repo, *coq, *js)
	default:
		die("unknown --prop %q", *prop)
	}
}
