package main

import (
	"fmt"
	"os"

	"golang.org/x/tools/go/callgraph/cha"
	"golang.org/x/tools/go/packages"
	"golang.org/x/tools/go/ssa"
	"golang.org/x/tools/go/ssa/ssautil"
)

func main() {
	cfg := &packages.Config{Mode: packages.LoadAllSyntax, Dir: os.Args[1], Env: append(os.Environ(), "GOFLAGS=-mod=mod", "GOPROXY=off")}
	pkgs, err := packages.Load(cfg, "./...")
	if err != nil {
		panic(err)
	}
	fmt.Println(len(pkgs), packages.PrintErrors(pkgs))
	prog, _ := ssautil.AllPackages(pkgs, ssa.InstantiateGenerics)
	prog.Build()
	g := cha.CallGraph(prog)
	fmt.Println(len(g.Nodes))
}
