// C24, map-iteration-order float sums: Go's float64 addition is not
// associative, so a sum accumulated while ranging over a map depends on the
// (per-iteration random) map order unless every addend is an integer-valued
// float and the partial sums stay below 2^53 (then every partial sum is
// exact; theorem C24_integer_float_sum_order_independent).
//
// For every function of the consensus packages that ranges over a map, every
// float64 running sum (an addition / subtraction whose result flows back into
// its own operand) is listed with the verdict "all operands are
// integer-valued": an operand is integer-valued when it is a conversion from
// an integer type (e.g. float64(common.Fixed64(..))), an integer-valued
// constant, a sum/difference of such, or an accumulator (phi / local variable)
// fed only by such values.
package main

import (
	"go/constant"
	"go/token"
	"go/types"
	"sort"

	"golang.org/x/tools/go/ssa"
)

type floatSum struct {
	Func     string `json:"func"`
	Node     int    `json:"node"`
	At       string `json:"at"`
	Integral bool   `json:"integral"`
}

func isFloat(t types.Type) bool {
	b, ok := t.Underlying().(*types.Basic)
	return ok && b.Info()&types.IsFloat != 0
}

func isInteger(t types.Type) bool {
	b, ok := t.Underlying().(*types.Basic)
	return ok && b.Info()&types.IsInteger != 0
}

func integralValue(v ssa.Value, seen map[ssa.Value]bool) bool {
	if seen[v] {
		return true // coinductive: a cycle through an accumulator adds nothing new
	}
	seen[v] = true
	switch x := v.(type) {
	case *ssa.Const:
		if x.Value == nil {
			return false
		}
		return constant.ToInt(x.Value).Kind() == constant.Int
	case *ssa.Convert:
		if isInteger(x.X.Type()) {
			return true
		}
		if isFloat(x.X.Type()) { // float32 <-> float64
			return integralValue(x.X, seen)
		}
		return false
	case *ssa.ChangeType:
		return integralValue(x.X, seen)
	case *ssa.Phi:
		for _, e := range x.Edges {
			if !integralValue(e, seen) {
				return false
			}
		}
		return true
	case *ssa.BinOp:
		if x.Op == token.ADD || x.Op == token.SUB {
			return integralValue(x.X, seen) && integralValue(x.Y, seen)
		}
		return false
	case *ssa.UnOp:
		if x.Op == token.SUB {
			return integralValue(x.X, seen)
		}
		if x.Op == token.MUL { // load
			if al, ok := x.X.(*ssa.Alloc); ok {
				refs := al.Referrers()
				if refs == nil {
					return false
				}
				for _, r := range *refs {
					if st, ok := r.(*ssa.Store); ok && st.Addr == al && !integralValue(st.Val, seen) {
						return false
					}
				}
				return true
			}
		}
		return false
	}
	return false
}

// isAccumulation: the result of the addition flows back into one of its own
// operands (through phis or a local variable), i.e. it is a running sum.
func isAccumulation(bo *ssa.BinOp) bool {
	seen := map[ssa.Value]bool{}
	var back func(v ssa.Value) bool
	back = func(v ssa.Value) bool {
		if v == ssa.Value(bo) {
			return true
		}
		if seen[v] {
			return false
		}
		seen[v] = true
		switch x := v.(type) {
		case *ssa.Phi:
			for _, e := range x.Edges {
				if back(e) {
					return true
				}
			}
		case *ssa.BinOp:
			if x.Op == token.ADD || x.Op == token.SUB {
				return back(x.X) || back(x.Y)
			}
		case *ssa.UnOp:
			if x.Op == token.MUL {
				if al, ok := x.X.(*ssa.Alloc); ok {
					if refs := al.Referrers(); refs != nil {
						for _, r := range *refs {
							if st, ok := r.(*ssa.Store); ok && st.Addr == al && back(st.Val) {
								return true
							}
						}
					}
				}
			}
		}
		return false
	}
	return back(bo.X) || back(bo.Y)
}

func rangesOverMap(fn *ssa.Function) bool {
	for _, blk := range fn.Blocks {
		for _, ins := range blk.Instrs {
			if r, ok := ins.(*ssa.Range); ok {
				if _, isMap := r.X.Type().Underlying().(*types.Map); isMap {
					return true
				}
			}
		}
	}
	return false
}

// floatMapSums scans the given functions (and their closures, which are
// separate SSA functions and are scanned when they range over a map or their
// enclosing function does).
func floatMapSums(p *Program, g *Graph, ids []int) []floatSum {
	var res []floatSum
	sort.Ints(ids)
	for _, id := range ids {
		fn := g.Fn[id]
		if fn == nil || len(fn.Blocks) == 0 {
			continue
		}
		inMapLoop := rangesOverMap(fn)
		for par := fn.Parent(); par != nil && !inMapLoop; par = par.Parent() {
			inMapLoop = rangesOverMap(par)
		}
		if !inMapLoop {
			continue
		}
		for _, blk := range fn.Blocks {
			for _, ins := range blk.Instrs {
				bo, ok := ins.(*ssa.BinOp)
				if !ok || (bo.Op != token.ADD && bo.Op != token.SUB) || !isFloat(bo.Type()) || !isAccumulation(bo) {
					continue
				}
				res = append(res, floatSum{Func: g.Names[id-1], Node: id, At: p.PosOf(bo.Pos()),
					Integral: integralValue(bo.X, map[ssa.Value]bool{}) && integralValue(bo.Y, map[ssa.Value]bool{})})
			}
		}
	}
	return res
}
