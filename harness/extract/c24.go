// C24: consensus code never draws from the process-global or a clock-seeded
// math/rand source.
//
// Facts emitted (coq/gen/C24_graph.v): the call/reference graph of every
// non-std package in the dependency closure of the consensus packages, the
// list of source nodes (every function of a consensus package), the list of
// bad nodes (math/rand package-level functions that use the global source, and
// a synthetic node for "rand.NewSource(seed derived from the clock, the pid or
// another random source)"), and the table of allowed (f, bad) edges that come
// from packages/functions classified below as using randomness for
// non-consensus purposes.
package main

import (
	"go/token"
	"go/types"
	"sort"
	"strings"

	"golang.org/x/tools/go/ssa"
)

// ---- classification (the hand-written part of the C24 tie)

// consensus packages: every function declared in them is a source.
var c24Consensus = []string{"dpos/state", "cr/state", "dpos/manager", "blockchain", "core", "pow", "mempool"}

// packages whose use of math/rand is not a consensus decision. Edges from
// their functions to bad nodes are listed in the `allowed` table (and nowhere
// else); any other function reaching a bad node breaks C24_static.
var c24BenignPkgs = map[string]string{
	"database/internal/treap": "treap node priorities: balancing only, the key->value mapping does not depend on them (C19)",
	"p2p/server":              "peer-to-peer version nonces (self-connection detection)",
	"p2p/addrmgr":             "peer address bucket selection and shuffling",
	"p2p/peer":                "peer-to-peer version nonce and address-list shuffling",
	"p2p/connmgr":             "connection retry scheduling",
	"dpos/p2p":                "DPoS network layer (peer selection), not arbiter selection",
	// third-party dependencies (full import path)
	"github.com/syndtr/goleveldb":      "storage engine: read sampling that schedules compactions; query results do not depend on it",
	"github.com/go-echarts/go-echarts": "chart element ids of the statistics web view",
	"github.com/go-echarts/statsview":  "statistics web view",
}

// single functions inside consensus packages with an allowed use, restricted to
// the named callee.
var c24BenignFuncs = map[string][2]string{
	"(*pow.Service).CreateCoinbaseTx":      {"math/rand.Uint64", "coinbase nonce attribute chosen freely by the block producer; validation never branches on it"},
	"(*pow.Service).CreateRecordSponsorTx": {"math/rand.Uint64", "record-sponsor nonce attribute chosen freely by the block producer"},
}

// functions whose map-ordered slice is consumed by something that does not
// depend on the order (function name -> reason); see c24maporder.go
var c24MapOrderAllowed = map[string]string{
	"(*dpos/state.State).createRealWithdrawTransaction":                  "entries of a locally created votes real-withdraw transaction for the node's own pool; VotesRealWithdrawTransaction.SpecialContextCheck matches every entry by hash through a map, any order is valid",
	"(*dpos/state.State).createDposV2ClaimRewardRealWithdrawTransaction": "entries of a locally created reward real-withdraw transaction; validated entry by entry through a map lookup, any order is valid",
	"(*cr/state.Committee).createRealWithdrawTransaction":                "entries of a locally created CR real-withdraw transaction; validated entry by entry through a map lookup, any order is valid",
	"(*dpos/manager.ConsensusBlockCache).Reset":                          "bookkeeping list of the local cache of candidate blocks, not a consensus result",
	"(*dpos/manager.ProposalDispatcher).AppendConfirm":                   "votes of a locally assembled confirm; a confirm is validated as a set of distinct arbiter votes (C25), their order is free",
	"(*dpos/state.Arbiters).IncreaseChainHeight":                         "peer lists handed to the network layer (which arbiters to connect to)",
	"(*dpos/state.Arbiters).forceChange":                                 "peer lists handed to the network layer (which arbiters to connect to)",
	"(*dpos/state.Arbiters).resetNextArbiterByCRC$5":                     "a.nextArbitrators is sorted by node public key in UpdateNextArbitrators (sort.Slice after the producers are appended) before any consumer reads it",
	"(*mempool.TxPool).BroadcastSmallCrossChainTransactions":             "transactions re-announced to peers (network event)",
	"(*mempool.TxPool).ResendOutdatedTransactions":                       "transactions re-announced to peers (network event)",
}

// anchors that must exist (fail closed otherwise) and must be sources.
var c24Anchors = []string{
	"(*dpos/state.Arbiters).getCandidateIndexAtRandom",
	"(*dpos/state.Arbiters).getRandomDposV2Producers",
	"(*dpos/state.Arbiters).getSortedProducers",
	"(*dpos/state.Producer).GetTotalDPoSV2VoteRights",
}

// math/rand package-level functions that do not touch the global source.
var randLocalCtors = map[string]bool{"New": true, "NewSource": true, "NewZipf": true, "NewPCG": true, "NewChaCha8": true}

const timeSeededNode = "math/rand.NewSource(seed derived from clock/pid/random source)"

func hasPrefixPkg(pkg string, prefixes []string) bool {
	pkg = strings.TrimSuffix(Rel(pkg+"/"), "/")
	for _, p := range prefixes {
		if pkg == p || strings.HasPrefix(pkg, p+"/") {
			return true
		}
	}
	return false
}

func benignPkgReason(pkg string, m map[string]string) (string, bool) {
	if isModulePkg(pkg) {
		pkg = strings.TrimSuffix(Rel(pkg+"/"), "/")
	} else if !strings.Contains(pkg, ".") {
		return "", false
	}
	for p, r := range m {
		if pkg == p || strings.HasPrefix(pkg, p+"/") {
			return r, true
		}
	}
	return "", false
}

// isModulePkg: package of the analysed module (not a third-party dependency).
func isModulePkg(pkg string) bool { return strings.HasPrefix(pkg+"/", modPrefix) }

type Facts struct {
	Property   string                 `json:"property"`
	Repo       string                 `json:"repo"`
	Names      []string               `json:"names"` // index i = node i+1
	Pos        []string               `json:"pos"`
	Pkg        []string               `json:"pkg"`
	Succ       map[int][]int          `json:"succ"`
	Sites      map[string]string      `json:"sites"` // "a,b" -> position of the first instruction creating the edge
	Sources    []int                  `json:"sources"`
	Bad        []int                  `json:"bad"`
	Allowed    [][2]int               `json:"allowed"`
	AllowedWhy []string               `json:"allowed_why"`
	Anchors    map[string]int         `json:"anchors"`
	Secure     []int                  `json:"secure,omitempty"`
	Direct     []int                  `json:"direct,omitempty"`  // functions checked for direct references only
	Clock      []int                  `json:"clock,omitempty"`   // clock / pid readers
	Barrier    []int                  `json:"barrier,omitempty"` // nodes whose out-edges are cut for the clock rule
	RandErr    []randErrSite          `json:"rand_err,omitempty"`
	FloatSums  []floatSum             `json:"float_sums,omitempty"`
	MapOrder   []mapOrderSite         `json:"map_order,omitempty"`
	Extra      map[string]interface{} `json:"extra,omitempty"`
}

func runC24(repo, coq, js string) {
	var pats []string
	for _, c := range c24Consensus {
		pats = append(pats, "./"+c+"/...")
	}
	p := Load(repo, pats...)
	g := BuildGraph(p)
	b := g.b

	// bad nodes: package-level functions of math/rand (and math/rand/v2) that use the global source
	badSet := map[int]bool{}
	for id, fn := range g.Fn {
		if fn.Signature.Recv() != nil || fn.Parent() != nil {
			continue
		}
		pk := PkgOf(fn)
		if (pk == "math/rand" || pk == "math/rand/v2") && token.IsExported(fn.Name()) && !randLocalCtors[fn.Name()] {
			badSet[id] = true
		}
	}
	// clock-seeded local sources
	ts := newSeedTaint(p)
	var tsNode int
	for id, fn := range g.Fn {
		if IsStd(PkgOf(fn)) {
			continue
		}
		for _, site := range ts.seededSites(fn) {
			if tsNode == 0 {
				tsNode, _ = g.node(timeSeededNode)
			}
			b.edge(id, tsNode, site)
		}
	}
	if tsNode != 0 {
		badSet[tsNode] = true
	}
	g.finish()

	// sources
	var sources []int
	srcPkgs := map[string]int{}
	for id, fn := range g.Fn {
		pk := PkgOf(fn)
		if isModulePkg(pk) && hasPrefixPkg(pk, c24Consensus) {
			sources = append(sources, id)
			srcPkgs[Rel(pk)]++
		}
	}
	sort.Ints(sources)
	for _, c := range c24Consensus {
		found := false
		for pk := range srcPkgs {
			if pk == c || strings.HasPrefix(pk, c+"/") {
				found = true
			}
		}
		if !found {
			die("C24: consensus package %q has no functions in %s (anchor missing)", c, repo)
		}
	}
	anchors := map[string]int{}
	isSource := map[int]bool{}
	for _, s := range sources {
		isSource[s] = true
	}
	for _, a := range c24Anchors {
		id := g.Find(a)
		if id == 0 || !isSource[id] {
			die("C24: anchor %s not found among the consensus functions of %s", a, repo)
		}
		anchors[a] = id
	}

	// allowed edges
	var allowed [][2]int
	var why []string
	for id, fn := range g.Fn {
		pk := PkgOf(fn)
		reason, okPkg := benignPkgReason(pk, c24BenignPkgs)
		fnRule, okFn := c24BenignFuncs[Rel(fn.String())]
		if !okPkg && !okFn {
			// closures inherit the classification of the enclosing declared function
			for par := fn.Parent(); par != nil && !okFn; par = par.Parent() {
				fnRule, okFn = c24BenignFuncs[Rel(par.String())]
			}
			if !okFn {
				continue
			}
		}
		for _, s := range g.Succ[id] {
			if !badSet[s] {
				continue
			}
			if okPkg {
				allowed = append(allowed, [2]int{id, s})
				why = append(why, reason)
			} else if g.Names[s-1] == fnRule[0] {
				allowed = append(allowed, [2]int{id, s})
				why = append(why, fnRule[1])
			}
		}
	}
	idx := make([]int, len(allowed))
	for i := range idx {
		idx[i] = i
	}
	sort.Slice(idx, func(i, j int) bool {
		a, c := allowed[idx[i]], allowed[idx[j]]
		return a[0] < c[0] || a[0] == c[0] && a[1] < c[1]
	})
	a2, w2 := make([][2]int, len(idx)), make([]string, len(idx))
	for i, k := range idx {
		a2[i], w2[i] = allowed[k], why[k]
	}

	var bad []int
	for id := range badSet {
		bad = append(bad, id)
	}
	sort.Ints(bad)

	fsums := floatMapSums(p, g, append([]int{}, sources...))
	msites := mapOrderSites(p, g, append([]int{}, sources...), c24MapOrderAllowed)
	f := &Facts{Property: "C24", FloatSums: fsums, MapOrder: msites, Repo: repo, Names: g.Names, Pos: g.Pos, Pkg: g.Pkg, Succ: g.Succ, Sites: g.sites(),
		Sources: sources, Bad: bad, Allowed: a2, AllowedWhy: w2, Anchors: anchors,
		Extra: map[string]interface{}{"consensus_packages": c24Consensus, "benign_packages": c24BenignPkgs, "benign_functions": c24BenignFuncs,
			"source_packages": srcPkgs}}
	writeFacts(f, "C24_graph", coq, js)
}

// ---------------------------------------------------------------- seed taint

// seedTaint decides whether the seed passed to math/rand.NewSource derives
// from the clock (package time), the process id, or another random source.
// Backward slice over SSA values; through parameters to the arguments of
// every static call site; through calls into the results of non-std callees.
type seedTaint struct {
	p       *Program
	callers map[*ssa.Function][]*ssa.CallCommon
	stores  map[*ssa.Global][]ssa.Value
}

func newSeedTaint(p *Program) *seedTaint {
	t := &seedTaint{p: p, callers: map[*ssa.Function][]*ssa.CallCommon{}, stores: map[*ssa.Global][]ssa.Value{}}
	for fn := range p.Funcs {
		for _, blk := range fn.Blocks {
			for _, ins := range blk.Instrs {
				if ci, ok := ins.(ssa.CallInstruction); ok {
					if sf := ci.Common().StaticCallee(); sf != nil {
						t.callers[sf] = append(t.callers[sf], ci.Common())
					}
				}
				if st, ok := ins.(*ssa.Store); ok {
					if gl, ok := st.Addr.(*ssa.Global); ok {
						t.stores[gl] = append(t.stores[gl], st.Val)
					}
				}
			}
		}
	}
	return t
}

func nondetStdCallee(fn *ssa.Function) bool {
	switch PkgOf(fn) {
	case "time", "crypto/rand":
		return true
	case "math/rand", "math/rand/v2":
		return fn.Signature.Recv() == nil && !randLocalCtors[fn.Name()]
	case "os":
		switch fn.Name() {
		case "Getpid", "Getppid", "Hostname", "Getuid":
			return true
		}
	}
	return false
}

func (t *seedTaint) tainted(v ssa.Value, seen map[interface{}]bool) bool {
	if v == nil || seen[v] {
		return false
	}
	seen[v] = true
	switch x := v.(type) {
	case *ssa.Const, *ssa.Builtin, *ssa.Function:
		return false
	case *ssa.Parameter:
		fn := x.Parent()
		idx := -1
		for i, pr := range fn.Params {
			if pr == x {
				idx = i
			}
		}
		for _, c := range t.callers[fn] {
			args := c.Args
			if idx >= 0 && idx < len(args) && t.tainted(args[idx], seen) {
				return true
			}
		}
		return false
	case *ssa.FreeVar:
		// the binding made by the enclosing function's MakeClosure
		fn := x.Parent()
		idx := -1
		for i, fv := range fn.FreeVars {
			if fv == x {
				idx = i
			}
		}
		if par := fn.Parent(); par != nil && idx >= 0 {
			for _, blk := range par.Blocks {
				for _, ins := range blk.Instrs {
					if mc, ok := ins.(*ssa.MakeClosure); ok && mc.Fn == fn && idx < len(mc.Bindings) {
						if t.tainted(mc.Bindings[idx], seen) {
							return true
						}
					}
				}
			}
		}
		return false
	case *ssa.Global:
		for _, s := range t.stores[x] {
			if t.tainted(s, seen) {
				return true
			}
		}
		return false
	case *ssa.Alloc:
		return t.storesInto(x, seen)
	case *ssa.Call:
		c := x.Common()
		if sf := c.StaticCallee(); sf != nil {
			if nondetStdCallee(sf) {
				return true
			}
			if !IsStd(PkgOf(sf)) && !seen[sf] {
				seen[sf] = true
				for _, blk := range sf.Blocks {
					for _, ins := range blk.Instrs {
						if r, ok := ins.(*ssa.Return); ok {
							for _, rv := range r.Results {
								if t.tainted(rv, seen) {
									return true
								}
							}
						}
					}
				}
			}
		}
		if c.IsInvoke() && t.tainted(c.Value, seen) {
			return true
		}
		for _, a := range c.Args {
			if t.tainted(a, seen) {
				return true
			}
		}
		return false
	}
	if ins, ok := v.(ssa.Instruction); ok {
		var ops []*ssa.Value
		for _, op := range ins.Operands(ops) {
			if op != nil && *op != nil && t.tainted(*op, seen) {
				return true
			}
		}
		// address computations: what was stored through them
		switch v.(type) {
		case *ssa.FieldAddr, *ssa.IndexAddr:
			return t.storesInto(v, seen)
		}
	}
	return false
}

func (t *seedTaint) storesInto(addr ssa.Value, seen map[interface{}]bool) bool {
	refs := addr.Referrers()
	if refs == nil {
		return false
	}
	for _, r := range *refs {
		if st, ok := r.(*ssa.Store); ok && st.Addr == addr && t.tainted(st.Val, seen) {
			return true
		}
	}
	return false
}

// seededSites returns the positions in fn of calls math/rand.NewSource(seed)
// (or v2 constructors) whose seed is tainted.
func (t *seedTaint) seededSites(fn *ssa.Function) []token.Pos {
	var res []token.Pos
	for _, blk := range fn.Blocks {
		for _, ins := range blk.Instrs {
			ci, ok := ins.(ssa.CallInstruction)
			if !ok {
				continue
			}
			sf := ci.Common().StaticCallee()
			if sf == nil || sf.Signature.Recv() != nil {
				continue
			}
			pk := PkgOf(sf)
			if !(pk == "math/rand" && sf.Name() == "NewSource") && !(pk == "math/rand/v2" && (sf.Name() == "NewPCG" || sf.Name() == "NewChaCha8")) {
				continue
			}
			for _, a := range ci.Common().Args {
				if t.tainted(a, map[interface{}]bool{}) {
					res = append(res, ins.Pos())
					break
				}
			}
		}
	}
	return res
}

var _ = types.Universe
