// C36 (b): every registered JSON-RPC method that is privileged performs the
// service-level check first.
//
// Facts emitted (coq/gen/C36_handlers.v):
//
//	handlers : (method name, handler node, level of the leading
//	           checkRPCServiceLevel call or None) for every
//	           mainMux["name"] = Handler assignment found anywhere in the program;
//	graph    : the call graph restricted to package servers/... ("transitively
//	           within servers/"), with the privileged sinks as leaves;
//	sinks    : (node, class level) — Configuration 0: log level setters;
//	           Mining 1: exported methods of *pow.Service (except
//	           GetDefaultTxVersion); Transaction 2: (*mempool.TxPool).Append*;
//	           Wallet 3: every function of packages account and wallet.
package main

import (
	"bufio"
	"encoding/json"
	"fmt"
	"go/constant"
	"go/token"
	"sort"
	"strings"

	"golang.org/x/tools/go/ssa"
)

const (
	lvlConfiguration = 0
	lvlMining        = 1
	lvlTransaction   = 2
	lvlWallet        = 3
)

var c36Anchors = []string{
	"servers/httpjsonrpc.StartRPCServer",
	"servers.checkRPCServiceLevel",
	"(*mempool.TxPool).AppendToTxPool",
	"(*pow.Service).DiscreteMining",
	"common/log.SetPrintLevel",
	"account.SignStandardTransaction",
}

type c36Handler struct {
	Method  string `json:"method"`
	Node    int    `json:"node"`
	Handler string `json:"handler"`
	Gate    int    `json:"gate"` // -1: no leading gate
	At      string `json:"at"`
}

type c36Facts struct {
	Property string            `json:"property"`
	Names    []string          `json:"names"`
	Succ     map[int][]int     `json:"succ"`
	Sites    map[string]string `json:"sites"`
	Handlers []c36Handler      `json:"handlers"`
	Sinks    map[int]int       `json:"sinks"` // node -> class level
	Anchors  map[string]int    `json:"anchors"`
}

func sinkClass(fn *ssa.Function) (int, bool) {
	pk := Rel(PkgOf(fn))
	if !isModulePkg(PkgOf(fn)) || fn.Parent() != nil {
		return 0, false
	}
	name := fn.Name()
	recv := ""
	if r := fn.Signature.Recv(); r != nil {
		recv = Rel(r.Type().String())
	}
	switch {
	case (pk == "common/log" || pk == "utils/elalog") && strings.HasPrefix(name, "Set") && strings.Contains(name, "Level"):
		return lvlConfiguration, true
	case recv == "*pow.Service" && token.IsExported(name) && name != "GetDefaultTxVersion":
		return lvlMining, true
	case recv == "*mempool.TxPool" && strings.HasPrefix(name, "Append"):
		return lvlTransaction, true
	case (pk == "account" || pk == "wallet") && fn.Synthetic == "":
		return lvlWallet, true
	}
	return 0, false
}

func inServers(pkg string) bool {
	return isModulePkg(pkg) && hasPrefixPkg(pkg, []string{"servers"})
}

// leadingGate recognises
//
//	if rtn := checkRPCServiceLevel(<const>); rtn != nil { return rtn }
//
// as the first thing a handler does: the first call of the entry block is the
// gate with a constant level, nothing with an effect precedes it, the block
// branches on (result != nil) and the taken branch returns the result.
func leadingGate(fn *ssa.Function) int {
	if len(fn.Blocks) == 0 {
		return -1
	}
	b0 := fn.Blocks[0]
	var call *ssa.Call
	for _, ins := range b0.Instrs {
		switch x := ins.(type) {
		case *ssa.DebugRef, *ssa.Alloc:
			continue
		case *ssa.Store:
			// spilling a parameter into its stack slot
			if _, ok := x.Val.(*ssa.Parameter); ok {
				continue
			}
			return -1
		case *ssa.Call:
			call = x
		default:
			return -1
		}
		break
	}
	if call == nil {
		return -1
	}
	sf := call.Common().StaticCallee()
	if sf == nil || Rel(sf.String()) != "servers.checkRPCServiceLevel" || len(call.Common().Args) != 1 {
		return -1
	}
	c, ok := call.Common().Args[0].(*ssa.Const)
	if !ok || c.Value == nil || c.Value.Kind() != constant.Int {
		return -1
	}
	lvl, _ := constant.Int64Val(c.Value)
	// the branch
	ifi, ok := b0.Instrs[len(b0.Instrs)-1].(*ssa.If)
	if !ok {
		return -1
	}
	cond, ok := ifi.Cond.(*ssa.BinOp)
	if !ok || cond.Op != token.NEQ || cond.X != ssa.Value(call) {
		return -1
	}
	if k, ok := cond.Y.(*ssa.Const); !ok || !k.IsNil() {
		return -1
	}
	then := b0.Succs[0]
	for _, ins := range then.Instrs {
		switch x := ins.(type) {
		case *ssa.DebugRef:
			continue
		case *ssa.Return:
			if len(x.Results) == 1 && x.Results[0] == ssa.Value(call) {
				return int(lvl)
			}
			return -1
		default:
			return -1
		}
	}
	return -1
}

func funcOfValue(v ssa.Value) *ssa.Function {
	for {
		switch x := v.(type) {
		case *ssa.Function:
			return x
		case *ssa.ChangeType:
			v = x.X
		case *ssa.MakeClosure:
			f, _ := x.Fn.(*ssa.Function)
			return f
		default:
			return nil
		}
	}
}

func runC36(repo, coq, js string) {
	p := Load(repo, "./servers/...")
	g := BuildGraph(p)

	anchors := map[string]int{}
	for _, a := range c36Anchors {
		id := g.Find(a)
		if id == 0 {
			die("C36: anchor %s not found in %s", a, repo)
		}
		anchors[a] = id
	}

	// registrations: MapUpdate on the global mainMux of servers/httpjsonrpc
	var hs []c36Handler
	for fn := range p.Funcs {
		for _, blk := range fn.Blocks {
			for _, ins := range blk.Instrs {
				mu, ok := ins.(*ssa.MapUpdate)
				if !ok {
					continue
				}
				ld, ok := mu.Map.(*ssa.UnOp)
				if !ok {
					continue
				}
				gl, ok := ld.X.(*ssa.Global)
				if !ok || gl.Name() != "mainMux" || gl.Pkg == nil || Rel(gl.Pkg.Pkg.Path()) != "servers/httpjsonrpc" {
					continue
				}
				key, ok := mu.Key.(*ssa.Const)
				if !ok || key.Value == nil || key.Value.Kind() != constant.String {
					die("C36: mainMux registration with a non-constant method name at %s", p.PosOf(mu.Pos()))
				}
				h := funcOfValue(mu.Value)
				if h == nil {
					die("C36: mainMux[%s] is not assigned a function at %s", key.Value, p.PosOf(mu.Pos()))
				}
				id := g.b.fnNode(h)
				hs = append(hs, c36Handler{Method: constant.StringVal(key.Value), Node: id, Handler: Rel(h.String()), Gate: leadingGate(h), At: p.PosOf(mu.Pos())})
			}
		}
	}
	if len(hs) == 0 {
		die("C36: no mainMux registrations found in %s", repo)
	}
	sort.Slice(hs, func(i, j int) bool {
		return hs[i].Method < hs[j].Method || hs[i].Method == hs[j].Method && hs[i].At < hs[j].At
	})

	// sinks and the restricted graph
	sinks := map[int]int{}
	for id, fn := range g.Fn {
		if l, ok := sinkClass(fn); ok {
			sinks[id] = l
		}
	}
	keepNode := func(id int) bool {
		if fn := g.Fn[id]; fn != nil {
			return inServers(PkgOf(fn))
		}
		return strings.HasPrefix(g.Names[id-1], "invoke:") || strings.HasPrefix(g.Names[id-1], "dyn:")
	}
	succ := map[int][]int{}
	for a, ss := range g.Succ {
		if !keepNode(a) {
			continue
		}
		for _, c := range ss {
			_, isSink := sinks[c]
			if isSink || keepNode(c) {
				succ[a] = append(succ[a], c)
			}
		}
	}
	f := &c36Facts{Property: "C36", Names: g.Names, Succ: succ, Sites: g.sites(), Handlers: hs, Sinks: sinks, Anchors: anchors}

	if coq != "" {
		atomicWrite(coq, func(w *bufio.Writer) {
			fmt.Fprintf(w, "(* Generated by /verif/harness/extract --prop c36 from the source tree; do not edit.\n   Rewritten on every run of tools/check.py C36. *)\n")
			fmt.Fprintf(w, "From Coq Require Import List PArith NArith String.\nImport ListNotations.\nLocal Open Scope positive_scope.\nLocal Open Scope string_scope.\n\n")
			fmt.Fprintf(w, "(* registered JSON-RPC methods: name, handler node, level of the leading checkRPCServiceLevel call *)\n")
			fmt.Fprintf(w, "Definition handlers : list (string * positive * option N) := [")
			for i, h := range hs {
				if i > 0 {
					fmt.Fprintf(w, ";")
				}
				gate := "None"
				if h.Gate >= 0 {
					gate = fmt.Sprintf("(Some %d%%N)", h.Gate)
				}
				fmt.Fprintf(w, "\n  (\"%s\", %d, %s) (* %s, %s *)", coqName(h.Method), h.Node, gate, coqName(h.Handler), h.At)
			}
			fmt.Fprintf(w, "].\n\n(* call graph restricted to package servers/...; privileged sinks are leaves *)\n")
			fmt.Fprintf(w, "Definition graph : list (positive * list positive) := [\n")
			var ids []int
			for id, s := range succ {
				if len(s) > 0 {
					ids = append(ids, id)
				}
			}
			sort.Ints(ids)
			for i, id := range ids {
				sep := ";"
				if i == len(ids)-1 {
					sep = ""
				}
				fmt.Fprintf(w, "(%d,%s)%s (* %s *)\n", id, posList(succ[id]), sep, coqName(g.Names[id-1]))
			}
			fmt.Fprintf(w, "].\n\n(* privileged sinks: node, class level (0 configuration, 1 mining, 2 transaction, 3 wallet) *)\n")
			fmt.Fprintf(w, "Definition sinks : list (positive * N) := [")
			var sk []int
			for id := range sinks {
				sk = append(sk, id)
			}
			sort.Ints(sk)
			for i, id := range sk {
				if i > 0 {
					fmt.Fprintf(w, ";")
				}
				fmt.Fprintf(w, "\n  (%d, %d%%N) (* %s *)", id, sinks[id], coqName(g.Names[id-1]))
			}
			fmt.Fprintf(w, "].\n")
		})
	}
	if js != "" {
		atomicWrite(js, func(w *bufio.Writer) {
			b, err := json.Marshal(f)
			if err != nil {
				die("%v", err)
			}
			w.Write(b)
		})
	}
	ng := 0
	for _, h := range hs {
		if h.Gate >= 0 {
			ng++
		}
	}
	fmt.Printf("C36: %d registered methods, %d with a leading gate, %d sinks, %d restricted-graph nodes\n", len(hs), ng, len(sinks), len(succ))
}
