// Program loading and the call/reference graph shared by the C24, C38 and C36
// translators.
//
// Graph construction (an over-approximation of "f may execute g"):
//   - every function with a body that is not part of the Go standard library
//     is a node whose out-edges are computed from its SSA instructions;
//     standard-library functions are leaves (their bodies are not traversed);
//   - static call, go, defer                      : f -> callee
//   - any other mention of a function value       : f -> g   (closures made by f,
//     functions passed as arguments, method values)
//   - interface method call x.m()                  : f -> invoke:I.m -> every method
//     m of every named type (of any loaded package, T and *T) that implements I
//   - call through a function value                : f -> dyn:<signature> -> every
//     function or closure whose value is taken somewhere in the program and whose
//     signature is identical
//   - conversion of a concrete non-std type T to an interface (MakeInterface) in
//     f: f -> every method of T (covers callbacks from standard-library code:
//     sort.Sort, heap.Push, fmt verbs, io.Copy ...).
//
// Not covered (trusted-base note): reflection, go:linkname, assembly, cgo, and
// callbacks made by standard-library code on values it did not receive through
// an interface conversion in non-std code.
package main

import (
	"fmt"
	"go/token"
	"go/types"
	"os"
	"os/exec"
	"sort"
	"strings"

	"golang.org/x/tools/go/packages"
	"golang.org/x/tools/go/ssa"
	"golang.org/x/tools/go/ssa/ssautil"
)

const modPrefix = "github.com/elastos/Elastos.ELA/"

type Program struct {
	Repo  string
	Pkgs  []*packages.Package
	Prog  *ssa.Program
	Fset  *token.FileSet
	Funcs map[*ssa.Function]bool // all functions of the program

	named    []types.Type // every named (non-interface) type of every loaded package, T and *T
	byMethod map[string][]types.Type
}

func die(format string, a ...interface{}) {
	fmt.Fprintf(os.Stderr, "extract: "+format+"\n", a...)
	os.Exit(2)
}

func Load(repo string, patterns ...string) *Program {
	env := append(os.Environ(), "GOFLAGS=-mod=mod", "GOPROXY=off", "GOSUMDB=off", "GOTOOLCHAIN=local", "CGO_ENABLED=0")
	// Source (syntax + SSA bodies) for every non-std package in the dependency
	// closure of the patterns; the standard library from export data (its
	// functions are leaves of the graph).
	lst := exec.Command("go", append([]string{"list", "-deps", "-f", "{{if not .Standard}}{{.ImportPath}}{{end}}"}, patterns...)...)
	lst.Dir, lst.Env, lst.Stderr = repo, env, os.Stderr
	out, err := lst.Output()
	if err != nil {
		die("go list -deps in %s: %v", repo, err)
	}
	roots := strings.Fields(string(out))
	if len(roots) == 0 {
		die("no packages under %s", repo)
	}
	cfg := &packages.Config{Mode: packages.LoadSyntax | packages.NeedModule, Dir: repo, Tests: false, Env: env}
	pkgs, err := packages.Load(cfg, roots...)
	if err != nil {
		die("packages.Load: %v", err)
	}
	if n := packages.PrintErrors(pkgs); n > 0 {
		die("%d package errors: the tree under %s does not type-check", n, repo)
	}
	if len(pkgs) == 0 {
		die("no packages under %s", repo)
	}
	prog, _ := ssautil.Packages(pkgs, ssa.InstantiateGenerics)
	prog.Build()
	p := &Program{Repo: repo, Pkgs: pkgs, Prog: prog, Fset: prog.Fset, Funcs: ssautil.AllFunctions(prog)}
	seen := map[*types.Package]bool{}
	var visit func(tp *types.Package)
	visit = func(tp *types.Package) {
		if seen[tp] {
			return
		}
		seen[tp] = true
		sc := tp.Scope()
		for _, n := range sc.Names() {
			if tn, ok := sc.Lookup(n).(*types.TypeName); ok && !tn.IsAlias() {
				if _, isIface := tn.Type().Underlying().(*types.Interface); isIface {
					continue
				}
				if nt, ok := tn.Type().(*types.Named); ok && nt.TypeParams().Len() > 0 {
					continue
				}
				p.named = append(p.named, tn.Type(), types.NewPointer(tn.Type()))
			}
		}
		for _, imp := range tp.Imports() {
			visit(imp)
		}
	}
	for _, sp := range prog.AllPackages() {
		visit(sp.Pkg)
	}
	// types declared inside function bodies
	var local []*types.TypeName
	defer func() {
		sort.Slice(local, func(i, j int) bool { return local[i].Pos() < local[j].Pos() })
		for _, tn := range local {
			p.named = append(p.named, tn.Type(), types.NewPointer(tn.Type()))
		}
	}()
	packages.Visit(pkgs, nil, func(pk *packages.Package) {
		if pk.TypesInfo == nil {
			return
		}
		for _, o := range pk.TypesInfo.Defs {
			tn, ok := o.(*types.TypeName)
			if !ok || tn.IsAlias() || tn.Parent() == nil || tn.Parent() == tn.Pkg().Scope() {
				continue
			}
			if _, isIface := tn.Type().Underlying().(*types.Interface); isIface {
				continue
			}
			if _, isTP := tn.Type().(*types.TypeParam); isTP {
				continue
			}
			local = append(local, tn)
		}
	})
	return p
}

// typesWithMethod indexes the named types by the names of their methods.
func (p *Program) typesWithMethod(name string) []types.Type {
	if p.byMethod == nil {
		p.byMethod = map[string][]types.Type{}
		for _, t := range p.named {
			ms := p.Prog.MethodSets.MethodSet(t)
			for i := 0; i < ms.Len(); i++ {
				n := ms.At(i).Obj().Name()
				p.byMethod[n] = append(p.byMethod[n], t)
			}
		}
	}
	return p.byMethod[name]
}

// IsStd: the first element of a standard-library import path has no dot.
func IsStd(path string) bool {
	if path == "" {
		return false
	}
	first := path
	if i := strings.Index(path, "/"); i >= 0 {
		first = path[:i]
	}
	return !strings.Contains(first, ".")
}

// PkgOf returns the import path of the package a function belongs to ("" when
// unknown: some synthetic wrappers).
func PkgOf(fn *ssa.Function) string {
	for f := fn; f != nil; f = f.Parent() {
		if f.Pkg != nil {
			return f.Pkg.Pkg.Path()
		}
		if o := f.Object(); o != nil && o.Pkg() != nil {
			return o.Pkg().Path()
		}
		if org := f.Origin(); org != nil && org != f {
			if s := PkgOf(org); s != "" {
				return s
			}
		}
	}
	return ""
}

// Rel strips the module prefix from a package path or a function name.
func Rel(s string) string { return strings.ReplaceAll(s, modPrefix, "") }

func (p *Program) Pos(fn *ssa.Function) string {
	if fn == nil || !fn.Pos().IsValid() {
		return ""
	}
	ps := p.Fset.Position(fn.Pos())
	f := ps.Filename
	if strings.HasPrefix(f, p.Repo+"/") {
		f = f[len(p.Repo)+1:]
	}
	return fmt.Sprintf("%s:%d", f, ps.Line)
}

func (p *Program) PosOf(pos token.Pos) string {
	if !pos.IsValid() {
		return ""
	}
	ps := p.Fset.Position(pos)
	f := ps.Filename
	if strings.HasPrefix(f, p.Repo+"/") {
		f = f[len(p.Repo)+1:]
	}
	return fmt.Sprintf("%s:%d", f, ps.Line)
}

// ---------------------------------------------------------------- graph

type Graph struct {
	Names []string       // node id (1-based) -> name
	Pos   []string       // node id -> source position ("" for synthetic nodes)
	Pkg   []string       // node id -> package path ("" for synthetic nodes)
	ID    map[string]int // name -> id
	Succ  map[int][]int  // adjacency (sorted, duplicate-free)
	Fn    map[int]*ssa.Function
	Site  map[[2]int]string // first source position at which edge (a,b) arises
	b     *builder
}

// finish materialises the sorted adjacency lists (call after the last edge).
func (g *Graph) finish() {
	g.Succ = map[int][]int{}
	for a, m := range g.b.set {
		for c := range m {
			g.Succ[a] = append(g.Succ[a], c)
		}
		sort.Ints(g.Succ[a])
	}
}

func (g *Graph) sites() map[string]string {
	r := map[string]string{}
	for k, v := range g.Site {
		if v != "" {
			r[fmt.Sprintf("%d,%d", k[0], k[1])] = v
		}
	}
	return r
}

func (g *Graph) node(name string) (int, bool) {
	if id, ok := g.ID[name]; ok {
		return id, false
	}
	g.Names = append(g.Names, name)
	g.Pos = append(g.Pos, "")
	g.Pkg = append(g.Pkg, "")
	id := len(g.Names)
	g.ID[name] = id
	return id, true
}

type builder struct {
	p        *Program
	g        *Graph
	set      map[int]map[int]bool
	invoke   map[string]int // interface method key -> node
	dynCalls map[string]int // signature -> node
	taken    map[*ssa.Function]bool
	methods  map[types.Type][]*ssa.Function
	work     []*ssa.Function
	byFn     map[*ssa.Function]int
}

func (b *builder) fnNode(fn *ssa.Function) int {
	if id, ok := b.byFn[fn]; ok {
		return id
	}
	name := Rel(fn.String())
	// two distinct SSA functions may print alike (instantiations, wrappers):
	// keep them distinct so that no edge is lost
	for k := 2; b.g.ID[name] != 0; k++ {
		name = fmt.Sprintf("%s#%d", Rel(fn.String()), k)
	}
	id, _ := b.g.node(name)
	b.byFn[fn] = id
	b.g.Pos[id-1] = b.p.Pos(fn)
	b.g.Pkg[id-1] = PkgOf(fn)
	b.g.Fn[id] = fn
	b.work = append(b.work, fn)
	return id
}

func (b *builder) edge(a, c int, site token.Pos) {
	m := b.set[a]
	if m == nil {
		m = map[int]bool{}
		b.set[a] = m
	}
	if !m[c] {
		m[c] = true
		b.g.Site[[2]int{a, c}] = b.p.PosOf(site)
	}
}

func sigKey(s *types.Signature) string {
	// identical signatures print identically once receiver and parameter names are dropped
	var sb strings.Builder
	sb.WriteString("func(")
	for i := 0; i < s.Params().Len(); i++ {
		if i > 0 {
			sb.WriteString(",")
		}
		if s.Variadic() && i == s.Params().Len()-1 {
			sb.WriteString("...")
		}
		sb.WriteString(types.TypeString(s.Params().At(i).Type(), nil))
	}
	sb.WriteString(")(")
	for i := 0; i < s.Results().Len(); i++ {
		if i > 0 {
			sb.WriteString(",")
		}
		sb.WriteString(types.TypeString(s.Results().At(i).Type(), nil))
	}
	sb.WriteString(")")
	return Rel(sb.String())
}

// methodsOf returns the SSA functions of the method set of t.
func (b *builder) methodsOf(t types.Type) []*ssa.Function {
	if fs, ok := b.methods[t]; ok {
		return fs
	}
	var fs []*ssa.Function
	ms := b.p.Prog.MethodSets.MethodSet(t)
	for i := 0; i < ms.Len(); i++ {
		if f := b.p.Prog.MethodValue(ms.At(i)); f != nil {
			fs = append(fs, f)
		}
	}
	b.methods[t] = fs
	return fs
}

func (b *builder) invokeNode(iface types.Type, m *types.Func) int {
	it, _ := iface.Underlying().(*types.Interface)
	key := "invoke:" + Rel(types.TypeString(iface, nil)) + "." + m.Name()
	if _, named := iface.(*types.Named); !named {
		key = "invoke:" + Rel(m.FullName())
	}
	if id, ok := b.invoke[key]; ok {
		return id
	}
	id, _ := b.g.node(key)
	b.invoke[key] = id
	if it == nil {
		return id
	}
	for _, t := range b.p.typesWithMethod(m.Name()) {
		if !types.Implements(t, it) {
			continue
		}
		ms := b.p.Prog.MethodSets.MethodSet(t)
		sel := ms.Lookup(m.Pkg(), m.Name())
		if sel == nil {
			continue
		}
		if f := b.p.Prog.MethodValue(sel); f != nil {
			b.edge(id, b.fnNode(f), token.NoPos)
		}
	}
	return id
}

func (b *builder) dynNode(sig *types.Signature) int {
	key := "dyn:" + sigKey(sig)
	if id, ok := b.dynCalls[key]; ok {
		return id
	}
	id, _ := b.g.node(key)
	b.dynCalls[key] = id
	return id
}

// body adds the out-edges of one function.
func (b *builder) body(fn *ssa.Function) {
	if IsStd(PkgOf(fn)) || len(fn.Blocks) == 0 {
		return
	}
	me := b.fnNode(fn)
	for _, af := range fn.AnonFuncs {
		b.edge(me, b.fnNode(af), af.Pos())
	}
	var ops []*ssa.Value
	for _, blk := range fn.Blocks {
		for _, ins := range blk.Instrs {
			var callee ssa.Value
			if ci, ok := ins.(ssa.CallInstruction); ok {
				c := ci.Common()
				if c.IsInvoke() {
					b.edge(me, b.invokeNode(c.Value.Type(), c.Method), ins.Pos())
				} else if sf := c.StaticCallee(); sf != nil {
					callee = c.Value
					b.edge(me, b.fnNode(sf), ins.Pos())
				} else if _, isBuiltin := c.Value.(*ssa.Builtin); !isBuiltin {
					if sig, ok := c.Value.Type().Underlying().(*types.Signature); ok {
						b.edge(me, b.dynNode(sig), ins.Pos())
					}
				}
			}
			if mi, ok := ins.(*ssa.MakeInterface); ok {
				t := mi.X.Type()
				if !IsStd(typePkg(t)) {
					for _, f := range b.methodsOf(t) {
						b.edge(me, b.fnNode(f), ins.Pos())
					}
				}
			}
			ops = ins.Operands(ops[:0])
			for _, op := range ops {
				if op == nil || *op == nil {
					continue
				}
				if gl, ok := (*op).(*ssa.Global); ok && gl.Pkg != nil {
					if pk := gl.Pkg.Pkg.Path(); pk == "crypto/rand" || pk == "math/rand" || pk == "math/rand/v2" {
						id, fresh := b.g.node("var:" + pk + "." + gl.Name())
						if fresh {
							b.g.Pkg[id-1] = pk
						}
						b.edge(me, id, ins.Pos())
					}
				}
				var g *ssa.Function
				switch v := (*op).(type) {
				case *ssa.Function:
					g = v
				case *ssa.MakeClosure:
					g, _ = v.Fn.(*ssa.Function)
				}
				if g == nil {
					continue
				}
				b.edge(me, b.fnNode(g), ins.Pos())
				if callee == nil || *op != callee {
					b.taken[g] = true
				}
			}
			// a MakeClosure instruction itself takes the function's value
			if mc, ok := ins.(*ssa.MakeClosure); ok {
				if g, ok := mc.Fn.(*ssa.Function); ok {
					b.taken[g] = true
				}
			}
		}
	}
}

func typePkg(t types.Type) string {
	for {
		switch u := t.(type) {
		case *types.Pointer:
			t = u.Elem()
			continue
		case *types.Named:
			if u.Obj().Pkg() != nil {
				return u.Obj().Pkg().Path()
			}
			return ""
		}
		return ""
	}
}

// BuildGraph builds the graph of every non-std function of the program.
func BuildGraph(p *Program) *Graph {
	g := &Graph{ID: map[string]int{}, Succ: map[int][]int{}, Fn: map[int]*ssa.Function{}, Site: map[[2]int]string{}}
	b := &builder{p: p, g: g, set: map[int]map[int]bool{}, invoke: map[string]int{}, dynCalls: map[string]int{},
		taken: map[*ssa.Function]bool{}, methods: map[types.Type][]*ssa.Function{}, byFn: map[*ssa.Function]int{}}
	// deterministic numbering: non-std functions sorted by name first
	var fns []*ssa.Function
	for fn := range p.Funcs {
		if !IsStd(PkgOf(fn)) {
			fns = append(fns, fn)
		}
	}
	sort.Slice(fns, func(i, j int) bool {
		a, c := fns[i].String(), fns[j].String()
		if a != c {
			return a < c
		}
		return fns[i].Pos() < fns[j].Pos()
	})
	for _, fn := range fns {
		b.fnNode(fn)
	}
	for {
		for len(b.work) > 0 {
			fn := b.work[0]
			b.work = b.work[1:]
			b.body(fn)
		}
		// dynamic calls: signature -> address-taken functions (to a fixpoint:
		// bodies first seen as dynamic targets may take further values)
		var taken []*ssa.Function
		for fn := range b.taken {
			taken = append(taken, fn)
		}
		sort.Slice(taken, func(i, j int) bool { return taken[i].String() < taken[j].String() })
		bySig := map[string][]*ssa.Function{}
		for _, fn := range taken {
			k := "dyn:" + sigKey(fn.Signature)
			bySig[k] = append(bySig[k], fn)
		}
		var keys []string
		for k := range b.dynCalls {
			keys = append(keys, k)
		}
		sort.Strings(keys)
		for _, k := range keys {
			for _, fn := range bySig[k] {
				b.edge(b.dynCalls[k], b.fnNode(fn), token.NoPos)
			}
		}
		if len(b.work) == 0 {
			break
		}
	}
	g.b = b
	g.finish()
	return g
}

// FindFunc returns the node of the function printed as name (module prefix
// stripped), or 0.
func (g *Graph) Find(name string) int { return g.ID[name] }
