// C31 correspondence + oracle: checkTransactionCrossChainUTXO and the
// configuration enforcement of /repo against coq/model/C31_CrossChain.v.
// The decision logic is a finite table: it is swept exhaustively (all 256
// type bytes x all 256 payload versions x all reference-prefix lists up to a
// length over an alphabet x heights around both thresholds).
package main

import (
	"encoding/json"
	"fmt"
	"math/big"
	"os"
	"path/filepath"
	"strings"

	elacommon "github.com/elastos/Elastos.ELA/common"
	"github.com/elastos/Elastos.ELA/common/config"
	"github.com/elastos/Elastos.ELA/common/config/settings"
	"github.com/elastos/Elastos.ELA/core/contract"
	"github.com/elastos/Elastos.ELA/core/transaction"
	common2 "github.com/elastos/Elastos.ELA/core/types/common"
	"github.com/elastos/Elastos.ELA/core/types/interfaces"
	"github.com/elastos/Elastos.ELA/core/types/payload"

	"verifharness/ctxcheck"
	"verifharness/elaenv"
	"verifharness/lib"
)

// the property statement, evaluated directly (independent of the model)
func expected(tt byte, pv byte, prefixes []byte, h, fh, rh uint32) bool {
	hasCC, allCC := false, true
	for _, p := range prefixes {
		if p == byte(contract.PrefixCrossChain) {
			hasCC = true
		} else {
			allCC = false
		}
	}
	if !hasCC || h < fh {
		return true // the policy does not concern this transaction
	}
	if h < rh {
		return false // freeze window: nobody spends cross-chain UTXOs
	}
	if tt == byte(common2.WithdrawFromSideChain) {
		return pv == payload.WithdrawFromSideChainVersion || pv == payload.WithdrawFromSideChainVersionV1 || pv == payload.WithdrawFromSideChainVersionV2
	}
	if tt == byte(common2.ReturnSideChainDepositCoin) {
		return pv == payload.ReturnSideChainDepositCoinVersion && allCC
	}
	return false
}

func newTx(tt byte) interfaces.Transaction {
	tx, err := transaction.GetTransaction(common2.TxType(tt))
	if err != nil || tx == nil {
		// type byte unknown to the factory: a base transaction carrying that type byte
		tx, _ = transaction.GetTransaction(common2.TransferAsset)
	}
	tx.SetTxType(common2.TxType(tt))
	return tx
}

func mkRefs(prefixes []byte) map[*common2.Input]common2.Output {
	refs := map[*common2.Input]common2.Output{}
	for i, p := range prefixes {
		var ph elacommon.Uint168
		ph[0] = p
		ph[1] = byte(i)
		in := &common2.Input{}
		in.Previous.Index = uint16(i)
		refs[in] = common2.Output{ProgramHash: ph, Value: 1}
	}
	return refs
}

// all lists over alphabet of length 0..maxlen, in the order of C31_corr.mixes
func mixes(al []byte, maxlen int) [][]byte {
	var res [][]byte
	var ofLen func(n int) [][]byte
	ofLen = func(n int) [][]byte {
		if n == 0 {
			return [][]byte{{}}
		}
		sub := ofLen(n - 1)
		var r [][]byte
		for _, a := range al {
			for _, s := range sub {
				r = append(r, append([]byte{a}, s...))
			}
		}
		return r
	}
	for n := 0; n <= maxlen; n++ {
		res = append(res, ofLen(n)...)
	}
	return res
}

func ints(b []byte) []int {
	r := make([]int, len(b))
	for i, x := range b {
		r[i] = int(x)
	}
	return r
}

func cps(name string) string {
	var ss []string
	for _, r := range []rune(name) {
		ss = append(ss, fmt.Sprintf("%d", r))
	}
	return lib.CoqList(ss)
}

func isMainName(name string) bool {
	switch strings.ToLower(name) { // the statement: "", "mainnet", "main" in any case
	case "", "mainnet", "main":
		return true
	}
	return false
}

func main() {
	run := lib.ParseArgs()
	elaenv.InitLog(run.Out)
	rng := lib.NewRng(run.Seed)
	st := lib.NewStats("C31", "exhaustive sweep: 256 type bytes (48 factory types, the rest as a base transaction with that type byte) x 256 payload versions x all reference-prefix lists of length<=2 over {cross-chain, standard, multisig} (thorough: length<=3 over 4 prefixes) x heights {fh-1,fh,fh+1,rh-1,rh,rh+1,0} for test and mainnet thresholds (thorough: degenerate threshold pairs too); random cases with 0..8 references of arbitrary prefix and uint32-boundary heights; configuration: enforce functions and the real SetupConfig over net names (case variants, whitespace, unicode, unknown) x local overrides. One evaluation = one call of the real check; nontrivial = the transaction spends a cross-chain UTXO at a height where the policy is active; distinct by (type, version, prefixes, heights)")
	sh := &lib.Shards{Dir: run.Out, Imports: "From ELA Require Import corr.C31_corr.", CaseType: "C31_corr.case",
		Mismatch: "C31_corr.mismatches", Scope: "Z", PerShard: 64}
	id := 0
	next := func() int { id++; return id }

	callCheck := func(tx interfaces.Transaction, tt, pv byte, prefixes []byte, refs map[*common2.Input]common2.Output, h, fh, rh uint32) bool {
		var err error
		panicked, pval := lib.Recover(func() {
			err = transaction.CheckTransactionCrossChainUTXOVerif(tx, refs, h, fh, rh)
		})
		in := func() interface{} {
			return map[string]interface{}{"type": tt, "payloadVersion": pv, "refPrefixes": ints(prefixes), "height": h, "freezeHeight": fh, "restrictionHeight": rh, "accepted": err == nil}
		}
		if panicked {
			st.Fail("c31:panic", fmt.Sprintf("checkTransactionCrossChainUTXO panicked: %v", pval), in())
			return false
		}
		ok := err == nil
		if exp := expected(tt, pv, prefixes, h, fh, rh); exp != ok {
			if ok {
				st.Fail("c31:accepts-forbidden-spend", "a transaction spending a cross-chain UTXO was accepted against the policy (freeze window, or not an allowed withdrawal/legacy deposit return)", in())
			} else {
				st.Fail("c31:rejects-outside-policy", "the policy rejected a transaction it should not concern (before the freeze height, no cross-chain input, or an allowed spender)", in())
			}
		}
		return ok
	}

	// ---------------- wiring of the helper inside ContextCheck (read from the source under test)
	if m, err := ctxcheck.Load(run.Repo, "ContextCheck"); err != nil {
		st.Fail("c31:contextcheck-wiring", "cannot analyse DefaultChecker.ContextCheck: "+err.Error(), nil)
	} else {
		for _, p := range []string{
			m.OnlyReceivers("DefaultChecker", "CoinBaseTransaction"),
			m.Expect("checkTransactionCrossChainUTXO", []string{"t.parameters.Transaction", "references", "t.parameters.BlockHeight",
				"t.parameters.Config.CrossChainUTXOFreezeHeight", "t.parameters.Config.CrossChainUTXORestrictionHeight"},
				[]string{"GetTxReference"}, []string{"SpecialContextCheck", "CheckTransactionFee", "checkTransactionSignature"}),
		} {
			if p != "" {
				st.Fail("c31:contextcheck-wiring", "ContextCheck no longer applies the cross-chain UTXO policy to every non-coinbase transaction before the type-specific checks: "+p, nil)
			}
		}
	}

	// ---------------- exhaustive sweeps
	type hcfg struct{ fh, rh uint32 }
	cfgs := []hcfg{{100, 200}, {config.MainNetCrossChainUTXOFreezeHeight, config.MainNetCrossChainUTXORestrictionHeight}}
	al, maxlen := []byte{0x4b, 0x21, 0x12}, 2
	if run.Thorough() {
		cfgs = append(cfgs, hcfg{150, 150}, hcfg{200, 100}, hcfg{0, 0}, hcfg{0, 5}, hcfg{^uint32(0), ^uint32(0)}, hcfg{5, ^uint32(0)})
		al, maxlen = []byte{0x4b, 0x21, 0x12, 0x1f}, 3
	}
	ms := mixes(al, maxlen)
	var refSets []map[*common2.Input]common2.Output
	for _, m := range ms {
		refSets = append(refSets, mkRefs(m))
	}
	alTerms := make([]string, len(al))
	for i, a := range al {
		alTerms[i] = fmt.Sprintf("%d", a)
	}
	one := big.NewInt(1)
	for ci, hc := range cfgs {
		hs := map[uint32]bool{hc.fh - 1: true, hc.fh: true, hc.fh + 1: true, hc.rh - 1: true, hc.rh: true, hc.rh + 1: true, 0: true}
		if ci > 0 && !run.Thorough() { // second threshold pair in the quick tier: the boundaries only
			hs = map[uint32]bool{hc.fh - 1: true, hc.fh: true, hc.rh - 1: true, hc.rh: true}
		}
		var hl []uint32
		for h := range hs {
			hl = append(hl, h)
		}
		// deterministic order
		for i := range hl {
			for j := i + 1; j < len(hl); j++ {
				if hl[j] < hl[i] {
					hl[i], hl[j] = hl[j], hl[i]
				}
			}
		}
		for _, h := range hl {
			for t := 0; t < 256; t++ {
				if ci > 0 && !run.Thorough() {
					// quick tier, second threshold pair: the factory's types and every 16th other byte
					if _, err := transaction.GetTransaction(common2.TxType(t)); err != nil && t%16 != 5 {
						continue
					}
				}
				tx := newTx(byte(t))
				type runT struct {
					lo, hi int
					mask   *big.Int
				}
				var runs []runT
				for pv := 0; pv < 256; pv++ {
					tx.SetPayloadVersion(byte(pv))
					mask := new(big.Int)
					for mi, m := range ms {
						ok := callCheck(tx, byte(t), byte(pv), m, refSets[mi], h, hc.fh, hc.rh)
						if ok {
							mask.Or(mask, new(big.Int).Lsh(one, uint(mi)))
						}
						active := h >= hc.fh
						hasCC := false
						for _, p := range m {
							hasCC = hasCC || p == 0x4b
						}
						st.Evals++
						if active && hasCC {
							st.Hist["sweep:policy-active"]++
						} else {
							st.Hist["sweep:policy-inactive"]++
						}
					}
					if n := len(runs); n > 0 && runs[n-1].mask.Cmp(mask) == 0 {
						runs[n-1].hi = pv
					} else {
						runs = append(runs, runT{pv, pv, mask})
					}
				}
				var rt []string
				for _, r := range runs {
					rt = append(rt, fmt.Sprintf("(%d, %d, %s)", r.lo, r.hi, r.mask.String()))
				}
				k := next()
				sh.Add(fmt.Sprintf("CSweep %d %d %d %d %d %s %d%%N %s", k, t, h, hc.fh, hc.rh, lib.CoqList(alTerms), maxlen, lib.CoqList(rt)))
				st.LogCase(run.Out, k, map[string]interface{}{"op": "sweep", "type": t, "height": h, "freezeHeight": hc.fh, "restrictionHeight": hc.rh,
					"alphabet": al, "maxlen": maxlen, "runs": rt})
				st.Hist["sweep-rows"]++
			}
		}
	}
	// distinct non-trivial sweep points: every (type, version, mix with a cross-chain ref, active height) is a distinct input
	sweepDistinct := st.Hist["sweep:policy-active"]
	st.Sample(map[string]interface{}{"op": "sweep", "rows": st.Hist["sweep-rows"], "calls": st.Evals, "mixes": len(ms)})

	// ---------------- random single cases
	prefPool := []byte{0x4b, 0x4b, 0x21, 0x12, 0x1f, 0x3f, 0x67, 0x00, 0x4a, 0x4c}
	for i := 0; i < run.N(1000, 15000); i++ {
		tt := byte(rng.U64())
		if rng.Chance(60) {
			tt = byte(rng.PickU64(7, 0x51, 2, 8, 0x50, 0x52, 6))
		}
		pv := byte(rng.U64())
		if rng.Chance(70) {
			pv = byte(rng.Intn(5))
		}
		n := rng.Intn(9)
		prefixes := make([]byte, n)
		for j := range prefixes {
			prefixes[j] = prefPool[rng.Intn(len(prefPool))]
			if rng.Chance(5) {
				prefixes[j] = byte(rng.U64())
			}
		}
		if tt == 0x51 && rng.Chance(40) {
			for j := range prefixes {
				prefixes[j] = 0x4b
			}
		}
		var h, fh, rh uint32
		switch rng.Intn(5) {
		case 0:
			fh, rh = config.MainNetCrossChainUTXOFreezeHeight, config.MainNetCrossChainUTXORestrictionHeight
			h = fh - 2 + uint32(rng.Intn(int(rh-fh)+5))
		case 1:
			fh = uint32(rng.U64())
			rh = fh + uint32(rng.Intn(1000))
			h = fh - 3 + uint32(rng.Intn(1010))
		case 2:
			fh, rh, h = uint32(rng.PickU64(0, 1, 1<<32-1, 1<<32-2, 1<<31)), uint32(rng.PickU64(0, 1, 1<<32-1, 1<<32-2, 1<<31)), uint32(rng.PickU64(0, 1, 1<<32-1, 1<<32-2, 1<<31))
		default:
			fh, rh, h = uint32(rng.Intn(300)), uint32(rng.Intn(300)), uint32(rng.Intn(300))
		}
		tx := newTx(tt)
		tx.SetPayloadVersion(pv)
		ok := callCheck(tx, tt, pv, prefixes, mkRefs(prefixes), h, fh, rh)
		k := next()
		sh.Add(fmt.Sprintf("CCheck %d %d %d %s %d %d %d %s", k, tt, pv, lib.CoqBytes(prefixes), h, fh, rh, lib.CoqBool(ok)))
		in := map[string]interface{}{"op": "check", "type": tt, "payloadVersion": pv, "refPrefixes": ints(prefixes), "height": h, "freezeHeight": fh, "restrictionHeight": rh, "accepted": ok}
		st.LogCase(run.Out, k, in)
		hasCC := false
		for _, p := range prefixes {
			hasCC = hasCC || p == 0x4b
		}
		st.Count(fmt.Sprintf("%d|%d|%v|%d|%d|%d", tt, pv, prefixes, h, fh, rh), hasCC && h >= fh, "random-check")
		if i < 2 {
			st.Sample(in)
		}
	}

	// ---------------- configuration enforcement
	names := []string{"", "mainnet", "MainNet", "MAINNET", "mAiNnEt", "main", "Main", "MAIN", "testnet", "TestNet", "test", "TEST",
		"regnet", "RegNet", "regtest", "reg", "REG", "private-net", "mainnet2", "mai", "mainne", " mainnet", "mainnet ", "main net",
		"mainnet\n", "\tmain", "MA\u0130NNET", "ma\u0130n", "Kainnet", "mainnet\u0000", "mainé", "mäinnet", "devnet", "0", "null"}
	for i := 0; i < run.N(40, 2000); i++ {
		base := names[rng.Intn(12)]
		b := []rune(base)
		switch rng.Intn(4) {
		case 0:
			if len(b) > 0 {
				j := rng.Intn(len(b))
				b[j] = []rune(strings.ToUpper(string(b[j])))[0]
			}
		case 1:
			b = append(b, rune(rng.PickU64(' ', 'x', 0x130, '1')))
		case 2:
			if len(b) > 0 {
				b = b[:len(b)-1]
			}
		default:
			b = []rune(string(rng.Bytes(rng.Intn(6))))
			for j := range b {
				if b[j] == 0xFFFD {
					b[j] = 'z'
				}
			}
		}
		names = append(names, string(b))
	}
	overrides := [][2]uint32{{0, 0}, {1, 2}, {config.MainNetCrossChainUTXOFreezeHeight, config.MainNetCrossChainUTXORestrictionHeight},
		{^uint32(0), ^uint32(0)}, {5000000, 1}, {2256110 + 1, 2256724 - 1}}
	emitEnforce := func(how, name string, cfh, crh, ofh, orh uint32) {
		k := next()
		sh.Add(fmt.Sprintf("CEnforce %d %s %d %d %d %d", k, cps(name), cfh, crh, ofh, orh))
		in := map[string]interface{}{"op": how, "activeNet": name, "configFreeze": cfh, "configRestriction": crh, "freeze": ofh, "restriction": orh}
		st.LogCase(run.Out, k, in)
		st.Count(fmt.Sprintf("%s|%q|%d|%d", how, name, cfh, crh), true, how)
		if isMainName(name) {
			// the coordinated values are written out: a changed constant is a changed policy
			if ofh != 2256110 || orh != 2256724 {
				st.Fail("c31:mainnet-heights-not-forced", "mainnet node ends up with cross-chain UTXO heights other than the coordinated constants", in)
			}
		} else if ofh != ^uint32(0) || orh != ^uint32(0) {
			st.Fail("c31:other-net-not-disabled", "a non-mainnet network ends up with the cross-chain UTXO policy enabled", in)
		}
		if len(st.Samples) < 5 {
			st.Sample(in)
		}
	}
	for _, name := range names {
		for _, ov := range overrides {
			c := config.GetDefaultParams()
			c.ActiveNet = name
			c.CrossChainUTXOFreezeHeight, c.CrossChainUTXORestrictionHeight = ov[0], ov[1]
			settings.EnforceCrossChainUTXORestrictionHeightsVerif(c)
			emitEnforce("enforce", name, ov[0], ov[1], c.CrossChainUTXOFreezeHeight, c.CrossChainUTXORestrictionHeight)
		}
	}
	// the network switches themselves (config.go): TestNet()/RegNet() applied to
	// the defaults, as SetupConfig and the tools (dns seed, chain generator) do,
	// must leave the policy disabled before any enforcement runs
	for _, sw := range []struct {
		name string
		f    func(*config.Configuration) *config.Configuration
	}{{"testnet", (*config.Configuration).TestNet}, {"regnet", (*config.Configuration).RegNet}} {
		for _, ov := range overrides {
			c := config.GetDefaultParams()
			c.CrossChainUTXOFreezeHeight, c.CrossChainUTXORestrictionHeight = ov[0], ov[1]
			c = sw.f(c)
			emitEnforce("netswitch", sw.name, ov[0], ov[1], c.CrossChainUTXOFreezeHeight, c.CrossChainUTXORestrictionHeight)
		}
	}
	// through the real SetupConfig with a configuration file
	origDefault, origParams := config.DefaultParams, config.Parameters
	cfgDir := filepath.Join(run.Out, "cfg")
	os.MkdirAll(cfgDir, 0o755)
	nSetup := 0
	for ni, name := range names {
		if strings.ContainsRune(name, 0) {
			continue
		}
		for oi, ov := range overrides {
			if !run.Thorough() && ni >= 30 && (ni+oi)%3 != 0 {
				continue
			}
			file := map[string]interface{}{"Configuration": map[string]interface{}{
				"ActiveNet": name, "CrossChainUTXOFreezeHeight": ov[0], "CrossChainUTXORestrictionHeight": ov[1]}}
			if (ni+oi)%4 == 3 { // heights left to the defaults
				file = map[string]interface{}{"Configuration": map[string]interface{}{"ActiveNet": name}}
			}
			b, _ := json.Marshal(file)
			path := filepath.Join(cfgDir, fmt.Sprintf("config_%d_%d.json", ni, oi))
			if err := os.WriteFile(path, b, 0o600); err != nil {
				panic(err)
			}
			config.DefaultParams = *config.GetDefaultParams()
			config.DefaultParams.Conf = path
			var out *config.Configuration
			panicked, pv := lib.Recover(func() { out = settings.NewSettings().SetupConfig(false, "", "") })
			if panicked {
				st.Fail("c31:setupconfig-panic", fmt.Sprintf("SetupConfig panicked: %v", pv), map[string]interface{}{"activeNet": name})
				continue
			}
			if out.ActiveNet != name {
				// the file was not applied as written (should not happen): report rather than compare
				st.Fail("c31:setupconfig-name", "SetupConfig did not take ActiveNet from the file", map[string]interface{}{"activeNet": name, "got": out.ActiveNet})
				continue
			}
			emitEnforce("SetupConfig", name, ov[0], ov[1], out.CrossChainUTXOFreezeHeight, out.CrossChainUTXORestrictionHeight)
			nSetup++
		}
	}
	config.DefaultParams, config.Parameters = origDefault, origParams
	os.RemoveAll(cfgDir)
	st.Extra["setupconfig_runs"] = nSetup
	st.Extra["sweep_policy_active_points"] = sweepDistinct

	st.Traces = st.Evals
	sh.Flush()
	st.Write(run.Out)
	// distinct_nontrivial: sweep points are pairwise distinct inputs
	addDistinct(run.Out, sweepDistinct)
}

// addDistinct adds the number of (pairwise distinct) non-trivial sweep points to
// the distinct counter written by Stats.Write.
func addDistinct(dir string, n int) {
	p := filepath.Join(dir, "stats.json")
	b, err := os.ReadFile(p)
	if err != nil {
		panic(err)
	}
	var m map[string]interface{}
	if err := json.Unmarshal(b, &m); err != nil {
		panic(err)
	}
	m["distinct_nontrivial"] = int(m["distinct_nontrivial"].(float64)) + n
	b, _ = json.MarshalIndent(m, "", " ")
	os.WriteFile(p, b, 0o644)
}
