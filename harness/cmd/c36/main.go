// C36 — RPC access control and service levels are enforced.
//
// (a) correspondence of the access decision: httptest requests with chosen
// RemoteAddr / whitelist / credentials / Authorization headers / method /
// content type against the real servers/httpjsonrpc.Handle and
// utils/http/jsonrpc.(*Server).ServeHTTP; observable = HTTP status; the
// oracles (SplitHostPort, ParseIP, IsLoopback, String, base64) are evaluated
// here with the standard library and passed to the model with each case.
// Property oracle: status 200 only if the address is loopback or whitelisted
// and the first Authorization value equals the configured credential.
//
// (b) translation: the translator regenerates coq/gen/C36_handlers.v (registered
// methods, their leading service-level gate, call graph within servers/,
// privileged sinks); the statement of C36_all_privileged_gated and
// C36_sink_reaching_handlers_gated is re-evaluated here so that a failure
// names the method and the path. The gate itself is exercised by calling the
// 14 classified handlers under each configured service level.
package main

import (
	"encoding/base64"
	"encoding/json"
	"fmt"
	"net"
	"net/http"
	"net/http/httptest"
	"os"
	"os/exec"
	"path/filepath"
	"sort"
	"strings"

	"github.com/elastos/Elastos.ELA/common/config"
	"github.com/elastos/Elastos.ELA/servers"
	srverr "github.com/elastos/Elastos.ELA/servers/errors"
	"github.com/elastos/Elastos.ELA/servers/httpjsonrpc"
	"github.com/elastos/Elastos.ELA/utils/http/jsonrpc"

	"verifharness/elaenv"
	"verifharness/lib"
	"verifharness/xgraph"
)

type handlerFact struct {
	Method  string `json:"method"`
	Node    int    `json:"node"`
	Handler string `json:"handler"`
	Gate    int    `json:"gate"`
	At      string `json:"at"`
}

type facts struct {
	Names    []string          `json:"names"`
	Succ     map[int][]int     `json:"succ"`
	Sites    map[string]string `json:"sites"`
	Handlers []handlerFact     `json:"handlers"`
	Sinks    map[int]int       `json:"sinks"`
}

// the specification table (mirrors model/C36_Access.v [required])
var required = map[string]int{
	"setloglevel": 0, "togglemining": 0,
	"createauxblock": 1, "submitauxblock": 1, "discretemining": 1,
	"sendrawtransaction": 2, "submitsidechainillegaldata": 2, "estimatesmartfee": 2,
	"getamountbyinputs": 3, "getutxosbyamount": 3, "listunspent": 3,
	"createrawtransaction": 3, "decoderawtransaction": 3, "signrawtransactionwithkey": 3,
}

var levelNames = []string{"ConfigurationPermitted", "MiningPermitted", "TransactionPermitted", "WalletPermitted", "QueryOnly"}
var classNames = []string{"configuration", "mining", "transaction", "wallet"}

// the classified handlers as Go values (compile-time tie to package servers)
var gated = map[string]func(servers.Params) map[string]interface{}{
	"setloglevel": servers.SetLogLevel, "togglemining": servers.ToggleMining,
	"createauxblock": servers.CreateAuxBlock, "submitauxblock": servers.SubmitAuxBlock, "discretemining": servers.DiscreteMining,
	"sendrawtransaction": servers.SendRawTransaction, "submitsidechainillegaldata": servers.SubmitSidechainIllegalData, "estimatesmartfee": servers.EstimateSmartFee,
	"getamountbyinputs": servers.GetAmountByInputs, "getutxosbyamount": servers.GetUTXOsByAmount, "listunspent": servers.ListUnspent,
	"createrawtransaction": servers.CreateRawTransaction, "decoderawtransaction": servers.DecodeRawTransaction, "signrawtransactionwithkey": servers.SignRawTransactionWithKey,
}

func coqStr(s string) string { return "\"" + strings.ReplaceAll(s, "\"", "\"\"") + "\"" }
func coqStrList(xs []string) string {
	var o []string
	for _, x := range xs {
		o = append(o, coqStr(x))
	}
	return lib.CoqList(o)
}

func extractC36(run *lib.Run) (*facts, string, error) {
	root := xgraph.Root()
	env := append(os.Environ(), "GOFLAGS=-mod=mod", "GOPROXY=off", "GOSUMDB=off", "GOTOOLCHAIN=local", "CGO_ENABLED=0")
	bin := filepath.Join(run.Out, "extract.bin")
	build := exec.Command("go", "build", "-o", bin, ".")
	build.Dir, build.Env = filepath.Join(root, "harness", "extract"), env
	if out, err := build.CombinedOutput(); err != nil {
		return nil, string(out), fmt.Errorf("building the translator: %v", err)
	}
	js := filepath.Join(run.Out, "c36_facts.json")
	cmd := exec.Command(bin, "--prop", "c36", "--repo", run.Repo, "--coq", filepath.Join(root, "coq", "gen", "C36_handlers.v"), "--json", js)
	cmd.Env = env
	out, err := cmd.CombinedOutput()
	if err != nil {
		return nil, string(out), fmt.Errorf("translator failed: %v", err)
	}
	b, err := os.ReadFile(js)
	if err != nil {
		return nil, string(out), err
	}
	f := &facts{}
	return f, string(out), json.Unmarshal(b, f)
}

func main() {
	run := lib.ParseArgs()
	elaenv.InitLog(run.Out)
	rng := lib.NewRng(run.Seed)
	st := lib.NewStats("C36", "access decision: exhaustive grid of remote addresses (IPv4/IPv6 loopback, private, public, v4-mapped, malformed, missing port) x whitelists (empty, exact, other, wildcard 0.0.0.0, non-canonical spelling) x credentials (none, user+pass, user only, pass only) x Authorization header variants (absent, exact, wrong password, lower-case scheme, trailing space, two values in both orders) x method x content type, against both servers; static: every registered method. nontrivial = request dispatched / gate evaluated / registered method; distinct by canonical case")
	sh := &lib.Shards{Dir: run.Out, Imports: "From ELA Require Import corr.C36_corr.\nLocal Open Scope string_scope.", CaseType: "C36_corr.case",
		Mismatch: "C36_corr.mismatches", Scope: "N", PerShard: 400}
	id := 0
	next := func() int { id++; return id }

	// ------------------------------------------------------------ (b) static part
	f, out, err := extractC36(run)
	if err != nil {
		fmt.Fprintln(os.Stderr, out)
		fmt.Fprintln(os.Stderr, "C36: translator failed (fail closed):", err)
		os.Exit(3)
	}
	fmt.Print(out)
	name := func(n int) string {
		if n >= 1 && n <= len(f.Names) {
			return f.Names[n-1]
		}
		return fmt.Sprint("#", n)
	}
	registered := map[string]bool{}
	ungated := 0
	for _, h := range f.Handlers {
		registered[h.Method] = true
		st.Count("method:"+h.Method, true, "static:registered-method")
		if l, ok := required[h.Method]; ok && (h.Gate < 0 || h.Gate > l) {
			ungated++
			st.Fail("ungated:"+h.Method, fmt.Sprintf("privileged method %q (class %s) is served by %s without a leading service-level check at least as strict as its class (leading gate: %d, -1 = none)", h.Method, classNames[l], h.Handler, h.Gate),
				map[string]interface{}{"method": h.Method, "handler": h.Handler, "registered_at": h.At, "required_level": l, "leading_gate": h.Gate})
		}
		// sinks reachable within servers/
		parent := map[int]int{h.Node: 0}
		queue := []int{h.Node}
		for len(queue) > 0 {
			x := queue[0]
			queue = queue[1:]
			for _, y := range f.Succ[x] {
				if _, ok := parent[y]; !ok {
					parent[y] = x
					queue = append(queue, y)
				}
			}
		}
		var reached []int
		for n := range parent {
			if _, ok := f.Sinks[n]; ok {
				reached = append(reached, n)
			}
		}
		sort.Ints(reached)
		for _, s := range reached {
			l := f.Sinks[s]
			if h.Gate >= 0 && h.Gate <= l {
				continue
			}
			var rev []int
			for n := s; n != 0; n = parent[n] {
				rev = append(rev, n)
			}
			var path []string
			for i := len(rev) - 1; i >= 0; i-- {
				step := name(rev[i])
				if i > 0 {
					if at := f.Sites[fmt.Sprintf("%d,%d", rev[i], rev[i-1])]; at != "" {
						step += " @" + at
					}
				}
				path = append(path, step)
			}
			ungated++
			st.Fail("ungated-sink:"+h.Method, fmt.Sprintf("method %q reaches the %s sink %s without a leading service-level check at least as strict (leading gate: %d, -1 = none)", h.Method, classNames[l], name(s), h.Gate),
				map[string]interface{}{"method": h.Method, "handler": h.Handler, "registered_at": h.At, "sink": name(s), "sink_level": l, "leading_gate": h.Gate, "path": path})
			break
		}
	}
	for m := range required {
		if !registered[m] {
			st.Fail("spec-unregistered:"+m, "method named in the specification table is not registered (renamed?)", map[string]interface{}{"method": m})
		}
	}
	st.Extra["registered_methods"] = len(f.Handlers)
	st.Extra["sinks"] = len(f.Sinks)
	st.Extra["static_violations"] = ungated

	// ------------------------------------------------------------ gate semantics on the real handlers
	saved := servers.ChainParams
	for _, m := range lib.SortedKeys(required) {
		for cfg, cfgName := range levelNames {
			params := config.GetDefaultParams()
			params.RPCServiceLevel = cfgName
			servers.ChainParams = params
			var res map[string]interface{}
			panicked, _ := lib.Recover(func() { res = gated[m](servers.Params{}) })
			refused := !panicked && res != nil && res["Error"] == srverr.InvalidMethod && strings.Contains(fmt.Sprint(res["Result"]), "out of service level")
			k := next()
			sh.Add(fmt.Sprintf("CGate %d %d %d %s", k, required[m], cfg, lib.CoqBool(!refused)))
			st.LogCase(run.Out, k, map[string]interface{}{"op": "gate", "method": m, "class_level": required[m], "configured": cfgName, "refused": refused})
			st.Count(fmt.Sprintf("gate:%s:%d", m, cfg), true, "gate")
			if cfg > required[m] && !refused {
				st.Fail("gate-open:"+m, "privileged handler ran although the configured service level forbids its class", map[string]interface{}{"method": m, "class": classNames[required[m]], "configured": cfgName})
			}
		}
	}
	servers.ChainParams = saved

	// ------------------------------------------------------------ (a) access decision grid
	remotes := []string{"127.0.0.1:4000", "[::1]:4000", "127.8.9.10:1", "10.0.0.9:4000", "8.8.8.8:53", "[2001:db8::1]:443",
		"[::ffff:10.0.0.9]:80", "[::ffff:127.0.0.1]:80", "10.0.0.99:4000", "bogus:1", "256.1.1.1:80", ":80", "", "0.0.0.0:1", "[fe80::1%eth0]:80", "010.0.0.9:80"}
	whitelists := [][]string{nil, {"10.0.0.9"}, {"10.0.0.8"}, {"0.0.0.0"}, {"8.8.4.4", "2001:db8::1"}, {"2001:DB8:0::1"}, {"10.0.0.09", "::ffff:10.0.0.9"}, {"10.0.0.8", "0.0.0.0"}, {""}, {"localhost", "10.0.0.0/8"}}
	type cred struct{ u, p string }
	creds := []cred{{"", ""}, {"alice", "secret"}, {"alice", ""}, {"", "secret"}}
	basic := func(u, p string) string { return "Basic " + base64.StdEncoding.EncodeToString([]byte(u+":"+p)) }
	hdrVariants := func(c cred) [][]string {
		good := basic(c.u, c.p)
		return [][]string{nil, {good}, {basic(c.u, c.p+"x")}, {"basic" + good[5:]}, {good + " "}, {good, "junk"}, {"junk", good}, {""}, {basic("", "")}}
	}
	type reqShape struct {
		method, ctype string
	}
	shapes := []reqShape{{"POST", "application/json"}, {"POST", "text/plain; charset=utf-8"}, {"GET", "application/json"}, {"POST", "text/html"}, {"POST", ""}}

	savedParams := config.Parameters
	body := `{"jsonrpc":"2.0","method":"verifnosuchmethod","params":{},"id":1}`
	count := 0
	runReq := func(remote string, wl []string, c cred, hdrs []string, shp reqShape, both bool, corpus string) {
		// oracles
		var hostO string
		hostOK := false
		if h, _, err := net.SplitHostPort(remote); err == nil {
			hostO, hostOK = h, true
		}
		ipO := "None"
		var ip net.IP
		if hostOK {
			if ip = net.ParseIP(hostO); ip != nil {
				ipO = fmt.Sprintf("(Some (%s, %s))", lib.CoqBool(ip.IsLoopback()), coqStr(ip.String()))
			}
		}
		isPost := shp.method == "POST"
		ctOK := strings.HasPrefix(shp.ctype, "application/json") || strings.HasPrefix(shp.ctype, "text/plain")
		mk := func() *http.Request {
			r := httptest.NewRequest(shp.method, "http://node/", strings.NewReader(body))
			r.RemoteAddr = remote
			if shp.ctype != "" {
				r.Header.Set("Content-Type", shp.ctype)
			}
			for _, h := range hdrs {
				r.Header.Add("Authorization", h)
			}
			return r
		}
		// server 1: servers/httpjsonrpc.Handle (the node's RPC endpoint)
		p := config.GetDefaultParams()
		p.RpcConfiguration.WhiteIPList = wl
		p.RpcConfiguration.User, p.RpcConfiguration.Pass = c.u, c.p
		config.Parameters = p
		w1 := httptest.NewRecorder()
		httpjsonrpc.Handle(w1, mk())
		// server 2: utils/http/jsonrpc
		s2 := jsonrpc.NewServer(&jsonrpc.Config{User: c.u, Pass: c.p, WhiteList: wl})
		w2 := httptest.NewRecorder()
		s2.ServeHTTP(w2, mk())
		for i, code := range []int{w1.Code, w2.Code} {
			if i == 1 && !both {
				continue
			}
			k := next()
			hostCoq := "None"
			if hostOK {
				hostCoq = "(Some " + coqStr(hostO) + ")"
			}
			sh.Add(fmt.Sprintf("CReq %d %s %s %s %s %s %s %s %s %s %s %d", k, coqStr(remote), hostCoq, ipO, coqStrList(wl), coqStr(c.u), coqStr(c.p),
				coqStr(basic(c.u, c.p)), lib.CoqBool(isPost), lib.CoqBool(ctOK), coqStrList(hdrs), code))
			srv := []string{"httpjsonrpc.Handle", "jsonrpc.Server"}[i]
			st.LogCase(run.Out, k, map[string]interface{}{"op": "request", "server": srv, "corpus": corpus, "remote": remote, "whitelist": wl, "user": c.u, "pass": c.p,
				"authorization": hdrs, "method": shp.method, "content_type": shp.ctype, "status": code})
			st.Count(fmt.Sprintf("req:%s|%v|%s:%s|%v|%s|%s|%d", remote, wl, c.u, c.p, hdrs, shp.method, shp.ctype, i), code == 200, "request:"+srv)
			// property oracle, evaluated independently of the model
			if code == 200 {
				addrOK := ip != nil && ip.IsLoopback()
				for _, e := range wl {
					if e == "0.0.0.0" || (ip != nil && e == ip.String()) {
						addrOK = addrOK || ip != nil
					}
				}
				credOK := (c.u == "" && c.p == "") || (len(hdrs) > 0 && hdrs[0] == basic(c.u, c.p))
				if !addrOK || !credOK {
					st.Fail("served-unauthorised:"+srv, "request served although the address is not loopback/whitelisted or the Authorization header is not the configured credential",
						map[string]interface{}{"server": srv, "remote": remote, "whitelist": wl, "user": c.u, "pass": c.p, "authorization": hdrs, "method": shp.method, "content_type": shp.ctype, "status": code})
				}
			}
		}
		count++
	}
	quick := !run.Thorough()
	for ri, remote := range remotes {
		for wi, wl := range whitelists {
			for _, c := range creds {
				for hi, hdrs := range hdrVariants(c) {
					for si, shp := range shapes {
						// quick tier: full address x whitelist x credential x header grid for the well-formed
						// request shape, the other shapes on a rotating subset; thorough: everything
						if quick && si > 0 && (ri+wi+hi)%5 != si {
							continue
						}
						if quick && run.Scale <= 1 && si > 0 && ri%3 != 0 {
							continue
						}
						// whitelists 8 and 9 hold entries that are not IP literals: always run
						if quick && (ri >= 13 && ri != 15 || wi >= 6 && wi < 8) && (ri+wi+hi)%7 != 0 {
							continue
						}
						unparsable := false
						if h, _, err := net.SplitHostPort(remote); err != nil || net.ParseIP(h) == nil {
							unparsable = true
						}
						runReq(remote, wl, c, hdrs, shp, !quick || (ri+wi+hi)%4 == 0 || (unparsable && wi >= 6), "")
					}
				}
			}
		}
	}
	// random long tail: random IPv4/IPv6 remotes against whitelists containing their canonical / non-canonical spellings
	for i := 0; i < run.N(200, 20000); i++ {
		var ip net.IP
		if rng.Bool() {
			ip = net.IP(rng.Bytes(4))
		} else {
			ip = net.IP(rng.Bytes(16))
		}
		remote := net.JoinHostPort(ip.String(), "9")
		wl := [][]string{{ip.String()}, {strings.ToUpper(ip.String())}, {net.IP(rng.Bytes(4)).String()}, nil}[rng.Intn(4)]
		c := creds[rng.Intn(len(creds))]
		hv := hdrVariants(c)
		runReq(remote, wl, c, hv[rng.Intn(len(hv))], shapes[0], true, "random")
	}
	config.Parameters = savedParams
	st.Extra["requests"] = count
	st.Traces = st.Evals
	sh.Flush()
	st.Write(run.Out)
}
