// C16 correspondence + oracle: a real ffldb (temp dir) driven through the
// public database.DB API against coq/model/C16_Ffldb.v (layered model, layer
// dumps through the verif hook) and against an independent in-memory nested
// ordered-map replay (the property oracle).
package main

import (
	"bytes"
	"errors"
	"fmt"
	"os"
	"path/filepath"
	"sort"
	"strings"
	"time"

	"github.com/btcsuite/btcd/wire"
	"github.com/elastos/Elastos.ELA/database"
	"github.com/elastos/Elastos.ELA/database/ffldb"

	"verifharness/elaenv"
	"verifharness/lib"
)

// ---------------------------------------------------------------- oracle: nested ordered maps

type obucket struct {
	keys map[string][]byte
	subs map[string]*obucket
}

func newBucket() *obucket { return &obucket{keys: map[string][]byte{}, subs: map[string]*obucket{}} }
func (b *obucket) clone() *obucket {
	n := newBucket()
	for k, v := range b.keys {
		n.keys[k] = v
	}
	for k, s := range b.subs {
		n.subs[k] = s.clone()
	}
	return n
}
func (b *obucket) at(path []string) *obucket {
	for _, p := range path {
		if b = b.subs[p]; b == nil {
			return nil
		}
	}
	return b
}
func sortedKeys(m map[string][]byte) []string {
	ks := make([]string, 0, len(m))
	for k := range m {
		ks = append(ks, k)
	}
	sort.Strings(ks)
	return ks
}
func (b *obucket) subNames() []string {
	ks := make([]string, 0, len(b.subs))
	for k := range b.subs {
		ks = append(ks, k)
	}
	sort.Strings(ks)
	return ks
}

type entry struct {
	k string
	v []byte // nil for a nested bucket
}

func (b *obucket) entries() []entry {
	var es []entry
	for _, k := range sortedKeys(b.keys) {
		es = append(es, entry{k, b.keys[k]})
	}
	for _, k := range b.subNames() {
		es = append(es, entry{k, nil})
	}
	return es
}

// ---------------------------------------------------------------- codes and printers

func code(err error) int {
	if err == nil {
		return 0
	}
	var de database.Error
	if errors.As(err, &de) {
		switch de.ErrorCode {
		case database.ErrTxNotWritable:
			return 1
		case database.ErrKeyRequired:
			return 2
		case database.ErrBucketNameRequired:
			return 3
		case database.ErrBucketExists:
			return 4
		case database.ErrBucketNotFound:
			return 5
		case database.ErrIncompatibleValue:
			return 6
		case database.ErrTxClosed:
			return 7
		}
	}
	return 9
}

func cb(b []byte) string { return lib.CoqBytes(b) }
func cs(s string) string { return lib.CoqBytes([]byte(s)) }
func cob(b []byte) string {
	if b == nil {
		return "None"
	}
	return "(Some " + cb(b) + ")"
}
func cpath(p []string) string {
	xs := make([]string, len(p))
	for i, s := range p {
		xs[i] = cs(s)
	}
	return lib.CoqList(xs)
}
func ckvs(kvs []ffldb.VerifKV) string {
	xs := make([]string, len(kvs))
	for i, e := range kvs {
		xs[i] = fmt.Sprintf("(%s,%s)", cb(e.Key), cb(e.Value))
	}
	return lib.CoqList(xs)
}
func centries(es []entry) string {
	xs := make([]string, len(es))
	for i, e := range es {
		xs[i] = fmt.Sprintf("(%s,%s)", cs(e.k), cob(e.v))
	}
	return lib.CoqList(xs)
}
func entriesEq(a, b []entry) bool {
	if len(a) != len(b) {
		return false
	}
	for i := range a {
		if a[i].k != b[i].k || (a[i].v == nil) != (b[i].v == nil) || !bytes.Equal(a[i].v, b[i].v) {
			return false
		}
	}
	return true
}

// ---------------------------------------------------------------- one case

type otx struct {
	h        int
	writable bool
	tx       database.Tx
	root     *obucket // the oracle's private copy
}

type runner struct {
	st        *lib.Stats
	rng       *lib.Rng
	dir       string
	db        database.DB
	committed *obucket
	ops       []string
	log       []interface{}
	nextH     int
	nontriv   bool
	cfgName   string
	flushes   int
	force     *forced // corpus cases: the next action is scripted instead of drawn
	// DeleteBucket walks the pending-keys treap with a cursor while deleting from
	// it without ForceReseek (deleteKey(key, false)); keys of the deleted bucket
	// that were pending in the same transaction can survive as unreachable raw
	// keys (bucket ids are never reused, so no read can see them).  The model
	// deletes them; after such a DeleteBucket the raw layer dumps are no longer
	// compared for this history (all API observations still are).
	noLayers   bool
	suppressed int
}

// forced scripts one action (x selects the kind like the random draw does).
type forced struct {
	x     int
	path  []string
	k     string
	v     []byte
	n     string
	ifNot bool
	mode  int
	sk    []byte
	mask  []bool
}

func (r *runner) emit(coq string, human ...interface{}) {
	if coq != "" {
		r.ops = append(r.ops, coq)
	}
	r.log = append(r.log, human)
}
func (r *runner) fail(sig, what string, extra interface{}) {
	r.st.Fail(sig, what, map[string]interface{}{"cfg": r.cfgName, "ops": r.log, "detail": extra})
}

var names = []string{"a", "b", "c"}
var keyspace = []string{"1", "2", "3", "11", "2\x00", "\xff"}

func (r *runner) setCfg() {
	var max uint64
	var iv time.Duration
	always := false
	switch r.rng.Intn(5) {
	case 0:
		r.cfgName, max, iv = "default", 20*1024*1024, 300*time.Second
	case 1:
		r.cfgName, max, iv = "size0", 0, 1000*time.Hour
	case 2:
		r.cfgName, max, iv = "tiny", uint64(150+r.rng.Intn(500)), 1000*time.Hour
	case 3:
		r.cfgName, max, iv, always = "always", 20*1024*1024, -time.Second, true
	default:
		r.cfgName, max, iv = "never", 1<<40, 1000*time.Hour
	}
	ffldb.SetCacheVerifC16(r.db, max, iv)
	r.emit(fmt.Sprintf("OCfg %d %s", max, lib.CoqBool(always)), "cfg", r.cfgName, max)
}

func (r *runner) layers() {
	if r.noLayers {
		r.suppressed++
		return
	}
	s, ck, cr := ffldb.LayersVerifC16(r.db)
	r.emit(fmt.Sprintf("OLayers %s %s %s", ckvs(s), ckvs(ck), ckvs(cr)), "layers", len(s), len(ck), len(cr))
	if len(ck)+len(cr) == 0 {
		r.flushes++
	}
}

func (r *runner) begin(writable bool, how string) *otx {
	r.nextH++
	t := &otx{h: r.nextH, writable: writable, root: r.committed.clone()}
	r.emit(fmt.Sprintf("OBegin %d %s", t.h, lib.CoqBool(writable)), "begin", t.h, writable, how)
	return t
}

func (r *runner) pickPath(t *otx) []string {
	if r.rng.Chance(25) { // arbitrary, may not exist
		n := r.rng.Intn(3)
		p := make([]string, n)
		for i := range p {
			p[i] = names[r.rng.Intn(len(names))]
		}
		return p
	}
	// an existing bucket
	p, b := []string{}, t.root
	for len(p) < 2 && r.rng.Chance(60) {
		sn := b.subNames()
		var cand []string
		for _, s := range sn {
			if s != "ffldb-blockidx" {
				cand = append(cand, s)
			}
		}
		if len(cand) == 0 {
			break
		}
		n := cand[r.rng.Intn(len(cand))]
		p, b = append(p, n), b.subs[n]
	}
	return p
}

func (r *runner) val() []byte {
	switch r.rng.Intn(6) {
	case 0:
		return []byte{}
	case 1:
		return nil
	}
	return r.rng.Bytes(1 + r.rng.Intn(3))
}

// walk drives a cursor; mode 0 First/Next*, 1 Last/Prev*, 2 Seek/Next*
func walk(c database.Cursor, mode int, sk []byte) []entry {
	var es []entry
	var ok bool
	switch mode {
	case 0:
		ok = c.First()
	case 1:
		ok = c.Last()
	default:
		ok = c.Seek(sk)
	}
	for n := 0; ok && n < 400; n++ {
		es = append(es, entry{string(c.Key()), c.Value()})
		if mode == 1 {
			ok = c.Prev()
		} else {
			ok = c.Next()
		}
	}
	return es
}

// action performs one random action on transaction t (implementation + oracle)
func (r *runner) action(t *otx) {
	f := r.force
	r.force = nil
	path := r.pickPath(t)
	if f != nil {
		path = f.path
	}
	b := t.tx.Metadata()
	for _, n := range path {
		if b = b.Bucket([]byte(n)); b == nil {
			break
		}
	}
	ob := t.root.at(path)
	if (b == nil) != (ob == nil) {
		r.fail("Bucket", "Bucket() lookup differs from the nested-map replay", map[string]interface{}{"path": path, "impl_nil": b == nil})
	}
	if b == nil {
		r.emit(fmt.Sprintf("OTx %d (ANoBucket %s)", t.h, cpath(path)), "nobucket", t.h, path)
		return
	}
	if ob == nil {
		return
	}
	p := cpath(path)
	x := r.rng.Intn(100)
	k := keyspace[r.rng.Intn(len(keyspace))]
	if r.rng.Chance(4) {
		k = ""
	}
	if f != nil {
		x, k = f.x, f.k
	} else if r.rng.Chance(6) {
		x = 200
	}
	switch {
	case x < 30: // Put
		v := r.val()
		if f != nil {
			v = f.v
		}
		c := code(b.Put([]byte(k), v))
		r.emit(fmt.Sprintf("OTx %d (APut %s %s %s %d)", t.h, p, cs(k), cb(v), c), "put", t.h, path, k, v, c)
		want := 0
		switch {
		case !t.writable:
			want = 1
		case k == "":
			want = 2
		default:
			if v == nil {
				v = []byte{}
			}
			ob.keys[k] = v
		}
		if c != want {
			r.fail("Put:code", "Put returned an unexpected result", map[string]interface{}{"path": path, "key": k, "got": c, "want": want})
		}
	case x < 45: // Get
		g := b.Get([]byte(k))
		r.emit(fmt.Sprintf("OTx %d (AGet %s %s %s)", t.h, p, cs(k), cob(g)), "get", t.h, path, k, g)
		w, present := ob.keys[k]
		if present != (g != nil) || (present && !bytes.Equal(g, w)) {
			r.fail("Get", "Get differs from the nested-map replay", map[string]interface{}{"path": path, "key": k, "got": g, "want": w, "present": present})
		}
		if g != nil {
			r.nontriv = true
		}
	case x < 57: // Delete
		c := code(b.Delete([]byte(k)))
		r.emit(fmt.Sprintf("OTx %d (ADel %s %s %d)", t.h, p, cs(k), c), "del", t.h, path, k, c)
		want := 0
		if !t.writable {
			want = 1
		} else if k != "" {
			delete(ob.keys, k)
		}
		if c != want {
			r.fail("Delete:code", "Delete returned an unexpected result", map[string]interface{}{"path": path, "key": k, "got": c, "want": want})
		}
	case x < 69: // CreateBucket / CreateBucketIfNotExists
		n := names[r.rng.Intn(len(names))]
		if r.rng.Chance(5) {
			n = ""
		}
		ifNot := r.rng.Chance(30)
		if f != nil {
			n, ifNot = f.n, f.ifNot
		}
		var err error
		if ifNot {
			_, err = b.CreateBucketIfNotExists([]byte(n))
		} else {
			_, err = b.CreateBucket([]byte(n))
		}
		c := code(err)
		ctor := "ACreate"
		if ifNot {
			ctor = "ACreateIf"
		}
		r.emit(fmt.Sprintf("OTx %d (%s %s %s %d)", t.h, ctor, p, cs(n), c), ctor, t.h, path, n, c)
		want := 0
		_, exists := ob.subs[n]
		switch {
		case !t.writable:
			want = 1
		case exists && ifNot:
			want = 0
		case n == "":
			want = 3
		case exists:
			want = 4
		default:
			if len(path) < 3 {
				ob.subs[n] = newBucket()
			}
		}
		if c != want {
			r.fail("CreateBucket:code", "CreateBucket returned an unexpected result", map[string]interface{}{"path": path, "name": n, "ifnot": ifNot, "got": c, "want": want})
		}
	case x < 76: // DeleteBucket
		n := names[r.rng.Intn(len(names))]
		if f != nil {
			n = f.n
		}
		ppk, ppr := ffldb.TxLayersVerifC16(t.tx)
		c := code(b.DeleteBucket([]byte(n)))
		if c == 0 && len(ppk)+len(ppr) > 0 {
			r.noLayers = true
		}
		r.emit(fmt.Sprintf("OTx %d (ADelBucket %s %s %d)", t.h, p, cs(n), c), "delbucket", t.h, path, n, c)
		want := 0
		_, exists := ob.subs[n]
		switch {
		case !t.writable:
			want = 1
		case !exists:
			want = 5
		default:
			delete(ob.subs, n)
		}
		if c != want {
			r.fail("DeleteBucket:code", "DeleteBucket returned an unexpected result", map[string]interface{}{"path": path, "name": n, "got": c, "want": want})
		}
	case x < 82: // ForEach
		var got []entry
		b.ForEach(func(k, v []byte) error { got = append(got, entry{string(k), append([]byte{}, v...)}); return nil })
		xs := make([]string, len(got))
		for i, e := range got {
			xs[i] = fmt.Sprintf("(%s,%s)", cs(e.k), cb(e.v))
		}
		r.emit(fmt.Sprintf("OTx %d (AForEach %s %s)", t.h, p, lib.CoqList(xs)), "foreach", t.h, path, len(got))
		var want []entry
		for _, k := range sortedKeys(ob.keys) {
			want = append(want, entry{k, ob.keys[k]})
		}
		if !entriesEq(got, want) {
			r.fail("ForEach", "ForEach differs from the sorted keys of the nested-map replay", map[string]interface{}{"path": path, "got": fmt.Sprint(got), "want": fmt.Sprint(want)})
		}
	case x < 86: // ForEachBucket
		var got []string
		b.ForEachBucket(func(k []byte) error { got = append(got, string(k)); return nil })
		xs := make([]string, len(got))
		for i, e := range got {
			xs[i] = cs(e)
		}
		r.emit(fmt.Sprintf("OTx %d (AForEachBucket %s %s)", t.h, p, lib.CoqList(xs)), "foreachbucket", t.h, path, got)
		if strings.Join(got, "\x01") != strings.Join(ob.subNames(), "\x01") {
			r.fail("ForEachBucket", "ForEachBucket differs from the nested buckets of the replay", map[string]interface{}{"path": path, "got": got, "want": ob.subNames()})
		}
	case x < 95: // cursor walk
		mode := r.rng.Intn(3)
		sk := []byte(keyspace[r.rng.Intn(len(keyspace))])
		if r.rng.Chance(20) {
			sk = append(sk, 1)
		}
		if f != nil {
			mode, sk = f.mode, f.sk
		}
		got := walk(b.Cursor(), mode, sk)
		r.emit(fmt.Sprintf("OTx %d (AWalk %s %d %s %s)", t.h, p, mode, cb(sk), centries(got)), "walk", t.h, path, mode, sk, len(got))
		all := ob.entries()
		var want []entry
		switch mode {
		case 0:
			want = all
		case 1:
			for i := len(all) - 1; i >= 0; i-- {
				want = append(want, all[i])
			}
		default:
			for _, e := range all {
				if e.v == nil || bytes.Compare([]byte(e.k), sk) >= 0 {
					want = append(want, e)
				}
			}
		}
		if !entriesEq(got, want) {
			r.fail(fmt.Sprintf("Cursor:walk:%d", mode), "cursor walk differs from the ordered contents of the nested-map replay",
				map[string]interface{}{"path": path, "mode": mode, "seek": sk, "got": fmt.Sprint(got), "want": fmt.Sprint(want)})
		}
		if len(got) > 0 {
			r.nontriv = true
		}
	case x >= 200: // cursor steps with direction reversals: oracle only (known finding Cursor:direction-change)
		r.steps(t, b, ob, path, f)
	default: // forward walk with Cursor.Delete on some positions
		all := ob.entries()
		mask := make([]bool, len(all)+1)
		for i := range mask {
			mask[i] = r.rng.Chance(40)
			if f != nil {
				mask[i] = i < len(f.mask) && f.mask[i]
			}
		}
		c := b.Cursor()
		var got []entry
		var codes []int
		i := 0
		for ok := c.First(); ok && i < 400; ok = c.Next() {
			got = append(got, entry{string(c.Key()), c.Value()})
			if i < len(mask) && mask[i] {
				codes = append(codes, code(c.Delete()))
			}
			i++
		}
		ms := make([]string, len(mask))
		for i, m := range mask {
			ms[i] = lib.CoqBool(m)
		}
		cz := make([]string, len(codes))
		for i, c := range codes {
			cz[i] = fmt.Sprint(c)
		}
		r.emit(fmt.Sprintf("OTx %d (AWalkDel %s %s %s %s)", t.h, p, lib.CoqList(ms), centries(got), lib.CoqList(cz)), "walkdel", t.h, path, mask, len(got), codes)
		var wcodes []int
		for i, e := range all {
			if mask[i] {
				switch {
				case !t.writable:
					wcodes = append(wcodes, 1)
				case e.v == nil:
					wcodes = append(wcodes, 6)
				default:
					wcodes = append(wcodes, 0)
					delete(ob.keys, e.k)
				}
			}
		}
		if !entriesEq(got, all) || fmt.Sprint(codes) != fmt.Sprint(wcodes) {
			r.fail("Cursor:walkdel", "forward walk with Cursor.Delete differs from the replay",
				map[string]interface{}{"path": path, "got": fmt.Sprint(got), "want": fmt.Sprint(all), "codes": codes, "want_codes": wcodes})
		}
	}
}

// steps drives one cursor through a step sequence that reverses direction and
// compares every position with the ordered contents (entry index arithmetic).
func (r *runner) steps(t *otx, b database.Bucket, ob *obucket, path []string, f *forced) {
	all := ob.entries()
	var seq []string
	if f != nil {
		seq = strings.Split(f.k, ",")
	} else {
		seq = []string{[]string{"first", "last"}[r.rng.Intn(2)]}
		for i := 0; i < 3+r.rng.Intn(8); i++ {
			seq = append(seq, []string{"next", "prev"}[r.rng.Intn(2)])
		}
	}
	c := b.Cursor()
	pos, valid := -1, false
	var trace []string
	reversed, last := false, ""
	for _, st := range seq {
		var ok bool
		switch st {
		case "first":
			ok = c.First()
			pos, valid = 0, len(all) > 0
		case "last":
			ok = c.Last()
			pos, valid = len(all)-1, len(all) > 0
		case "next":
			ok = c.Next()
			if valid {
				pos++
				valid = pos < len(all)
			}
		case "prev":
			ok = c.Prev()
			if valid {
				pos--
				valid = pos >= 0
			}
		}
		if (st == "next" && (last == "prev" || last == "last")) || (st == "prev" && (last == "next" || last == "first")) {
			reversed = true
		}
		if st != "first" && st != "last" || last == "" {
			last = st
		} else {
			last = st
		}
		got := "-"
		if ok {
			got = string(c.Key())
		}
		trace = append(trace, fmt.Sprintf("%s=%q", st, got))
		want := "-"
		if valid {
			want = all[pos].k
		}
		if ok != valid || got != want {
			sig := "Cursor:steps"
			if reversed {
				sig = "Cursor:direction-change"
			}
			r.fail(sig, "cursor position after a step differs from the ordered contents of the bucket",
				map[string]interface{}{"path": path, "steps": seq, "trace": trace, "want": want, "entries": fmt.Sprint(all)})
			break
		}
	}
	r.emit("", "steps", t.h, path, trace)
}

func (r *runner) txLayers(t *otx) {
	if r.noLayers {
		r.suppressed++
		return
	}
	pk, pr := ffldb.TxLayersVerifC16(t.tx)
	r.emit(fmt.Sprintf("OTxLayers %d %s %s", t.h, ckvs(pk), ckvs(pr)), "txlayers", t.h, len(pk), len(pr))
}

// finish a transaction the given way; returns nothing, updates the oracle
func (r *runner) commit(t *otx) {
	c := code(t.tx.Commit())
	r.emit(fmt.Sprintf("OCommit %d %d", t.h, c), "commit", t.h, c)
	want := 0
	if !t.writable {
		want = 1
	} else {
		t.root.keys["ffldb-writeloc"] = writeLocVal // every commit rewrites the write cursor row
		r.committed = t.root
	}
	if c != want {
		r.fail("Commit:code", "Commit returned an unexpected result", map[string]interface{}{"got": c, "want": want})
	}
}
func (r *runner) rollback(t *otx) {
	if err := t.tx.Rollback(); err != nil {
		r.fail("Rollback:code", "Rollback failed", err.Error())
	}
	r.emit(fmt.Sprintf("ORollback %d", t.h), "rollback", t.h)
}

var errAbort = errors.New("abort")

func (r *runner) oneTx(readers *[]*otx) {
	nact := 1 + r.rng.Intn(8)
	body := func(t *otx) {
		for i := 0; i < nact; i++ {
			r.action(t)
			if len(*readers) > 0 && r.rng.Chance(15) { // an older snapshot keeps answering
				r.action((*readers)[r.rng.Intn(len(*readers))])
			}
		}
		if t.writable && r.rng.Chance(50) {
			r.txLayers(t)
		}
	}
	switch x := r.rng.Intn(100); {
	case x < 35: // Update closure, commits
		t := r.begin(true, "Update")
		err := r.db.Update(func(tx database.Tx) error { t.tx = tx; body(t); return nil })
		r.emit(fmt.Sprintf("OCommit %d %d", t.h, code(err)), "commit(Update)", t.h, code(err))
		if err != nil {
			r.fail("Update", "Update failed", err.Error())
		}
		t.root.keys["ffldb-writeloc"] = writeLocVal
		r.committed = t.root
	case x < 45: // Update closure returning an error: rolled back
		t := r.begin(true, "Update/err")
		err := r.db.Update(func(tx database.Tx) error { t.tx = tx; body(t); return errAbort })
		r.emit(fmt.Sprintf("ORollback %d", t.h), "rollback(Update err)", t.h)
		if err != errAbort {
			r.fail("Update", "Update did not return the closure's error", fmt.Sprint(err))
		}
	case x < 55: // View closure
		t := r.begin(false, "View")
		r.db.View(func(tx database.Tx) error { t.tx = tx; body(t); return nil })
		r.emit(fmt.Sprintf("ORollback %d", t.h), "rollback(View)", t.h)
	case x < 75: // manual writable, commit
		t := r.begin(true, "Begin")
		t.tx, _ = r.db.Begin(true)
		body(t)
		r.commit(t)
	case x < 85: // manual writable, rollback
		t := r.begin(true, "Begin")
		t.tx, _ = r.db.Begin(true)
		body(t)
		r.rollback(t)
	case x < 93: // open a long-lived reader
		if len(*readers) < 2 {
			t := r.begin(false, "Begin(ro)")
			t.tx, _ = r.db.Begin(false)
			r.action(t)
			*readers = append(*readers, t)
		}
	default: // manual read-only: Commit is refused, which closes it
		t := r.begin(false, "Begin(ro)")
		t.tx, _ = r.db.Begin(false)
		body(t)
		r.commit(t)
	}
}

func (r *runner) closeReaders(readers *[]*otx) {
	for _, t := range *readers {
		r.action(t)
		r.rollback(t)
	}
	*readers = nil
}

func genCase(rng *lib.Rng, st *lib.Stats, dir string, ntx int) *runner {
	r := &runner{st: st, rng: rng, dir: dir}
	os.RemoveAll(dir)
	db, err := database.Create("ffldb", dir, wire.BitcoinNet(0x2017))
	if err != nil {
		panic(err)
	}
	r.db = db
	return r.run(ntx)
}

var initStore, writeLoc string
var writeLocVal []byte

func (r *runner) prepare() {
	s, _, _ := ffldb.LayersVerifC16(r.db)
	initStore = ckvs(s)
	for _, e := range s {
		if string(e.Key) == "\x00\x00\x00\x00ffldb-writeloc" {
			writeLocVal = e.Value
		}
	}
	writeLoc = cb(writeLocVal)
	r.committed = newBucket()
	r.committed.keys["ffldb-writeloc"] = writeLocVal
	r.committed.subs["ffldb-blockidx"] = newBucket()
}

func (r *runner) run(ntx int) *runner {
	r.prepare()
	r.setCfg()
	var readers []*otx
	for i := 0; i < ntx; i++ {
		r.oneTx(&readers)
		r.layers()
		if r.rng.Chance(12) {
			r.setCfg()
		}
		if r.rng.Chance(8) {
			r.closeReaders(&readers)
			if err := r.db.Close(); err != nil {
				r.fail("Close", "Close failed", err.Error())
			}
			db, err := database.Open("ffldb", r.dir, wire.BitcoinNet(0x2017))
			if err != nil {
				r.fail("Open", "reopen failed", err.Error())
				return r
			}
			r.db = db
			r.emit("OReopen", "reopen")
			r.layers()
			r.setCfg()
		}
	}
	r.closeReaders(&readers)
	r.finishRun()
	return r
}

// finishRun reads everything back through a View and closes the database
func (r *runner) finishRun() {
	t := r.begin(false, "View(final)")
	r.db.View(func(tx database.Tx) error {
		t.tx = tx
		r.checkAll(t, nil, tx.Metadata(), t.root)
		return nil
	})
	r.emit(fmt.Sprintf("ORollback %d", t.h), "rollback(View)", t.h)
	r.db.Close()
	os.RemoveAll(r.dir)
}

// checkAll walks the whole bucket tree with a full cursor
func (r *runner) checkAll(t *otx, path []string, b database.Bucket, ob *obucket) {
	got := walk(b.Cursor(), 0, nil)
	r.emit(fmt.Sprintf("OTx %d (AWalk %s 0 [] %s)", t.h, cpath(path), centries(got)), "walk(final)", path, len(got))
	if !entriesEq(got, ob.entries()) {
		r.fail("Cursor:walk:0", "final cursor walk differs from the nested-map replay", map[string]interface{}{"path": path, "got": fmt.Sprint(got), "want": fmt.Sprint(ob.entries())})
	}
	if len(path) >= 3 {
		return
	}
	for _, n := range ob.subNames() {
		if nb := b.Bucket([]byte(n)); nb != nil {
			r.checkAll(t, append(append([]string{}, path...), n), nb, ob.subs[n])
		}
	}
}

// corpus: fixed histories, among them the witnesses of the two repaired defects
func corpusCase(st *lib.Stats, dir string, which int) *runner {
	r := &runner{st: st, rng: lib.NewRng(uint64(1000 + which)), dir: dir}
	os.RemoveAll(dir)
	db, err := database.Create("ffldb", dir, wire.BitcoinNet(0x2017))
	if err != nil {
		panic(err)
	}
	r.db = db
	r.prepare()
	never := func() {
		r.cfgName = "never"
		ffldb.SetCacheVerifC16(r.db, 1<<40, 1000*time.Hour)
		r.emit(fmt.Sprintf("OCfg %d false", uint64(1)<<40), "cfg", "never")
	}
	act := func(t *otx, f forced) { r.force = &f; r.action(t) }
	seek := func(t *otx, path []string, sk string) { act(t, forced{x: 90, path: path, mode: 2, sk: []byte(sk)}) }
	switch which {
	case 0: // Seek on a full cursor must show nested buckets whatever layer holds them
		never()
		t := r.begin(true, "Begin")
		t.tx, _ = r.db.Begin(true)
		act(t, forced{x: 60, path: nil, n: "b"})
		act(t, forced{x: 0, path: nil, k: "3", v: []byte{7}})
		act(t, forced{x: 60, path: []string{"b"}, n: "a"})
		act(t, forced{x: 0, path: []string{"b"}, k: "2", v: []byte{}})
		seek(t, nil, "2") // both in the transaction's pending keys
		seek(t, []string{"b"}, "1")
		r.txLayers(t)
		r.commit(t)
		r.layers()
		v := r.begin(false, "View")
		r.db.View(func(tx database.Tx) error { v.tx = tx; seek(v, nil, "2"); seek(v, []string{"b"}, "1"); return nil }) // in the cache
		r.emit(fmt.Sprintf("ORollback %d", v.h), "rollback(View)", v.h)
		r.cfgName = "always"
		ffldb.SetCacheVerifC16(r.db, 0, -time.Second)
		r.emit("OCfg 0 true", "cfg", "always")
		t = r.begin(true, "Begin")
		t.tx, _ = r.db.Begin(true)
		act(t, forced{x: 0, path: nil, k: "1", v: []byte{1}})
		r.commit(t) // flushes
		r.layers()
		v = r.begin(false, "View")
		r.db.View(func(tx database.Tx) error { v.tx = tx; seek(v, nil, "2"); seek(v, []string{"b"}, "1"); return nil }) // in the store
		r.emit(fmt.Sprintf("ORollback %d", v.h), "rollback(View)", v.h)
	case 1: // Cursor.Delete in a read-only transaction is refused and leaves no trace
		never()
		t := r.begin(true, "Begin")
		t.tx, _ = r.db.Begin(true)
		act(t, forced{x: 0, path: nil, k: "1", v: []byte{1}})
		act(t, forced{x: 0, path: nil, k: "2", v: []byte{2}})
		act(t, forced{x: 60, path: nil, n: "a"})
		r.commit(t)
		r.layers()
		v := r.begin(false, "Begin(ro)")
		v.tx, _ = r.db.Begin(false)
		act(v, forced{x: 99, path: nil, mask: []bool{true, true, true, true, true}})
		act(v, forced{x: 80, path: nil})
		act(v, forced{x: 90, path: nil, mode: 0})
		act(v, forced{x: 90, path: nil, mode: 1})
		act(v, forced{x: 40, path: nil, k: "1"})
		r.rollback(v)
	case 2: // known finding: a cursor that changes direction over two layers loses its place
		r.cfgName = "always"
		ffldb.SetCacheVerifC16(r.db, 0, -time.Second)
		r.emit("OCfg 0 true", "cfg", "always")
		t := r.begin(true, "Begin")
		t.tx, _ = r.db.Begin(true)
		act(t, forced{x: 60, path: nil, n: "a"})
		for _, k := range []string{"1", "3", "\xff"} {
			act(t, forced{x: 0, path: []string{"a"}, k: k, v: []byte(k)})
		}
		r.commit(t) // flushed: in the store
		r.layers()
		t = r.begin(true, "Begin")
		t.tx, _ = r.db.Begin(true)
		act(t, forced{x: 0, path: []string{"a"}, k: "2", v: []byte("2")})
		act(t, forced{x: 0, path: []string{"a"}, k: "3\x00", v: []byte("4")})
		act(t, forced{x: 200, path: []string{"a"}, k: "first,next,next,prev"}) // 1 2 3 then back: must be 2
		r.rollback(t)
	}
	r.finishRun()
	return r
}

func main() {
	run := lib.ParseArgs()
	elaenv.InitLog(run.Out)
	rng := lib.NewRng(run.Seed)
	st := lib.NewStats("C16", "histories of managed (Begin/Commit/Rollback) and closure (Update/View, Update returning an error) transactions on a real ffldb in a temp dir: Put/Get/Delete/CreateBucket(IfNotExists)/DeleteBucket/ForEach/ForEachBucket/cursor walks (First-Next, Last-Prev, Seek-Next, First-Next with Cursor.Delete) over 6 keys x 3 bucket names x depth 2 (+root), write attempts in read-only transactions, empty keys/names, missing buckets, long-lived readers across later commits, close/reopen; cache thresholds from {default, 0, tiny, flush-every-commit, never}, changed mid-history. nontrivial = some Get hit or non-empty cursor walk; distinct by full op/observation sequence")
	sh := &lib.Shards{Dir: run.Out, Imports: "From ELA Require Import lib.OMap model.C16_Ffldb corr.C16_corr.", CaseType: "C16_corr.case",
		Mismatch: "C16_corr.mismatches", Scope: "Z", PerShard: 10}
	dbroot := filepath.Join(run.Out, "dbs")
	os.MkdirAll(dbroot, 0o755)
	flushed, suppressed := 0, 0
	for id := 1; id <= run.N(90, 600); id++ {
		var r *runner
		if id <= 3 {
			r = corpusCase(st, filepath.Join(dbroot, fmt.Sprintf("db%d", id)), id-1)
		} else {
			r = genCase(rng.Fork(), st, filepath.Join(dbroot, fmt.Sprintf("db%d", id)), 4+rng.Intn(14))
		}
		sh.Add(fmt.Sprintf("Case %d %s %s %s", id, writeLoc, initStore, lib.CoqList(r.ops)))
		st.LogCase(run.Out, id, map[string]interface{}{"ops": r.log})
		st.Count(strings.Join(r.ops, "|"), r.nontriv, "history")
		flushed += r.flushes
		suppressed += r.suppressed
	}
	os.RemoveAll(dbroot)
	st.Extra["layer_dumps_with_empty_cache"] = flushed
	st.Extra["layer_dumps_suppressed_after_delete_bucket_with_pending_keys"] = suppressed
	st.Sample(map[string]interface{}{"note": "see cases.jsonl for op sequences"})
	st.Traces = st.Evals
	sh.Flush()
	st.Write(run.Out)
}
