// C19 correspondence + oracle: treap.Mutable / treap.Immutable / treap.Iterator
// of /repo (through the verif re-export database/treapverif) against
// coq/model/C19_Treap.v and against an independent ordered-map replay.
package main

import (
	"bytes"
	"fmt"
	"sort"
	"strings"

	treap "github.com/elastos/Elastos.ELA/database/treapverif"

	"verifharness/elaenv"
	"verifharness/lib"
)

// ---------------------------------------------------------------- reference ordered map

type kv struct{ k, v []byte }

// ref is a sorted slice of pairs: the independent ordered-map replay.
type ref []kv

func (r ref) find(k []byte) (int, bool) {
	i := sort.Search(len(r), func(i int) bool { return bytes.Compare(r[i].k, k) >= 0 })
	return i, i < len(r) && bytes.Equal(r[i].k, k)
}
func (r ref) put(k, v []byte) ref {
	i, ok := r.find(k)
	n := make(ref, 0, len(r)+1)
	n = append(n, r[:i]...)
	n = append(n, kv{k, v})
	if ok {
		n = append(n, r[i+1:]...)
	} else {
		n = append(n, r[i:]...)
	}
	return n
}
func (r ref) del(k []byte) ref {
	i, ok := r.find(k)
	if !ok {
		return r
	}
	n := make(ref, 0, len(r))
	n = append(n, r[:i]...)
	return append(n, r[i+1:]...)
}
func (r ref) size() uint64 {
	var s uint64
	for _, e := range r {
		s += 72 + uint64(len(e.k)+len(e.v))
	}
	return s
}
func inRange(k, start, limit []byte) bool {
	if start != nil && bytes.Compare(k, start) < 0 {
		return false
	}
	if limit != nil && bytes.Compare(k, limit) >= 0 {
		return false
	}
	return true
}

// ---------------------------------------------------------------- Coq printers

func cb(b []byte) string { return lib.CoqBytes(b) }
func cob(b []byte) string {
	if b == nil {
		return "None"
	}
	return "(Some " + cb(b) + ")"
}

type anyTreap interface {
	Get([]byte) []byte
	Has([]byte) bool
	Len() int
	Size() uint64
	ForEach(func(k, v []byte) bool)
	VerifDump() []treap.VerifNode
	VerifPriority([]byte) (int, bool)
	Iterator(start, limit []byte) *treap.Iterator
}

// ---------------------------------------------------------------- one case

type runner struct {
	st    *lib.Stats
	mut   bool
	ops   []string      // Coq op terms
	log   []interface{} // human-readable
	m     *treap.Mutable
	vers  []*treap.Immutable
	refs  []ref // reference content per version (mutable: one entry)
	sel   int
	it    *treap.Iterator
	itRef int // version index the iterator was created on (immutable)
	// oracle view of the iterator position
	itStart, itLimit []byte
	posState         int // 0 new, 1 at key, 2 exhausted
	posKey           []byte
	nontrivial       bool
	keyOf            string
}

func (r *runner) cur() anyTreap {
	if r.mut {
		return r.m
	}
	return r.vers[r.sel]
}
func (r *runner) curRef() ref { return r.refs[r.sel] }

func (r *runner) emit(coq string, human ...interface{}) {
	r.ops = append(r.ops, coq)
	r.log = append(r.log, human)
}

func (r *runner) fail(sig, what string, extra interface{}) {
	r.st.Fail(sig, what, map[string]interface{}{"mutable": r.mut, "ops": r.log, "detail": extra})
}

func (r *runner) put(k, v []byte) {
	t := r.cur()
	had := t.Has(k)
	var nt anyTreap
	if r.mut {
		r.m.Put(k, v)
		nt = r.m
	} else {
		n := r.vers[r.sel].Put(k, v)
		r.vers = append(r.vers, n)
		nt = n
	}
	p, ok := nt.VerifPriority(k)
	if !ok {
		r.fail("Put:absent", "key absent right after Put", fmt.Sprint(k))
	}
	if v == nil {
		v = []byte{}
	}
	nr := r.curRef().put(k, v)
	if r.mut {
		r.refs[0] = nr
	} else {
		r.refs = append(r.refs, nr)
		r.sel = len(r.vers) - 1
	}
	r.emit(fmt.Sprintf("OPut %s %s %d", cb(k), cb(v), p), "put", k, v, p, had)
	r.afterMutation()
}

func (r *runner) del(k []byte) {
	if r.mut {
		r.m.Delete(k)
		r.refs[0] = r.curRef().del(k)
	} else {
		n := r.vers[r.sel].Delete(k)
		r.vers = append(r.vers, n)
		r.refs = append(r.refs, r.curRef().del(k))
		r.sel = len(r.vers) - 1
	}
	r.emit(fmt.Sprintf("ODel %s", cb(k)), "del", k)
	r.afterMutation()
}

// the contract of a Mutable treap's iterator: ForceReseek after every mutation
func (r *runner) afterMutation() {
	if r.it != nil && r.mut {
		r.it.ForceReseek()
		r.emit("OForce", "force")
	}
}

func (r *runner) queries(rng *lib.Rng, keys [][]byte, n int) {
	t, rf := r.cur(), r.curRef()
	for i := 0; i < n; i++ {
		k := keys[rng.Intn(len(keys))]
		idx, present := rf.find(k)
		if rng.Bool() {
			g := t.Get(k)
			r.emit(fmt.Sprintf("OGet %s %s", cb(k), cob(g)), "get", k, g)
			if present != (g != nil) || (present && !bytes.Equal(g, rf[idx].v)) {
				r.fail("Get", "Get differs from the ordered-map replay", map[string]interface{}{"key": k, "got": g, "version": r.sel})
			}
		} else {
			h := t.Has(k)
			r.emit(fmt.Sprintf("OHas %s %s", cb(k), lib.CoqBool(h)), "has", k, h)
			if h != present {
				r.fail("Has", "Has differs from the ordered-map replay", map[string]interface{}{"key": k, "got": h, "version": r.sel})
			}
		}
	}
}

func (r *runner) lenSize() {
	t, rf := r.cur(), r.curRef()
	r.emit(fmt.Sprintf("OLen %d", t.Len()), "len", t.Len())
	r.emit(fmt.Sprintf("OSize %d", t.Size()), "size", t.Size())
	if t.Len() != len(rf) {
		r.fail("Len", "Len differs from the number of keys", map[string]interface{}{"got": t.Len(), "want": len(rf), "version": r.sel})
	}
	if t.Size() != rf.size() {
		r.fail("Size", "Size differs from the sum of node sizes", map[string]interface{}{"got": t.Size(), "want": rf.size(), "version": r.sel})
	}
}

func (r *runner) elems() {
	t, rf := r.cur(), r.curRef()
	var parts []string
	i, bad := 0, false
	t.ForEach(func(k, v []byte) bool {
		parts = append(parts, fmt.Sprintf("(%s,%s)", cb(k), cb(v)))
		if i >= len(rf) || !bytes.Equal(rf[i].k, k) || !bytes.Equal(rf[i].v, v) {
			bad = true
		}
		i++
		return true
	})
	r.emit("OElems "+lib.CoqList(parts), "elems", len(parts))
	if bad || i != len(rf) {
		r.fail("ForEach", "ForEach differs from the in-order contents of the ordered-map replay", map[string]interface{}{"version": r.sel})
	}
}

func (r *runner) dump() {
	d := r.cur().VerifDump()
	parts := make([]string, len(d))
	for i, n := range d {
		parts[i] = fmt.Sprintf("(%s,%s,%d,%s,%s)", cb(n.Key), cb(n.Value), n.Priority, lib.CoqBool(n.HasLeft), lib.CoqBool(n.HasRight))
	}
	r.emit("ODump "+lib.CoqList(parts), "dump", len(d))
	// oracle: search-tree order, rebuilt from the pre-order dump (heap order is only counted)
	pos := 0
	var walk func(lo, hi []byte, pprio int, hasP bool)
	walk = func(lo, hi []byte, pprio int, hasP bool) {
		n := d[pos]
		pos++
		if hasP && n.Priority < pprio {
			r.st.Hist["info:heap_order_lost_after_delete"]++ // not part of C19: invisible through the map interface
		}
		if (lo != nil && bytes.Compare(n.Key, lo) <= 0) || (hi != nil && bytes.Compare(n.Key, hi) >= 0) {
			r.fail("bst", "search-tree order broken", map[string]interface{}{"key": n.Key, "version": r.sel})
		}
		if n.HasLeft {
			walk(lo, n.Key, n.Priority, true)
		}
		if n.HasRight {
			walk(n.Key, hi, n.Priority, true)
		}
	}
	if len(d) > 0 {
		walk(nil, nil, 0, false)
	}
}

func (r *runner) newIter(start, limit []byte) {
	r.it = r.cur().Iterator(start, limit)
	r.itRef = r.sel
	r.itStart, r.itLimit, r.posState, r.posKey = start, limit, 0, nil
	r.emit(fmt.Sprintf("OIter %s %s", cob(start), cob(limit)), "iter", start, limit)
}

// expected position after a step according to the ordered-map replay
func (r *runner) expect(step string, k []byte) (bool, []byte, []byte) {
	rf := r.refs[r.itRef]
	if r.mut {
		rf = r.refs[0]
	}
	fwdFrom := func(i int) (bool, []byte, []byte) { // first entry at index >= i, must be in range
		if i < len(rf) && inRange(rf[i].k, r.itStart, r.itLimit) {
			return true, rf[i].k, rf[i].v
		}
		return false, nil, nil
	}
	bwdFrom := func(i int) (bool, []byte, []byte) {
		if i >= 0 && i < len(rf) && inRange(rf[i].k, r.itStart, r.itLimit) {
			return true, rf[i].k, rf[i].v
		}
		return false, nil, nil
	}
	first := func() (bool, []byte, []byte) {
		i := 0
		if r.itStart != nil {
			i, _ = rf.find(r.itStart)
		}
		return fwdFrom(i)
	}
	last := func() (bool, []byte, []byte) {
		i := len(rf)
		if r.itLimit != nil {
			i, _ = rf.find(r.itLimit)
		}
		return bwdFrom(i - 1)
	}
	switch step {
	case "first":
		return first()
	case "last":
		return last()
	case "seek":
		i, _ := rf.find(k)
		return fwdFrom(i)
	case "next":
		switch r.posState {
		case 0:
			return first()
		case 2:
			return false, nil, nil
		}
		i, ok := rf.find(r.posKey)
		if ok {
			i++
		}
		return fwdFrom(i)
	case "prev":
		switch r.posState {
		case 0:
			return last()
		case 2:
			return false, nil, nil
		}
		i, _ := rf.find(r.posKey)
		return bwdFrom(i - 1)
	}
	panic(step)
}

func (r *runner) step(step string, k []byte) {
	var ret bool
	switch step {
	case "first":
		ret = r.it.First()
	case "last":
		ret = r.it.Last()
	case "next":
		ret = r.it.Next()
	case "prev":
		ret = r.it.Prev()
	case "seek":
		ret = r.it.Seek(k)
	}
	valid := r.it.Valid()
	var gk, gv []byte
	o := "None"
	if valid {
		gk, gv = r.it.Key(), r.it.Value()
		o = fmt.Sprintf("(Some (%s,%s))", cb(gk), cb(gv))
	}
	coqStep := map[string]string{"first": "SFirst", "last": "SLast", "next": "SNext", "prev": "SPrev"}[step]
	if step == "seek" {
		coqStep = "(SSeek " + cb(k) + ")"
	}
	r.emit(fmt.Sprintf("OStep %s (%s,%s)", coqStep, lib.CoqBool(ret), o), step, k, ret, gk, gv)
	wok, wk, wv := r.expect(step, k)
	if ret != wok || valid != wok || (wok && (!bytes.Equal(gk, wk) || !bytes.Equal(gv, wv))) {
		cls := "range"
		if r.itStart == nil && r.itLimit == nil {
			cls = "norange"
		}
		r.fail("Iterator."+step+":"+cls, "iterator step differs from the in-order walk of the ordered-map replay restricted to the range",
			map[string]interface{}{"step": step, "arg": k, "start": r.itStart, "limit": r.itLimit, "ret": ret, "valid": valid,
				"key": gk, "val": gv, "want_ok": wok, "want_key": wk})
	}
	// the oracle follows the implementation's position so one defect is reported once per step
	if valid {
		r.posState, r.posKey = 1, gk
	} else {
		r.posState, r.posKey = 2, nil
	}
	if ret {
		r.nontrivial = true
	}
}

func (r *runner) finish(id int, out string, sh *lib.Shards) {
	ctor := "CImm"
	if r.mut {
		ctor = "CMut"
	}
	sh.Add(fmt.Sprintf("%s %d %s", ctor, id, lib.CoqList(r.ops)))
	r.st.LogCase(out, id, map[string]interface{}{"mutable": r.mut, "ops": r.log})
	kind := "immutable"
	if r.mut {
		kind = "mutable"
	}
	r.st.Count(r.keyOf+strings.Join(r.ops, "|"), r.nontrivial, kind)
}

func newRunner(st *lib.Stats, mut bool) *runner {
	r := &runner{st: st, mut: mut, refs: []ref{{}}}
	if mut {
		r.m = treap.NewMutable()
	} else {
		r.vers = []*treap.Immutable{treap.NewImmutable()}
	}
	return r
}

// keySpace builds n distinct keys with prefix relations, empty key, 0x00/0xff bytes.
func keySpace(rng *lib.Rng, n int) [][]byte {
	alpha := []byte{0, 1, 0x61, 0x62, 0x7f, 0x80, 0xff}
	seen := map[string]bool{}
	var ks [][]byte
	maxLen := 2
	for n > 50*maxLen*maxLen && maxLen < 6 {
		maxLen++
	}
	for len(ks) < n {
		l := rng.Intn(maxLen + 1)
		k := make([]byte, l)
		for i := range k {
			if n > 40 && rng.Chance(50) {
				k[i] = byte(rng.U64())
			} else {
				k[i] = alpha[rng.Intn(len(alpha))]
			}
		}
		if !seen[string(k)] {
			seen[string(k)] = true
			ks = append(ks, k)
		}
	}
	return ks
}

func randVal(rng *lib.Rng) []byte {
	switch rng.Intn(6) {
	case 0:
		return nil
	case 1:
		return []byte{}
	}
	return rng.Bytes(1 + rng.Intn(3))
}

func optKey(rng *lib.Rng, keys [][]byte) []byte {
	if rng.Chance(35) {
		return nil
	}
	k := keys[rng.Intn(len(keys))]
	if rng.Chance(20) { // a bound that is not itself a key
		k = append(append([]byte{}, k...), 0)
	}
	return k
}

func (r *runner) iterSession(rng *lib.Rng, keys [][]byte, steps int, mutate bool) {
	r.newIter(optKey(rng, keys), optKey(rng, keys))
	for i := 0; i < steps; i++ {
		switch x := rng.Intn(20); {
		case x < 8:
			r.step("next", nil)
		case x < 13:
			r.step("prev", nil)
		case x < 15:
			r.step("first", nil)
		case x < 16:
			r.step("last", nil)
		case x < 18:
			k := keys[rng.Intn(len(keys))]
			if rng.Chance(20) {
				k = append(append([]byte{}, k...), 1)
			}
			r.step("seek", k)
		default:
			if mutate {
				if rng.Chance(60) {
					r.put(keys[rng.Intn(len(keys))], randVal(rng))
				} else {
					r.del(keys[rng.Intn(len(keys))])
				}
			} else {
				r.step("next", nil)
			}
		}
	}
	r.it = nil
}

// full forward and backward walks over a range: the whole in-order sequence
func (r *runner) fullWalk(rng *lib.Rng, keys [][]byte) {
	r.newIter(optKey(rng, keys), optKey(rng, keys))
	for i := 0; i <= len(r.curRef())+1; i++ {
		r.step("next", nil)
		if r.posState == 2 {
			break
		}
	}
	r.newIter(r.itStart, r.itLimit)
	for i := 0; i <= len(r.curRef())+1; i++ {
		r.step("prev", nil)
		if r.posState == 2 {
			break
		}
	}
	r.it = nil
}

func genCase(rng *lib.Rng, st *lib.Stats, mut bool, nkeys, nops int, light bool) *runner {
	r := newRunner(st, mut)
	keys := keySpace(rng, nkeys)
	for i := 0; i < nops; i++ {
		x := rng.Intn(100)
		if !mut && x < 8 && len(r.vers) > 1 { // branch from an older retained version
			r.sel = rng.Intn(len(r.vers))
			r.emit(fmt.Sprintf("OSelect %d", r.sel), "select", r.sel)
		}
		switch {
		case x < 50:
			r.put(keys[rng.Intn(len(keys))], randVal(rng))
		case x < 72:
			r.del(keys[rng.Intn(len(keys))])
		case x < 80:
			r.queries(rng, keys, 2)
		case x < 84:
			r.lenSize()
		case x < 87 && !light:
			r.dump()
		case x < 89 && !light:
			r.elems()
		case x < 96:
			if light && rng.Chance(80) {
				r.queries(rng, keys, 1)
			} else {
				r.iterSession(rng, keys, 3+rng.Intn(12), true)
			}
		default:
			if !light {
				r.fullWalk(rng, keys)
			}
		}
		if len(r.curRef()) > 0 {
			r.nontrivial = true
		}
	}
	// final: shape + contents of the current version
	r.lenSize()
	r.dump()
	r.elems()
	r.fullWalk(rng, keys)
	// persistence: re-query retained versions after all later updates
	if !mut {
		idx := make([]int, 0, len(r.vers))
		if len(r.vers) <= 40 {
			for i := range r.vers {
				idx = append(idx, i)
			}
		} else {
			for i := 0; i < 40; i++ {
				idx = append(idx, rng.Intn(len(r.vers)))
			}
		}
		for _, i := range idx {
			r.sel = i
			r.emit(fmt.Sprintf("OSelect %d", i), "select", i)
			r.lenSize()
			if len(r.refs[i]) <= 64 || rng.Chance(10) {
				r.dump()
				r.elems()
			}
			r.queries(rng, keys, 3)
			if rng.Chance(30) {
				r.iterSession(rng, keys, 4, false)
			}
		}
		// every retained version, cheaply, through the oracle only (no Coq terms)
		for i, v := range r.vers {
			rf := r.refs[i]
			j, bad := 0, v.Len() != len(rf) || v.Size() != rf.size()
			v.ForEach(func(k, val []byte) bool {
				if j >= len(rf) || !bytes.Equal(rf[j].k, k) || !bytes.Equal(rf[j].v, val) {
					bad = true
				}
				j++
				return true
			})
			if bad || j != len(rf) {
				r.sel = i
				r.fail("persistence", "a retained immutable version changed after later updates", map[string]interface{}{"version": i})
				break
			}
		}
	}
	return r
}

// ---------------------------------------------------------------- fixed corpus

func corpus(st *lib.Stats) []*runner {
	var rs []*runner
	b := func(s string) []byte { return []byte(s) }
	for _, mut := range []bool{true, false} {
		// First() with only a limit / Last() with only a start: range limits must be respected
		r := newRunner(st, mut)
		r.keyOf = "corpus-first-limit"
		r.put(b("b"), b("1"))
		r.put(b("c"), b("2"))
		r.newIter(nil, b("a"))
		r.step("first", nil)
		r.newIter(nil, b("a"))
		r.step("next", nil)
		r.newIter(b("d"), nil)
		r.step("last", nil)
		r.newIter(b("d"), nil)
		r.step("prev", nil)
		r.it = nil
		rs = append(rs, r)
	}
	{
		// Seek/First/Last after ForceReseek must forget the pending reseek key
		r := newRunner(st, true)
		r.keyOf = "corpus-seek-after-force"
		for _, k := range []string{"a", "c", "e", "g"} {
			r.put(b(k), b(k))
		}
		r.newIter(nil, nil)
		r.step("first", nil)
		r.put(b("i"), b("i")) // + ForceReseek: seekKey = "a"
		r.step("seek", b("e"))
		r.step("next", nil) // must be "g"
		r.step("first", nil)
		r.put(b("k"), b("k"))
		r.step("last", nil)
		r.step("prev", nil) // must be "i"
		r.it = nil
		rs = append(rs, r)
	}
	{
		// First()/Last() on a treap that became empty must invalidate the iterator
		r := newRunner(st, true)
		r.keyOf = "corpus-first-empty"
		r.put(b("a"), b("1"))
		r.newIter(nil, nil)
		r.step("first", nil)
		r.del(b("a"))
		r.step("first", nil)
		r.step("last", nil)
		r.it = nil
		rs = append(rs, r)
	}
	return rs
}

// heapCorpus deletes nodes with two children and dumps the shape each time
// (Delete lifts the child with the larger priority; the model mirrors that).
func heapCorpus(st *lib.Stats, mut bool) *runner {
	r := newRunner(st, mut)
	r.keyOf = "corpus-delete-heap"
	for i := 0; i < 24; i++ {
		r.put([]byte{byte(i)}, []byte{1})
	}
	for i := 0; i < 24; i += 2 {
		r.del([]byte{byte((i*7 + 3) % 24)})
		r.dump()
	}
	r.nontrivial = true
	return r
}

func main() {
	run := lib.ParseArgs()
	elaenv.InitLog(run.Out)
	rng := lib.NewRng(run.Seed)
	st := lib.NewStats("C19", "random interleavings of Put/Delete/Get/Has/Len/Size/ForEach/shape dump/iterator sessions (First/Last/Next/Prev/Seek with optional start/limit, ForceReseek after every mutation of a Mutable treap) over key spaces of 1..2000 byte-string keys (empty key, prefixes, 0x00/0xff); Immutable: updates branch from arbitrary retained versions and retained versions are re-queried after all later updates. nontrivial = case reaches a non-empty treap or a successful iterator step; distinct by full op/observation sequence")
	sh := &lib.Shards{Dir: run.Out, Imports: "From ELA Require Import lib.OMap model.C19_Treap corr.C19_corr.", CaseType: "C19_corr.case",
		Mismatch: "C19_corr.mismatches", Scope: "Z", PerShard: 8}
	id := 0
	add := func(r *runner) {
		id++
		r.finish(id, run.Out, sh)
	}

	for _, r := range corpus(st) {
		add(r)
	}
	add(heapCorpus(st, true))
	add(heapCorpus(st, false))
	// large next (their shards start early): up to 2000 keys
	for i := 0; i < run.N(2, 12); i++ {
		nk := 300 + rng.Intn(1701)
		if i == 0 {
			nk = 2000
		}
		nops := nk + rng.Intn(nk)
		if i%2 == 1 {
			nops = nk // immutable: one retained version per update
		}
		add(genCase(rng.Fork(), st, i%2 == 0, nk, nops, true))
	}
	// small key spaces: many collisions, deletes of present keys, empty treaps
	for i := 0; i < run.N(70, 600); i++ {
		add(genCase(rng.Fork(), st, i%2 == 0, 1+rng.Intn(8), 10+rng.Intn(50), false))
	}
	// medium
	for i := 0; i < run.N(24, 150); i++ {
		add(genCase(rng.Fork(), st, i%2 == 0, 10+rng.Intn(90), 40+rng.Intn(160), false))
	}
	st.Sample(map[string]interface{}{"cases": id, "note": "see cases.jsonl for op sequences"})
	st.Traces = st.Evals
	sh.Flush()
	st.Write(run.Out)
}
