// C17 correspondence by real crashes.  A workload (<= 8 commits storing blocks
// and updating metadata, with a flush policy) runs against a real ffldb in a
// child process (this binary re-executed with C17_CHILD set) that os.Exit()s at
// the k-th hit of crash point p (hooks verifCrashPoint / verifTornWrite in
// /repo/database/ffldb, tag verif).  The parent reopens the database, observes
// it (cursor, flat files, every block, every metadata key), runs further commits,
// closes, reopens and observes again.  All (p, k) of the instrumented points
// are enumerated per workload.  The observation is compared with
// coq/model/C17_Crash.v (cut the model's durable-step trace at the same mark,
// apply, reconcile) and checked by the property oracle (state = one commit
// prefix among {last flushed, last completed, interrupted}; no block readable
// unless complete; later commits work).
package main

import (
	"bytes"
	"encoding/json"
	"fmt"
	"hash/crc32"
	"os"
	"os/exec"
	"path/filepath"
	"sort"
	"strings"
	"sync"
	"time"

	"github.com/btcsuite/btcd/wire"
	"github.com/elastos/Elastos.ELA/common"
	"github.com/elastos/Elastos.ELA/database"
	"github.com/elastos/Elastos.ELA/database/ffldb"

	"verifharness/elaenv"
	"verifharness/lib"
)

var castagnoli = crc32.MakeTable(crc32.Castagnoli)

// ---------------------------------------------------------------- workload

type blockSpec struct {
	Kind int    `json:"kind"`
	Seed uint64 `json:"seed"`
	N    int    `json:"n"`
}

type metaOp struct {
	Key int    `json:"key"`
	Del bool   `json:"del,omitempty"`
	Val []byte `json:"val,omitempty"`
}

type commit struct {
	Blocks []blockSpec `json:"blocks"`
	Ops    []metaOp    `json:"ops"`
	Flush  bool        `json:"flush"` // needsFlush outcome forced through the cache policy
}

type workload struct {
	Max   uint32   `json:"max"`
	Mode  string   `json:"mode"` // flags | size0 | default
	Pre   []commit `json:"pre"`  // run cleanly by the parent, then Close
	Sess  []commit `json:"sess"` // run by the child (crashes somewhere)
	Close bool     `json:"close"`
	Post  []commit `json:"post"` // run by the parent after recovery, then Close+Open
}

// genBlock mirrors corr/C18_corr.v [gen].
func genBlock(b blockSpec) []byte {
	out := make([]byte, b.N)
	switch b.Kind {
	case 0:
		x := b.Seed
		for i := range out {
			x = (x*1103515245 + 12345) % 2147483648
			out[i] = byte(x / 65536)
		}
	case 1:
		pat := []byte{0xf9, 0xbe, 0xb4, 0xd9, 0x10, 0, 0, 0}
		for i := range out {
			out[i] = pat[i%len(pat)]
		}
	default:
		for i := range out {
			out[i] = byte(b.Seed + uint64(i))
		}
	}
	return out
}

func hashOf(i int) common.Uint256 {
	var h common.Uint256
	h[0], h[1], h[2], h[3] = byte(i), byte(i>>8), byte(i>>16), 0xC7
	return h
}

func metaKey(k int) []byte { return []byte(fmt.Sprintf("verif-k%d", k)) }

const nKeys = 5

func setPolicy(db database.DB, mode string, flush bool) {
	switch mode {
	case "flags":
		if flush {
			ffldb.SetCachePolicyVerif(db, 100*1024*1024, -1)
		} else {
			ffldb.SetCachePolicyVerif(db, 100*1024*1024, 300*time.Second)
		}
	case "size0":
		ffldb.SetCachePolicyVerif(db, 0, 300*time.Second)
	default: // package defaults
	}
}

// runCommits executes commits starting with block number next; returns the
// next block number.  marks (optional) receives the crash-hit count at the
// beginning of every commit.
func runCommits(db database.DB, mode string, cs []commit, next int, marks *[]int) (int, error) {
	for _, c := range cs {
		if marks != nil {
			*marks = append(*marks, len(ffldb.CrashHitsVerif()))
		}
		setPolicy(db, mode, c.Flush)
		err := db.Update(func(tx database.Tx) error {
			for _, o := range c.Ops {
				if o.Del {
					if err := tx.Metadata().Delete(metaKey(o.Key)); err != nil {
						return err
					}
				} else if err := tx.Metadata().Put(metaKey(o.Key), o.Val); err != nil {
					return err
				}
			}
			for k, b := range c.Blocks {
				if err := tx.StoreBlock(hashOf(next+k), genBlock(b)); err != nil {
					return err
				}
			}
			return nil
		})
		if err != nil {
			return next, err
		}
		next += len(c.Blocks)
	}
	return next, nil
}

func countBlocks(cs []commit) int {
	n := 0
	for _, c := range cs {
		n += len(c.Blocks)
	}
	return n
}

// ---------------------------------------------------------------- child

type childReport struct {
	Hits        []string `json:"hits"`
	CommitStart []int    `json:"commit_start"` // hit count at the start of each session commit
	CloseStart  int      `json:"close_start"`
}

func childMain() {
	dir := os.Getenv("C17_DIR")
	var w workload
	b, err := os.ReadFile(os.Getenv("C17_WORKLOAD"))
	if err != nil {
		fmt.Fprintln(os.Stderr, err)
		os.Exit(3)
	}
	if err := json.Unmarshal(b, &w); err != nil {
		os.Exit(3)
	}
	elaenv.InitLog(filepath.Join(dir, "childlog"))
	db, err := database.Open("ffldb", filepath.Join(dir, "db"), wire.MainNet)
	if err != nil {
		fmt.Fprintln(os.Stderr, "child open:", err)
		os.Exit(4)
	}
	ffldb.SetMaxBlockFileSizeVerif(db, w.Max)
	var k int
	fmt.Sscan(os.Getenv("C17_HIT"), &k)
	ffldb.SetCrashPlanVerif(os.Getenv("C17_POINT"), k)
	var rep childReport
	if _, err := runCommits(db, w.Mode, w.Sess, countBlocks(w.Pre), &rep.CommitStart); err != nil {
		fmt.Fprintln(os.Stderr, "child commit:", err)
		os.Exit(5)
	}
	rep.CloseStart = len(ffldb.CrashHitsVerif())
	if w.Close {
		if err := db.Close(); err != nil {
			os.Exit(6)
		}
	}
	rep.Hits = ffldb.CrashHitsVerif()
	out, _ := json.Marshal(rep)
	os.WriteFile(filepath.Join(dir, "report.json"), out, 0o644)
	os.Exit(0) // without Close when !w.Close: the cache is simply lost
}

// ---------------------------------------------------------------- parent

var markID = map[string]int{"block:rollover": 1, "block:before-network": 2, "block:after-network": 3,
	"block:after-length": 4, "block:after-block": 5, "block:after-checksum": 6, "writeData:torn": 7,
	"commit:before-cursor-put": 8, "commit:before-commitTx": 9, "sync:before": 10, "sync:after": 11,
	"flush:before-ldb": 12, "flush:after-ldb": 13, "commitTx:before-ldb": 14, "commitTx:after-ldb": 15}

// logical state after a prefix of commits
type logical struct {
	blocks [][]byte
	meta   map[int][]byte
}

func applyLogical(l logical, cs []commit) logical {
	n := logical{blocks: append([][]byte(nil), l.blocks...), meta: map[int][]byte{}}
	for k, v := range l.meta {
		n.meta[k] = v
	}
	for _, c := range cs {
		for _, o := range c.Ops {
			if o.Del {
				delete(n.meta, o.Key)
			} else {
				n.meta[o.Key] = o.Val
			}
		}
		for _, b := range c.Blocks {
			n.blocks = append(n.blocks, genBlock(b))
		}
	}
	return n
}

type observation struct {
	OpenCode int
	CurF     uint32
	CurO     uint32
	Files    []string // Coq terms
	Blocks   []string // Coq ob terms per block number 0..universe-1
	Rows     []string
	Meta     []string
	// decoded, for the oracle
	blockBytes [][]byte // nil = not found
	blockErr   []int
	meta       map[int][]byte
}

func errCode(err error) int {
	if de, ok := err.(database.Error); ok {
		switch de.ErrorCode {
		case database.ErrBlockNotFound:
			return 1
		case database.ErrBlockRegionInvalid:
			return 2
		case database.ErrDriverSpecific:
			return 3
		case database.ErrCorruption:
			return 4
		}
	}
	return 9
}

func dig(b []byte) string {
	if len(b) < 16 {
		return "BBytes " + lib.CoqBytes(b)
	}
	return fmt.Sprintf("BDig %d %d", len(b), crc32.Checksum(b, castagnoli))
}

func listFiles(dir string) []string {
	var out []string
	var data [][]byte
	last := -1
	for i := 0; i < 4096; i++ {
		b, err := os.ReadFile(filepath.Join(dir, "db", fmt.Sprintf("%09d.fdb", i)))
		if err != nil {
			data = append(data, nil)
			if i > last+6 {
				break
			}
			continue
		}
		last = i
		if b == nil {
			b = []byte{}
		}
		data = append(data, b)
	}
	for i := 0; i <= last; i++ {
		if data[i] == nil {
			out = append(out, "None")
		} else {
			out = append(out, fmt.Sprintf("Some (%d, %d)", len(data[i]), crc32.Checksum(data[i], castagnoli)))
		}
	}
	return out
}

func observe(db database.DB, dir string, universe int) *observation {
	o := &observation{meta: map[int][]byte{}}
	o.CurF, o.CurO = ffldb.WriteCursorVerif(db)
	o.Files = listFiles(dir)
	db.View(func(tx database.Tx) error {
		for i := 0; i < universe; i++ {
			h := hashOf(i)
			var b []byte
			var err error
			if p, _ := lib.Recover(func() { b, err = tx.FetchBlock(&h) }); p {
				o.Blocks = append(o.Blocks, "BErr 7")
				o.blockBytes = append(o.blockBytes, nil)
				o.blockErr = append(o.blockErr, 7)
			} else if err != nil {
				o.Blocks = append(o.Blocks, fmt.Sprintf("BErr %d", errCode(err)))
				o.blockBytes = append(o.blockBytes, nil)
				o.blockErr = append(o.blockErr, errCode(err))
			} else {
				if b == nil {
					b = []byte{}
				}
				o.Blocks = append(o.Blocks, dig(b))
				o.blockBytes = append(o.blockBytes, b)
				o.blockErr = append(o.blockErr, 0)
			}
			if row := ffldb.BlockLocationVerif(tx, &h); row != nil {
				o.Rows = append(o.Rows, "Some "+lib.CoqBytes(row))
			} else {
				o.Rows = append(o.Rows, "None")
			}
		}
		for k := 0; k < nKeys; k++ {
			v := tx.Metadata().Get(metaKey(k))
			if v == nil {
				o.Meta = append(o.Meta, "None")
			} else {
				o.Meta = append(o.Meta, "Some "+lib.CoqBytes(v))
				o.meta[k] = append([]byte(nil), v...)
			}
		}
		return nil
	})
	return o
}

func (o *observation) coq() string {
	if o == nil {
		return "ObsFail 9"
	}
	if o.OpenCode != 0 {
		return fmt.Sprintf("ObsFail %d", o.OpenCode)
	}
	return fmt.Sprintf("Obs %d %d %s %s %s %s", o.CurF, o.CurO, lib.CoqList(o.Files), lib.CoqList(o.Blocks), lib.CoqList(o.Rows), lib.CoqList(o.Meta))
}

// matches reports whether the observation shows exactly logical state l.
func (o *observation) matches(l logical, universe int) bool {
	for i := 0; i < universe; i++ {
		if i < len(l.blocks) {
			if o.blockErr[i] != 0 || !bytes.Equal(o.blockBytes[i], l.blocks[i]) {
				return false
			}
		} else if o.blockErr[i] != 1 {
			return false
		}
	}
	for k := 0; k < nKeys; k++ {
		a, aok := o.meta[k]
		b, bok := l.meta[k]
		if aok != bok || !bytes.Equal(a, b) {
			return false
		}
	}
	return true
}

func coqBlock(b blockSpec) string { return fmt.Sprintf("BGen %d %d %d", b.Kind, b.Seed, b.N) }
func coqCommit(c commit) string {
	var bl, ops []string
	for _, b := range c.Blocks {
		bl = append(bl, coqBlock(b))
	}
	for _, o := range c.Ops {
		if o.Del {
			ops = append(ops, fmt.Sprintf("(%d, None)", o.Key))
		} else {
			ops = append(ops, fmt.Sprintf("(%d, Some %s)", o.Key, lib.CoqBytes(o.Val)))
		}
	}
	return fmt.Sprintf("(%s, %s, %s)", lib.CoqList(bl), lib.CoqList(ops), lib.CoqBool(c.Flush))
}
func coqCommits(cs []commit) string {
	var out []string
	for _, c := range cs {
		out = append(out, coqCommit(c))
	}
	return lib.CoqList(out)
}

func copyDir(src, dst string) error {
	return filepath.Walk(src, func(p string, info os.FileInfo, err error) error {
		if err != nil {
			return err
		}
		rel, _ := filepath.Rel(src, p)
		if info.IsDir() {
			return os.MkdirAll(filepath.Join(dst, rel), 0o755)
		}
		b, err := os.ReadFile(p)
		if err != nil {
			return err
		}
		return os.WriteFile(filepath.Join(dst, rel), b, 0o644)
	})
}

type crashRun struct {
	point string
	k     int
	pos   int // index into the hit sequence
}

type result struct {
	cr         crashRun
	exit       int
	obs1, obs2 *observation
	err        string
}

func runChild(self, dir, wfile, point string, k int) int {
	cmd := exec.Command(self)
	cmd.Env = append(os.Environ(), "C17_CHILD=1", "C17_DIR="+dir, "C17_WORKLOAD="+wfile, "C17_POINT="+point, fmt.Sprintf("C17_HIT=%d", k))
	var stderr bytes.Buffer
	cmd.Stderr = &stderr
	err := cmd.Run()
	if err == nil {
		return 0
	}
	if ee, ok := err.(*exec.ExitError); ok {
		if ee.ExitCode() != ffldb.VerifCrashExitCode {
			fmt.Fprintf(os.Stderr, "child exit %d: %s\n", ee.ExitCode(), stderr.String())
		}
		return ee.ExitCode()
	}
	return -1
}

func main() {
	if os.Getenv("C17_CHILD") != "" {
		childMain()
		return
	}
	run := lib.ParseArgs()
	elaenv.InitLog(run.Out)
	rng := lib.NewRng(run.Seed)
	st := lib.NewStats("C17", "workloads of <= 8 commits (0-2 blocks each with lengths around the rollover boundary of a 512..1024-byte file, 0-3 metadata puts/deletes), flush policy per commit (forced flags, size-0 cache, default cache), optional clean prefix and Close; for every workload a child process is crashed (os.Exit) at every (crash point, k-th hit) of the 15 instrumented points incl. a torn half write before every flat-file write; parent reopens, observes cursor/files/blocks/metadata, commits further, reopens again. nontrivial = a crash that left the files ahead of or equal to the durable cursor with at least one commit made or lost; distinct by (workload, point, k)")
	sh := &lib.Shards{Dir: run.Out, Imports: "From ELA Require Import model.C18_Flat corr.C18_corr model.C17_Crash corr.C17_corr.", CaseType: "C17_corr.case",
		Mismatch: "C17_corr.mismatches", Scope: "N", PerShard: 24}
	self, err := os.Executable()
	if err != nil {
		panic(err)
	}
	tmpRoot := ""
	if fi, err := os.Stat("/dev/shm"); err == nil && fi.IsDir() {
		tmpRoot = "/dev/shm"
	}
	base, err := os.MkdirTemp(tmpRoot, "c17-")
	if err != nil {
		panic(err)
	}
	defer os.RemoveAll(base)

	ws := corpus()
	nw := run.N(1, 60)
	for i := 0; i < nw; i++ {
		ws = append(ws, genWorkload(rng.Fork(), run.Thorough() || i == 0))
	}
	id := 0
	totalCrashes := 0
	afterRoll, afterRoll2 := map[string]bool{}, map[string]bool{} // points crashed at after >=1 / >=2 rollovers of the running commit
	for wi, w := range ws {
		wdir := filepath.Join(base, fmt.Sprintf("w%d", wi))
		os.MkdirAll(wdir, 0o755)
		wfile := filepath.Join(wdir, "workload.json")
		wb, _ := json.Marshal(w)
		os.WriteFile(wfile, wb, 0o644)
		// template: fresh database + clean prefix
		tdir := filepath.Join(wdir, "tmpl")
		os.MkdirAll(tdir, 0o755)
		db, err := database.Create("ffldb", filepath.Join(tdir, "db"), wire.MainNet)
		if err != nil {
			panic(err)
		}
		ffldb.SetMaxBlockFileSizeVerif(db, w.Max)
		if _, err := runCommits(db, "flags", w.Pre, 0, nil); err != nil {
			panic(err)
		}
		if err := db.Close(); err != nil {
			panic(err)
		}
		// counting run (no crash)
		cdir := filepath.Join(wdir, "count")
		copyDir(tdir, cdir)
		if code := runChild(self, cdir, wfile, "", 0); code != 0 {
			panic(fmt.Sprintf("counting child failed: %d", code))
		}
		var rep childReport
		rb, _ := os.ReadFile(filepath.Join(cdir, "report.json"))
		json.Unmarshal(rb, &rep)
		// enumerate all (p, k)
		seen := map[string]int{}
		var runs []crashRun
		rolled := 0 // rollovers so far inside the current commit
		for pos, h := range rep.Hits {
			seen[h]++
			runs = append(runs, crashRun{h, seen[h], pos})
			for _, cs := range rep.CommitStart {
				if cs == pos {
					rolled = 0
				}
			}
			if h == "block:rollover" {
				rolled++
			}
			if rolled >= 1 {
				afterRoll[h] = true
			}
			if rolled >= 2 {
				afterRoll2[h] = true
			}
		}
		// plus the run that does not crash at all
		runs = append(runs, crashRun{"", 0, len(rep.Hits)})
		universe := countBlocks(w.Pre) + countBlocks(w.Sess) + countBlocks(w.Post)
		results := make([]result, len(runs))
		var wg sync.WaitGroup
		sem := make(chan struct{}, 6)
		for ri := range runs {
			wg.Add(1)
			go func(ri int) {
				defer wg.Done()
				sem <- struct{}{}
				defer func() { <-sem }()
				cr := runs[ri]
				res := &results[ri]
				res.cr = cr
				dir := filepath.Join(wdir, fmt.Sprintf("r%d", ri))
				copyDir(tdir, dir)
				defer os.RemoveAll(dir)
				res.exit = runChild(self, dir, wfile, cr.point, cr.k)
				db, err := database.Open("ffldb", filepath.Join(dir, "db"), wire.MainNet)
				if err != nil {
					res.obs1 = &observation{OpenCode: errCode(err)}
					res.err = err.Error()
					return
				}
				ffldb.SetMaxBlockFileSizeVerif(db, w.Max)
				res.obs1 = observe(db, dir, universe)
				// which logical prefix is this?  later commits continue from it
				j := -1
				l0 := applyLogical(logical{meta: map[int][]byte{}}, w.Pre)
				for c := 0; c <= len(w.Sess); c++ {
					if res.obs1.matches(applyLogical(l0, w.Sess[:c]), universe) {
						j = c
						break
					}
				}
				// later commits continue with the block numbers following the
				// recovered prefix (numbers of lost blocks are reused)
				next := countBlocks(w.Pre) + countBlocks(w.Sess)
				if j >= 0 {
					next = countBlocks(w.Pre) + countBlocks(w.Sess[:j])
				}
				if _, err := runCommits(db, "flags", w.Post, next, nil); err != nil {
					res.err = "post: " + err.Error()
				}
				if err := db.Close(); err != nil {
					res.err = "close: " + err.Error()
				}
				db, err = database.Open("ffldb", filepath.Join(dir, "db"), wire.MainNet)
				if err != nil {
					res.obs2 = &observation{OpenCode: errCode(err)}
					res.err = "reopen: " + err.Error()
					return
				}
				res.obs2 = observe(db, dir, universe)
				db.Close()
			}(ri)
		}
		wg.Wait()

		// evaluate: oracle + Coq cases
		l0 := applyLogical(logical{meta: map[int][]byte{}}, w.Pre)
		for ri, res := range results {
			id++
			totalCrashes++
			cr := res.cr
			// commit in progress at the crash: number of session commits fully completed before pos
			done := 0
			for c := range w.Sess {
				end := rep.CloseStart
				if c+1 < len(rep.CommitStart) {
					end = rep.CommitStart[c+1]
				}
				if cr.pos >= end {
					done = c + 1
				}
			}
			// last item made durable before the crash position
			flushed := 0
			for c := 0; c < done; c++ {
				if flushesAt(w, c) {
					flushed = c + 1
				}
			}
			if cr.point == "" && w.Close {
				flushed = len(w.Sess)
			}
			allowed := map[int]bool{flushed: true, done: true}
			if done < len(w.Sess) {
				allowed[done+1] = true
			}
			if cr.point == "" && w.Close {
				allowed = map[int]bool{len(w.Sess): true}
			}
			in := map[string]interface{}{"workload": w, "point": cr.point, "k": cr.k, "allowed_prefixes": keys(allowed)}
			wantExit := ffldb.VerifCrashExitCode
			if cr.point == "" {
				wantExit = 0
			}
			if res.exit != wantExit {
				st.Fail("child:exit", fmt.Sprintf("child exited with %d instead of %d", res.exit, wantExit), in)
			}
			j := -1
			if res.obs1 == nil || res.obs1.OpenCode != 0 {
				st.Fail("Open:after-crash", "reopening after the crash failed: "+res.err, in)
			} else {
				// several prefixes can denote the same state (empty commits): prefer an allowed one
				for c := 0; c <= len(w.Sess); c++ {
					if res.obs1.matches(applyLogical(l0, w.Sess[:c]), universe) {
						if j < 0 || (!allowed[j] && allowed[c]) {
							j = c
						}
					}
				}
				for i, e := range res.obs1.blockErr {
					if e != 0 && e != 1 {
						in["block"] = i
						st.Fail("FetchBlock:partial", fmt.Sprintf("block %d is neither complete nor absent after recovery (error class %d)", i, e), in)
					}
				}
				if j < 0 {
					st.Fail("recover:mixture", "state after recovery is not the state after any commit prefix (mixture)", in)
				} else if !allowed[j] {
					in["observed_prefix"] = j
					st.Fail("recover:wrong-prefix", fmt.Sprintf("state after recovery is commit prefix %d, allowed %v", j, keys(allowed)), in)
				}
				// files end at the cursor
				if n := len(res.obs1.Files); n > 0 {
					var ln, crc uint32
					if _, err := fmt.Sscanf(res.obs1.Files[n-1], "Some (%d, %d)", &ln, &crc); err == nil {
						if uint32(n-1) != res.obs1.CurF || ln != res.obs1.CurO {
							st.Fail("recover:not-truncated", "flat files do not end at the recovered write cursor", in)
						}
					}
				}
			}
			if res.obs2 == nil || res.obs2.OpenCode != 0 {
				if res.obs1 != nil && res.obs1.OpenCode == 0 {
					st.Fail("continue:failed", "commits after recovery / reopen failed: "+res.err, in)
				}
			} else if j >= 0 {
				// expected: prefix j followed by the post commits
				ok := res.obs2.matches(applyLogical(applyLogical(l0, w.Sess[:j]), w.Post), universe)
				if !ok || res.err != "" {
					st.Fail("continue:wrong", "state after further commits and a clean reopen is not recovered-prefix + new commits: "+res.err, in)
				}
			}
			pid := markID[cr.point]
			sh.Add(fmt.Sprintf("Case %d %d %s %s %s %s %d %d\n   (%s)\n   (%s)", id, w.Max, coqCommits(w.Pre), coqCommits(w.Sess), lib.CoqBool(w.Close), coqCommits(w.Post),
				pid, cr.k, res.obs1.coq(), res.obs2.coq()))
			st.LogCase(run.Out, id, map[string]interface{}{"workload": wi, "w": w, "point": cr.point, "k": cr.k, "prefix": j, "done": done, "flushed": flushed})
			st.Count(fmt.Sprintf("%d|%s|%d", wi, cr.point, cr.k), j >= 0 && (done > 0 || j > 0), "crash@"+cr.point)
			if ri == 0 || (wi == 0 && ri == 7) {
				st.Sample(map[string]interface{}{"workload": wi, "point": cr.point, "k": cr.k, "recovered_prefix": j, "completed": done, "flushed": flushed})
			}
		}
		os.RemoveAll(wdir)
	}
	// coverage requirement of the enumeration itself: every instrumented point is
	// crashed at while the running commit has already rolled over (disk cursor in
	// a later file than the durable one), most of them after two rollovers
	var missing []string
	for name := range markID {
		if !afterRoll[name] {
			missing = append(missing, name)
		}
	}
	sort.Strings(missing)
	if len(missing) > 0 {
		st.Fail("harness:coverage", "crash enumeration did not reach these points after a rollover: "+strings.Join(missing, ","), nil)
	}
	st.Extra["points_crashed_after_rollover"] = len(afterRoll)
	st.Extra["points_crashed_after_two_rollovers"] = len(afterRoll2)
	st.Extra["workloads"] = len(ws)
	st.Extra["crash_runs"] = totalCrashes
	st.Traces = st.Evals
	sh.Flush()
	st.Write(run.Out)
}

func keys(m map[int]bool) []int {
	var out []int
	for k := range m {
		out = append(out, k)
	}
	sort.Ints(out)
	return out
}

// flushesAt: does session commit c flush (needsFlush true) under the workload's mode?
func flushesAt(w workload, c int) bool {
	switch w.Mode {
	case "flags":
		return w.Sess[c].Flush
	case "size0": // flush iff the cache is non-empty: alternates from an empty cache
		return c%2 == 1
	}
	return false
}

// ---------------------------------------------------------------- generation

func genCommit(rng *lib.Rng, max int, cur *int, nblocks int) commit {
	var c commit
	for k := 0; k < nblocks; k++ {
		room := max - *cur - 12
		var n int
		switch rng.Intn(7) {
		case 0:
			n = room
		case 1:
			n = room + 1
		case 2:
			n = 0
		case 3:
			n = max - 12
		default:
			n = rng.Intn(max/3 + 1)
		}
		if n < 0 {
			n = rng.Intn(40)
		}
		if n+12 > max {
			n = max - 12
		}
		if *cur+n+12 > max {
			*cur = 0
		}
		*cur += n + 12
		c.Blocks = append(c.Blocks, blockSpec{rng.Intn(3), uint64(rng.Intn(1 << 20)), n})
	}
	for k := rng.Intn(4); k > 0; k-- {
		o := metaOp{Key: rng.Intn(nKeys)}
		if rng.Chance(25) {
			o.Del = true
		} else {
			o.Val = rng.Bytes(1 + rng.Intn(6))
		}
		c.Ops = append(c.Ops, o)
	}
	c.Flush = rng.Chance(50)
	return c
}

func genWorkload(rng *lib.Rng, big bool) workload {
	w := workload{Max: uint32(512 + rng.Intn(3)*256), Mode: []string{"flags", "flags", "size0", "default"}[rng.Intn(4)], Close: rng.Chance(60)}
	cur := 0
	if rng.Chance(60) {
		for i := rng.Intn(3); i >= 0; i-- {
			c := genCommit(rng, int(w.Max), &cur, rng.Intn(3))
			c.Flush = true
			w.Pre = append(w.Pre, c)
		}
	}
	n := 1 + rng.Intn(3)
	if big {
		n = 4 + rng.Intn(5)
	}
	for i := 0; i < n; i++ {
		w.Sess = append(w.Sess, genCommit(rng, int(w.Max), &cur, rng.Intn(3)))
	}
	if w.Mode != "flags" {
		for i := range w.Sess {
			w.Sess[i].Flush = flushesAt(w, i)
		}
	}
	// post: two commits, the second one forcing a rollover
	w.Post = []commit{
		{Blocks: []blockSpec{{2, 7, 33}}, Ops: []metaOp{{Key: 0, Val: []byte{9, 9}}}, Flush: true},
		{Blocks: []blockSpec{{0, 99, int(w.Max) - 12}, {1, 0, 20}}, Ops: []metaOp{{Key: 1, Del: true}}, Flush: false},
	}
	return w
}

func corpus() []workload {
	post := func(max int) []commit {
		return []commit{
			{Blocks: []blockSpec{{2, 7, 33}}, Ops: []metaOp{{Key: 0, Val: []byte{9, 9}}}, Flush: true},
			{Blocks: []blockSpec{{0, 99, max - 12}, {1, 0, 20}}, Ops: []metaOp{{Key: 1, Del: true}}, Flush: false},
		}
	}
	return []workload{
		// fresh database, every commit flushes, rollover inside the second commit
		{Max: 512, Mode: "flags", Close: true, Post: post(512), Sess: []commit{
			{Blocks: []blockSpec{{2, 1, 200}}, Ops: []metaOp{{Key: 0, Val: []byte{1}}}, Flush: true},
			{Blocks: []blockSpec{{0, 5, 250}, {1, 0, 100}}, Ops: []metaOp{{Key: 1, Val: []byte{2, 2}}, {Key: 0, Del: true}}, Flush: true},
			{Blocks: nil, Ops: []metaOp{{Key: 2, Val: []byte{3}}}, Flush: true}}},
		// cached commits made durable by a later flush (two LevelDB transactions), then Close
		{Max: 512, Mode: "flags", Close: true, Post: post(512),
			Pre: []commit{{Blocks: []blockSpec{{2, 3, 300}}, Ops: []metaOp{{Key: 4, Val: []byte{4}}}, Flush: true}},
			Sess: []commit{
				{Blocks: []blockSpec{{0, 8, 150}}, Ops: []metaOp{{Key: 0, Val: []byte{1}}}, Flush: false},
				{Blocks: []blockSpec{{1, 0, 80}}, Ops: []metaOp{{Key: 0, Val: []byte{7}}, {Key: 4, Del: true}}, Flush: false},
				{Blocks: []blockSpec{{2, 9, 60}}, Ops: []metaOp{{Key: 3, Val: []byte{5, 5, 5}}}, Flush: true},
				{Blocks: []blockSpec{{2, 2, 10}}, Ops: nil, Flush: false}}},
		// durable cursor (file 0, offset 462); a cached commit, then ONE flushing
		// commit that rolls over twice (-> file 1 offset 72, -> file 2 offset 492):
		// every instrumented point, incl. flush:before/after-ldb, is hit while the
		// disk is at (file N+1 or N+2, small offset) and the metadata at (file N, large offset)
		{Max: 512, Mode: "flags", Close: true, Post: post(512),
			Pre: []commit{{Blocks: []blockSpec{{2, 3, 450}}, Ops: []metaOp{{Key: 4, Val: []byte{4}}}, Flush: true}},
			Sess: []commit{
				{Blocks: nil, Ops: []metaOp{{Key: 0, Val: []byte{1}}}, Flush: false},
				{Blocks: []blockSpec{{0, 8, 60}, {1, 0, 480}, {2, 9, 5}}, Ops: []metaOp{{Key: 3, Val: []byte{5, 5}}}, Flush: true}}},
		// the same without a clean prefix and without flush: three rollovers in a
		// cached commit, then the process exits (nothing of it may survive)
		{Max: 512, Mode: "flags", Close: false, Post: post(512),
			Sess: []commit{
				{Blocks: []blockSpec{{2, 1, 470}}, Ops: []metaOp{{Key: 0, Val: []byte{1}}}, Flush: true},
				{Blocks: []blockSpec{{0, 8, 30}, {1, 0, 490}, {2, 9, 40}, {0, 4, 460}}, Ops: []metaOp{{Key: 1, Val: []byte{6}}}, Flush: false}}},
	}
}

var _ = strings.Join
