// C09 correspondence: CompactToBig / BigToCompact / CheckProofOfWork /
// CalcNextRequiredDifficulty / CalcWork of /repo against coq/model/C09_Compact.v.
package main

import (
	"fmt"
	"math/big"
	"time"

	"github.com/elastos/Elastos.ELA/auxpow"
	"github.com/elastos/Elastos.ELA/blockchain"
	"github.com/elastos/Elastos.ELA/common/config"
	elacommon "github.com/elastos/Elastos.ELA/common"
	"github.com/elastos/Elastos.ELA/core/types/common"

	"verifharness/elaenv"
	"verifharness/fixture"
	"verifharness/lib"
)

var one = big.NewInt(1)

func pow2(k uint) *big.Int { return new(big.Int).Lsh(one, k) }

// canonical mirrors coq/model/C09_Compact.v [canonical].
func canonical(c uint32) bool {
	if c == 0 {
		return true
	}
	m, e := c&0x7fffff, c>>24
	if m < 0x8000 {
		return false
	}
	if e <= 2 {
		return m%(1<<(8*(3-e))) == 0
	}
	return true
}

func main() {
	run := lib.ParseArgs()
	elaenv.InitLog(run.Out)
	rng := lib.NewRng(run.Seed)
	st := lib.NewStats("C09", "compact values: boundary exponents 0..34 and 253..255 x boundary mantissas x sign, plus random; targets: 2^k, 2^k-1, 2^k+1, random up to 2^256 and negatives; pow: bits built around the real parent-header hash; retarget: node chains with boundary/wrapping timespans. nontrivial = non-zero decoded value / accepting pow / clamped or limited retarget; distinct by canonical observation")
	sh := &lib.Shards{Dir: run.Out, Imports: "From ELA Require Import corr.C09_corr.", CaseType: "C09_corr.case",
		Mismatch: "C09_corr.mismatches", Scope: "Z", PerShard: 500}
	id := 0
	next := func() int { id++; return id }

	// ---- CompactToBig
	var compacts []uint32
	mants := []uint32{0, 1, 0x7f, 0x80, 0xff, 0x100, 0x7fff, 0x8000, 0xffff, 0x10000, 0x7fffff, 0x123456, 0x008000, 0x00ff00, 0x7f0000, 0x010000}
	for e := uint32(0); e <= 36; e++ {
		for _, m := range mants {
			compacts = append(compacts, e<<24|m, e<<24|m|0x800000)
		}
	}
	for _, e := range []uint32{253, 254, 255} {
		for _, m := range mants {
			compacts = append(compacts, e<<24|m)
		}
	}
	for i := 0; i < run.N(300, 20000); i++ {
		c := uint32(rng.U64())
		if rng.Chance(60) {
			c = uint32(rng.Intn(40))<<24 | uint32(rng.U64())&0xffffff
		}
		compacts = append(compacts, c)
	}
	for _, c := range compacts {
		out := blockchain.CompactToBig(c)
		i := next()
		sh.Add(fmt.Sprintf("CToBig %d %d %s", i, c, lib.CoqZ(out)))
		st.LogCase(run.Out, i, map[string]interface{}{"op": "CompactToBig", "c": c, "out": out.String()})
		st.Count(fmt.Sprintf("tb:%d", c), out.Sign() != 0, "CompactToBig")
		// oracle: identity on canonical encodings (the structural predicate of the model)
		if canonical(c) && blockchain.BigToCompact(out) != c {
			st.Fail("compact:roundtrip", "canonical compact value does not round-trip", map[string]interface{}{"c": c, "back": blockchain.BigToCompact(out)})
		}
		// oracle: re-encoding never yields a larger target (positive values)
		if out.Sign() > 0 {
			back := blockchain.CompactToBig(blockchain.BigToCompact(out))
			if back.Cmp(out) > 0 {
				st.Fail("BigToCompact:larger", "re-encoding increased the target", map[string]interface{}{"c": c})
			}
		}
	}
	st.Sample(map[string]interface{}{"op": "CompactToBig", "c": compacts[37], "out": blockchain.CompactToBig(compacts[37]).String()})

	// ---- BigToCompact
	var nums []*big.Int
	for k := uint(0); k <= 264; k++ {
		p := pow2(k)
		nums = append(nums, p, new(big.Int).Sub(p, one), new(big.Int).Add(p, one), new(big.Int).Neg(p))
	}
	for i := 0; i < run.N(300, 20000); i++ {
		bits := uint(rng.Intn(258))
		n := new(big.Int).SetBytes(rng.Bytes(33))
		n.Rsh(n, 264-bits)
		if rng.Chance(10) {
			n.Neg(n)
		}
		nums = append(nums, n)
	}
	for _, n := range nums {
		out := blockchain.BigToCompact(n)
		i := next()
		sh.Add(fmt.Sprintf("CToCompact %d %s %d", i, lib.CoqZ(n), out))
		st.LogCase(run.Out, i, map[string]interface{}{"op": "BigToCompact", "n": n.String(), "out": out})
		st.Count("tc:"+n.String(), n.Sign() != 0, "BigToCompact")
		if n.Sign() > 0 {
			if blockchain.CompactToBig(out).Cmp(n) > 0 {
				st.Fail("BigToCompact:larger", "encoding increased the target", map[string]interface{}{"n": n.String()})
			}
		}
	}
	st.Sample(map[string]interface{}{"op": "BigToCompact", "n": nums[100].String(), "out": blockchain.BigToCompact(nums[100])})

	// ---- CheckProofOfWork
	limits := []*big.Int{config.DefaultParams.PowConfiguration.PowLimit, pow2(255), new(big.Int).Sub(pow2(256), one), pow2(200)}
	for i := 0; i < run.N(200, 5000); i++ {
		var hdr common.Header
		hdr.AuxPow = auxpow.AuxPow{}
		hdr.AuxPow.ParBlockHeader.Nonce = uint32(rng.U64())
		hdr.AuxPow.ParBlockHeader.Timestamp = uint32(rng.U64())
		h := hdr.AuxPow.ParBlockHeader.Hash()
		hn := blockchain.HashToBig(&h)
		// bits around the hash value, or random/boundary
		var bits uint32
		switch rng.Intn(6) {
		case 0:
			bits = blockchain.BigToCompact(hn)
		case 1:
			bits = blockchain.BigToCompact(new(big.Int).Add(hn, pow2(uint(hn.BitLen()-8))))
		case 2:
			bits = blockchain.BigToCompact(new(big.Int).Rsh(hn, uint(rng.Intn(9))))
		case 3:
			bits = 0x207fffff
		case 4:
			bits = uint32(rng.U64())
		default:
			bits = uint32(30+rng.Intn(5))<<24 | uint32(rng.U64())&0xffffff
		}
		hdr.Bits = bits
		lim := limits[rng.Intn(len(limits))]
		err := blockchain.CheckProofOfWork(&hdr, lim)
		k := next()
		sh.Add(fmt.Sprintf("CPow %d %d %s %s %s", k, bits, lib.CoqZ(hn), lib.CoqZ(lim), lib.CoqBool(err == nil)))
		st.LogCase(run.Out, k, map[string]interface{}{"op": "CheckProofOfWork", "bits": bits, "hash": hn.String(), "limit": lim.String(), "ok": err == nil})
		st.Count(fmt.Sprintf("pw:%d:%s:%s", bits, hn, lim), err == nil, "CheckProofOfWork")
		if err == nil { // oracle: the statement of the property
			t := blockchain.CompactToBig(bits)
			if !(t.Sign() > 0 && t.Cmp(lim) <= 0 && hn.Cmp(t) <= 0) {
				st.Fail("CheckProofOfWork:accept", "accepted although hash>target or target outside (0,limit]", map[string]interface{}{"bits": bits, "hash": hn.String(), "limit": lim.String()})
			}
		}
		if i == 0 {
			st.Sample(map[string]interface{}{"op": "CheckProofOfWork", "bits": bits, "hash": hn.String(), "ok": err == nil})
		}
	}

	// ---- CalcNextRequiredDifficulty (retarget height)
	type pcfg struct {
		timespan, perblock time.Duration
		factor             int64
		limitBits          uint32
	}
	cfgs := []pcfg{
		{24 * time.Hour, 2 * time.Minute, 4, 0x1f0008ff},
		{10 * time.Second, 1 * time.Second, 4, 0x1f0008ff},
		{1 * time.Minute, 10 * time.Second, 4, 0x1e03ffff},
		{100 * time.Second, 10 * time.Second, 3, 0x1d00ffff},
		{24 * time.Hour, 2 * time.Minute, 4, 0},
		{1 * time.Hour, 7 * time.Minute, 4, 0x1e03ffff},  // timespan not a multiple of the block time
		{50 * time.Second, 7 * time.Second, 3, 0x1d00ffff}, // neither a multiple of the block time nor of the factor
	}
	mainBits, mainLimit := config.DefaultParams.PowConfiguration.PowLimitBits, config.DefaultParams.PowConfiguration.PowLimit
	setPow := func(pw *config.PowConfiguration, pc pcfg) {
		pw.TargetTimespan, pw.TargetTimePerBlock, pw.AdjustmentFactor = pc.timespan, pc.perblock, pc.factor
		pw.PowLimitBits = pc.limitBits
		pw.PowLimit = blockchain.CompactToBig(pc.limitBits)
		if pc.limitBits == 0 { // the built-in main net pair, untouched (PowLimitBits is not the compact form of PowLimit there)
			pw.PowLimitBits = mainBits
			pw.PowLimit = mainLimit
		}
	}
	// The BlockChain objects come from the real constructor blockchain.New (through the chain fixture), so
	// the retarget bounds are the ones the node computes, not a copy of that computation.
	chains := make([]*blockchain.BlockChain, len(cfgs))
	for ci, pc := range cfgs {
		pc := pc
		f, err := fixture.New(fixture.Options{Tune: func(p *config.Configuration) { setPow(&p.PowConfiguration, pc) }})
		if err != nil {
			panic(err)
		}
		chains[ci] = f.Chain
		f.Close()
	}
	elaenv.InitLog(run.Out)
	for i := 0; i < run.N(200, 5000); i++ {
		ci := rng.Intn(len(cfgs))
		pc := cfgs[ci]
		params := *config.GetDefaultParams()
		pw := &params.PowConfiguration
		setPow(pw, pc)
		if pc.limitBits == 0 {
			pc.limitBits = blockchain.BigToCompact(pw.PowLimit)
		}
		bc := chains[ci]
		per := uint32(pc.timespan / pc.perblock)
		T := int64(pc.timespan / time.Second)
		// build a chain of nodes of heights h0 .. h0+per-1 ending just before a retarget height
		h0 := per * uint32(1+rng.Intn(5))
		firstTs := uint32(rng.U64())
		if rng.Chance(70) {
			firstTs = uint32(1500000000 + rng.Intn(1000000))
		}
		var span uint32
		switch rng.Intn(8) {
		case 0:
			span = uint32(T / pc.factor)
		case 1:
			span = uint32(T/pc.factor) - 1
		case 2:
			span = uint32(T * pc.factor)
		case 3:
			span = uint32(T*pc.factor) + 1
		case 4:
			span = uint32(T)
		case 5:
			span = uint32(0) - uint32(1+rng.Intn(1000)) // prev earlier than first: uint32 wrap
		case 6:
			span = 0
		default:
			span = uint32(rng.Intn(int(T * pc.factor * 2)))
		}
		prevTs := firstTs + span
		oldBits := pc.limitBits
		switch rng.Intn(4) {
		case 0:
			oldBits = blockchain.BigToCompact(new(big.Int).Rsh(pw.PowLimit, uint(rng.Intn(40))))
		case 1:
			oldBits = blockchain.BigToCompact(new(big.Int).Sub(pw.PowLimit, big.NewInt(int64(rng.Intn(1000)))))
		case 2:
			oldBits = uint32(3+rng.Intn(28))<<24 | uint32(rng.U64())&0x7fffff
		}
		var prev *blockchain.BlockNode
		for h := h0; h < h0+per; h++ {
			n := &blockchain.BlockNode{Height: h, Bits: oldBits, Timestamp: firstTs + uint32(rng.Intn(50)), Parent: prev}
			if h == h0 {
				n.Timestamp = firstTs
			}
			prev = n
		}
		prev.Timestamp = prevTs
		if per == 1 {
			firstTs = prevTs
		}
		out, err := bc.CalcNextRequiredDifficulty(prev, time.Unix(0, 0))
		if err != nil {
			panic(err)
		}
		k := next()
		sh.Add(fmt.Sprintf("CRetarget %d %d %d %d %d %d %s %d", k, oldBits, prevTs, firstTs, T, pc.factor, lib.CoqZ(pw.PowLimit), out))
		st.LogCase(run.Out, k, map[string]interface{}{"op": "CalcNextRequiredDifficulty", "oldBits": oldBits, "prevTs": prevTs, "firstTs": firstTs, "T": T, "factor": pc.factor, "limit": pw.PowLimit.String(), "out": out})
		old := blockchain.CompactToBig(oldBits)
		nt := blockchain.CompactToBig(out)
		clamped := int64(span) < T/pc.factor || int64(span) > T*pc.factor || nt.Cmp(pw.PowLimit) == 0
		st.Count(fmt.Sprintf("rt:%d:%d:%d:%d", oldBits, span, T, pc.factor), clamped, "CalcNextRequiredDifficulty")
		// oracle: moved by at most the factor, never above the limit
		up := new(big.Int).Mul(old, big.NewInt(pc.factor))
		if nt.Cmp(up) > 0 || nt.Cmp(pw.PowLimit) > 0 {
			st.Fail("retarget:up", "new target above factor*old or above limit", map[string]interface{}{"oldBits": oldBits, "span": span, "out": out})
		}
		// oracle: ... and not below old/factor (or the limit), up to the 2^-15 relative precision of the compact form
		// (the configured minimum timespan is T/factor in integer arithmetic, so the exact bound is old*(T/factor)/T,
		// which is old/factor when factor divides T — theorem C09_retarget_bounds)
		low := new(big.Int).Mul(old, big.NewInt(T/pc.factor))
		low.Div(low, big.NewInt(T))
		if low.Cmp(pw.PowLimit) > 0 {
			low.Set(pw.PowLimit)
		}
		slack := new(big.Int).Rsh(low, 15)
		slack.Add(slack, one)
		if new(big.Int).Add(nt, slack).Cmp(low) < 0 {
			st.Fail("retarget:down", "new target below old/factor (and below the limit)", map[string]interface{}{"oldBits": oldBits, "span": span, "out": out, "limitBits": pw.PowLimitBits, "limit": pw.PowLimit.String()})
		}
		if i == 0 {
			st.Sample(map[string]interface{}{"op": "CalcNextRequiredDifficulty", "oldBits": oldBits, "span": span, "T": T, "factor": pc.factor, "out": out})
		}
	}

	// ---- CalcWork
	for i := 0; i < run.N(100, 2000); i++ {
		c := compacts[rng.Intn(len(compacts))]
		out := blockchain.CalcWork(c)
		k := next()
		sh.Add(fmt.Sprintf("CWork %d %d %s", k, c, lib.CoqZ(out)))
		st.LogCase(run.Out, k, map[string]interface{}{"op": "CalcWork", "bits": c, "out": out.String()})
		st.Count(fmt.Sprintf("wk:%d", c), out.Sign() > 0, "CalcWork")
	}
	_ = elacommon.Uint256{}
	st.Traces = st.Evals
	sh.Flush()
	st.Write(run.Out)
}
