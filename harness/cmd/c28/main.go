// C28 correspondence and property oracle: the real SpecialContextCheck of
// ReturnDepositCoin / ReturnCRDepositCoin / Voting (DposV2 content) / ReturnVotes
// against a directly populated dpos State and CR Committee, and the state
// transitions these transactions cause (processDeposit, returnDeposit,
// processStake, processVotingContent, processReturnVotes), compared with
// coq/model/C28_Deposit.v; oracle = exact big-integer replay.
package main

import (
	"bytes"
	"crypto/sha256"
	"fmt"
	"math/big"
	"os"
	"path/filepath"
	"strings"

	"github.com/elastos/Elastos.ELA/blockchain"
	elacommon "github.com/elastos/Elastos.ELA/common"
	"github.com/elastos/Elastos.ELA/common/config"
	"github.com/elastos/Elastos.ELA/core"
	"github.com/elastos/Elastos.ELA/core/checkpoint"
	"github.com/elastos/Elastos.ELA/core/contract"
	"github.com/elastos/Elastos.ELA/core/contract/program"
	"github.com/elastos/Elastos.ELA/core/transaction"
	"github.com/elastos/Elastos.ELA/core/types"
	common2 "github.com/elastos/Elastos.ELA/core/types/common"
	"github.com/elastos/Elastos.ELA/core/types/functions"
	"github.com/elastos/Elastos.ELA/core/types/interfaces"
	"github.com/elastos/Elastos.ELA/core/types/outputpayload"
	"github.com/elastos/Elastos.ELA/core/types/payload"
	crstate "github.com/elastos/Elastos.ELA/cr/state"
	"github.com/elastos/Elastos.ELA/crypto"
	"github.com/elastos/Elastos.ELA/dpos/state"

	"verifharness/crkit"
	"verifharness/elaenv"
	"verifharness/lib"
)

type fx = elacommon.Fixed64

const (
	minDep   = 500000000000 // 5000 ELA (state.MinDepositAmount)
	minDepV2 = 200000000000 // 2000 ELA
)

var bigOne = big.NewInt(1)

func b(x int64) *big.Int { return big.NewInt(x) }

// boundary amounts (the C01 set)
func boundary(r *lib.Rng) int64 {
	k := int64(r.Intn(4))
	switch r.Intn(16) {
	case 0:
		return 0
	case 1:
		return 1
	case 2:
		return minDep - 1 + k
	case 3:
		return minDepV2 - 1 + k
	case 4:
		return 1 << 31
	case 5:
		return 1<<62 - k
	case 6:
		return 1<<62 + k
	case 7:
		return 1<<63 - 1 - k
	case 8:
		return 10000 + k - 1
	default:
		return int64(r.Intn(3 * minDep))
	}
}

// small amounts: realistic (below the supply)
func small(r *lib.Rng) int64 {
	switch r.Intn(8) {
	case 0:
		return 0
	case 1:
		return 1
	case 2:
		return minDep + int64(r.Intn(3)) - 1
	case 3:
		return 10000
	default:
		return int64(r.Intn(2 * minDep))
	}
}

func key(k int) []byte {
	d := sha256.Sum256([]byte(fmt.Sprintf("verif-c28-key-%d", k)))
	pk := crypto.PublicKey{}
	pk.X, pk.Y = crypto.DefaultCurve.ScalarBaseMult(d[:])
	enc, _ := pk.EncodePoint(true)
	return enc
}

func keyPriv(k int) []byte {
	d := sha256.Sum256([]byte(fmt.Sprintf("verif-c28-key-%d", k)))
	return d[:]
}

func stdCode(k []byte) []byte { return append(append([]byte{33}, k...), 0xAC) }

func coqZs(l []int64) string {
	var s []string
	for _, x := range l {
		s = append(s, lib.CoqZi(x))
	}
	return lib.CoqList(s)
}

type refSetter interface {
	SetReferences(map[*common2.Input]common2.Output)
}

var (
	chain     *blockchain.BlockChain
	dstate    *state.State
	committee *crstate.Committee
	params    *config.Configuration
	height    uint32 = 1000
	txSeq     int
)

func nextHeight() uint32 { height++; return height }

func mkOutputs(hash elacommon.Uint168, change, outs []int64) []*common2.Output {
	var other elacommon.Uint168
	other[0] = byte(contract.PrefixStandard)
	other[5] = 9
	var r []*common2.Output
	for _, v := range change {
		r = append(r, &common2.Output{AssetID: core.ELAAssetID, Value: fx(v), ProgramHash: hash, Type: common2.OTNone, Payload: &outputpayload.DefaultOutput{}})
	}
	for _, v := range outs {
		r = append(r, &common2.Output{AssetID: core.ELAAssetID, Value: fx(v), ProgramHash: other, Type: common2.OTNone, Payload: &outputpayload.DefaultOutput{}})
	}
	return r
}

func uniqueAttr() []*common2.Attribute {
	txSeq++
	a := common2.NewAttribute(common2.Nonce, []byte(fmt.Sprintf("c28-%d", txSeq)))
	return []*common2.Attribute{&a}
}

func special(tx interfaces.Transaction, refs map[*common2.Input]common2.Output) (ok bool, why string, panicked bool) {
	p, val := lib.Recover(func() {
		tx.SetParameters(&transaction.TransactionParameters{Transaction: tx, BlockHeight: height, Config: params, BlockChain: chain})
		tx.(refSetter).SetReferences(refs)
		if e, _ := tx.SpecialContextCheck(); e != nil {
			why = e.Error()
			return
		}
		ok = true
	})
	if p {
		return false, fmt.Sprint(val), true
	}
	return
}

// exact-arithmetic account for the oracle
type exact struct{ tot, lock, pen *big.Int }

func (e exact) avail() *big.Int {
	return new(big.Int).Sub(new(big.Int).Sub(e.tot, e.lock), e.pen)
}
func sumBig(l []int64) *big.Int {
	s := new(big.Int)
	for _, x := range l {
		s.Add(s, b(x))
	}
	return s
}

// seedMix decorrelates seeds: lib.NewRng(seed) is SplitMix64 started at seed*gamma,
// so consecutive seeds give the same stream shifted by one draw.
func seedMix(seed uint64) uint64 {
	h := sha256.Sum256([]byte(fmt.Sprintf("verif-seed-%d", seed)))
	var x uint64
	for i := 0; i < 8; i++ {
		x = x<<8 | uint64(h[i])
	}
	return x
}

func main() {
	run := lib.ParseArgs()
	elaenv.InitLog(run.Out)
	rng := lib.NewRng(seedMix(run.Seed))
	functions.GetTransactionByTxType = transaction.GetTransaction
	functions.GetTransactionByBytes = transaction.GetTransactionByBytes
	functions.CreateTransaction = transaction.CreateTransaction
	functions.GetTransactionParameters = transaction.GetTransactionparameters
	config.DefaultParams = *config.GetDefaultParams()
	params = &config.DefaultParams
	params.GenesisBlock = core.GenesisBlock(*params.FoundationProgramHash)

	dir := filepath.Join(run.Out, "store")
	os.RemoveAll(dir)
	store, err := blockchain.NewChainStore(dir, params)
	if err != nil {
		panic(err)
	}
	defer store.Close()
	ckp := checkpoint.NewManager(params)
	ckp.SetDataPath(filepath.Join(run.Out, "checkpoints"))
	dstate = state.NewState(params, nil, nil, nil, nil, nil, nil, nil, nil, nil, nil, nil)
	committee = crstate.NewCommittee(params, ckp)
	committee.RegisterFuncitons(&crstate.CommitteeFuncsConfig{}) // as the node does: wires State.getHistoryMember
	chain, err = blockchain.New(store, params, dstate, committee, ckp)
	if err != nil {
		panic(err)
	}
	dstate.DPoSV2ActiveHeight = 500 // heights used here are above it
	fee := int64(params.CRConfiguration.RealWithdrawSingleFee)

	st := lib.NewStats("C28", "real SpecialContextCheck of ReturnDepositCoin / ReturnCRDepositCoin / Voting(DposV2 content) / ReturnVotes on a directly populated dpos State and CR Committee (1-2 signers, unknown signers, mixed input addresses), amounts from {0,1,min deposit+-1,2^31,2^62+-k,2^63-1-k, fee+-1, random}; op sequences (<= 30) of deposit / penalty / unlock / return on one producer or CR candidate and of stake / vote / expire / return-votes on one stake address, applying the real state transitions; block-driven histories through State.ProcessBlock (3 DPoS v2 producers, 2 stake addresses: stake, vote with lock times of 2-7 blocks, renewals at lock-1..lock+2, return votes; 25-60 blocks) and through Committee.ProcessBlock (6 CR candidates, registrations, CR votes, unregistrations at committee change - lockup +-2, committee changes at 20 and 44, deposit returns; 49 blocks); nontrivial = accepted check or sequence with at least one accepted return/vote; distinct by canonical case text")
	sh := &lib.Shards{Dir: run.Out, Imports: "From ELA Require Import model.C28_Deposit corr.C28_corr.", CaseType: "C28_corr.case",
		Mismatch: "C28_corr.mismatches", Scope: "Z", PerShard: 150}
	id := 0
	next := func() int { id++; return id }
	pcount := 0
	beyond := map[string]int{} // what the real code does beyond 2^62 (not reachable with real coins): counted, not failed

	// a fresh producer (dpos) or candidate (cr) with the given bookkeeping; returns its program code and deposit hash
	type account struct {
		cr    bool
		code  []byte
		hash  elacommon.Uint168
		prod  *state.Producer
		cid   elacommon.Uint168
		owner []byte
	}
	newAccount := func(cr bool, tot, lock, pen int64, v2 bool) *account {
		pcount++
		k := key(pcount)
		a := &account{cr: cr, code: stdCode(k), owner: k}
		if cr {
			ct, _ := contract.CreateCRIDContractByCode(a.code)
			a.cid = *ct.ToProgramHash()
			dct, _ := contract.CreateDepositContractByCode(a.code)
			a.hash = *dct.ToProgramHash()
			cs := committee.GetState()
			cs.DepositInfo[a.cid] = &crstate.DepositInfo{TotalAmount: fx(tot), DepositAmount: fx(lock), Penalty: fx(pen)}
			cs.DepositHashCIDMap[a.hash] = a.cid
			return a
		}
		ident, until := state.DPoSV1, uint32(0)
		if v2 {
			ident, until = state.DPoSV2, 900000
		}
		p, err := state.NewProducerVerifC28(k, k, state.Active, ident, until, fx(tot), fx(lock), fx(pen))
		if err != nil {
			panic(err)
		}
		a.prod = p
		dh, _ := state.GetOwnerKeyDepositProgramHash(k)
		a.hash = *dh
		dstate.ActivityProducers[fmt.Sprintf("%x", k)] = p
		dstate.NodeOwnerKeys[fmt.Sprintf("%x", k)] = fmt.Sprintf("%x", k)
		return a
	}
	drop := func(a *account) {
		if a.cr {
			cs := committee.GetState()
			delete(cs.DepositInfo, a.cid)
			delete(cs.DepositHashCIDMap, a.hash)
		} else {
			delete(dstate.ActivityProducers, fmt.Sprintf("%x", a.owner))
			delete(dstate.NodeOwnerKeys, fmt.Sprintf("%x", a.owner))
		}
	}
	read := func(a *account) (int64, int64, int64) {
		if a.cr {
			d := committee.GetState().DepositInfo[a.cid]
			return int64(d.TotalAmount), int64(d.DepositAmount), int64(d.Penalty)
		}
		return int64(a.prod.TotalAmount()), int64(a.prod.DepositAmount()), int64(a.prod.Penalty())
	}
	write := func(a *account, tot, lock, pen int64) {
		if a.cr {
			d := committee.GetState().DepositInfo[a.cid]
			d.TotalAmount, d.DepositAmount, d.Penalty = fx(tot), fx(lock), fx(pen)
			return
		}
		a.prod.SetAmountsVerifC28(fx(tot), fx(lock), fx(pen))
	}
	txType := func(cr bool) (common2.TxType, interfaces.Payload) {
		if cr {
			return common2.ReturnCRDepositCoin, &payload.ReturnDepositCoin{}
		}
		return common2.ReturnDepositCoin, &payload.ReturnDepositCoin{}
	}

	// ---------------------------------------------------------------- check-only: return deposit
	for k := 0; k < run.N(500, 10000); k++ {
		r := rng.Fork()
		cr := r.Bool()
		amt := boundary
		if r.Chance(50) {
			amt = small
		}
		nsign := 1
		if r.Chance(20) {
			nsign = 2
		}
		var signers []*account
		var sgCoq []string
		var progs []*program.Program
		for i := 0; i < nsign; i++ {
			if r.Chance(8) { // a signer that is no producer / candidate
				pcount++
				progs = append(progs, &program.Program{Code: stdCode(key(pcount)), Parameter: []byte{}})
				signers = append(signers, nil)
				sgCoq = append(sgCoq, "None")
				continue
			}
			tot, lock, pen := amt(r), amt(r), int64(0)
			if r.Chance(60) {
				lock = r.PickI64(0, minDep, minDepV2)
			}
			if r.Chance(60) && tot < lock {
				tot += lock
				if tot < 0 {
					tot = lock
				}
			}
			if r.Chance(40) {
				pen = amt(r)
			}
			a := newAccount(cr, tot, lock, pen, false)
			signers = append(signers, a)
			progs = append(progs, &program.Program{Code: a.code, Parameter: []byte{}})
			sgCoq = append(sgCoq, fmt.Sprintf("Some (%s,%s,%s)", lib.CoqZi(tot), lib.CoqZi(lock), lib.CoqZi(pen)))
		}
		var hash elacommon.Uint168
		if signers[0] != nil {
			hash = signers[0].hash
		} else {
			hash[0] = byte(contract.PrefixDeposit)
		}
		// amounts around the available amount of the first signer
		var av int64
		if signers[0] != nil {
			t, l, p := read(signers[0])
			av = t - l - p
		}
		near := func() int64 {
			if r.Chance(50) {
				v := av + int64(r.Intn(5)) - 2
				if v >= 0 {
					return v
				}
			}
			return amt(r)
		}
		var refs, change, outs []int64
		for i := r.Range(1, 3); i > 0; i-- {
			refs = append(refs, near())
		}
		for i := r.Intn(3); i > 0; i-- {
			change = append(change, amt(r)%(1+near()))
		}
		for i := r.Range(1, 2); i > 0; i-- {
			outs = append(outs, near())
		}
		oneAddr := true
		refm := map[*common2.Input]common2.Output{}
		var ins []*common2.Input
		for i, v := range refs {
			in := &common2.Input{}
			in.Previous.TxID[0], in.Previous.TxID[1], in.Previous.Index = byte(k), byte(k>>8), uint16(i)
			ins = append(ins, in)
			h := hash
			if i > 0 && r.Chance(6) {
				h[7] ^= 1
				oneAddr = false
			}
			refm[in] = common2.Output{Value: fx(v), ProgramHash: h}
		}
		tt, pl := txType(cr)
		tx := transaction.CreateTransaction(common2.TxVersion09, tt, 0, pl, uniqueAttr(), ins, mkOutputs(hash, change, outs), 0, progs)
		ok, why, pan := special(tx, refm)
		i := next()
		sh.Add(fmt.Sprintf("CRet %d %s %s %s %s %s %s", i, lib.CoqBool(oneAddr), coqZs(refs), coqZs(change), coqZs(outs), lib.CoqList(sgCoq), lib.CoqBool(ok)))
		js := map[string]interface{}{"op": "return-check", "cr": cr, "one_addr": oneAddr, "refs": refs, "change": change, "outs": outs, "signers": sgCoq, "ok": ok, "why": why}
		st.LogCase(run.Out, i, js)
		st.Count(fmt.Sprintf("rc|%v|%v|%v|%v|%v|%v", cr, oneAddr, refs, change, outs, sgCoq), ok, fmt.Sprintf("return-check:cr=%v:%v", cr, ok))
		if pan {
			st.Fail("SpecialContextCheck:panic", "return deposit check panicked: "+why, js)
		}
		if ok { // oracle: exact withdrawn <= exact available (sum over signers), outputs < available
			avs := new(big.Int)
			for _, a := range signers {
				t, l, p := read(a)
				avs.Add(avs, exact{b(t), b(l), b(p)}.avail())
			}
			w := new(big.Int).Sub(sumBig(refs), sumBig(change))
			if w.Cmp(avs) > 0 || sumBig(outs).Cmp(avs) > 0 {
				sig := "ReturnDeposit:accepted-overdraw:amounts>=2^62"
				real := true
				for _, l := range [][]int64{refs, change, outs} {
					for _, v := range l {
						real = real && v < 1<<61
					}
				}
				for _, a := range signers {
					t, l, p := read(a)
					real = real && t < 1<<61 && l < 1<<61 && p < 1<<61
				}
				if real {
					st.Fail("ReturnDeposit:accepted-overdraw", "return deposit check accepted a withdrawal above the exact available amount", js)
				} else {
					beyond["return-check accepted above exact available (amounts >= 2^61, int64 sums wrap)"]++
				}
				_ = sig
			}
		}
		if k%83 == 0 {
			st.Sample(js)
		}
		for _, a := range signers {
			if a != nil {
				drop(a)
			}
		}
	}

	// ---------------------------------------------------------------- sequences on one deposit account
	for k := 0; k < run.N(200, 4000); k++ {
		r := rng.Fork()
		cr := r.Chance(40)
		amt := small
		big62 := r.Chance(15)
		if big62 {
			amt = boundary
		}
		a := newAccount(cr, 0, 0, 0, false)
		type utxo struct {
			in  *common2.Input
			val int64
		}
		var utxos []utxo
		ex := exact{b(0), b(0), b(0)}
		deposit := func(v int64) {
			tx := transaction.CreateTransaction(common2.TxVersion09, common2.TransferAsset, 0, &payload.TransferAsset{}, uniqueAttr(), nil,
				mkOutputs(a.hash, []int64{v}, nil), 0, nil)
			h := nextHeight()
			if cr {
				committee.GetState().ApplyDepositVerifC28(tx, h)
			} else {
				dstate.ApplyDepositVerifC28(tx, h)
			}
			utxos = append(utxos, utxo{&common2.Input{Previous: common2.OutPoint{TxID: tx.Hash(), Index: 0}}, v})
			ex.tot.Add(ex.tot, b(v))
		}
		lock0 := r.PickI64(minDep, minDepV2, 0)
		deposit(lock0 + small(r))
		write(a, int64(mustI64(ex.tot)), lock0, 0)
		ex.lock = b(lock0)
		i0t, i0l, i0p := read(a)
		var ops, obs, log []string
		accepted := 0
		for n := r.Range(3, 30); n > 0; n-- {
			switch r.Intn(8) {
			case 0, 1:
				v := amt(r)
				deposit(v)
				ops = append(ops, fmt.Sprintf("DDeposit %s", lib.CoqZi(v)))
			case 2:
				x := amt(r) % (minDep + 1)
				t, l, p := read(a)
				write(a, t, l, int64(fx(p)+fx(x)))
				ex.pen.Add(ex.pen, b(x))
				ops = append(ops, fmt.Sprintf("DPenalty %s", lib.CoqZi(x)))
			case 3:
				t, l, p := read(a)
				d := l
				if r.Chance(30) && l > 0 {
					d = int64(r.Intn(int(l%1000000007) + 1))
				}
				write(a, t, l-d, p)
				ex.lock.Sub(ex.lock, b(d))
				ops = append(ops, fmt.Sprintf("DUnlock %s", lib.CoqZi(d)))
			default:
				if len(utxos) == 0 {
					continue
				}
				// spend 1..3 tracked deposit outputs
				var ins []*common2.Input
				var refs []int64
				refm := map[*common2.Input]common2.Output{}
				for j := r.Range(1, 3); j > 0 && len(utxos) > 0; j-- {
					x := r.Intn(len(utxos))
					ins = append(ins, utxos[x].in)
					refs = append(refs, utxos[x].val)
					refm[utxos[x].in] = common2.Output{Value: fx(utxos[x].val), ProgramHash: a.hash}
					utxos = append(utxos[:x], utxos[x+1:]...)
				}
				t, l, p := read(a)
				av := t - l - p
				in := int64(0)
				for _, v := range refs {
					in += v
				}
				var change, outs []int64
				// aim at the boundary: withdraw exactly / one above the available amount
				want := av + int64(r.Intn(4)) - 2
				if r.Chance(30) || want < 0 || want > in {
					want = int64(r.Intn(int(in%1000000007) + 1))
				}
				if in-want > 0 {
					change = append(change, in-want)
				}
				feeAmt := int64(r.PickI64(0, 1, 100, 10000))
				if want-feeAmt > 0 {
					outs = append(outs, want-feeAmt)
				} else {
					outs = append(outs, 0)
				}
				if big62 && r.Chance(30) {
					outs = append(outs, boundary(r))
				}
				tt, pl := txType(cr)
				tx := transaction.CreateTransaction(common2.TxVersion09, tt, 0, pl, uniqueAttr(), ins, mkOutputs(a.hash, change, outs), 0,
					[]*program.Program{{Code: a.code, Parameter: []byte{}}})
				ok, why, pan := special(tx, refm)
				if pan {
					st.Fail("SpecialContextCheck:panic", "return deposit check panicked: "+why, nil)
				}
				ops = append(ops, fmt.Sprintf("DReturn %s %s %s", coqZs(refs), coqZs(change), coqZs(outs)))
				log = append(log, fmt.Sprintf("return refs=%v change=%v outs=%v avail=%d ok=%v", refs, change, outs, av, ok))
				if ok {
					accepted++
					// oracle: withdrawn <= available in exact arithmetic
					w := new(big.Int).Sub(sumBig(refs), sumBig(change))
					if w.Cmp(ex.avail()) > 0 {
						if big62 {
							beyond["sequence: accepted return above exact available (amounts >= 2^62)"]++
						} else {
							st.Fail("ReturnDeposit:accepted-overdraw", "accepted return withdraws more than the exact available amount", map[string]interface{}{"cr": cr, "history": log})
						}
					}
					h := nextHeight()
					if cr {
						committee.GetState().ApplyDepositVerifC28(tx, h)
						committee.GetState().ApplyReturnDepositVerifC28(tx, h+1)
					} else {
						dstate.ApplyDepositVerifC28(tx, h)
						dstate.ApplyReturnDepositVerifC28(tx, h+1)
					}
					height++
					for ci, v := range change {
						utxos = append(utxos, utxo{&common2.Input{Previous: common2.OutPoint{TxID: tx.Hash(), Index: uint16(ci)}}, v})
					}
					ex.tot.Sub(ex.tot, w)
				} else {
					// refused: the inputs stay unspent
					for j, inp := range ins {
						utxos = append(utxos, utxo{inp, refs[j]})
					}
				}
			}
			if len(ops) > len(obs) {
				t, l, p := read(a)
				obs = append(obs, fmt.Sprintf("(%s,%s,%s)", lib.CoqZi(t), lib.CoqZi(l), lib.CoqZi(p)))
				// oracle: the real int64 bookkeeping equals the exact replay and the balances are not negative
				if b(t).Cmp(ex.tot) != 0 || b(l).Cmp(ex.lock) != 0 || b(p).Cmp(ex.pen) != 0 || t < 0 || l < 0 || p < 0 || b(l).Cmp(b(t)) > 0 {
					if big62 {
						beyond["sequence: deposit bookkeeping wrapped (amounts >= 2^62)"]++
					} else {
						st.Fail("DepositBookkeeping:diverges-from-exact", "deposit bookkeeping differs from the exact big-integer replay or a balance is negative / the locked deposit is not backed",
							map[string]interface{}{"cr": cr, "history": log, "state": []int64{t, l, p}, "exact": []string{ex.tot.String(), ex.lock.String(), ex.pen.String()}})
					}
				}
			}
		}
		i := next()
		sh.Add(fmt.Sprintf("CDSeq %d (%s,%s,%s) %s %s", i, lib.CoqZi(i0t), lib.CoqZi(i0l), lib.CoqZi(i0p), lib.CoqList(ops), lib.CoqList(obs)))
		st.LogCase(run.Out, i, map[string]interface{}{"op": "deposit-seq", "cr": cr, "ops": ops, "obs": obs})
		st.Count("ds|"+strings.Join(ops, ";"), accepted > 0, fmt.Sprintf("deposit-seq:cr=%v", cr))
		drop(a)
	}

	// ---------------------------------------------------------------- vote rights
	v2prods := []*account{}
	for i := 0; i < 4; i++ {
		v2prods = append(v2prods, newAccount(false, minDepV2, minDepV2, 0, true))
	}
	scount := 0
	newStake := func() ([]byte, elacommon.Uint168) {
		scount++
		code := stdCode(key(100000 + scount))
		ct, _ := contract.CreateStakeContractByCode(code)
		return code, *ct.ToProgramHash()
	}
	votingTx := func(code []byte, vs []int64, wellformed bool) interfaces.Transaction {
		var infos []payload.VotesWithLockTime
		for j, v := range vs {
			lt := height + 10000
			if !wellformed && j == 0 {
				lt = height // not above the current height
			}
			infos = append(infos, payload.VotesWithLockTime{Candidate: v2prods[j%len(v2prods)].owner, Votes: fx(v), LockTime: lt})
		}
		return transaction.CreateTransaction(common2.TxVersion09, common2.Voting, payload.VoteVersion,
			&payload.Voting{Contents: []payload.VotesContent{{VoteType: outputpayload.DposV2, VotesInfo: infos}}},
			uniqueAttr(), nil, nil, 0, []*program.Program{{Code: code, Parameter: []byte{}}})
	}
	setOthers := func(addr elacommon.Uint168, others []int64) {
		// DPoS v1 (maximum; ignored above DPoSV2ActiveHeight), CR (sum), impeachment (sum), proposal (maximum)
		cs := committee.GetState()
		mk := func(v int64) []payload.VotesWithLockTime {
			return []payload.VotesWithLockTime{{Votes: fx(v)}}
		}
		cs.UsedCRVotes[addr] = mk(others[0])
		cs.UsedCRImpeachmentVotes[addr] = mk(others[1])
		cs.UsedCRCProposalVotes[addr] = mk(others[2])
	}
	retVotesTx := func(code []byte, value int64) interfaces.Transaction {
		var out *common2.Output
		_ = out
		return transaction.CreateTransaction(common2.TxVersion09, common2.ReturnVotes, payload.ReturnVotesSchnorrVersion,
			&payload.ReturnVotes{Value: fx(value)}, uniqueAttr(), nil, nil, 0, []*program.Program{{Code: code, Parameter: []byte{}}})
	}
	setStake := func(addr elacommon.Uint168, present bool, R, U int64) {
		if present {
			dstate.DposV2VoteRights[addr] = fx(R)
		} else {
			delete(dstate.DposV2VoteRights, addr)
		}
		dstate.UsedDposV2Votes[addr] = fx(U)
	}
	voteOverdraw := func(vs []int64, R, U int64) bool {
		return sumBig(vs).Cmp(new(big.Int).Sub(b(R), b(U))) > 0
	}

	// corpus: the wrap witnesses of the vote check (4 x 2^62 = 0 mod 2^64; 3 x 2^62 < 0)
	corpusVotes := [][]int64{{1 << 62, 1 << 62, 1 << 62, 1 << 62}, {1 << 62, 1 << 62, 1 << 62}, {1 << 62, 1 << 62}, {1<<63 - 1, 1<<63 - 1, 2}, {100}, {60, 41}, {60, 40}}
	nVote := run.N(400, 10000)
	for k := 0; k < nVote+len(corpusVotes); k++ {
		r := rng.Fork()
		code, addr := newStake()
		amt := boundary
		if r.Chance(50) {
			amt = small
		}
		present, wf := !r.Chance(5), !r.Chance(5)
		R, U := amt(r), int64(0)
		if r.Chance(50) {
			U = amt(r) % (R + 1)
		}
		var vs []int64
		if k < len(corpusVotes) {
			vs, present, wf, R, U = corpusVotes[k], true, true, 100, 0
		} else {
			for j := r.Range(1, 4); j > 0; j-- {
				v := amt(r)
				if r.Chance(50) {
					v = (R-U)/int64(r.Range(1, 4)) + int64(r.Intn(3)) - 1
				}
				if v <= 0 && !r.Chance(10) {
					v = 1
				}
				vs = append(vs, v)
			}
		}
		setStake(addr, present, R, U)
		ok, why, pan := special(votingTx(code, vs, wf), nil)
		i := next()
		sh.Add(fmt.Sprintf("CVote %d %s %s %s %s %s %s", i, lib.CoqBool(present), lib.CoqBool(wf), lib.CoqZi(R), lib.CoqZi(U), coqZs(vs), lib.CoqBool(ok)))
		js := map[string]interface{}{"op": "vote-check", "present": present, "wellformed": wf, "rights": R, "used_v2": U, "votes": vs, "ok": ok, "why": why}
		st.LogCase(run.Out, i, js)
		st.Count(fmt.Sprintf("vc|%v|%v|%d|%d|%v", present, wf, R, U, vs), ok, fmt.Sprintf("vote-check:%v", ok))
		if pan {
			st.Fail("SpecialContextCheck:panic", "voting check panicked: "+why, js)
		}
		if ok && voteOverdraw(vs, R, U) {
			st.Fail("Voting:accepted-above-vote-rights", "Voting check accepted DPoS v2 votes whose exact sum exceeds the unused vote rights (the int64 sum wrapped)", js)
		}
		if k%97 == 0 {
			st.Sample(js)
		}
		delete(dstate.DposV2VoteRights, addr)
		delete(dstate.UsedDposV2Votes, addr)
	}
	for k := 0; k < run.N(300, 10000); k++ {
		r := rng.Fork()
		code, addr := newStake()
		amt := boundary
		if r.Chance(50) {
			amt = small
		}
		R := amt(r)
		U := amt(r) % (R + 1)
		others := []int64{amt(r) % (R + 1), amt(r) % (R + 1), amt(r) % (R + 1)}
		if r.Chance(10) {
			others[r.Intn(3)] = amt(r)
		}
		value := amt(r)
		if r.Chance(60) {
			m := U
			for _, o := range others {
				if o > m {
					m = o
				}
			}
			value = R - m + int64(r.Intn(3)) - 1
		}
		if r.Chance(10) {
			value = fee + int64(r.Intn(3)) - 1
		}
		setStake(addr, true, R, U)
		setOthers(addr, others)
		ok, why, pan := special(retVotesTx(code, value), nil)
		i := next()
		sh.Add(fmt.Sprintf("CRetV %d %d %s %s %s %s %s", i, fee, lib.CoqZi(R), lib.CoqZi(U), coqZs(others), lib.CoqZi(value), lib.CoqBool(ok)))
		js := map[string]interface{}{"op": "retvotes-check", "rights": R, "used_v2": U, "others": others, "value": value, "ok": ok, "why": why}
		st.LogCase(run.Out, i, js)
		st.Count(fmt.Sprintf("rv|%d|%d|%v|%d", R, U, others, value), ok, fmt.Sprintf("retvotes-check:%v", ok))
		if pan {
			st.Fail("SpecialContextCheck:panic", "return votes check panicked: "+why, js)
		}
		if ok {
			bad := b(value).Cmp(new(big.Int).Sub(b(R), b(U))) > 0
			for _, o := range others {
				bad = bad || b(value).Cmp(new(big.Int).Sub(b(R), b(o))) > 0
			}
			if bad {
				st.Fail("ReturnVotes:accepted-above-unused-rights", "ReturnVotes check accepted a value above the unused vote rights", js)
			}
		}
		delete(dstate.DposV2VoteRights, addr)
		delete(dstate.UsedDposV2Votes, addr)
		cs := committee.GetState()
		delete(cs.UsedCRVotes, addr)
		delete(cs.UsedCRImpeachmentVotes, addr)
		delete(cs.UsedCRCProposalVotes, addr)
	}

	// sequences on one stake address
	for k := 0; k < run.N(200, 4000); k++ {
		r := rng.Fork()
		code, addr := newStake()
		amt := small
		big62 := r.Chance(15)
		if big62 {
			amt = boundary
		}
		exR, exU := b(0), b(0)
		stakeWrapped := false
		var ops, obs, log []string
		accepted := 0
		var cast []int64
		setOthers(addr, []int64{0, 0, 0})
		for n := r.Range(3, 30); n > 0; n-- {
			R, U := int64(dstate.DposV2VoteRights[addr]), int64(dstate.UsedDposV2Votes[addr])
			switch r.Intn(6) {
			case 0, 1:
				v := amt(r)
				var sa elacommon.Uint168 = addr
				tx := transaction.CreateTransaction(common2.TxVersion09, common2.ExchangeVotes, 0, &payload.ExchangeVotes{}, uniqueAttr(), nil,
					[]*common2.Output{{AssetID: core.ELAAssetID, Value: fx(v), ProgramHash: sa, Type: common2.OTStake, Payload: &outputpayload.ExchangeVotesOutput{StakeAddress: sa}}}, 0, nil)
				dstate.ApplyStakeVerifC28(tx, nextHeight())
				exR.Add(exR, b(v))
				ops = append(ops, fmt.Sprintf("VStake %s", lib.CoqZi(v)))
			case 2, 3:
				if _, ok := dstate.DposV2VoteRights[addr]; !ok {
					continue
				}
				var vs []int64
				for j := r.Range(1, 3); j > 0; j-- {
					v := (R-U)/int64(r.Range(1, 3)) + int64(r.Intn(3)) - 1
					if big62 && r.Chance(40) {
						v = boundary(r)
					}
					if v <= 0 {
						v = 1
					}
					vs = append(vs, v)
				}
				tx := votingTx(code, vs, true)
				ok, why, pan := special(tx, nil)
				if pan {
					st.Fail("SpecialContextCheck:panic", "voting check panicked: "+why, nil)
				}
				ops = append(ops, fmt.Sprintf("VVote %s", coqZs(vs)))
				log = append(log, fmt.Sprintf("vote %v rights=%d used=%d ok=%v", vs, R, U, ok))
				if ok {
					accepted++
					dstate.ApplyVotingVerifC28(tx, nextHeight())
					exU.Add(exU, sumBig(vs))
					cast = append(cast, vs...)
				}
			case 4:
				if len(cast) == 0 {
					continue
				}
				x := r.Intn(len(cast))
				v := cast[x]
				cast = append(cast[:x], cast[x+1:]...)
				dstate.UsedDposV2Votes[addr] -= fx(v)
				exU.Sub(exU, b(v))
				ops = append(ops, fmt.Sprintf("VExpire %s", lib.CoqZi(v)))
			default:
				if _, ok := dstate.DposV2VoteRights[addr]; !ok {
					continue
				}
				others := []int64{0, 0, 0}
				if r.Chance(40) {
					others[r.Intn(3)] = small(r) % (R + 1)
				}
				setOthers(addr, others)
				value := R - U + int64(r.Intn(3)) - 1
				if r.Chance(40) && R > 0 {
					value = int64(r.Intn(int(R%1000000007) + 1))
				}
				tx := retVotesTx(code, value)
				ok, why, pan := special(tx, nil)
				if pan {
					st.Fail("SpecialContextCheck:panic", "return votes check panicked: "+why, nil)
				}
				ops = append(ops, fmt.Sprintf("VReturn %s %s", coqZs(others), lib.CoqZi(value)))
				log = append(log, fmt.Sprintf("retvotes %d others=%v rights=%d used=%d ok=%v", value, others, R, U, ok))
				if ok {
					accepted++
					dstate.ApplyReturnVotesVerifC28(tx, nextHeight())
					exR.Sub(exR, b(value))
				}
			}
			if len(ops) > len(obs) {
				R, U := int64(dstate.DposV2VoteRights[addr]), int64(dstate.UsedDposV2Votes[addr])
				obs = append(obs, fmt.Sprintf("(%s,%s)", lib.CoqZi(R), lib.CoqZi(U)))
				// oracle: used <= rights, nothing negative, equal to the exact replay
				if b(R).Cmp(exR) != 0 || b(U).Cmp(exU) != 0 || R < 0 || U < 0 || U > R {
					if strings.HasPrefix(ops[len(ops)-1], "VStake") && b(R).Cmp(exR) != 0 {
						stakeWrapped = true // rights wrapped by stakes summing to >= 2^63: not reachable with real coins
					}
					if stakeWrapped {
						beyond["sequence: state after the vote rights wrapped by stakes >= 2^62"]++
					} else {
						st.Fail("VoteRights:overdrawn-or-diverges", "DPoS v2 votes in use exceed the vote rights, a balance is negative, or the int64 bookkeeping differs from the exact replay",
							map[string]interface{}{"history": log, "rights": R, "used_v2": U, "exact": []string{exR.String(), exU.String()}})
					}
				}
			}
		}
		i := next()
		sh.Add(fmt.Sprintf("CVSeq %d %d %s %s", i, fee, lib.CoqList(ops), lib.CoqList(obs)))
		st.LogCase(run.Out, i, map[string]interface{}{"op": "vote-seq", "ops": ops, "obs": obs})
		st.Count("vs|"+strings.Join(ops, ";"), accepted > 0, "vote-seq")
		delete(dstate.DposV2VoteRights, addr)
		delete(dstate.UsedDposV2Votes, addr)
	}

	// ---------------------------------------------------------------- block-driven vote histories
	// A standalone dpos State driven through the real State.ProcessBlock (transactions,
	// expiry sweep, commit): register DPoS v2 producers, stake, vote with short lock
	// times, renew votes at the heights around their expiry, return votes.  Every
	// transaction passes the real SpecialContextCheck at the block height first.
	voteBlocks := func(r *lib.Rng) {
		p2 := *params
		p2.DPoSConfiguration.DPoSV2MinVotesLockTime = 2
		p2.DPoSConfiguration.DPoSV2MaxVotesLockTime = 60
		saveParams, saveHeight := params, height
		params = &p2
		bs := state.NewState(&p2, nil, nil, nil, func() bool { return false }, nil, nil, nil, nil, nil, nil, nil)
		bs.DPoSV2ActiveHeight = 0
		oldState := chain.GetState()
		chain.SetState(bs)
		defer func() { chain.SetState(oldState); params, height = saveParams, saveHeight }()

		type prod struct{ owner []byte }
		var prods []prod
		var regs []interfaces.Transaction
		for j := 0; j < 3; j++ {
			pcount++
			o := key(pcount)
			pcount++
			n := key(pcount)
			prods = append(prods, prod{o})
			regs = append(regs, transaction.CreateTransaction(0, common2.RegisterProducer, 0,
				&payload.ProducerInfo{OwnerKey: o, NodePublicKey: n, NickName: fmt.Sprintf("p%d-%d", pcount, j), StakeUntil: 100000},
				uniqueAttr(), nil, nil, 0, nil))
		}
		process := func(h uint32, txs ...interfaces.Transaction) {
			bs.ProcessBlock(&types.Block{Header: common2.Header{Height: h}, Transactions: txs}, nil, 0)
		}
		process(1, regs...)
		for h := uint32(2); h <= 6; h++ {
			process(h)
		}
		if len(bs.GetActivityV2Producers()) != len(prods) {
			panic("DPoS v2 producers not active")
		}
		type vote struct {
			amount int64
			lock   uint32
			prod   int
			key    elacommon.Uint256
			known  bool
			id     int
			renew  uint32 // height at which a renewal is attempted: lock-1, lock, lock+1 (the expiry block), lock+2
		}
		planRenew := func(v *vote) {
			v.renew = 0
			if r.Chance(75) {
				v.renew = uint32(int(v.lock) + r.Range(-1, 2))
			}
		}
		type addrS struct {
			code   []byte
			addr   elacommon.Uint168
			exR    *big.Int
			exU    *big.Int
			votes  []*vote
			blocks []string
			lblk   []string
			nvotes int
			log    []string
			acc    int
		}
		var addrs []*addrS
		for j := 0; j < 2; j++ {
			c, a := newStake()
			addrs = append(addrs, &addrS{code: c, addr: a, exR: b(0), exU: b(0)})
		}
		locked := func(a *addrS) int64 {
			var sum int64
			for _, p := range bs.GetAllProducers() {
				for _, d := range p.GetAllDetailedDPoSV2Votes()[a.addr] {
					for _, i := range d.Info {
						sum += int64(i.Votes)
					}
				}
			}
			return sum
		}
		// refresh the refer keys of the votes of a after a block (new votes, renewed votes)
		refresh := func(a *addrS) {
			for _, v := range a.votes {
				v.known = false
			}
			for pi, pr := range prods {
				p := bs.GetProducer(pr.owner)
				if p == nil {
					continue
				}
				for k, d := range p.GetAllDetailedDPoSV2Votes()[a.addr] {
					for _, v := range a.votes {
						if !v.known && v.prod == pi && len(d.Info) == 1 && int64(d.Info[0].Votes) == v.amount && d.Info[0].LockTime == v.lock {
							v.key, v.known = k, true
							break
						}
					}
				}
			}
		}
		nBlocks := r.Range(25, 60)
		for h := uint32(7); h < uint32(7+nBlocks); h++ {
			height = h
			var txs []interfaces.Transaction
			renewed := map[*vote]bool{}
			opsOf := map[*addrS][]string{}
			txOf := map[*addrS]string{}
			for _, a := range addrs {
				if !r.Chance(60) {
					continue
				}
				R, U := int64(bs.DposV2VoteRights[a.addr]), int64(bs.UsedDposV2Votes[a.addr])
				// a renewal is due when some vote of this address expires around now
				var due *vote
				for _, v := range a.votes {
					if v.known && v.renew == h {
						due = v
					}
				}
				switch {
				case due != nil:
					newLock := due.lock + uint32(r.Range(1, 8))
					tx := transaction.CreateTransaction(common2.TxVersion09, common2.Voting, payload.RenewalVoteVersion,
						&payload.Voting{RenewalContents: []payload.RenewalVotesContent{{ReferKey: due.key,
							VotesInfo: payload.VotesWithLockTime{Candidate: prods[due.prod].owner, Votes: fx(due.amount), LockTime: newLock}}}},
						uniqueAttr(), nil, nil, 0, []*program.Program{{Code: a.code, Parameter: []byte{}}})
					ok, why, pan := special(tx, nil)
					if pan {
						st.Fail("SpecialContextCheck:panic", "renewal check panicked: "+why, nil)
					}
					a.log = append(a.log, fmt.Sprintf("h%d renew vote(%d until %d) until %d ok=%v", h, due.amount, due.lock, newLock, ok))
					if ok {
						txs = append(txs, tx)
						due.lock = newLock
						txOf[a] = fmt.Sprintf("BRenew %d %d", due.id, newLock)
						planRenew(due)
						renewed[due] = true
						a.acc++
					}
				case r.Chance(30) || R == 0:
					v := int64(r.PickI64(100000000, 100000000, 600000, 1000, 1))
					tx := transaction.CreateTransaction(common2.TxVersion09, common2.ExchangeVotes, 0, &payload.ExchangeVotes{}, uniqueAttr(), nil,
						[]*common2.Output{{AssetID: core.ELAAssetID, Value: fx(v), ProgramHash: a.addr, Type: common2.OTStake, Payload: &outputpayload.ExchangeVotesOutput{StakeAddress: a.addr}}}, 0, nil)
					txs = append(txs, tx)
					a.exR.Add(a.exR, b(v))
					opsOf[a] = append(opsOf[a], fmt.Sprintf("VStake %d", v))
					txOf[a] = fmt.Sprintf("BStake %d", v)
					a.log = append(a.log, fmt.Sprintf("h%d stake %d", h, v))
				case r.Chance(65):
					// vote: all unused rights, half of them, or one too many
					amt := R - U
					switch r.Intn(4) {
					case 0:
						amt = (R-U)/2 + 1
					case 1:
						amt = R - U + 1
					}
					if amt <= 0 {
						amt = 1
					}
					pi := r.Intn(len(prods))
					lock := h + uint32(r.Range(2, 7))
					tx := transaction.CreateTransaction(common2.TxVersion09, common2.Voting, payload.VoteVersion,
						&payload.Voting{Contents: []payload.VotesContent{{VoteType: outputpayload.DposV2,
							VotesInfo: []payload.VotesWithLockTime{{Candidate: prods[pi].owner, Votes: fx(amt), LockTime: lock}}}}},
						uniqueAttr(), nil, nil, 0, []*program.Program{{Code: a.code, Parameter: []byte{}}})
					ok, why, pan := special(tx, nil)
					if pan {
						st.Fail("SpecialContextCheck:panic", "voting check panicked: "+why, nil)
					}
					a.log = append(a.log, fmt.Sprintf("h%d vote %d until %d (rights %d used %d) ok=%v", h, amt, lock, R, U, ok))
					if ok {
						if b(amt).Cmp(new(big.Int).Sub(a.exR, a.exU)) > 0 {
							st.Fail("Voting:accepted-above-vote-rights", "block history: Voting check accepted DPoS v2 votes above the unused vote rights (votes still locked on producers are not counted as used)",
								map[string]interface{}{"history": append([]string{}, a.log...), "exact_rights": a.exR.String(), "exact_used": a.exU.String()})
						}
						txs = append(txs, tx)
						a.nvotes++
						nv := &vote{amount: amt, lock: lock, prod: pi, id: a.nvotes}
						txOf[a] = fmt.Sprintf("BVote %d %d %d", nv.id, amt, lock)
						planRenew(nv)
						a.votes = append(a.votes, nv)
						a.exU.Add(a.exU, b(amt))
						opsOf[a] = append(opsOf[a], fmt.Sprintf("VVote [%d]", amt))
						a.acc++
					}
				default:
					value := R - U + int64(r.Intn(3)) - 1
					if r.Chance(40) && R > 0 {
						value = int64(r.Intn(int(R%1000000007) + 1))
					}
					tx := retVotesTx(a.code, value)
					ok, why, pan := special(tx, nil)
					if pan {
						st.Fail("SpecialContextCheck:panic", "return votes check panicked: "+why, nil)
					}
					a.log = append(a.log, fmt.Sprintf("h%d return votes %d (rights %d used %d) ok=%v", h, value, R, U, ok))
					if ok {
						if b(value).Cmp(new(big.Int).Sub(a.exR, a.exU)) > 0 {
							st.Fail("ReturnVotes:accepted-above-unused-rights", "block history: ReturnVotes accepted a value above the unused vote rights (votes still locked on producers are not counted as used)",
								map[string]interface{}{"history": append([]string{}, a.log...), "exact_rights": a.exR.String(), "exact_used": a.exU.String()})
						}
						txs = append(txs, tx)
						a.exR.Sub(a.exR, b(value))
						opsOf[a] = append(opsOf[a], fmt.Sprintf("VReturn [0;0;0] %d", value))
						txOf[a] = fmt.Sprintf("BReturn [0;0;0] %d", value)
						a.acc++
					}
				}
			}
			process(h, txs...)
			for _, a := range addrs {
				// exact replay of the expiry sweep: a vote expires in the first block above its
				// lock time, unless it was renewed in that block
				var keep []*vote
				for _, v := range a.votes {
					if v.lock < h && !renewed[v] {
						a.exU.Sub(a.exU, b(v.amount))
						opsOf[a] = append(opsOf[a], fmt.Sprintf("VExpire %d", v.amount))
						a.log = append(a.log, fmt.Sprintf("h%d expiry of vote %d (until %d)", h, v.amount, v.lock))
					} else {
						keep = append(keep, v)
					}
				}
				a.votes = keep
				refresh(a)
				R, U := int64(bs.DposV2VoteRights[a.addr]), int64(bs.UsedDposV2Votes[a.addr])
				a.blocks = append(a.blocks, fmt.Sprintf("(%s,(%s,%s))", lib.CoqList(opsOf[a]), lib.CoqZi(R), lib.CoqZi(U)))
				lk := locked(a)
				bt := "None"
				if t, ok := txOf[a]; ok {
					bt = "(Some (" + t + "))"
				}
				a.lblk = append(a.lblk, fmt.Sprintf("(%d,%s,(%s,%s,%s))", h, bt, lib.CoqZi(R), lib.CoqZi(U), lib.CoqZi(lk)))
				if b(R).Cmp(a.exR) != 0 || b(U).Cmp(a.exU) != 0 || R < 0 || U < 0 || U > R || lk != U {
					st.Fail("VoteRights:block-history:used-votes-differ-from-locked-votes",
						"after a block processed by State.ProcessBlock the DPoS v2 votes in use differ from the votes locked on producers / from the exact replay, exceed the vote rights, or a counter is negative",
						map[string]interface{}{"height": h, "rights": R, "used_v2": U, "locked_on_producers": lk, "exact_rights": a.exR.String(), "exact_used": a.exU.String(), "history": append([]string{}, a.log...)})
				}
			}
		}
		for _, a := range addrs {
			i := next()
			sh.Add(fmt.Sprintf("CVBlocks %d %d %s", i, fee, lib.CoqList(a.blocks)))
			sh.Add(fmt.Sprintf("CLBlocks %d %d %s", i, fee, lib.CoqList(a.lblk)))
			st.LogCase(run.Out, i, map[string]interface{}{"op": "vote-blocks", "history": a.log})
			st.Count("vb|"+strings.Join(a.log, ";"), a.acc > 0, "vote-blocks")
		}
	}
	for k := 0; k < run.N(40, 1500); k++ {
		voteBlocks(rng.Fork())
	}

	// ---------------------------------------------------------------- block-driven producer deposit histories
	// A standalone dpos State through the real State.ProcessBlock: producers of the three
	// identities (v1, v2, v1 upgraded to v1+v2 by UpdateProducer), StakeUntil before or
	// after the DPoS 2.0 activation height A (set at run time, as the arbitrators do),
	// CancelProducer at heights around A, A - lockup and StakeUntil, penalties, extra
	// deposits, ReturnDepositCoin (real SpecialContextCheck) after the lockup.
	prodBlocks := func(r *lib.Rng, script int) {
		const ela = 100000000
		p2 := *params
		p2.CRConfiguration.DepositLockupBlocks = uint32(r.PickU64(3, 5, 8))
		L := p2.CRConfiguration.DepositLockupBlocks
		saveParams, saveHeight := params, height
		params = &p2
		bs := state.NewState(&p2, nil, nil, nil, func() bool { return false }, nil, nil, nil, nil, nil, nil, nil)
		oldState := chain.GetState()
		chain.SetState(bs)
		defer func() { chain.SetState(oldState); params, height = saveParams, saveHeight }()
		A := uint32(r.Range(18, 45))
		setAt := uint32(1)
		if r.Chance(70) {
			setAt = uint32(r.Range(2, int(A)-1)) // the activation height becomes known at run time
		}
		type utxo struct {
			in  *common2.Input
			val int64
		}
		type prod struct {
			kind        int // 0 v1, 1 v2, 2 v1 -> v1+v2
			owner       []byte
			priv        []byte
			code        []byte
			hash        elacommon.Uint168
			regAt       uint32
			upgradeAt   uint32
			stakeTo     uint32
			cancelAt    uint32
			penAt       uint32
			pen         int64
			p           *state.Producer
			utxos       []utxo
			exTot       *big.Int
			init        string
			blocks      []string
			log         []string
			acc         int
			lastLock    int64
			cancelled   bool
			cancelBlock uint32
			coincided   bool // an automatic adjustment of the lock happened in the block of the CancelProducer tx
		}
		var prods []*prod
		for j := 0; j < 4; j++ {
			pcount++
			o := key(pcount)
			dh, _ := state.GetOwnerKeyDepositProgramHash(o)
			q := &prod{kind: r.Intn(3), priv: keyPriv(pcount), owner: o, code: stdCode(o), hash: *dh, regAt: uint32(r.Range(1, 5)), exTot: b(0)}
			if j == 0 {
				q.kind = 2
			}
			switch q.kind {
			case 1:
				q.stakeTo = q.regAt + uint32(r.Range(10, 50))
			case 2:
				q.upgradeAt = q.regAt + uint32(r.Range(7, 12))
				q.stakeTo = q.upgradeAt + uint32(r.Range(2, 30))
			}
			if r.Chance(85) {
				if r.Chance(50) {
					q.cancelAt = uint32(int(r.PickI64(int64(A), int64(A)-int64(L), int64(q.stakeTo), int64(A)+int64(L))) + r.Range(-2, 3))
				} else {
					q.cancelAt = q.regAt + uint32(r.Range(7, 50))
				}
				if q.cancelAt < q.regAt+7 {
					q.cancelAt = q.regAt + 7
				}
			}
			if r.Chance(45) {
				q.penAt = q.regAt + uint32(r.Range(7, 40))
				q.pen = r.PickI64(100, 500, 3000, 6000) * ela
			}
			prods = append(prods, q)
		}
		// corpus: fixed scenarios around the activation height A and the lockup L (producer 0)
		if script > 0 {
			q := prods[0]
			q.kind, q.regAt, q.upgradeAt, q.penAt, q.pen = 2, 1, 8, 10, 500*ela
			A, setAt = 30, 2
			switch script {
			case 1: // cancel before A, lockup over before A (the lock is released once)
				q.stakeTo, q.cancelAt = 12, 13
			case 2: // cancel before A, A inside the lockup
				q.stakeTo, q.cancelAt = 12, A-1
			case 3: // cancel transaction in the block of the automatic cancel (first block above StakeUntil, DPoS 2.0 active)
				q.stakeTo, q.cancelAt = 40, 41
			case 4: // cancel transaction in the activation block itself
				q.stakeTo, q.cancelAt = 12, A
			case 5: // a v1 producer cancels in the activation block
				q.kind, q.upgradeAt, q.stakeTo, q.cancelAt = 0, 0, 0, A
			case 6: // v1+v2 still staked at A, expires later without a transaction
				q.stakeTo, q.cancelAt = 45, 0
			}
		}
		for h := uint32(1); h <= 75; h++ {
			height = h
			if h == setAt {
				bs.DPoSV2ActiveHeight = A
			}
			var txs []interfaces.Transaction
			opsOf := map[*prod][]string{}
			for j, q := range prods {
				if q.p != nil && h == q.penAt { // abstract penalty (consensus event)
					q.p.SetPenalty(q.p.Penalty() + fx(q.pen))
					opsOf[q] = append(opsOf[q], fmt.Sprintf("DPenalty %d", q.pen))
					q.log = append(q.log, fmt.Sprintf("h%d penalty %d", h, q.pen))
				}
				switch {
				case h == q.regAt:
					lock := int64(5000 * ela)
					info := &payload.ProducerInfo{OwnerKey: q.owner, NodePublicKey: q.owner, NickName: fmt.Sprintf("pb%d-%d", pcount, j)}
					if q.kind == 1 {
						info.StakeUntil = q.stakeTo
						lock = 2000 * ela
					}
					amt := lock + r.PickI64(0, 0, 1, 100*ela)
					tx := transaction.CreateTransaction(0, common2.RegisterProducer, 0, info, uniqueAttr(), nil,
						mkOutputs(q.hash, []int64{amt}, nil), 0, nil)
					txs = append(txs, tx)
					q.utxos = append(q.utxos, utxo{&common2.Input{Previous: common2.OutPoint{TxID: tx.Hash(), Index: 0}}, amt})
					q.exTot.Add(q.exTot, b(amt))
					q.log = append(q.log, fmt.Sprintf("h%d register kind=%d amount %d stakeUntil %d", h, q.kind, amt, info.StakeUntil))
				case q.p == nil:
				case h == q.upgradeAt && q.kind == 2:
					info := q.p.Info()
					info.StakeUntil = q.stakeTo
					txs = append(txs, transaction.CreateTransaction(0, common2.UpdateProducer, 0, &info, uniqueAttr(), nil, nil, 0, nil))
					q.log = append(q.log, fmt.Sprintf("h%d upgrade to v1+v2, stakeUntil %d", h, q.stakeTo))
				case h >= q.cancelAt && q.cancelAt != 0 && !q.cancelled && (q.p.State() == state.Active || q.p.State() == state.Inactive):
					// the real CancelProducer check decides (a v2 producer cannot cancel, a v1+v2 one
					// only once its StakeUntil has passed): retried every block from cancelAt on
					pp := &payload.ProcessProducer{OwnerKey: q.owner}
					buf := new(bytes.Buffer)
					pp.SerializeUnsigned(buf, payload.ProcessProducerVersion)
					pp.Signature, _ = crypto.Sign(q.priv, buf.Bytes())
					tx := transaction.CreateTransaction(0, common2.CancelProducer, payload.ProcessProducerVersion, pp, uniqueAttr(), nil, nil, 0, nil)
					ok, why, pan := special(tx, nil)
					if pan {
						st.Fail("SpecialContextCheck:panic", "cancel producer check panicked: "+why, nil)
					}
					if ok {
						txs = append(txs, tx)
						q.cancelled = true
						q.cancelBlock = h
						q.log = append(q.log, fmt.Sprintf("h%d cancel (state %v identity %v)", h, q.p.State(), q.p.Identity()))
					}
				case q.p.State() == state.Canceled && len(q.utxos) > 0 && r.Chance(35):
					// return: everything available, one more, or all inputs
					var ins []*common2.Input
					var refs []int64
					refm := map[*common2.Input]common2.Output{}
					for len(q.utxos) > 0 && (len(ins) == 0 || r.Chance(50)) {
						x := r.Intn(len(q.utxos))
						ins = append(ins, q.utxos[x].in)
						refs = append(refs, q.utxos[x].val)
						refm[q.utxos[x].in] = common2.Output{Value: fx(q.utxos[x].val), ProgramHash: q.hash}
						q.utxos = append(q.utxos[:x], q.utxos[x+1:]...)
					}
					in := int64(0)
					for _, v := range refs {
						in += v
					}
					av := int64(q.p.AvailableAmount())
					want := av + int64(r.Intn(3)) - 1
					if r.Chance(30) || want <= 0 || want > in {
						want = in
					}
					var change, outs []int64
					if in-want > 0 {
						change = append(change, in-want)
					}
					if want > 10000 {
						outs = append(outs, want-10000)
					} else {
						outs = append(outs, 0)
					}
					tx := transaction.CreateTransaction(common2.TxVersion09, common2.ReturnDepositCoin, 0, &payload.ReturnDepositCoin{}, uniqueAttr(), ins,
						mkOutputs(q.hash, change, outs), 0, []*program.Program{{Code: q.code, Parameter: []byte{}}})
					ok, why, pan := special(tx, refm)
					if pan {
						st.Fail("SpecialContextCheck:panic", "return deposit check panicked: "+why, nil)
					}
					tot, lk, pn := int64(q.p.TotalAmount()), int64(q.p.DepositAmount()), int64(q.p.Penalty())
					q.log = append(q.log, fmt.Sprintf("h%d return refs=%v change=%v outs=%v (total %d locked %d penalty %d) ok=%v", h, refs, change, outs, tot, lk, pn, ok))
					opsOf[q] = append(opsOf[q], fmt.Sprintf("DReturn %s %s %s", coqZs(refs), coqZs(change), coqZs(outs)))
					if ok {
						q.acc++
						// oracle: withdrawn <= total - penalty - lock, a negative lock counted as zero
						if lk < 0 {
							lk = 0
						}
						if want > tot-pn-lk && q.coincided {
							st.Fail("ProducerDeposit:block-history:cancel-tx-coincides-with-automatic-release", "producer block history: accepted ReturnDepositCoin withdraws more than total - penalty - locked deposit after the double release",
								map[string]interface{}{"history": append([]string{}, q.log...), "activation_height": A, "lockup": L})
						} else if want > tot-pn-lk {
							st.Fail("ReturnDeposit:accepted-overdraw", "producer block history: accepted ReturnDepositCoin withdraws more than total - penalty - locked deposit",
								map[string]interface{}{"history": append([]string{}, q.log...), "activation_height": A, "lockup": L})
						}
						txs = append(txs, tx)
						for ci, v := range change {
							q.utxos = append(q.utxos, utxo{&common2.Input{Previous: common2.OutPoint{TxID: tx.Hash(), Index: uint16(ci)}}, v})
						}
						q.exTot.Sub(q.exTot, b(want))
					} else {
						for k, inp := range ins {
							q.utxos = append(q.utxos, utxo{inp, refs[k]})
						}
					}
				case r.Chance(6):
					v := r.PickI64(1, 100*ela, 2500*ela)
					tx := transaction.CreateTransaction(common2.TxVersion09, common2.TransferAsset, 0, &payload.TransferAsset{}, uniqueAttr(), nil,
						mkOutputs(q.hash, []int64{v}, nil), 0, nil)
					txs = append(txs, tx)
					q.utxos = append(q.utxos, utxo{&common2.Input{Previous: common2.OutPoint{TxID: tx.Hash(), Index: 0}}, v})
					q.exTot.Add(q.exTot, b(v))
					opsOf[q] = append(opsOf[q], fmt.Sprintf("DDeposit %d", v))
					q.log = append(q.log, fmt.Sprintf("h%d deposit %d", h, v))
				}
			}
			bs.ProcessBlock(&types.Block{Header: common2.Header{Height: h}, Transactions: txs}, nil, 0)
			if h == A {
				for _, q := range prods {
					q.log = append(q.log, fmt.Sprintf("h%d DPoS 2.0 active", h))
				}
			}
			for j, q := range prods {
				if q.p == nil {
					if q.p = bs.GetProducer(q.owner); q.p == nil {
						continue
					}
					q.init = fmt.Sprintf("(%d,%d,%d)", q.p.TotalAmount(), q.p.DepositAmount(), q.p.Penalty())
					q.lastLock = int64(q.p.DepositAmount())
					continue
				}
				tot, lk, pn := int64(q.p.TotalAmount()), int64(q.p.DepositAmount()), int64(q.p.Penalty())
				if lk != q.lastLock {
					opsOf[q] = append(opsOf[q], fmt.Sprintf("DUnlock %s", lib.CoqZi(q.lastLock-lk)))
					q.log = append(q.log, fmt.Sprintf("h%d locked deposit %d -> %d (state %v identity %v)", h, q.lastLock, lk, q.p.State(), q.p.Identity()))
					if q.cancelBlock == h {
						q.coincided = true
					}
					q.lastLock = lk
				}
				q.blocks = append(q.blocks, fmt.Sprintf("(%s,(%s,%s,%s))", lib.CoqList(opsOf[q]), lib.CoqZi(tot), lib.CoqZi(lk), lib.CoqZi(pn)))
				bad, sig := "", ""
				switch {
				case lk < 0 || tot < 0 || pn < 0:
					bad, sig = "a deposit counter of the producer is negative", "negative-counter"
				case int64(q.p.AvailableAmount()) > tot-pn:
					bad, sig = "the available amount exceeds total - penalty", "available-above-total"
				case lk > tot:
					bad, sig = "the locked deposit is not backed by the total", "lock-above-total"
				case (q.p.State() == state.Active || q.p.State() == state.Pending || q.p.State() == state.Inactive) && lk < 2000*ela:
					bad, sig = "a registered (pending/active/inactive) producer has less than the smallest required deposit locked", "required-lock-missing"
				case b(tot).Cmp(q.exTot) != 0:
					bad, sig = "the total differs from deposits minus returns", "total-diverges"
				}
				if bad != "" && q.coincided {
					bad, sig = "the CancelProducer transaction of a producer was mined in the block in which State.ProcessBlock also adjusted its deposit automatically (StakeUntil expiry with DPoS 2.0 active, or the DPoSV2ActiveHeight adjustment): both releases are applied and the locked deposit goes negative", "cancel-tx-coincides-with-automatic-release"
				}
				if bad != "" {
					st.Fail("ProducerDeposit:block-history:"+sig, "after a block processed by State.ProcessBlock: "+bad,
						map[string]interface{}{"height": h, "producer": j, "total": tot, "locked": lk, "penalty": pn, "available": int64(q.p.AvailableAmount()),
							"state": fmt.Sprint(q.p.State()), "identity": fmt.Sprint(q.p.Identity()), "activation_height": A, "lockup": L, "history": append([]string{}, q.log...)})
				}
			}
		}
		for _, q := range prods {
			if q.p == nil {
				continue
			}
			i := next()
			sh.Add(fmt.Sprintf("CDBlocks %d %s %s", i, q.init, lib.CoqList(q.blocks)))
			st.LogCase(run.Out, i, map[string]interface{}{"op": "producer-blocks", "activation_height": A, "lockup": L, "history": q.log})
			st.Count("pb|"+strings.Join(q.log, ";"), q.acc > 0, "producer-blocks")
		}
	}
	for sc := 1; sc <= 6; sc++ {
		prodBlocks(rng.Fork(), sc)
	}
	for k := 0; k < run.N(40, 1500); k++ {
		prodBlocks(rng.Fork(), 0)
	}

	// ---------------------------------------------------------------- block-driven CR deposit histories
	// A standalone Committee driven through the real Committee.ProcessBlock: candidates
	// register (5000 ELA locked), get votes, unregister at heights around
	// (committee change - DepositLockupBlocks), committees change at heights 20 and 44,
	// deposits are returned.  Every transaction passes the real SpecialContextCheck first.
	crBlocks := func(r *lib.Rng, histID int) {
		const ela = 100000000
		const startH, lockup = 10, 3
		p := config.GetDefaultParams()
		cr := &p.CRConfiguration
		sg := crkit.NewKey(uint64(histID), 99)
		cr.MemberCount, cr.CRAgreementCount = 3, 2
		cr.ProposalCRVotingPeriod, cr.ProposalPublicVotingPeriod = 4, 2
		cr.CRVotingStartHeight, cr.CRCommitteeStartHeight = startH, 20
		cr.DutyPeriod, cr.VotingPeriod, cr.CRClaimPeriod = 24, 8, 3
		cr.DepositLockupBlocks = lockup
		cr.CRClaimDPOSNodeStartHeight, cr.CRClaimDPOSNodePeriod = 200000000, 5
		cr.ChangeCommitteeNewCRHeight = 0
		cr.CRAssetsRectifyTransactionHeight = 200000000
		cr.SecretaryGeneral = elacommon.BytesToHexString(sg.Pub)
		p.CrossChainMonitorStartHeight = 200000000
		p.DPoSV2StartHeight = 200000000
		cr.CRCProposalWithdrawPayloadV1Height = 200000000
		e := crkit.NewEnv(p)
		e.Chain.SetState(state.NewState(p, nil, nil, nil, func() bool { return false }, nil, nil, nil, nil, nil, nil, nil))
		cm := e.Committee
		cs := cm.GetState()
		changes := []uint32{20, 44}
		const nCands = 6
		type cand struct {
			k        *crkit.Key
			regAt    uint32
			unregAt  uint32
			returnAt uint32
			regTx    interfaces.Transaction
			favoured bool
			exTotal  *big.Int
		}
		var cands []*cand
		nonce := uint64(histID) << 20
		nn := func() uint64 { nonce++; return nonce }
		for j := 0; j < nCands; j++ {
			c := &cand{k: crkit.NewKey(uint64(histID), j), exTotal: b(0)}
			term := r.Intn(2) // registers for the first or for the second election
			if j < 3 {
				term = 0
			}
			change := changes[term]
			c.regAt = change - 10 + uint32(r.Intn(3))
			c.favoured = j < 3 || r.Chance(30) // gets most votes
			if !c.favoured || r.Chance(25) {
				// unregister around the height whose lockup ends at the committee change
				c.unregAt = uint32(int(change) - lockup + r.Range(-2, 2))
				if c.unregAt >= change {
					c.unregAt = change - 1
				}
				c.returnAt = c.unregAt + lockup + uint32(r.Range(0, 4))
			}
			cands = append(cands, c)
		}
		note := func(tx interfaces.Transaction) {
			for i, o := range tx.Outputs() {
				e.Refs[common2.NewOutPoint(tx.Hash(), uint16(i)).ReferKey()] = *o
			}
		}
		var log []string
		acc := 0
		var voteTx interfaces.Transaction
		for h := uint32(startH); h <= 58; h++ {
			txs := []interfaces.Transaction{crkit.Coinbase(nn(), []*common2.Output{
				{Value: fx(300 * ela), ProgramHash: *p.CRConfiguration.CRExpensesProgramHash, Payload: new(outputpayload.DefaultOutput)}})}
			add := func(what string, tx interfaces.Transaction, refs map[*common2.Input]common2.Output, check bool) bool {
				if !check { // RegisterCR / UnregisterCR checks need a full ledger and are not what C28 is about
					log = append(log, fmt.Sprintf("h%d %s", h, what))
					txs = append(txs, tx)
					return true
				}
				var ok, pk bool
				var msg string
				pk, pv := lib.Recover(func() {
					tx.SetParameters(&transaction.TransactionParameters{Transaction: tx, BlockHeight: h, Config: p, BlockChain: e.Chain})
					if refs == nil {
						refs = map[*common2.Input]common2.Output{}
					}
					tx.(refSetter).SetReferences(refs)
					if err, _ := tx.SpecialContextCheck(); err != nil {
						msg = err.Error()
						return
					}
					ok = true
				})
				if pk {
					msg = fmt.Sprint(pv)
				}
				if pk {
					st.Fail("SpecialContextCheck:panic", what+" check panicked: "+msg, nil)
				}
				log = append(log, fmt.Sprintf("h%d %s ok=%v %s", h, what, ok, msg))
				if ok {
					txs = append(txs, tx)
					acc++
				}
				return ok
			}
			inVoting := cm.IsInVotingPeriod(h)
			for j, c := range cands {
				cd := cm.GetCandidate(c.k.CID)
				switch {
				case h == c.regAt && inVoting && !cm.ExistCR(c.k.Code):
					tx := crkit.RegisterCR(c.k, fmt.Sprintf("n%d-%d-%d", histID, j, h), nn(), fx(5000*ela))
					if add(fmt.Sprintf("registerCR c%d", j), tx, nil, false) {
						c.regTx = tx
						c.exTotal.Add(c.exTotal, b(5000*ela))
					}
				case h == c.unregAt && cd != nil && (cd.State == crstate.Pending || cd.State == crstate.Active) && inVoting:
					add(fmt.Sprintf("unregisterCR c%d", j), crkit.UnregisterCR(c.k, nn()), nil, false)
				case c.returnAt != 0 && h >= c.returnAt && c.regTx != nil && r.Chance(60):
					in := &common2.Input{Previous: *common2.NewOutPoint(c.regTx.Hash(), 0)}
					if _, ok := cs.DepositOutputs[in.ReferKey()]; !ok {
						continue
					}
					out := int64(5000*ela - 10000)
					tx := crkit.ReturnDeposit(c.k, nn(), []*common2.Input{in}, fx(out))
					refs := map[*common2.Input]common2.Output{in: {Value: fx(5000 * ela), ProgramHash: c.k.Deposit}}
					info := cs.DepositInfo[c.k.CID]
					if add(fmt.Sprintf("returnDeposit c%d (total %d locked %d penalty %d)", j, info.TotalAmount, info.DepositAmount, info.Penalty), tx, refs, true) {
						// oracle: withdrawn <= total - penalty - lock, the lock never counted below zero
						lk := int64(info.DepositAmount)
						if lk < 0 {
							lk = 0
						}
						if 5000*ela > int64(info.TotalAmount)-int64(info.Penalty)-lk {
							st.Fail("ReturnDeposit:accepted-overdraw", "CR block history: accepted ReturnCRDepositCoin withdraws more than total - penalty - locked deposit",
								map[string]interface{}{"history": append([]string{}, log...)})
						}
						c.exTotal.Sub(c.exTotal, b(5000*ela))
						c.regTx = nil
					}
				}
			}
			// votes in the last blocks of a voting period: the favoured candidates get most
			if inVoting && (h == 17 || h == 19 || h == 41 || h == 43) {
				var cv []outputpayload.CandidateVotes
				for j, c := range cands {
					cd := cm.GetCandidate(c.k.CID)
					if cd != nil && cd.State == crstate.Active {
						v := int64(1+j) * ela
						if c.favoured {
							v += 100 * ela
						}
						cv = append(cv, outputpayload.CandidateVotes{Candidate: c.k.CID.Bytes(), Votes: fx(v)})
					}
				}
				if len(cv) > 0 {
					var ins []*common2.Input
					if voteTx != nil {
						ins = append(ins, &common2.Input{Previous: *common2.NewOutPoint(voteTx.Hash(), 0)})
					}
					tx := crkit.VoteOutputTx(nn(), fx(5000*ela), []outputpayload.VoteContent{{VoteType: outputpayload.CRC, CandidateVotes: cv}}, ins, nil)
					txs = append(txs, tx)
					voteTx = tx
					log = append(log, fmt.Sprintf("h%d voteCRC x%d", h, len(cv)))
				}
			}
			for _, tx := range txs {
				note(tx)
			}
			e.Process(h, txs)
			for _, ch := range changes {
				if h == ch {
					log = append(log, fmt.Sprintf("h%d committee change: %d members", h, len(cm.GetMembersDIDs())))
				}
			}
			// oracle after every block
			for j, c := range cands {
				info, ok := cs.DepositInfo[c.k.CID]
				if !ok {
					continue
				}
				av := cm.GetAvailableDepositAmount(c.k.CID)
				cd := cm.GetCandidate(c.k.CID)
				held := cd != nil && (cd.State == crstate.Pending || cd.State == crstate.Active)
				bad, sig := "", ""
				switch {
				case info.DepositAmount < 0 || info.TotalAmount < 0 || info.Penalty < 0:
					bad, sig = "a deposit counter is negative", "negative-counter"
				case int64(info.DepositAmount)%(5000*ela) != 0:
					bad, sig = "the locked deposit is not a multiple of the required deposit", "lock-not-multiple"
				case av > info.TotalAmount-info.Penalty:
					bad, sig = "the available amount exceeds total - penalty", "available-above-total"
				case held && info.DepositAmount < 5000*ela:
					bad, sig = "a registered (pending/active) candidate has less than the required deposit locked", "required-lock-missing"
				case b(int64(info.TotalAmount)).Cmp(c.exTotal) != 0:
					bad, sig = "the total differs from deposits minus returns", "total-diverges"
				}
				if bad != "" {
					st.Fail("CRDeposit:block-history:"+sig,
						"after a block processed by Committee.ProcessBlock: "+bad,
						map[string]interface{}{"height": h, "candidate": j, "total": int64(info.TotalAmount), "locked": int64(info.DepositAmount),
							"penalty": int64(info.Penalty), "available": int64(av), "history": append([]string{}, log...)})
				}
			}
		}
		st.LogCase(run.Out, next(), map[string]interface{}{"op": "cr-deposit-blocks", "history": log})
		st.Count("crb|"+strings.Join(log, ";"), acc > 0, "cr-deposit-blocks")
	}
	for k := 0; k < run.N(60, 2000); k++ {
		crBlocks(rng.Fork(), k+1)
	}

	st.Extra["beyond_2^62"] = beyond
	_ = bigOne
	st.Traces = st.Evals
	sh.Flush()
	st.Write(run.Out)
}

func mustI64(x *big.Int) int64 {
	if !x.IsInt64() {
		return int64(x.Uint64())
	}
	return x.Int64()
}
