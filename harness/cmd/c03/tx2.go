package main

import (
	"bytes"
	"errors"
	"fmt"
	"strings"

	"github.com/elastos/Elastos.ELA/blockchain"
	"github.com/elastos/Elastos.ELA/common"
	"github.com/elastos/Elastos.ELA/common/config"
	"github.com/elastos/Elastos.ELA/core/contract"
	"github.com/elastos/Elastos.ELA/core/contract/program"
	"github.com/elastos/Elastos.ELA/core/transaction"
	common2 "github.com/elastos/Elastos.ELA/core/types/common"
	"github.com/elastos/Elastos.ELA/core/types/interfaces"
	"github.com/elastos/Elastos.ELA/core/types/outputpayload"
	"github.com/elastos/Elastos.ELA/core/types/payload"
	"github.com/elastos/Elastos.ELA/crypto"
	"github.com/elastos/Elastos.ELA/dpos/state"

	"verifharness/fixture"
	"verifharness/lib"
)

// ---------------------------------------------------------------- RegisterProducer on a real chain

// errors of the signature-scheme part of RegisterProducer.SpecialContextCheck
// (the part the model covers); every other error comes from the checks after it
var regProdCodeErrors = []string{
	"invalid owner public key in payload", "invalid signature in payload",
	"ProducerInfoSchnorrVersion can only have one program code", "only schnorr code can use ProducerInfoSchnorrVersion",
	"tx program pk must equal with OwnerKey", "only multi sign code can use ProducerInfoMultiVersion",
	"ProducerInfoMultiVersion tx program pk must equal with OwnerKey", "multisign n can not over 10",
}

// registerProducerCases drives the real SpecialContextCheck on the fixture's
// chain (real BlockChain, DPoS state, CR committee, arbitrators).
func (h *H) registerProducerCases() {
	f, err := fixture.New(fixture.Options{})
	if err != nil {
		panic(err)
	}
	defer f.Close()
	_, height := f.Tip()
	for i := 0; i < h.run.N(60, 400); i++ {
		version := byte(h.rng.PickU64(0, 1, 2, 3, 3, 2, 4))
		owner := h.ks[h.rng.Intn(4)]
		node := h.ks[4+h.rng.Intn(4)]
		info := &payload.ProducerInfo{OwnerKey: owner.enc, NodePublicKey: node.enc, NickName: fmt.Sprintf("n%d", i), Url: "http://x", NetAddress: "127.0.0.1:1", StakeUntil: 1000000}
		var codes [][]byte
		nprog := 1
		if h.rng.Chance(12) {
			nprog = h.rng.Intn(3)
		}
		switch version {
		case 2:
			for j := 0; j < nprog; j++ {
				switch h.rng.Intn(5) {
				case 0:
					codes = append(codes, schCode(h.randKey()))
				case 1:
					codes = append(codes, stdCode(owner.enc))
				case 2:
					c := schCode(owner.enc)
					codes = append(codes, c[:len(c)-1])
				default:
					codes = append(codes, schCode(owner.enc))
				}
			}
		case 3:
			nk := h.rng.Range(2, 4)
			if h.rng.Chance(20) {
				nk = h.rng.Range(9, 12)
			}
			var keys [][]byte
			for j := 0; j < nk; j++ {
				keys = append(keys, h.ks[j%len(h.ks)].enc)
			}
			ms := msCode(h.rng.Intn(3), 1, keys, 0, nk, 0xAE)
			if nk > 16 {
				ms = msCode(0, 1, keys, 1, nk, 0xAE)
			}
			info.OwnerKey = ms
			for j := 0; j < nprog; j++ {
				switch h.rng.Intn(6) {
				case 0:
					codes = append(codes, cp(ms[:len(ms)-1])) // the repaired IsMultiSig witness shape
				case 1:
					codes = append(codes, stdCode(owner.enc))
				case 2:
					codes = append(codes, msCode(0, 1, keys[:2], 0, 2, 0xAE))
				default:
					codes = append(codes, cp(ms))
				}
			}
		default:
			for j := 0; j < nprog; j++ {
				codes = append(codes, stdCode(owner.enc))
			}
		}
		// payload signature (versions 0, 1)
		buf := new(bytes.Buffer)
		info.SerializeUnsigned(buf, version)
		switch h.rng.Intn(4) {
		case 0:
			info.Signature = h.rng.Bytes(64)
		case 1:
			info.Signature = h.rng.Bytes(h.rng.Range(0, 70))
		default:
			info.Signature = h.sign(indexOfKey(h, owner), buf.Bytes())
		}
		if version < 2 && h.rng.Chance(10) {
			info.OwnerKey = h.randKey()
			buf.Reset()
			info.SerializeUnsigned(buf, version)
		}
		sigOK := false
		if pub, err := crypto.DecodePoint(info.OwnerKey); err == nil {
			sigOK = crypto.Verify(*pub, buf.Bytes(), info.Signature) == nil
		}
		var progs []*program.Program
		for _, c := range codes {
			progs = append(progs, &program.Program{Code: c, Parameter: []byte{}})
		}
		var tx interfaces.Transaction = transaction.CreateTransaction(common2.TxVersion09, common2.RegisterProducer, version, info, nil, nil, nil, 0, progs)
		tx.SetParameters(&transaction.TransactionParameters{Transaction: tx, BlockHeight: height + 1, Config: f.Params, BlockChain: f.Chain})
		tx.SetReferences(map[*common2.Input]common2.Output{})
		in := map[string]interface{}{"version": version, "codes": zllHex(codes), "owner": hx(info.OwnerKey)}
		msg := ""
		out := h.callQuiet(func() bool {
			e, _ := tx.SpecialContextCheck()
			if e != nil {
				msg = e.Error()
				for _, m := range regProdCodeErrors {
					if strings.Contains(msg, m) {
						return false
					}
				}
			}
			return true // passed the modelled part (later deposit / height checks are not modelled)
		})
		if out >= 2 && len(codes) >= 1 { // CheckAttributeProgram guarantees one program
			h.st.Fail("transaction.RegisterProducer.SpecialContextCheck:panic", "RegisterProducer SpecialContextCheck panicked with at least one program", in)
		}
		k := h.next()
		h.sh.Add(fmt.Sprintf("CRegProd %d %d %s %s %s %d", k, version, lib.CoqBool(sigOK), zll(codes), zl(info.OwnerKey), out))
		in["out"], in["msg"] = out, msg
		h.st.LogCase(h.run.Out, k, in)
		h.st.Count(fmt.Sprintf("regprod:%d:%d:%d:%s", version, len(codes), out, msg), len(codes) >= 1, "CRegProd")
	}
}

func indexOfKey(h *H, k keypair) int {
	for i := range h.ks {
		if bytes.Equal(h.ks[i].enc, k.enc) {
			return i
		}
	}
	return 0
}

// ---------------------------------------------------------------- TransferCrossChainAsset V0

func (h *H) crossChainV0Cases(params *config.Configuration, chain *blockchain.BlockChain) {
	type c struct {
		addrs   []string
		idxs    []uint64
		amounts []common.Fixed64
		outs    []*common2.Output
		totalIn common.Fixed64
		note    string
	}
	xOut := func(prefix byte, v common.Fixed64) *common2.Output {
		o := &common2.Output{Value: v}
		copy(o.ProgramHash[:], h.rng.Bytes(21))
		o.ProgramHash[0] = prefix
		return o
	}
	var cs []c
	// corpus: the repaired witness, output index 2^63 (negative as int before the fix)
	cs = append(cs, c{[]string{"a"}, []uint64{1 << 63}, []common.Fixed64{5}, []*common2.Output{xOut(0x4B, 100000)}, 200000, "index 2^63"},
		c{[]string{"a"}, []uint64{1<<64 - 1}, []common.Fixed64{5}, []*common2.Output{xOut(0x4B, 100000)}, 200000, "index 2^64-1"},
		c{[]string{"a"}, []uint64{1}, []common.Fixed64{5}, []*common2.Output{xOut(0x4B, 100000)}, 200000, "index = len"},
		c{[]string{"a"}, []uint64{0}, []common.Fixed64{5}, []*common2.Output{xOut(0x4B, 100000)}, 200000, "accept"})
	for i := 0; i < h.run.N(60, 500); i++ {
		n := h.rng.Range(0, 3)
		nOut := h.rng.Range(0, 4)
		var x c
		for j := 0; j < nOut; j++ {
			x.outs = append(x.outs, xOut(byte(h.rng.PickU64(0x4B, 0x4B, 0x4B, 0x21)), common.Fixed64(h.rng.PickI64(100000, 20000, 5000, 10000))))
		}
		for j := 0; j < n; j++ {
			x.addrs = append(x.addrs, string(rune('a'+h.rng.Intn(4))))
			if h.rng.Chance(5) {
				x.addrs[j] = ""
			}
			ix := uint64(j)
			switch h.rng.Intn(8) {
			case 0:
				ix = uint64(nOut)
			case 1:
				ix = h.rng.PickU64(1<<63, 1<<63+1, 1<<64-1, 1<<32, uint64(nOut)+1<<63)
			case 2:
				ix = uint64(h.rng.Intn(nOut + 1))
			}
			x.idxs = append(x.idxs, ix)
			x.amounts = append(x.amounts, common.Fixed64(h.rng.PickI64(5, 1000, 90000, -1, 89999, 90001)))
		}
		if h.rng.Chance(50) && nOut >= 1 { // mostly valid: distinct in-range indexes, X outputs, small amounts
			n = h.rng.Range(1, nOut)
			x.addrs, x.idxs, x.amounts = nil, nil, nil
			for j := 0; j < n; j++ {
				x.outs[j].ProgramHash[0] = 0x4B
				x.addrs = append(x.addrs, string(rune('a'+j)))
				x.idxs = append(x.idxs, uint64(j))
				x.amounts = append(x.amounts, common.Fixed64(h.rng.PickI64(0, 5, 1000)))
			}
			if h.rng.Chance(30) {
				x.idxs[h.rng.Intn(n)] = h.rng.PickU64(1<<63, uint64(nOut), 0, 1<<64-1)
			}
		}
		if h.rng.Chance(10) && n > 0 {
			x.idxs = x.idxs[:n-1]
		}
		if h.rng.Chance(10) {
			x.amounts = append(x.amounts, 1)
		}
		x.totalIn = common.Fixed64(h.rng.PickI64(0, 10000, 1000000))
		for _, o := range x.outs {
			x.totalIn += o.Value
		}
		x.note = "random"
		cs = append(cs, x)
	}
	for _, x := range cs {
		pld := &payload.TransferCrossChainAsset{CrossChainAddresses: x.addrs, OutputIndexes: x.idxs, CrossChainAmounts: x.amounts}
		var tx interfaces.Transaction = transaction.CreateTransaction(common2.TxVersion09, common2.TransferCrossChainAsset, payload.TransferCrossChainVersion, pld, nil, nil, x.outs, 0, nil)
		tx.SetParameters(&transaction.TransactionParameters{Transaction: tx, BlockHeight: 100, Config: params, BlockChain: chain})
		tx.SetReferences(map[*common2.Input]common2.Output{{}: {Value: x.totalIn}})
		in := map[string]interface{}{"note": x.note, "addresses": x.addrs, "indexes": fmt.Sprint(x.idxs), "amounts": x.amounts, "outputs": len(x.outs)}
		out := h.call("transaction.TransferCrossChainAsset.SpecialContextCheck", in, func() bool {
			e, _ := tx.SpecialContextCheck()
			return e == nil
		})
		ids := map[string]int{"": 0}
		var as, is, ms, os []string
		for _, a := range x.addrs {
			if _, ok := ids[a]; !ok {
				ids[a] = len(ids)
			}
			as = append(as, fmt.Sprint(ids[a]))
		}
		for _, v := range x.idxs {
			is = append(is, fmt.Sprint(v))
		}
		for _, v := range x.amounts {
			ms = append(ms, lib.CoqZi(int64(v)))
		}
		for _, o := range x.outs {
			os = append(os, fmt.Sprintf("(%d, %s)", o.ProgramHash[0], lib.CoqZi(int64(o.Value))))
		}
		k := h.next()
		h.sh.Add(fmt.Sprintf("CXcV0 %d true %s %s %s %s %d %s %d", k, lib.CoqList(as), lib.CoqList(is), lib.CoqList(ms), lib.CoqList(os),
			int64(params.MinCrossChainTxFee), lib.CoqZi(int64(x.totalIn)), out))
		in["out"] = out
		h.st.LogCase(h.run.Out, k, in)
		h.st.Count(fmt.Sprintf("xcv0:%v:%v:%v:%d:%d", x.addrs, x.idxs, x.amounts, len(x.outs), out), len(x.addrs) > 0, "CXcV0")
		if out == 0 {
			h.st.Hist["CXcV0 accepted"]++
		}
	}
}

// ---------------------------------------------------------------- ReturnSideChainDepositCoin

// fakeStore answers the two chain-store questions of the check from a table;
// any other method of the embedded (nil) interface would panic and be reported.
type fakeStore struct {
	blockchain.IChainStore
	txs map[common.Uint256]interfaces.Transaction
	dup map[common.Uint256]bool
}

func (s *fakeStore) GetTransaction(id common.Uint256) (interfaces.Transaction, uint32, error) {
	if t, ok := s.txs[id]; ok {
		return t, 1, nil
	}
	return nil, 0, errors.New("not found")
}
func (s *fakeStore) IsSidechainReturnDepositTxHashDuplicate(h common.Uint256) bool { return s.dup[h] }

func (h *H) returnSideChainDepositCases(params *config.Configuration, st *state.State) {
	store := &fakeStore{txs: map[common.Uint256]interfaces.Transaction{}, dup: map[common.Uint256]bool{}}
	chain := blockchain.NewStoreContextVerif(params, st, store)
	oldStore := blockchain.DefaultLedger.Store
	blockchain.DefaultLedger.Store = store
	defer func() { blockchain.DefaultLedger.Store = oldStore }()
	side := *common.ToProgramHash(byte(contract.PrefixCrossChain), []byte("side chain genesis"))
	sideAddr, _ := side.ToAddress()
	phID := func(u common.Uint168, ids map[common.Uint168]int) int {
		if _, ok := ids[u]; !ok {
			ids[u] = len(ids) + 1
		}
		return ids[u]
	}
	fee := params.ReturnDepositCoinFee
	n := h.run.N(60, 500)
	for i := -1; i < n; i++ {
		ids := map[common.Uint168]int{}
		sideID := phID(side, ids)
		// the referenced (funding) transaction and the deposit transaction
		var owner common.Uint168
		copy(owner[:], h.rng.Bytes(21))
		refOuts := []*common2.Output{{Value: 5, ProgramHash: owner, Payload: &outputpayload.DefaultOutput{}}, {Value: 7, Payload: &outputpayload.DefaultOutput{}}}
		copy(refOuts[1].ProgramHash[:], h.rng.Bytes(21))
		var refTx interfaces.Transaction = transaction.CreateTransaction(common2.TxVersion09, common2.TransferAsset, 0, &payload.TransferAsset{}, nil, nil, refOuts, uint32(i+2), nil)
		nIn := h.rng.Range(0, 2)
		pver := byte(h.rng.PickU64(0, 0, 1, 2))
		if i == -1 { // corpus: a stored transaction without inputs (index 0 of 0 before the fix)
			nIn, pver = 0, 0
		}
		var ins []*common2.Input
		for j := 0; j < nIn; j++ {
			in := &common2.Input{Previous: common2.OutPoint{TxID: refTx.Hash(), Index: uint16(h.rng.Intn(2))}}
			if h.rng.Chance(10) {
				copy(in.Previous.TxID[:], h.rng.Bytes(32)) // unknown referenced transaction
			}
			ins = append(ins, in)
		}
		amount := common.Fixed64(h.rng.PickI64(1000, 5000))
		depOuts := []*common2.Output{{Value: amount, ProgramHash: side, Type: common2.OTCrossChain, Payload: &outputpayload.CrossChainOutput{}}, {Value: 3, ProgramHash: owner, Payload: &outputpayload.DefaultOutput{}}}
		if h.rng.Chance(20) {
			depOuts[0].ProgramHash[5] ^= 1
		}
		if h.rng.Chance(20) {
			depOuts = append(depOuts, &common2.Output{Value: 11, ProgramHash: side, Type: common2.OTCrossChain, Payload: &outputpayload.CrossChainOutput{}})
		}
		var idxs []uint64
		for j := range depOuts {
			if h.rng.Chance(70) {
				idxs = append(idxs, uint64(j))
			}
		}
		var depPayload interfaces.Payload = &payload.TransferCrossChainAsset{OutputIndexes: idxs}
		depType := common2.TransferCrossChainAsset
		isTcca := true
		if h.rng.Chance(15) {
			depPayload, depType, isTcca, idxs = &payload.TransferAsset{}, common2.TransferAsset, false, nil
		}
		var depTx interfaces.Transaction = transaction.CreateTransaction(common2.TxVersion09, depType, pver, depPayload, nil, ins, depOuts, uint32(i+2), nil)
		store.txs = map[common.Uint256]interfaces.Transaction{refTx.Hash(): refTx, depTx.Hash(): depTx}
		store.dup = map[common.Uint256]bool{}
		depHash := depTx.Hash()
		found := true
		if h.rng.Chance(8) {
			depHash[0] ^= 1
			found = false
		}
		if h.rng.Chance(5) {
			store.dup[depHash] = true
		}
		// the return output
		expect := common.Fixed64(0)
		switch pver {
		case 0:
			for _, j := range idxs {
				if depOuts[j].ProgramHash == side {
					expect += depOuts[j].Value
				}
			}
		case 1:
			for _, o := range depOuts {
				if o.Type == common2.OTCrossChain && o.ProgramHash == side {
					expect += o.Value
				}
			}
		}
		ret := &common2.Output{Value: expect - fee, ProgramHash: owner, Type: common2.OTReturnSideChainDepositCoin,
			Payload: &outputpayload.ReturnSideChainDeposit{GenesisBlockAddress: sideAddr, DepositTransactionHash: depHash}}
		if nIn > 0 && ins[0].Previous.Index == 1 {
			ret.ProgramHash = refOuts[1].ProgramHash
		}
		if h.rng.Chance(10) {
			ret.Value++
		}
		if h.rng.Chance(8) {
			ret.ProgramHash[3] ^= 1
		}
		addrOK := true
		if h.rng.Chance(6) {
			ret.Payload.(*outputpayload.ReturnSideChainDeposit).GenesisBlockAddress = "x"
			addrOK = false
		}
		var tx interfaces.Transaction = transaction.CreateTransaction(common2.TxVersion09, common2.ReturnSideChainDepositCoin, 0, &payload.ReturnSideChainDepositCoin{}, nil, nil, []*common2.Output{ret}, 0, nil)
		tx.SetParameters(&transaction.TransactionParameters{Transaction: tx, BlockHeight: 100, Config: params, BlockChain: chain})
		tx.SetReferences(map[*common2.Input]common2.Output{})
		in := map[string]interface{}{"deposit_inputs": nIn, "deposit_payload_version": pver, "deposit_is_crosschain": isTcca, "found": found, "indexes": fmt.Sprint(idxs)}
		out := h.call("transaction.ReturnSideChainDepositCoin.SpecialContextCheck", in, func() bool {
			e, _ := tx.SpecialContextCheck()
			return e == nil
		})
		dep := "None"
		if found {
			var is, os, xs []string
			for _, inp := range ins {
				ro := "None"
				if rt, ok := store.txs[inp.Previous.TxID]; ok {
					var ps []string
					for _, o := range rt.Outputs() {
						ps = append(ps, fmt.Sprint(phID(o.ProgramHash, ids)))
					}
					ro = "(Some " + lib.CoqList(ps) + ")"
				}
				is = append(is, fmt.Sprintf("(%d, %s)", inp.Previous.Index, ro))
			}
			for _, o := range depOuts {
				_, isCC := o.Payload.(*outputpayload.CrossChainOutput)
				os = append(os, fmt.Sprintf("(%d, %s, %s)", phID(o.ProgramHash, ids), lib.CoqZi(int64(o.Value)), lib.CoqBool(o.Type == common2.OTCrossChain && isCC)))
			}
			for _, j := range idxs {
				xs = append(xs, fmt.Sprint(j))
			}
			dep = fmt.Sprintf("(Some (D %s %d %s %s %s))", lib.CoqList(is), pver, lib.CoqBool(isTcca), lib.CoqList(xs), lib.CoqList(os))
		}
		k := h.next()
		h.sh.Add(fmt.Sprintf("CRetSide %d %d %s %d %s %s %s %d %d", k, phID(ret.ProgramHash, ids), lib.CoqZi(int64(ret.Value)), int64(fee),
			lib.CoqBool(store.dup[depHash]), dep, lib.CoqBool(addrOK), sideID, out))
		in["out"] = out
		h.st.LogCase(h.run.Out, k, in)
		h.st.Count(fmt.Sprintf("retside:%d:%d:%v:%v:%v:%d", nIn, pver, isTcca, found, idxs, out), found, "CRetSide")
		if out == 0 {
			h.st.Hist["CRetSide accepted"]++
		}
	}
}

// ---------------------------------------------------------------- arbiter multisig programs

// arbiterSignatureCases drives CheckInactiveArbitrators (core/transaction and
// blockchain copies) and blockchain.CheckRevertToDPOSTransaction: Programs()[0]
// and the m / n bytes of its code are read before any length test.
func (h *H) arbiterSignatureCases(mock *state.ArbitratorsMock) {
	nArb := 4
	mock.CRCArbitrators, mock.CurrentArbitrators = nil, nil
	var keys [][]byte
	for j := 0; j < nArb; j++ {
		a, err := state.NewOriginArbiter(h.ks[j].enc)
		if err != nil {
			panic(err)
		}
		mock.CRCArbitrators = append(mock.CRCArbitrators, a)
		mock.CurrentArbitrators = append(mock.CurrentArbitrators, a)
		keys = append(keys, h.ks[j].enc)
	}
	defer func() { mock.CRCArbitrators, mock.CurrentArbitrators = nil, nil }()
	minSign := int(float64(nArb)*state.MajoritySignRatioNumerator/state.MajoritySignRatioDenominator) + 1
	good := msCode(0, minSign, keys, 0, nArb, 0xAE)
	var lists [][][]byte
	lists = append(lists, nil, [][]byte{{}}, [][]byte{{0x51}}, [][]byte{{0x51, 0xAE}}, [][]byte{h.rng.Bytes(70)}, [][]byte{good}, [][]byte{good, good})
	for _, nb := range h.neighbours(good) {
		lists = append(lists, [][]byte{nb})
	}
	foreign := msCode(0, minSign, [][]byte{keys[0], keys[1], keys[2], h.ks[6].enc}, 0, nArb, 0xAE)
	lowM := msCode(0, minSign-1, keys, 0, nArb, 0xAE)
	lists = append(lists, [][]byte{foreign}, [][]byte{lowM}, [][]byte{msCode(0, 2, keys[:3], 0, 3, 0xAE)}, [][]byte{stdCode(keys[0])})
	for i := 0; i < h.run.N(10, 80); i++ {
		nb := h.neighbours(h.randomCode())
		lists = append(lists, [][]byte{nb[h.rng.Intn(len(nb))]})
	}
	member := keys
	for _, codes := range lists {
		var progs []*program.Program
		for _, c := range codes {
			progs = append(progs, &program.Program{Code: c, Parameter: []byte{}})
		}
		pld := &payload.InactiveArbitrators{Sponsor: keys[0]}
		var tx interfaces.Transaction = transaction.CreateTransaction(common2.TxVersion09, common2.InactiveArbitrators, 0, pld, nil, nil, nil, 0, progs)
		in := map[string]interface{}{"codes": zllHex(codes)}
		o1 := h.call("transaction.CheckInactiveArbitrators", in, func() bool { return transaction.CheckInactiveArbitrators(tx) == nil })
		o2 := h.call("blockchain.CheckInactiveArbitrators", in, func() bool { return blockchain.CheckInactiveArbitrators(tx) == nil })
		o3 := h.call("blockchain.CheckRevertToDPOSTransaction", in, func() bool { return blockchain.CheckRevertToDPOSTransaction(tx) == nil })
		// the m / n / quorum test, replayed (CRC set = arbiter set here, so the three agree)
		cok := false
		if len(codes) > 0 && len(codes[0]) >= 71 {
			c := codes[0]
			n, m := int(c[len(c)-2])-0x51+1, int(c[0])-0x51+1
			cok = !(m < 1 || m > n || n != nArb || m < minSign)
		}
		for v, o := range []int{o1, o2, o3} {
			k := h.next()
			h.sh.Add(fmt.Sprintf("CArbSigs %d %s %s %s %d", k, lib.CoqBool(cok), zll(member), zll(codes), o))
			in2 := map[string]interface{}{"codes": zllHex(codes), "variant": v, "out": o}
			h.st.LogCase(h.run.Out, k, in2)
			h.st.Count(fmt.Sprintf("arbsigs:%d:%v:%d", v, in["codes"], o), len(codes) > 0, "CArbSigs")
		}
	}
}
