package main

import (
	"fmt"
	"math/big"

	"github.com/elastos/Elastos.ELA/crypto"

	"verifharness/lib"
)

// Adversarial key and signature bytes for every place where untrusted bytes
// reach the elliptic-curve code (SchnorrVerify / Unmarshal, DecodePoint,
// ecdsa Verify, key aggregation): Go's P-256 panics when ScalarMult / Add is
// handed a point that is not on the curve, so the guards in front of those
// calls are part of the no-panic property.

type advKey struct {
	key  []byte
	note string
}

func key33(pfx byte, x *big.Int) []byte {
	k := make([]byte, 33)
	k[0] = pfx
	b := x.Bytes()
	copy(k[33-len(b):], b)
	return k
}

// solvable: the curve equation has a root for x taken mod p (independent
// arithmetic, not crypto.Unmarshal)
func solvable(x *big.Int) bool {
	p := crypto.P
	xm := new(big.Int).Mod(x, p)
	y2 := new(big.Int).Exp(xm, big.NewInt(3), p)
	y2.Sub(y2, new(big.Int).Mul(big.NewInt(3), xm)).Add(y2, crypto.B).Mod(y2, p)
	if y2.Sign() == 0 {
		return true
	}
	return big.Jacobi(y2, p) == 1
}

func (h *H) advKeys() []advKey {
	var out []advKey
	p := crypto.P
	max := new(big.Int).Sub(new(big.Int).Lsh(big.NewInt(1), 256), big.NewInt(1))
	limit := 3
	if h.run.Thorough() {
		limit = 4
	}
	// x = p + k, unreduced, with a valid y (both parities) and without
	out = append(out, advKey{key33(2, p), "x = p"}, advKey{key33(3, p), "x = p, odd"})
	n, m := 0, 0
	for k := int64(0); k < 2000 && (n < limit || m < 2); k++ {
		x := new(big.Int).Add(p, big.NewInt(k))
		if solvable(x) && n < limit {
			n++
			out = append(out, advKey{key33(2, x), fmt.Sprintf("x = p+%d >= p with a valid y", k)},
				advKey{key33(3, x), fmt.Sprintf("x = p+%d >= p with a valid y, odd", k)})
		} else if !solvable(x) && m < 2 {
			m++
			out = append(out, advKey{key33(2, x), fmt.Sprintf("x = p+%d >= p without y", k)})
		}
	}
	// top of the 32-byte range
	out = append(out, advKey{key33(2, max), "x = 2^256-1"})
	n = 0
	for k := int64(0); k < 2000 && n < limit; k++ {
		x := new(big.Int).Sub(max, big.NewInt(k))
		if solvable(x) {
			n++
			out = append(out, advKey{key33(byte(2+k%2), x), fmt.Sprintf("x = 2^256-1-%d with a valid y", k)})
		}
	}
	// small x: on the curve and off the curve, x = 0
	n, m = 0, 0
	for k := int64(0); k < 200 && (n < 2 || m < 2); k++ {
		x := big.NewInt(k)
		if solvable(x) && n < 2 {
			n++
			out = append(out, advKey{key33(2, x), fmt.Sprintf("x = %d on the curve", k)}, advKey{key33(3, x), fmt.Sprintf("x = %d on the curve, odd", k)})
		} else if !solvable(x) && m < 2 {
			m++
			out = append(out, advKey{key33(2, x), fmt.Sprintf("x = %d not on the curve", k)}, advKey{key33(3, x), fmt.Sprintf("x = %d not on the curve, odd", k)})
		}
	}
	// encodings of the point at infinity / wrong format bytes
	out = append(out, advKey{make([]byte, 33), "33 zero bytes (infinity)"},
		advKey{key33(0, big.NewInt(1)), "prefix 0"}, advKey{key33(4, new(big.Int).SetBytes(h.ks[0].enc[1:])), "prefix 4 on 33 bytes"},
		advKey{key33(6, new(big.Int).SetBytes(h.ks[0].enc[1:])), "prefix 6 on 33 bytes"})
	// a valid key with the other parity (a different valid point), x = p-1, x = n
	flip := cp(h.ks[0].enc)
	flip[0] ^= 1
	out = append(out, advKey{flip, "valid key, parity flipped"},
		advKey{key33(2, new(big.Int).Sub(p, big.NewInt(1))), "x = p-1"}, advKey{key33(2, crypto.N), "x = n"})
	// distinct keys only
	seen := map[string]bool{}
	var uniq []advKey
	for _, k := range out {
		if !seen[string(k.key)] {
			seen[string(k.key)] = true
			uniq = append(uniq, k)
		}
	}
	return uniq
}

type advSig struct {
	sig  []byte
	note string
}

func sig64(r, s *big.Int) []byte {
	b := make([]byte, 64)
	rb, sb := r.Bytes(), s.Bytes()
	copy(b[32-len(rb):32], rb)
	copy(b[64-len(sb):], sb)
	return b
}

func advSigs() []advSig {
	one, zero := big.NewInt(1), big.NewInt(0)
	n, p := crypto.N, crypto.P
	max := new(big.Int).Sub(new(big.Int).Lsh(big.NewInt(1), 256), one)
	nm1 := new(big.Int).Sub(n, one)
	pm1 := new(big.Int).Sub(p, one)
	return []advSig{
		{sig64(one, one), "r=1 s=1"}, {sig64(zero, zero), "r=0 s=0"}, {sig64(nm1, nm1), "r=n-1 s=n-1"},
		{sig64(n, n), "r=n s=n"}, {sig64(pm1, nm1), "r=p-1 s=n-1"}, {sig64(p, one), "r=p s=1"},
		{sig64(one, n), "r=1 s=n"}, {sig64(max, max), "r=s=2^256-1"}, {sig64(one, zero), "r=1 s=0"}, {sig64(zero, one), "r=0 s=1"},
	}
}

// adversarialCases runs every adversarial key in the Schnorr, standard and
// multisig / cross-chain key positions, through the four signature checkers
// and through RunPrograms under the owner prefixes that reach them.
func (h *H) adversarialCases() {
	keys, sigs := h.advKeys(), advSigs()
	data := []byte("c03 adversarial keys")
	good := h.ks[1].enc
	for ki, k := range keys {
		var use []advSig
		if h.run.Thorough() {
			use = sigs
		} else { // r=1 s=1 reaches the scalar multiplications; one more, rotating
			use = []advSig{sigs[0], sigs[1+ki%(len(sigs)-1)]}
		}
		for _, s := range use {
			note := k.note + "; " + s.note
			p65 := cat([]byte{64}, s.sig)
			sch := progShape{schCode(k.key), cp(s.sig), "adv schnorr key: " + note}
			std := progShape{stdCode(k.key), p65, "adv standard key: " + note}
			msF := progShape{msCode(0, 1, [][]byte{k.key, good}, 0, 2, 0xAE), p65, "adv multisig first key: " + note}
			msL := progShape{msCode(0, 1, [][]byte{good, k.key}, 0, 2, 0xAE), cat(p65, []byte{64}, h.sign(1, data)), "adv multisig last key: " + note}
			ccF := progShape{msCode(0, 1, [][]byte{k.key, good}, 0, 2, 0xAF), p65, "adv cross-chain first key: " + note}
			for _, sp := range []progShape{sch, std, msF, msL, ccF} {
				h.sigCase(data, sp)
			}
			if s.note == "r=1 s=1" || (h.run.Thorough() && s.note == "r=n-1 s=n-1") {
				h.runCase(data, []byte{0x21}, []bool{true}, []progShape{sch})
				h.runCase(data, []byte{0x4B}, []bool{true}, []progShape{sch})
				h.runCase(data, []byte{0x21}, []bool{true}, []progShape{std})
				h.runCase(data, []byte{0x12}, []bool{true}, []progShape{msF})
				h.runCase(data, []byte{0x4B}, []bool{true}, []progShape{ccF})
			}
		}
	}
	// adversarial signatures on honest keys (ecdsa r/s = 0 or >= n, schnorr r >= p, s >= n)
	for _, s := range sigs {
		p65 := cat([]byte{64}, s.sig)
		h.sigCase(data, progShape{schCode(good), cp(s.sig), "adv schnorr sig: " + s.note})
		h.sigCase(data, progShape{stdCode(good), p65, "adv standard sig: " + s.note})
		h.sigCase(data, progShape{msCode(0, 1, [][]byte{good, h.ks[2].enc}, 0, 2, 0xAE), p65, "adv multisig sig: " + s.note})
	}
	// the primitives directly (they are also called by payload checks outside C03's anchors)
	for _, k := range keys {
		in := map[string]interface{}{"key": hx(k.key), "note": k.note}
		if p, v := lib.Recover(func() {
			if pub, err := crypto.DecodePoint(k.key); err == nil {
				for _, s := range sigs {
					crypto.Verify(*pub, data, s.sig)
				}
			}
		}); p {
			h.st.Fail("crypto.DecodePoint/Verify:panic", fmt.Sprintf("DecodePoint / Verify panicked: %v", v), in)
		}
		h.st.Hist["adv key primitive sweeps"]++
	}
}
