package main

import (
	"crypto/elliptic"
	"encoding/hex"
	"fmt"
	"math"
	"math/big"
	"strings"

	"github.com/elastos/Elastos.ELA/blockchain"
	"github.com/elastos/Elastos.ELA/common"
	"github.com/elastos/Elastos.ELA/common/config"
	"github.com/elastos/Elastos.ELA/core"
	"github.com/elastos/Elastos.ELA/core/contract"
	"github.com/elastos/Elastos.ELA/core/contract/program"
	"github.com/elastos/Elastos.ELA/core/transaction"
	common2 "github.com/elastos/Elastos.ELA/core/types/common"
	"github.com/elastos/Elastos.ELA/core/types/interfaces"
	"github.com/elastos/Elastos.ELA/core/types/payload"
	"github.com/elastos/Elastos.ELA/crypto"
	"github.com/elastos/Elastos.ELA/dpos/state"

	"verifharness/lib"
)

// ---------------------------------------------------------------- oracle tables

type tables struct {
	dec [][2]int
	ver [][3]int
	sch []int
}

func (t tables) coq() (string, string, string) {
	d := make([]string, len(t.dec))
	for i, e := range t.dec {
		d[i] = fmt.Sprintf("(%d, %s)", e[0], lib.CoqZi(int64(e[1])))
	}
	v := make([]string, len(t.ver))
	for i, e := range t.ver {
		v[i] = fmt.Sprintf("(%d, %s, %d)", e[0], lib.CoqZi(int64(e[1])), e[2])
	}
	s := make([]string, len(t.sch))
	for i, e := range t.sch {
		s[i] = fmt.Sprint(e)
	}
	return lib.CoqList(d), lib.CoqList(v), lib.CoqList(s)
}

func pad33(b []byte) [33]byte {
	var r [33]byte
	copy(r[:], b)
	return r
}

// tablesFor lists, by position (see corr/C03_corr.v key_at / sig_at), which
// candidate keys decode and which (key, signature) pairs verify on data, with
// independent calls of the crypto primitives.
func tablesFor(data []byte, progs []*program.Program) tables {
	var t tables
	for p, pr := range progs {
		code, param := pr.Code, pr.Parameter
		type kc struct {
			j int
			k []byte
		}
		var keys []kc
		if len(code) >= 2 {
			keys = append(keys, kc{-1, code[1 : len(code)-1]})
		}
		for j := 0; 35+34*j <= len(code) && j < 12; j++ {
			keys = append(keys, kc{j, code[2+34*j : 35+34*j]})
		}
		var sigs [][]byte
		for s := 0; 65*s+65 <= len(param) && s < 12; s++ {
			sigs = append(sigs, param[65*s+1:65*s+65])
		}
		for _, k := range keys {
			var pub *crypto.PublicKey
			var err error
			if pn, _ := lib.Recover(func() { pub, err = crypto.DecodePoint(k.k) }); pn || err != nil {
				continue
			}
			t.dec = append(t.dec, [2]int{p, k.j})
			for s, sg := range sigs {
				if crypto.Verify(*pub, data, sg) == nil {
					t.ver = append(t.ver, [3]int{p, k.j, s})
				}
			}
		}
		if len(code) >= 2 && len(param) >= 64 {
			var sg [64]byte
			copy(sg[:], param[:64])
			ok := false
			lib.Recover(func() { ok, _ = crypto.SchnorrVerify(pad33(code[2:]), common.Sha256D(data), sg) })
			if ok {
				t.sch = append(t.sch, p)
			}
		}
	}
	return t
}

// ---------------------------------------------------------------- program shapes

type progShape struct {
	code, param []byte
	note        string
}

func (h *H) schnorrSig(k int, data []byte) []byte {
	sig, err := crypto.AggregateSignatures([]*big.Int{new(big.Int).SetBytes(h.ks[k].priv)}, common.Sha256D(data))
	if err != nil {
		panic(err)
	}
	return sig[:]
}

func (h *H) paramOf(signers []int, data []byte) []byte {
	var parts [][]byte
	for _, k := range signers {
		parts = append(parts, []byte{64}, h.sign(k, data))
	}
	return cat(parts...)
}

func (h *H) progShapes(data []byte) []progShape {
	var out []progShape
	add := func(code, param []byte, note string) { out = append(out, progShape{cp(code), cp(param), note}) }
	k := h.rng.Intn(len(h.ks))
	// standard
	std := stdCode(h.ks[k].enc)
	good := h.paramOf([]int{k}, data)
	add(std, good, "std ok")
	add(std, h.paramOf([]int{(k + 1) % len(h.ks)}, data), "std wrong signer")
	add(std, good[:64], "std param-1")
	add(std, cat(good, []byte{0}), "std param+1")
	add(std, nil, "std empty param")
	bad := cp(std)
	bad[1] = 5
	add(bad, good, "std undecodable key")
	add(std[:34], good, "std code-1")
	// schnorr
	sch := schCode(h.ks[k].enc)
	ss := h.schnorrSig(k, data)
	add(sch, ss, "schnorr ok")
	add(sch, ss[:63], "schnorr param 63")
	add(sch, cat(ss, []byte{1, 2}), "schnorr param 66")
	add(sch, []byte{}, "schnorr empty param")
	add(sch, h.rng.Bytes(64), "schnorr garbage")
	add(sch[:34], ss, "schnorr code-1")
	// multisig / cross-chain m-of-n
	for _, last := range []byte{0xAE, 0xAF} {
		n := 2 + h.rng.Intn(3)
		m := 1 + h.rng.Intn(n)
		ids := make([]int, n)
		keys := make([][]byte, n)
		for i := range ids {
			ids[i] = (k + i) % len(h.ks)
			keys[i] = h.ks[ids[i]].enc
		}
		code := msCode(0, m, keys, 0, n, last)
		full := h.paramOf(ids[:m], data)
		add(code, full, fmt.Sprintf("ms %d/%d ok last=%x", m, n, last))
		add(code, h.paramOf(ids, data), "ms all sign")
		add(code, h.paramOf(append(append([]int{}, ids[:m]...), ids[0]), data), "ms duplicate signer")
		add(code, h.paramOf(append(append([]int{}, ids...), ids[0]), data), "ms too many")
		if m > 1 {
			add(code, h.paramOf(ids[:m-1], data), "ms too few")
		}
		add(code, full[:len(full)-1], "ms param-1")
		add(code, cat(full, []byte{64}), "ms param+1")
		add(code, nil, "ms empty param")
		add(code, h.paramOf([]int{(k + 5) % len(h.ks), (k + 6) % len(h.ks)}, data), "ms foreign signers")
		for d := 1; d <= 3; d++ {
			add(code[:len(code)-d], full, fmt.Sprintf("ms code-%d", d))
		}
		add(cat(code, []byte{last}), full, "ms code+1")
		c2 := cp(code)
		c2[len(c2)-2]++ // n+1
		add(c2, full, "ms n+1")
		c3 := cp(code)
		c3[0] = byte(0x50 + n + 1) // m > n
		add(c3, full, "ms m>n")
		c4 := cp(code)
		c4[2] = 7 // first key does not decode
		add(c4, full, "ms undecodable first key")
		c5 := cp(code)
		c5[len(c5)-35] = 7 // last key does not decode
		add(c5, full, "ms undecodable last key")
		// the 1-of-1 code is 37 bytes, below MinMultiSignCodeLength
		add(msCode(0, 1, keys[:1], 0, 1, last), h.paramOf(ids[:1], data), "ms 1/1 (short)")
	}
	// degenerate codes
	add(nil, nil, "empty code")
	add([]byte{0x51}, []byte{}, "1-byte code")
	add([]byte{0x51, 0xAE}, good, "2-byte code")
	add(h.rng.Bytes(23), good, "23 random bytes")
	add(cat(h.rng.Bytes(70), []byte{0xAE}), good, "71 random bytes multisig-terminated")
	add(cat(h.rng.Bytes(70), []byte{0xAF}), good, "71 random bytes crosschain-terminated")
	add(cat([]byte{0x51}, h.rng.Bytes(67), []byte{0x52, 0xAE}), good, "71 bytes, 69 between m and n (not a multiple of 34)")
	return out
}

func (h *H) programCases() {
	// parsePublicKeys on its own
	k := h.ks[0].enc
	var codes [][]byte
	for n := 0; n <= 4; n++ {
		keys := [][]byte{k, h.ks[1].enc, h.ks[2].enc, h.ks[3].enc}[:n]
		codes = append(codes, h.neighbours(msCode(0, 1, keys, 0, n, 0xAE))...)
	}
	codes = append(codes, []byte{}, []byte{1}, []byte{1, 2}, []byte{1, 2, 3})
	for _, c := range codes {
		var ks [][]byte
		var err error
		in := map[string]interface{}{"code": hx(c)}
		p, v := lib.Recover(func() { ks, err = crypto.ParsePublicKeysVerif(c) })
		out := 0
		if p {
			out, ks = kindOf(v), nil
			// no oracle failure: parsePublicKeys is unexported and only reached
			// behind the len >= 71 test of ParseMultisigScript / ParseCrossChainScript
			if len(c) >= 71 {
				h.st.Fail("crypto.parsePublicKeys:panic", fmt.Sprintf("parsePublicKeys panicked under its callers' guard: %v", v), in)
			}
		} else if err != nil {
			out, ks = 1, nil
		}
		i := h.next()
		h.sh.Add(fmt.Sprintf("CParse %d %s %d %s", i, zl(c), out, zll(ks)))
		in["out"] = out
		h.st.LogCase(h.run.Out, i, in)
		h.st.Count(fmt.Sprintf("parse:%x", c), out == 0, "CParse")
	}

	// the four signature checkers on every shape
	rounds := h.run.N(1, 5)
	for r := 0; r < rounds; r++ {
		data := h.rng.Bytes(40)
		for _, s := range h.progShapes(data) {
			h.sigCase(data, s)
		}
	}
	// RunPrograms
	// corpus: witnesses of the repaired panics
	data := []byte("c03 corpus")
	sch := schCode(h.ks[0].enc)
	h.runCase(data, []byte{0x4B}, []bool{true}, []progShape{{sch, []byte{}, "schnorr-shaped code, empty parameter, cross-chain prefix (slice [:64] of 0 before the fix)"}})
	h.runCase(data, []byte{0x12}, []bool{true}, []progShape{{[]byte{0x51}, []byte{}, "1-byte code under a multisig address (index -1 before the fix)"}})
	h.runCase(data, []byte{0x4B}, []bool{true}, []progShape{{[]byte{0x51}, []byte{}, "1-byte code under a cross-chain address (index -1 before the fix)"}})
	w := msCode(0, 1, [][]byte{k, h.ks[1].enc}, 0, 2, 0xAE)
	h.runCase(data, []byte{0x21}, []bool{true}, []progShape{{w[:len(w)-1], []byte{}, "truncated multisig code under a standard address (IsMultiSig index 70 of 70 before the fix)"}})
	for r := 0; r < h.run.N(1, 3); r++ {
		data := h.rng.Bytes(40)
		shapes := h.progShapes(data)
		for _, s := range shapes { // each shape alone under each prefix
			for _, prefix := range []byte{0x21, 0x1F, 0x12, 0x4B} {
				if !h.run.Thorough() && !h.rng.Chance(45) {
					continue
				}
				h.runCase(data, []byte{prefix}, []bool{!h.rng.Chance(8)}, []progShape{s})
			}
		}
		for i := 0; i < h.run.N(25, 100); i++ { // lists of programs
			n := h.rng.Range(0, 3)
			var ps []progShape
			var prefixes []byte
			var match []bool
			for j := 0; j < n; j++ {
				ps = append(ps, shapes[h.rng.Intn(len(shapes))])
				prefixes = append(prefixes, byte(h.rng.PickU64(0x21, 0x1F, 0x12, 0x4B, 0x21, 0x12, 0x67, 0)))
				match = append(match, !h.rng.Chance(10))
			}
			if h.rng.Chance(10) {
				prefixes = append(prefixes, 0x21)
				match = append(match, true)
			} else if n > 0 && h.rng.Chance(10) {
				prefixes, match = prefixes[:n-1], match[:n-1]
			}
			h.runCase(data, prefixes, match, ps)
		}
	}
}

func (h *H) sigCase(data []byte, s progShape) {
	pr := program.Program{Code: s.code, Parameter: s.param}
	in := map[string]interface{}{"note": s.note, "code": hx(s.code), "param": hx(s.param), "data": hx(data)}
	errOK := func(e error) bool { return e == nil }
	o1 := -1
	if len(s.code) >= 2 { // every caller passes a standard-shaped or >= 23-byte code
		o1 = h.call("blockchain.CheckStandardSignature", in, func() bool { return errOK(blockchain.CheckStandardSignature(pr, data)) })
	}
	o2 := h.call("blockchain.checkSchnorrSignatures", in, func() bool {
		ok, _ := blockchain.CheckSchnorrSignaturesVerif(pr, common.Sha256D(data))
		return ok
	})
	o3 := h.call("crypto.CheckMultiSigSignatures", in, func() bool { return errOK(crypto.CheckMultiSigSignatures(pr, data)) })
	o4 := h.call("blockchain.checkCrossChainSignatures", in, func() bool { return errOK(blockchain.CheckCrossChainSignaturesVerif(pr, data)) })
	d, v, sc := tablesFor(data, []*program.Program{&pr}).coq()
	i := h.next()
	h.sh.Add(fmt.Sprintf("CSig %d %s %s %s %s %s %s %d %d %d", i, d, v, sc, zl(s.code), zl(s.param), lib.CoqZi(int64(o1)), o2, o3, o4))
	in["out"] = []int{o1, o2, o3, o4}
	h.st.LogCase(h.run.Out, i, in)
	h.st.Count("sig:"+s.note+fmt.Sprint(len(s.code), len(s.param), o1, o2, o3, o4), o1 == 0 || o2 == 0 || o3 == 0 || o4 == 0 || len(s.code) >= 35, "CSig")
	if (s.note == "std ok" && o1 != 0) || (s.note == "schnorr ok" && o2 != 0) {
		h.st.Extra["accept_shape_rejected:"+s.note] = in
	}
}

func (h *H) runCase(data []byte, prefixes []byte, match []bool, ps []progShape) {
	var hashes []common.Uint168
	var progs []*program.Program
	for _, s := range ps {
		progs = append(progs, &program.Program{Code: cp(s.code), Parameter: cp(s.param)})
	}
	for j, pf := range prefixes {
		var ph common.Uint168
		if j < len(ps) && match[j] {
			ph = *common.ToProgramHash(pf, ps[j].code)
		} else {
			copy(ph[:], h.rng.Bytes(21))
			ph[0] = pf
		}
		hashes = append(hashes, ph)
	}
	var notes, codes, params []string
	for _, s := range ps {
		notes, codes, params = append(notes, s.note), append(codes, hx(s.code)), append(params, hx(s.param))
	}
	in := map[string]interface{}{"notes": notes, "codes": codes, "params": params, "prefixes": hx(prefixes), "data": hx(data)}
	out := h.call("blockchain.RunPrograms", in, func() bool { return blockchain.RunPrograms(data, hashes, progs) == nil })
	d, v, sc := tablesFor(data, progs).coq()
	var pfx []string
	for _, x := range hashes {
		pfx = append(pfx, fmt.Sprint(x[0]))
	}
	var pl []string
	for j, s := range ps {
		// the code-hash comparison is an oracle of the model, evaluated independently
		hm := false
		if j < len(hashes) {
			oh := hashes[j].ToCodeHash()
			hm = oh.IsEqual(*common.ToCodeHash(s.code))
		}
		pl = append(pl, fmt.Sprintf("(%s, %s, %s)", lib.CoqBool(hm), zl(s.code), zl(s.param)))
	}
	i := h.next()
	h.sh.Add(fmt.Sprintf("CRun %d %s %s %s %s %s %d", i, d, v, sc, lib.CoqList(pfx), lib.CoqList(pl), out))
	in["out"] = out
	h.st.LogCase(h.run.Out, i, in)
	h.st.Count(fmt.Sprintf("run:%x:%v:%v:%d", prefixes, notes, match, out), len(ps) > 0, "CRun")
	if out == 0 && len(ps) > 0 {
		h.st.Hist["CRun accepted"]++
	}
}

// ---------------------------------------------------------------- transactions

type arbWrap struct {
	*state.ArbitratorsMock
	active uint32
}

func (a *arbWrap) GetDPoSV2ActiveHeight() uint32 { return a.active }

func (h *H) txCases() {
	params := config.GetDefaultParams()
	destroy, crassets := *config.DestroyELAProgramHash, *config.CRAssetsProgramHash
	var dposv2 common.Uint168
	copy(dposv2[:], h.rng.Bytes(21))
	params.DestroyELAProgramHash = &destroy
	params.CRConfiguration.CRAssetsProgramHash = &crassets
	params.DPoSConfiguration.DPoSV2RewardAccumulateProgramHash = &dposv2
	params.PublicDPOSHeight = 1000
	mock := &state.ArbitratorsMock{ArbitersRoundReward: map[common.Uint168]common.Fixed64{}}
	arb := &arbWrap{mock, math.MaxUint32}
	blockchain.DefaultLedger = &blockchain.Ledger{Arbitrators: arb}
	var rewardAddrs []common.Uint168
	for i := 0; i < 3; i++ {
		var a common.Uint168
		copy(a[:], h.rng.Bytes(21))
		rewardAddrs = append(rewardAddrs, a)
	}

	// ---- signer indexes of the Schnorr withdraw check
	type sc struct {
		n        int
		signers  []uint8
		validate bool
		advKey   []byte // replaces the node key of arbiter 0 (signers then all in range and distinct)
		note     string
	}
	scs := []sc{{n: 3, signers: []uint8{3}, validate: false}, {n: 3, signers: []uint8{255}, validate: false}, {n: 0, signers: []uint8{0}, validate: false}, {n: 3, signers: []uint8{0, 1, 2}, validate: false}, {n: 3, signers: []uint8{0, 1, 2}, validate: true},
		{n: 3, signers: []uint8{1, 1}, validate: true}, {n: 3, signers: []uint8{1, 1}, validate: false}, {n: 3, signers: []uint8{2, 3}, validate: true}, {n: 3, signers: nil, validate: true}}
	for i := 0; i < h.run.N(40, 500); i++ {
		n := h.rng.Intn(6)
		var sg []uint8
		for j := h.rng.Intn(5); j > 0; j-- {
			sg = append(sg, uint8(h.rng.Intn(n+2)))
		}
		scs = append(scs, sc{n: n, signers: sg, validate: h.rng.Bool()})
	}
	// arbiter node keys are registered by earlier transactions after a DecodePoint test only,
	// which accepts x >= p: the aggregation must not hand such a key to the curve arithmetic
	for _, k := range h.advKeys() {
		if _, err := crypto.DecodePoint(k.key); err != nil {
			continue // cannot be registered as a node key
		}
		scs = append(scs, sc{3, []uint8{0, 1}, false, k.key, k.note}, sc{3, []uint8{1, 0, 2}, true, k.key, k.note})
	}
	for _, c := range scs {
		mock.CurrentArbitrators = nil
		for j := 0; j < c.n; j++ {
			nk := h.ks[j].enc
			if j == 0 && c.advKey != nil {
				nk = c.advKey
			}
			a, err := state.NewOriginArbiter(nk)
			if err != nil {
				panic(err)
			}
			mock.CurrentArbitrators = append(mock.CurrentArbitrators, a)
		}
		// independent oracles: which arbiter keys are curve points, the aggregate key and its redeem script
		curve := elliptic.P256()
		valid := make([]string, c.n)
		pts := make([][2]*big.Int, c.n)
		for j := 0; j < c.n; j++ {
			nk := mock.CurrentArbitrators[j].GetNodePublicKey()
			x, y := elliptic.UnmarshalCompressed(curve, nk)
			valid[j] = "0"
			if x != nil {
				valid[j], pts[j] = "1", [2]*big.Int{x, y}
			}
		}
		var sx, sy *big.Int
		for _, sgn := range c.signers {
			if int(sgn) >= c.n || pts[sgn][0] == nil {
				break
			}
			if sx == nil || (sx.Sign() == 0 && sy.Sign() == 0) {
				sx, sy = pts[sgn][0], pts[sgn][1]
			} else {
				sx, sy = curve.Add(sx, sy, pts[sgn][0], pts[sgn][1])
			}
		}
		agg := make([]byte, 33)
		agg[0] = 2
		if sx != nil && !(sx.Sign() == 0 && sy.Sign() == 0) {
			agg = elliptic.MarshalCompressed(curve, sx, sy)
		}
		aggOK := false
		var redeem []byte
		if pub, err := crypto.DecodePoint(agg); err == nil {
			if enc, err := pub.EncodePoint(true); err == nil {
				aggOK, redeem = true, schCode(enc)
			}
		}
		// programs: the redeem script itself, other Schnorr codes, other shapes
		var progs []*program.Program
		var codes [][]byte
		for j := h.rng.Intn(3); j > 0; j-- {
			var code []byte
			switch h.rng.Intn(4) {
			case 0:
				code = schCode(h.randKey())
			case 1:
				code = stdCode(h.randKey())
			default:
				code = cp(redeem)
			}
			progs = append(progs, &program.Program{Code: code, Parameter: []byte{}})
			codes = append(codes, code)
		}
		pld := &payload.WithdrawFromSideChain{Signers: c.signers}
		tx := transaction.CreateTransaction(common2.TxVersion09, common2.WithdrawFromSideChain, 2, pld, nil, nil, nil, 0, progs)
		sgInts := make([]int, len(c.signers))
		for j, x := range c.signers {
			sgInts[j] = int(x)
		}
		in := map[string]interface{}{"arbiters": c.n, "signers": sgInts, "validate": c.validate, "codes": zllHex(codes)}
		if c.advKey != nil {
			in["arbiter0_node_key"], in["note"] = hx(c.advKey), c.note
		}
		out := h.call("transaction.checkSchnorrWithdrawFromSidechain", in, func() bool {
			return transaction.CheckSchnorrWithdrawFromSidechainVerif(tx, pld, c.validate) == nil
		})
		sgs := make([]string, len(c.signers))
		for j, s := range c.signers {
			sgs[j] = fmt.Sprint(s)
		}
		i := h.next()
		h.sh.Add(fmt.Sprintf("CWithdraw %d %s %s %s %s %s %s %d", i, lib.CoqBool(c.validate), lib.CoqList(valid), lib.CoqList(sgs),
			lib.CoqBool(aggOK), zl(redeem), zll(codes), out))
		in["out"] = out
		h.st.LogCase(h.run.Out, i, in)
		h.st.Count(fmt.Sprintf("withdraw:%d:%v:%v:%x:%d:%d", c.n, c.signers, c.validate, c.advKey, len(codes), out), len(c.signers) > 0, "CWithdraw")
		if out == 0 {
			h.st.Hist["CWithdraw accepted"]++
		}
	}

	// ---- coinbase outputs: sanity (CheckTransactionOutput) and context
	st := &state.State{StateKeyFrame: state.NewStateKeyFrame()}
	chain := blockchain.NewCoinbaseContextVerif(params, st)
	mkOut := func(kind int, v common.Fixed64, assetOK bool) *common2.Output {
		o := &common2.Output{Value: v, AssetID: core.ELAAssetID}
		if !assetOK {
			o.AssetID[0] ^= 1
		}
		switch kind {
		case 0:
			o.ProgramHash = destroy
		case 1:
			o.ProgramHash = crassets
		case 2:
			o.ProgramHash = dposv2
		case 3, 4, 5:
			o.ProgramHash = rewardAddrs[kind-3]
		default:
			copy(o.ProgramHash[:], h.rng.Bytes(21))
		}
		return o
	}
	coqOut := func(o *common2.Output) string {
		r := "None"
		if a, ok := mock.ArbitersRoundReward[o.ProgramHash]; ok {
			r = "(Some " + lib.CoqZi(int64(a)) + ")"
		}
		return fmt.Sprintf("O %s %s %s %s %s %s", lib.CoqZi(int64(o.Value)), lib.CoqBool(o.AssetID == core.ELAAssetID),
			lib.CoqBool(o.ProgramHash == destroy), lib.CoqBool(o.ProgramHash == crassets), lib.CoqBool(o.ProgramHash == dposv2), r)
	}
	for nOut := 0; nOut <= 4; nOut++ {
		for regime := 0; regime <= 2; regime++ {
			for rep := 0; rep < h.run.N(6, 35); rep++ {
				height := uint32(2000 + h.rng.Intn(1000))
				switch regime {
				case 0:
					arb.active = height - 2 - uint32(h.rng.Intn(5))
				case 1:
					arb.active = math.MaxUint32
					if h.rng.Bool() {
						arb.active = height + uint32(h.rng.Intn(3)) // height <= active+1: not yet v2
					}
				case 2:
					arb.active = math.MaxUint32
					params.PublicDPOSHeight = height + 1 + uint32(h.rng.Intn(5))
				}
				if regime != 2 {
					params.PublicDPOSHeight = 1000
				}
				pow := h.rng.Bool()
				st.ConsensusAlgorithm = state.DPOS
				if pow {
					st.ConsensusAlgorithm = state.POW
				}
				fee := common.Fixed64(h.rng.Intn(100000))
				total := fee + params.GetBlockReward(height)
				rcr := common.Fixed64(math.Ceil(float64(total) * 0.3))
				rdpos35 := common.Fixed64(math.Ceil(float64(total) * 0.35))
				rmm := total - rcr - rdpos35
				dposReward := rdpos35
				if h.rng.Chance(15) {
					dposReward++
				}
				mock.FinalRoundChange = common.Fixed64(h.rng.Intn(50))
				mock.ArbitersRoundReward = map[common.Uint168]common.Fixed64{}
				nrew := h.rng.Intn(3)
				if h.rng.Chance(60) && nOut >= 2 {
					nrew = nOut - 2
				}
				for j := 0; j < nrew; j++ {
					mock.ArbitersRoundReward[rewardAddrs[j]] = common.Fixed64(100 + j)
				}
				expected := total - rdpos35 + mock.FinalRoundChange
				if regime == 2 {
					expected = total
				}
				// outputs near the accepting shape of the regime
				var outs []*common2.Output
				for j := 0; j < nOut; j++ {
					var v common.Fixed64
					kind := h.rng.Intn(7)
					switch {
					case regime == 0 && j == 0:
						v, kind = rcr, map[bool]int{true: 0, false: 1}[pow]
					case regime == 0 && j == 1:
						v = rmm
					case regime == 0 && j == 2:
						v, kind = dposReward, map[bool]int{true: 0, false: 2}[pow]
					case regime == 1 && j == 0:
						v = expected / 3
					case regime == 1 && j == 1:
						v = expected - expected/3
					case regime == 1:
						kind = 3 + (j - 2)
						v = common.Fixed64(100 + j - 2)
					case regime == 2 && j == 0:
						v = expected - common.Fixed64(nOut-1)*7
					default:
						v = 7
					}
					if h.rng.Chance(8) {
						v++
					}
					if h.rng.Chance(8) {
						kind = h.rng.Intn(7)
					}
					outs = append(outs, mkOut(kind, v, !h.rng.Chance(5)))
				}
				cb := transaction.CreateTransaction(common2.TxVersion09, common2.CoinBase, 0, &payload.CoinBase{}, nil, nil, outs, 0, nil)
				in := map[string]interface{}{"outputs": nOut, "regime": regime, "height": height, "pow": pow}
				out := h.callQuiet(func() bool {
					return chain.CheckCoinbaseTransactionContextVerif(height, cb, fee, dposReward) == nil
				})
				// CheckTransactionOutput (sanity) is what guarantees >= 2 outputs: a panic of the
				// context check on fewer outputs is outside the callers' guard, not a property failure
				cb.SetParameters(&transaction.TransactionParameters{Transaction: cb, BlockHeight: height, Config: params, BlockChain: chain})
				sane := h.call("transaction.CoinBase.CheckTransactionOutput", in, func() bool { return cb.CheckTransactionOutput() == nil })
				if out >= 2 {
					if nOut >= 2 {
						h.st.Fail("blockchain.checkCoinbaseTransactionContext:panic", "checkCoinbaseTransactionContext panicked on a coinbase with at least two outputs", in)
					}
					if sane == 0 {
						h.st.Fail("blockchain.checkCoinbaseTransactionContext:sane-panic", "coinbase passes CheckTransactionOutput and the context check panics", in)
					}
				}
				var os []string
				for _, o := range outs {
					os = append(os, coqOut(o))
				}
				i := h.next()
				h.sh.Add(fmt.Sprintf("CCbCtx %d %d %s %s %s %s %s %s %d %d", i, regime, lib.CoqBool(pow), lib.CoqList(os),
					lib.CoqZi(int64(rcr)), lib.CoqZi(int64(rmm)), lib.CoqZi(int64(dposReward)), lib.CoqZi(int64(expected)), len(mock.ArbitersRoundReward), out))
				in["out"] = out
				h.st.LogCase(h.run.Out, i, in)
				h.st.Count(fmt.Sprintf("cbctx:%d:%d:%d:%v", nOut, regime, out, pow), nOut >= 2, "CCbCtx")
				// sanity oracles: the two float comparisons, replayed
				var sum common.Fixed64
				for _, o := range outs {
					sum += o.Value
				}
				f1, f2 := false, false
				if nOut >= 1 {
					f1 = outs[0].Value < common.Fixed64(float64(sum)*0.3)
				}
				if nOut >= 2 {
					f2 = outs[0].Value < common.Fixed64(float64(outs[0].Value+outs[1].Value)*0.3/0.65)
				}
				i = h.next()
				h.sh.Add(fmt.Sprintf("CCbSanity %d %s %s %s %s %d", i, lib.CoqBool(height < params.PublicDPOSHeight), lib.CoqList(os), lib.CoqBool(f1), lib.CoqBool(f2), sane))
				in["sane"] = sane
				h.st.LogCase(h.run.Out, i, in)
				h.st.Count(fmt.Sprintf("cbsan:%d:%d:%d", nOut, regime, sane), nOut >= 2, "CCbSanity")
			}
		}
	}
	params.PublicDPOSHeight = 1000

	h.arbiterSignatureCases(mock)
	h.crossChainV0Cases(params, chain)
	h.returnSideChainDepositCases(params, st)

	// ---- ReturnDepositCoin.SpecialContextCheck: producer key = code or code[1:len-1]
	for i := 0; i < h.run.N(40, 400); i++ {
		n := h.rng.Range(1, 3)
		var progs []*program.Program
		var codes, known [][]byte
		st.ActivityProducers = map[string]*state.Producer{}
		guard := true
		for j := 0; j < n; j++ {
			var code []byte
			switch h.rng.Intn(5) {
			case 0:
				code = h.rng.Bytes(h.rng.Range(0, 30))
			case 1:
				code = stdCode(h.randKey())
			default:
				nb := h.neighbours(h.randomCode())
				code = nb[h.rng.Intn(len(nb))]
			}
			if len(code) < program.MinProgramCodeSize {
				guard = false
			}
			progs = append(progs, &program.Program{Code: code, Parameter: []byte{}})
			codes = append(codes, code)
			if h.rng.Chance(60) { // register the key this code stands for
				var key []byte
				isMs := false
				lib.Recover(func() { isMs = contract.IsMultiSig(code) })
				if isMs {
					key = code
				} else if len(code) >= 2 {
					key = code[1 : len(code)-1]
				}
				if key != nil {
					st.ActivityProducers[hex.EncodeToString(key)] = &state.Producer{}
					known = append(known, key)
				}
			}
		}
		var tx interfaces.Transaction = transaction.CreateTransaction(common2.TxVersion09, common2.ReturnDepositCoin, 0, &payload.ReturnDepositCoin{}, nil, nil, nil, 0, progs)
		tx.SetParameters(&transaction.TransactionParameters{Transaction: tx, BlockHeight: 2000, Config: params, BlockChain: chain})
		tx.SetReferences(map[*common2.Input]common2.Output{{}: {Value: 1}})
		in := map[string]interface{}{"codes": zllHex(codes), "guard": guard}
		out := h.callQuiet(func() bool {
			err, _ := tx.SpecialContextCheck()
			// only the program loop is modelled: the later balance comparison counts as passed
			return err == nil || !strings.Contains(err.Error(), "signer must be producer")
		})
		if out >= 2 && guard { // CheckAttributeProgram guarantees >= 23 bytes of code
			h.st.Fail("transaction.ReturnDepositCoin.SpecialContextCheck:panic", "ReturnDepositCoin SpecialContextCheck panicked on program codes of at least 23 bytes", in)
		}
		k := h.next()
		h.sh.Add(fmt.Sprintf("CRetDep %d %s %s %d", k, zll(known), zll(codes), out))
		in["out"] = out
		h.st.LogCase(h.run.Out, k, in)
		h.st.Count(fmt.Sprintf("retdep:%v:%d", in["codes"], out), guard, "CRetDep")
	}
	st.ActivityProducers = map[string]*state.Producer{}

	// ---- CheckAttributeProgram (the guard: code of at least 23 bytes)
	for i := 0; i < h.run.N(60, 500); i++ {
		n := h.rng.Intn(4)
		var progs []*program.Program
		var ps []string
		for j := 0; j < n; j++ {
			var code []byte
			switch h.rng.Intn(6) {
			case 0:
				code = h.rng.Bytes(h.rng.Range(20, 25))
			case 1:
				code = nil
			case 2:
				code = schCode(h.randKey())
			default:
				code = h.randomCode()
			}
			param := []byte{}
			if h.rng.Chance(10) {
				param = nil
			}
			progs = append(progs, &program.Program{Code: code, Parameter: param})
			ps = append(ps, fmt.Sprintf("(%s, %s, %s)", lib.CoqBool(code != nil), lib.CoqBool(param != nil), zl(code)))
		}
		height := uint32(params.NormalSchnorrStartHeight) - 1 + uint32(h.rng.Intn(2))
		var tx interfaces.Transaction = transaction.CreateTransaction(common2.TxVersion09, common2.TransferAsset, 0, &payload.TransferAsset{}, nil, nil, nil, 0, progs)
		tx.SetParameters(&transaction.TransactionParameters{Transaction: tx, BlockHeight: height, Config: params, BlockChain: chain})
		in := map[string]interface{}{"programs": n, "height": height}
		out := h.call("transaction.CheckAttributeProgram", in, func() bool { return tx.CheckAttributeProgram() == nil })
		k := h.next()
		h.sh.Add(fmt.Sprintf("CAttr %d %s %s %d", k, lib.CoqBool(height >= params.NormalSchnorrStartHeight), lib.CoqList(ps), out))
		in["out"] = out
		h.st.LogCase(h.run.Out, k, in)
		h.st.Count(fmt.Sprintf("attr:%v:%d", ps, out), n > 0, "CAttr")
	}
}

func zllHex(bs [][]byte) []string {
	xs := make([]string, len(bs))
	for i, b := range bs {
		xs[i] = hx(b)
	}
	return xs
}
